(* Extraction of the executable models and verified judges.  ExtrOcamlBasic only (bool, option, list, prod, unit to the
   OCaml types); nat / positive / N / Z stay the extracted inductive types; no Extract Constant. *)
From MX Require Import Spec.Particle Spec.Deriv Spec.Parikh Model.PyM Model.AbsSeq Model.AbsSeqC02 Model.Classes Model.SeqMachine Model.AbsBag Model.Unchecked Model.Attr Model.AttrExec Spec.Naming Model.Ser.
Require Import ExtrOcamlBasic.
Separate Extraction Ser.escape_text Ser.escape_attr AttrExec.attr_trace Naming.xml_class_name Naming.hyph Naming.under Unchecked.utrace Unchecked.to_string_ok Parikh.dead Parikh.witness AbsBag.bag_of AbsBag.is_bag AbsBag.btrace SeqMachine.mtrace SeqMachine.minit Classes.stree_of Classes.is_seq Classes.no_opt PyM.run AbsSeq.run AbsSeq.step AbsSeq.required AbsSeq.ordered AbsSeq.init Particle.accepts Particle.re_of Particle.nullable Particle.deriv.
