(* Driver for the extracted models.  argv[1]: templates file, one per line: "<name> <particle in prefix form>"
   particle := E sym mn mx | S mn mx n k1..kn | C mn mx n k1..kn | G gid mn mx n k1..kn      (mx = -1: unbounded)
   stdin, one command per line:
     py  <tpl> <op>*        run the faithful model M_py;  op := a<sym> | w<sym>:<i> | r<k> | p<k>:<sym> | f<0|1>
     acc <tpl> <sym>*       verified derivative matcher on the template's regular expression *)
open Datatypes
module L = Stdlib.List
module S = Stdlib.String
let rec nat_of_int n = if n <= 0 then O else S (nat_of_int (n-1))
let rec int_of_nat = function O -> 0 | S n -> 1 + int_of_nat n
let rec pos_of_int n = if n = 1 then BinNums.Coq_xH else if n land 1 = 0 then BinNums.Coq_xO (pos_of_int (n lsr 1)) else BinNums.Coq_xI (pos_of_int (n lsr 1))
let rec int_of_pos = function BinNums.Coq_xH -> 1 | BinNums.Coq_xO p -> 2 * int_of_pos p | BinNums.Coq_xI p -> 2 * int_of_pos p + 1
let mx_of i = if i < 0 then None else Some (nat_of_int i)
(* particle parser *)
let parse_particle (toks : string list) : Particle.particle =
  let st = ref toks in
  let next () = match !st with [] -> failwith "eof" | h :: t -> st := t; h in
  let nint () = int_of_string (next ()) in
  let rec p () =
    match next () with
    | "E" -> let s = nint () in let mn = nint () in let mx = nint () in Particle.PElem (pos_of_int s, nat_of_int mn, mx_of mx)
    | "S" -> let mn = nint () in let mx = nint () in let n = nint () in let k = kids n in Particle.PSeq (nat_of_int mn, mx_of mx, k)
    | "C" -> let mn = nint () in let mx = nint () in let n = nint () in let k = kids n in Particle.PChoice (nat_of_int mn, mx_of mx, k)
    | "G" -> let g = nint () in let mn = nint () in let mx = nint () in let n = nint () in let k = kids n in Particle.PGroup (pos_of_int g, nat_of_int mn, mx_of mx, k)
    | x -> failwith ("bad particle token " ^ x)
  and kids n = if n = 0 then [] else let x = p () in x :: kids (n-1) in
  p ()
let exn_name = function
  | PyM.WrongElement -> "XMLChildContainerWrongElementError" | PyM.MaxOccurs -> "XMLChildContainerMaxOccursError"
  | PyM.AnotherChosen -> "XMLChildContainerChoiceHasAnotherChosenChild" | PyM.EIndexError -> "IndexError"
  | PyM.ENotImplemented -> "NotImplementedError" | PyM.EValueError -> "ValueError" | PyM.ETypeError -> "TypeError"
  | PyM.EAttributeNone -> "AttributeError" | PyM.EChildNotFound -> "ChildNotFoundError" | PyM.ENeedIC -> "NEEDIC" | PyM.OutOfFuel -> "OUTOFFUEL"
let split2 rest = match S.split_on_char ':' rest with [a;b] -> (int_of_string a, int_of_string b) | _ -> failwith "bad op"
let parse_op o =
  let rest = S.sub o 1 (S.length o - 1) in
  match (S.get o 0) with
  | 'a' -> PyM.OAdd (pos_of_int (int_of_string rest))
  | 'w' -> let (a,b) = split2 rest in PyM.OAddFwd (pos_of_int a, nat_of_int b)
  | 'r' -> PyM.ORemove (nat_of_int (int_of_string rest))
  | 'p' -> let (a,b) = split2 rest in PyM.OReplace (nat_of_int a, pos_of_int b)
  | 'q' -> PyM.OReplaceSame (nat_of_int (int_of_string rest))
  | 'e' -> PyM.OAddExisting (nat_of_int (int_of_string rest))
  | 's' -> PyM.OReplaceSelf (nat_of_int (int_of_string rest))
  | 'f' -> PyM.OFinal (rest = "1")
  | _ -> failwith "bad op"
let ints l = S.concat "," (L.map string_of_int l)
(* OCaml string <-> extracted Coq string *)
let coq_ascii c = let n = Char.code c in let b i = (n lsr i) land 1 = 1 in Ascii.Ascii (b 0, b 1, b 2, b 3, b 4, b 5, b 6, b 7)
let rec coq_string s i = if i >= S.length s then String.EmptyString else String.String (coq_ascii (S.get s i), coq_string s (i+1))
let cs s = coq_string s 0
let ocaml_char (Ascii.Ascii (b0,b1,b2,b3,b4,b5,b6,b7)) =
  let v b i = if b then 1 lsl i else 0 in Char.chr (v b0 0 + v b1 1 + v b2 2 + v b3 3 + v b4 4 + v b5 5 + v b6 6 + v b7 7)
let rec os = function String.EmptyString -> "" | String.String (c, t) -> S.make 1 (ocaml_char c) ^ os t
let g_n_of_int i = if i = 0 then BinNums.N0 else BinNums.Npos (pos_of_int i)
let g_int_of_n = function BinNums.N0 -> 0 | BinNums.Npos p -> int_of_pos p
let g_z_of_string s = let neg = S.length s > 0 && (S.get s 0) = '-' in let d = if neg then S.sub s 1 (S.length s - 1) else s in
  let acc = ref BinNums.Z0 in
  S.iter (fun ch -> let dg = Char.code ch - 48 in
            acc := BinInt.Z.add (BinInt.Z.mul !acc (BinNums.Zpos (pos_of_int 10))) (if dg = 0 then BinNums.Z0 else BinNums.Zpos (pos_of_int dg))) d;
  if neg then BinInt.Z.opp !acc else !acc
let g_cps x = if x = "" || x = "-" then [] else L.map (fun c -> g_n_of_int (int_of_string c)) (S.split_on_char ',' x)
let g_show_cps l = if l = [] then "-" else ints (L.map g_int_of_n l)
let g_float v = match S.split_on_char ':' v with
  | ["x"] -> None
  | ["f"; k; num; den; r] ->
    let kind = (match k with "p" -> SimpleType.FPlain | "e" -> SimpleType.FExp | "n" -> SimpleType.FNan | _ -> SimpleType.FInf) in
    let zden = (match g_z_of_string den with BinNums.Zpos p -> p | _ -> BinNums.Coq_xH) in
    Some (SimpleType.VFloat (kind, { QArith_base.coq_Qnum = g_z_of_string num; QArith_base.coq_Qden = zden }, g_cps r))
  | _ -> failwith "bad float"
let rec g_string_of_cps l = match l with [] -> String.EmptyString | c :: t -> String.String (coq_ascii (Char.chr (g_int_of_n c)), g_string_of_cps t)
let rec g_cps_of_string = function String.EmptyString -> [] | String.String (c, t) -> g_n_of_int (Char.code (ocaml_char c)) :: g_cps_of_string t
let () =
  let tfile = Sys.argv.(1) in
  let ic = open_in tfile in
  let tpls = ref [] in
  (try while true do
     let l = input_line ic in
     match L.filter (fun s -> s <> "") (S.split_on_char ' ' l) with
     | [] -> ()
     | _name :: toks -> tpls := parse_particle toks :: !tpls
   done with End_of_file -> ());
  let templates = Array.of_list (L.rev !tpls) in
  try while true do
    let l = input_line stdin in
    match L.filter (fun s -> s <> "") (S.split_on_char ' ' l) with
    | [] -> ()
    | "py" :: t :: ops ->
      let p = templates.(int_of_string t) in
      let lines = PyM.run p (L.map parse_op ops) in
      let strs = L.map (fun ln ->
        let e = match ln.PyM.l_exn with None -> "ok" | Some e -> exn_name e in
        let ord = ints (L.map int_of_nat ln.PyM.l_ordered) in
        let uno = ints (L.map (fun (e,_) -> int_of_nat e) ln.PyM.l_unordered) in
        let req = match ln.PyM.l_req with None -> "-" | Some r -> "[" ^ ints (L.map int_of_pos r) ^ "]" in
        let pr = if int_of_nat ln.PyM.l_out > 0 then "P" else "" in
        e ^ pr ^ ";" ^ ord ^ ";" ^ uno ^ ";" ^ req ^ ";" ^ ints (L.map int_of_nat ln.PyM.l_orphans)) lines in
      print_endline (S.concat " | " strs)
    | "acc" :: t :: syms ->
      let p = templates.(int_of_string t) in
      let w = L.map (fun s -> pos_of_int (int_of_string s)) syms in
      print_endline (if Particle.accepts (Particle.re_of p) w then "1" else "0")
    | "attr" :: props :: decls :: ops ->
      (* attr <prop,prop,..|-> <name:type:req;...|-> <key=tok:bit | key=None>* *)
      let splitc c x = if x = "-" then [] else S.split_on_char c x in
      let ps = L.map cs (splitc ',' props) in
      let ds = L.map (fun d -> match S.split_on_char ':' d with
          | [n; t; r] -> { Attr.d_name = cs n; Attr.d_type = cs t; Attr.d_req = (r = "1") } | _ -> failwith "bad decl") (splitc ';' decls) in
      let os_ = L.map (fun o -> match S.index_opt o '=' with
          | None -> failwith "bad attr op"
          | Some i -> let k = S.sub o 0 i and v = S.sub o (i+1) (S.length o - i - 1) in
            if v = "None" then (cs k, None) else
            (match S.split_on_char ':' v with [t; b] -> (cs k, Some (nat_of_int (int_of_string t), b = "1")) | _ -> failwith "bad value")) ops in
      let tr = AttrExec.attr_trace ds ps [] os_ in
      let code = function Attr.AOk -> "ok" | Attr.AWrongAttribute -> "wrong" | Attr.AInvalidValue -> "invalid" | Attr.AReserved -> "reserved" | Attr.AChildSyntax -> "child" in
      print_endline (S.concat " | " (L.map (fun ((o, d), miss) ->
        code o ^ ";" ^ S.concat "," (L.map (fun (k, (t, _)) -> os k ^ "=" ^ string_of_int (int_of_nat t)) d) ^ ";" ^ S.concat "," (L.map os miss)) tr))
    | "name" :: f :: args ->
      let r = L.map (fun a -> match f with "xml" -> os (Naming.xml_class_name (cs a)) | "hyph" -> os (Naming.hyph (cs a)) | _ -> os (Naming.under (cs a))) args in
      print_endline (S.concat " " r)
    | "st" :: cls :: v :: [] ->
      let n_of_int i = if i = 0 then BinNums.N0 else BinNums.Npos (pos_of_int i) in
      let int_of_n = function BinNums.N0 -> 0 | BinNums.Npos p -> int_of_pos p in
      let z_of_string s = let neg = S.length s > 0 && (S.get s 0) = '-' in let d = if neg then S.sub s 1 (S.length s - 1) else s in
        (* decimal string of arbitrary size -> Z, by Horner on the extracted positive arithmetic *)
        let acc = ref BinNums.Z0 in
        S.iter (fun ch -> let dg = Char.code ch - 48 in
                  acc := BinInt.Z.add (BinInt.Z.mul !acc (BinNums.Zpos (pos_of_int 10))) (if dg = 0 then BinNums.Z0 else BinNums.Zpos (pos_of_int dg))) d;
        if neg then BinInt.Z.opp !acc else !acc in
      let cps x = if x = "" then [] else L.map (fun c -> n_of_int (int_of_string c)) (S.split_on_char ',' x) in
      let value = match S.split_on_char ':' v with
        | ["n"] -> SimpleType.VNone
        | ["s"; x] -> SimpleType.VStr (cps x)
        | ["i"; x] -> SimpleType.VInt (z_of_string x)
        | ["b"; x] -> SimpleType.VBool (x = "1")
        | ["f"; k; num; den; r] ->
          let kind = (match k with "p" -> SimpleType.FPlain | "e" -> SimpleType.FExp | "n" -> SimpleType.FNan | _ -> SimpleType.FInf) in
          let zden = (match z_of_string den with BinNums.Zpos p -> p | _ -> BinNums.Coq_xH) in
          SimpleType.VFloat (kind, { QArith_base.coq_Qnum = z_of_string num; QArith_base.coq_Qden = zden }, cps r)
        | _ -> failwith "bad value" in
      let r = SimpleType.lib_check SimpleTypes.lib_st (cs cls) value in
      print_endline ((match r with SimpleType.Ok -> "ok" | SimpleType.TypeErr -> "TypeError" | SimpleType.ValueErr -> "ValueError" | SimpleType.OtherErr -> "other")
                     ^ ";" ^ ints (L.map int_of_n (SimpleType.render value)))
    | "xv" :: ty :: rest ->
      let n_of_int i = if i = 0 then BinNums.N0 else BinNums.Npos (pos_of_int i) in
      let s = (match rest with [] -> [] | [x] -> if x = "" then [] else L.map (fun c -> n_of_int (int_of_string c)) (S.split_on_char ',' x) | _ -> failwith "bad xv") in
      print_endline (if SimpleType.xsd_valid SimpleTypes.xsd_st (nat_of_int 8) (cs ty) s then "1" else "0")
    | "esc" :: kind :: cps ->
      let n_of_int i = if i = 0 then BinNums.N0 else BinNums.Npos (pos_of_int i) in
      let int_of_n = function BinNums.N0 -> 0 | BinNums.Npos p -> int_of_pos p in
      let s = L.map (fun c -> n_of_int (int_of_string c)) cps in
      let r = if kind = "t" then Ser.escape_text s else Ser.escape_attr s in
      print_endline (ints (L.map int_of_n r))
    | "unc" :: ops ->
      let uops = L.map (fun o -> let rest = S.sub o 1 (S.length o - 1) in
          match (S.get o 0) with 'a' -> Unchecked.UAdd | 'r' -> Unchecked.URemove (nat_of_int (int_of_string rest))
          | 'p' -> Unchecked.UReplace (nat_of_int (int_of_string rest)) | _ -> Unchecked.UFinal) ops in
      let tr = Unchecked.utrace ([], O) uops in
      print_endline (S.concat " | " (L.map (fun (o, l) -> (match o with Unchecked.UOk -> "ok" | Unchecked.UNoSuchChild -> "nochild") ^ ";" ^ ints (L.map int_of_nat l)) tr))
    | "gate" :: toks ->
      let st = ref toks in
      let next () = match !st with [] -> failwith "eof" | h :: t -> st := t; h in
      let rec p () = match next () with
        | "N" -> let c = next () = "1" in let ok = next () = "1" in let n = int_of_string (next ()) in
                 let rec kids n = if n = 0 then [] else let x = p () in x :: kids (n-1) in Unchecked.ENode (c, ok, kids n)
        | x -> failwith ("bad tree token " ^ x) in
      print_endline (if Unchecked.to_string_ok (p ()) then "1" else "0")
    | "dead" :: t :: syms ->
      let p = templates.(int_of_string t) in
      let m = L.map (fun s -> pos_of_int (int_of_string s)) syms in
      print_endline (if Parikh.dead (Particle.re_of p) m then "1" else "0")
    | "wit" :: t :: rest ->
      let p = templates.(int_of_string t) in
      let rec split acc = function "/" :: r -> (L.rev acc, r) | x :: r -> split (x :: acc) r | [] -> (L.rev acc, []) in
      let (ms, ws) = split [] rest in
      let cv = L.map (fun s -> pos_of_int (int_of_string s)) in
      print_endline (if Parikh.witness (Particle.re_of p) (cv ms) (cv ws) then "1" else "0")
    | "cls" :: t :: [] ->
      let p = templates.(int_of_string t) in
      print_endline (if Classes.no_opt p then "noopt" else if Classes.is_seq p then "seq" else if AbsBag.is_bag p then "bag" else if ChoiceClass.is_cseq p then "choice" else "-")
    | "bag" :: t :: ops ->
      let p = templates.(int_of_string t) in
      (match AbsBag.bag_of (nat_of_int 10) p with
       | None -> print_endline "NOTBAG"
       | Some (alpha, mn) ->
         let bops = L.map (fun o -> match parse_op o with
             | PyM.OAdd a -> AbsBag.BAdd a | PyM.OFinal _ -> AbsBag.BFinal
             | _ -> failwith "outside the bag machine's operation set") ops in
         let tr = AbsBag.btrace alpha mn ([], O) bops in
         let strs = L.map (fun ((o, ids), v) ->
           (match o with AbsBag.BOk -> "ok" | AbsBag.BWrong -> "XMLChildContainerWrongElementError") ^ ";" ^ ints (L.map int_of_nat ids) ^ ";" ^ (if v then "1" else "0")) tr in
         print_endline (S.concat " | " strs))
    | "doc" :: toks ->
      (* doc := <tag> ( doc* )   with numeric tags; answer: NOMACHINE <tag> | NOPARSE | NOEMIT | the emitted document in the same form *)
      let st = ref toks in
      let next () = match !st with [] -> failwith "eof" | h :: t -> st := t; h in
      let peek () = match !st with [] -> "" | h :: _ -> h in
      let rec pdoc () =
        let tag = int_of_string (next ()) in
        if next () <> "(" then failwith "expected (";
        let rec kids () = if peek () = ")" then (ignore (next ()); []) else let k = pdoc () in k :: kids () in
        Doc.XNode (pos_of_int tag, kids ()) in
      let d = pdoc () in
      let rec tags (Doc.XNode (t, k)) = t :: L.concat (L.map tags k) in
      (match L.find_opt (fun t -> DocTables.elem_tpl t = None) (tags d) with
       | Some t -> print_endline ("NOMACHINE " ^ string_of_int (int_of_pos t))
       | None ->
         (match DocTables.doc_parse d with
          | None -> print_endline "NOPARSE"
          | Some e ->
            (match DocTables.doc_emit e with
             | None -> print_endline "NOEMIT"
             | Some d' ->
               let rec show (Doc.XNode (t, k)) = string_of_int (int_of_pos t) ^ " ( " ^ S.concat "" (L.map (fun x -> show x ^ " ") k) ^ ")" in
               print_endline (show d'))))
    | "slots" :: n :: rest ->
      (* slots <n> <mro of class 0 | -> ... <mro of class n-1 | -> <body bits> <uses> <schedule>: who owns the slot each use returns, and each class's lookup at the end *)
      let n = int_of_string n in
      let csv x = if x = "-" || x = "" then [] else L.map (fun c -> nat_of_int (int_of_string c)) (S.split_on_char ',' x) in
      let rec take k l = if k = 0 then ([], l) else (match l with h :: t -> let (a, b) = take (k-1) t in (h :: a, b) | [] -> failwith "slots: too few") in
      let (ms, rest) = take n rest in
      (match rest with
       | [bits; uses; sched] ->
         let bodies = L.init (S.length bits) (fun i -> nat_of_int (Char.code (S.get bits i) - 48)) in
         let (res, looks) = ClassSlots.owner_run (L.map csv ms) bodies (csv uses) (csv sched) in
         let show l = S.concat "," (L.map (function None -> "-" | Some v -> string_of_int (int_of_nat v)) l) in
         print_endline (show res ^ " ; " ^ show looks)
       | _ -> failwith "slots: bad arguments")
    | "vdoc" :: nf :: toks ->
      (* vdoc <n> {<text cps> <x | f:k:num:den:repr cps>}*n <tree>;  tree := <tag> <text cps> <nattrs> {<name cps> <value cps>}* ( tree* )
         answer: NOMACHINE <tag> | <premise> NOPARSE | <premise> NOEMIT | <premise> OK <tree>;  premise: 2 = of C09_document_values, 1 = of C09_document_values_general only, 0 = neither *)
      let st = ref toks in
      let next () = match !st with [] -> failwith "eof" | h :: t -> st := t; h in
      let peek () = match !st with [] -> "" | h :: _ -> h in
      let rec ftab n = if n = 0 then [] else let k = g_cps (next ()) in let v = g_float (next ()) in (k, v) :: ftab (n-1) in
      let ft = ftab (int_of_string nf) in
      let rec pdoc () =
        let tag = int_of_string (next ()) in
        let text = g_cps (next ()) in
        let na = int_of_string (next ()) in
        let rec attrs n = if n = 0 then [] else let k = g_string_of_cps (g_cps (next ())) in let v = g_cps (next ()) in (k, v) :: attrs (n-1) in
        let al = attrs na in
        if next () <> "(" then failwith "expected (";
        let rec kids () = if peek () = ")" then (ignore (next ()); []) else let k = pdoc () in k :: kids () in
        PDoc.PNode (pos_of_int tag, (text, al), kids ()) in
      let d = pdoc () in
      let rec tags (PDoc.PNode (t, _, k)) = t :: L.concat (L.map tags k) in
      (match L.find_opt (fun t -> DocTables.elem_tpl t = None) (tags d) with
       | Some t -> print_endline ("NOMACHINE " ^ string_of_int (int_of_pos t))
       | None ->
         let prem = if DocValTables.gvalidb (DocValTables.float_table ft) d then (if DocValTables.vvalidb d then "2 " else "1 ") else "0 " in
         (match DocValTables.vrun ft d with
          | DocValTables.VNoParse -> print_endline (prem ^ "NOPARSE")
          | DocValTables.VNoEmit -> print_endline (prem ^ "NOEMIT")
          | DocValTables.VOk d' ->
            let rec show (PDoc.PNode (t, (text, al), k)) =
              string_of_int (int_of_pos t) ^ " " ^ g_show_cps text ^ " " ^ string_of_int (L.length al) ^ " "
              ^ S.concat "" (L.map (fun (a, v) -> g_show_cps (g_cps_of_string a) ^ " " ^ g_show_cps v ^ " ") al)
              ^ "( " ^ S.concat "" (L.map (fun x -> show x ^ " ") k) ^ ")" in
            print_endline (prem ^ "OK " ^ show d')))
    | "cho" :: t :: ops ->
      let p = templates.(int_of_string t) in
      (match ChoiceClass.slots_of p with
       | None -> print_endline "NOTCHOICE"
       | Some ct ->
         let mops = L.map (fun o -> match parse_op o with
             | PyM.OAdd a -> SeqMachine.MAdd a | PyM.ORemove k -> SeqMachine.MRemove k
             | PyM.OReplace (k, a) -> SeqMachine.MReplace (k, a) | PyM.OReplaceSame k -> SeqMachine.MReplaceSame k | PyM.OFinal _ -> SeqMachine.MFinal
             | _ -> failwith "outside the machine's operation set") ops in
         let tr = ChoiceSeq.ctrace (ChoiceSeq.cminit ct) mops in
         let strs = L.map (fun (((o, ord), uno), req) ->
           let e = match o with SeqMachine.MOk -> "ok" | SeqMachine.MWrong -> "XMLChildContainerWrongElementError"
                   | SeqMachine.MMax -> "XMLChildContainerMaxOccursError" | SeqMachine.MBadIndex -> "ok" | SeqMachine.MOutOfDomain -> "OUTOFDOMAIN" in
           e ^ ";" ^ ints (L.map int_of_nat ord) ^ ";" ^ ints (L.map int_of_nat uno) ^ ";[" ^ ints (L.map int_of_pos req) ^ "]") tr in
         print_endline (S.concat " | " strs))
    | "seq" :: t :: ops ->
      let p = templates.(int_of_string t) in
      (match Classes.stree_of p with
       | None -> print_endline "NOTSEQ"
       | Some st ->
         let mops = L.map (fun o -> match parse_op o with
             | PyM.OAdd a -> SeqMachine.MAdd a | PyM.ORemove k -> SeqMachine.MRemove k
             | PyM.OReplace (k, a) -> SeqMachine.MReplace (k, a) | PyM.OReplaceSame k -> SeqMachine.MReplaceSame k | PyM.OFinal _ -> SeqMachine.MFinal
             | _ -> failwith "outside the machine's operation set") ops in
         let tr = SeqMachine.mtrace (SeqMachine.minit st) mops in
         let strs = L.map (fun (((o, ord), uno), req) ->
           let e = match o with SeqMachine.MOk -> "ok" | SeqMachine.MWrong -> "XMLChildContainerWrongElementError"
                   | SeqMachine.MMax -> "XMLChildContainerMaxOccursError" | SeqMachine.MBadIndex -> "ok" | SeqMachine.MOutOfDomain -> "OUTOFDOMAIN" in
           e ^ ";" ^ ints (L.map int_of_nat ord) ^ ";" ^ ints (L.map int_of_nat uno) ^ ";[" ^ ints (L.map int_of_pos req) ^ "]") tr in
         print_endline (S.concat " | " strs))
    | c :: _ -> failwith ("bad command " ^ c)
  done with End_of_file -> ()
