(* The bag machine: specification of every template that is [1,1] wrappers around one Choice[mn, unbounded] (mn <= 1)
   of [1,1] element leaves (measure, dynamics, articulations, technical, encoding, play, listen, name-display,
   notehead-text), under add / final check.  State = the insertion list; schema order = insertion order. *)
From MX Require Import Spec.Particle Spec.Deriv Spec.Equiv Model.Classes.
From Coq Require Import Arith.

Fixpoint leaf_syms (l:list particle) : option (list positive) :=
  match l with [] => Some []
  | PElem s 1 (Some 1) :: t => option_map (cons s) (leaf_syms t)
  | _ => None end.
Fixpoint bag_of (fuel:nat) (p:particle) : option (list positive * nat) :=
  match fuel with 0 => None | S f =>
  match p with
  | PChoice mn None l => if Nat.leb mn 1 then option_map (fun a => (a, mn)) (leaf_syms l) else None
  | PSeq 1 (Some 1) [x] | PGroup _ 1 (Some 1) [x] => bag_of f x
  | _ => None end end.
Definition is_bag (p:particle) : bool := match bag_of 10 p with Some (_ :: _, _) => true | _ => false end.

Inductive bout := BOk | BWrong.
Definition mem_pos (a:positive) (l:list positive) : bool := existsb (Pos.eqb a) l.
(* state: insertion list of (id, name), id counter *)
Definition bst := (list (nat * positive) * nat)%type.
Inductive bop := BAdd (a:positive) | BFinal.
Definition bstep (alpha:list positive) (s:bst) (o:bop) : bst * bout :=
  match o with
  | BAdd a => if mem_pos a alpha then ((fst s ++ [(snd s, a)], S (snd s)), BOk) else ((fst s, S (snd s)), BWrong)
  | BFinal => ((fst s, S (snd s)), BOk) end.
Definition brun (alpha:list positive) (ops:list bop) : bst := fold_left (fun s o => fst (bstep alpha s o)) ops ([], 0).
Definition bverdict (mn:nat) (s:bst) : bool := Nat.eqb mn 0 || negb (Nat.eqb (length (fst s)) 0).
Fixpoint btrace (alpha:list positive) (mn:nat) (s:bst) (ops:list bop) : list (bout * list nat * bool) :=
  match ops with [] => [] | o :: r => let s' := fst (bstep alpha s o) in (snd (bstep alpha s o), map fst (fst s'), bverdict mn s') :: btrace alpha mn s' r end.

(* ---- the language of a bag template ---- *)
Lemma mem_pos_In a l : mem_pos a l = true <-> In a l.
Proof.
  unfold mem_pos. rewrite existsb_exists. split.
  - intros (x & Hx & E). apply Pos.eqb_eq in E. subst; auto.
  - intros H. exists a. split; auto. apply Pos.eqb_refl.
Qed.
Lemma leaf_syms_re l a : leaf_syms l = Some a -> map re_of l = map Sym a.
Proof.
  revert a. induction l as [|x l IH]; simpl; intros a E.
  - injection E as <-. auto.
  - destruct x as [s mn mx| | |]; try discriminate. destruct mn as [|[|mn]]; try discriminate.
    destruct mx as [[|[|m]]|]; try discriminate. destruct (leaf_syms l) as [a'|]; [|discriminate]. injection E as <-.
    simpl. f_equal. auto.
Qed.
Lemma alts_syms a w : Lang (alts (map Sym a)) w <-> exists s, In s a /\ w = [s].
Proof.
  rewrite alts_in. split.
  - intros (r & Hr & L). apply in_map_iff in Hr as (s & <- & Hs). exists s. split; auto.
  - intros (s & Hs & ->). exists (Sym s). split; [apply in_map; auto|reflexivity].
Qed.
Lemma pow_syms a k w : pow (Lang (alts (map Sym a))) k w <-> length w = k /\ Forall (fun s => In s a) w.
Proof.
  revert w. induction k; intros w; simpl.
  - split. + intros ->. auto. + intros [H _]. destruct w; auto; discriminate.
  - split.
    + intros (u & v & -> & Hu & Hv). apply alts_syms in Hu as (s & Hs & ->). apply IHk in Hv as [Hl Hf]. simpl. split; auto.
    + intros [Hl Hf]. destruct w as [|s w]; [discriminate|]. inversion Hf; subst. exists [s], w. repeat split; auto.
      * apply alts_syms. exists s; auto.
      * apply IHk. split; auto.
Qed.
Lemma bag_of_lang fuel : forall p a mn, bag_of fuel p = Some (a, mn) ->
  forall w, Lang (re_of p) w <-> (mn <= length w /\ Forall (fun s => In s a) w).
Proof.
  induction fuel as [|f IH]; intros p a mn E w; [discriminate|]. simpl in E.
  destruct p as [s m x|m x l|m x l|g m x l]; try discriminate.
  - (* seq wrapper *) destruct m as [|[|m]]; try discriminate. destruct x as [[|[|x]]|]; try discriminate.
    destruct l as [|y [|z l]]; try discriminate. cbn [re_of map cats wrap]. apply IH; auto.
  - (* the choice *) destruct x; [discriminate|]. destruct (Nat.leb m 1) eqn:Lm; [|discriminate].
    destruct (leaf_syms l) as [a'|] eqn:El; [|discriminate]. injection E as <- <-.
    cbn [re_of]. rewrite wrap_rep. rewrite (leaf_syms_re _ _ El). simpl. split.
    + intros (k & K1 & _ & P). apply pow_syms in P as [Hl Hf]. split; auto. lia.
    + intros [Hl Hf]. exists (length w). repeat split; auto. apply pow_syms. auto.
  - (* group wrapper *) destruct m as [|[|m]]; try discriminate. destruct x as [[|[|x]]|]; try discriminate.
    destruct l as [|y [|z l]]; try discriminate. cbn [re_of map cats wrap]. apply IH; auto.
Qed.

(* ---- reachable states ---- *)
Definition bnames (s:bst) := map snd (fst s).
Lemma brun_names alpha ops : Forall (fun s => In s alpha) (bnames (brun alpha ops)).
Proof.
  unfold brun. assert (G: forall s, Forall (fun x => In x alpha) (bnames s) -> Forall (fun x => In x alpha) (bnames (fold_left (fun s o => fst (bstep alpha s o)) ops s))).
  { induction ops as [|o ops IHo]; intros s H; simpl; auto. apply IHo. destruct o as [a|]; simpl; auto.
    destruct (mem_pos a alpha) eqn:M; simpl; auto. unfold bnames in *. simpl. rewrite map_app. apply Forall_app. split; auto.
    constructor; auto. apply mem_pos_In; auto. }
  apply G. constructor.
Qed.
(* C01 on the bag machine: a passing final check means the children (in insertion = schema order) are a word of the language *)
Theorem C01_bag p a mn ops : bag_of 10 p = Some (a, mn) -> bverdict mn (brun a ops) = true -> Lang (re_of p) (bnames (brun a ops)).
Proof.
  intros B V. apply (bag_of_lang 10 p a mn B). split; [|apply brun_names].
  unfold bverdict in V. unfold bnames. rewrite map_length. apply orb_true_iff in V as [V|V].
  - apply Nat.eqb_eq in V. lia.
  - assert (Lm: mn <= 1).
    { clear -B. revert p B. generalize 10. induction n as [|f IH]; intros p B; [discriminate|]. simpl in B.
      destruct p as [s m x|m x l|m x l|g m x l]; try discriminate.
      - destruct m as [|[|m]]; try discriminate. destruct x as [[|[|x]]|]; try discriminate. destruct l as [|y [|z l]]; try discriminate. eauto.
      - destruct x; [discriminate|]. destruct (Nat.leb m 1) eqn:Lm; [|discriminate]. destruct (leaf_syms l); [|discriminate]. injection B as _ <-. apply Nat.leb_le; auto.
      - destruct m as [|[|m]]; try discriminate. destruct x as [[|[|x]]|]; try discriminate. destruct l as [|y [|z l]]; try discriminate. eauto. }
    apply negb_true_iff in V. apply Nat.eqb_neq in V. lia.
Qed.
(* C02 on the bag machine: every word of the language is accepted symbol by symbol, passes the final check and keeps its order *)
Fixpoint bouts (alpha:list positive) (s:bst) (ops:list bop) : list bout :=
  match ops with [] => [] | o :: r => snd (bstep alpha s o) :: bouts alpha (fst (bstep alpha s o)) r end.
Lemma brun_adds alpha w : forall s, Forall (fun x => In x alpha) w ->
  bnames (fold_left (fun s o => fst (bstep alpha s o)) (map BAdd w) s) = bnames s ++ w /\
  Forall (fun o => o = BOk) (bouts alpha s (map BAdd w)).
Proof.
  induction w as [|a w IH]; intros s F; simpl.
  - rewrite app_nil_r. auto.
  - inversion F; subst. apply mem_pos_In in H1. rewrite H1. simpl. destruct (IH (fst s ++ [(snd s, a)], S (snd s)) H2) as [A B].
    split; [|constructor; auto]. rewrite A. unfold bnames. simpl. rewrite map_app. simpl. rewrite <- app_assoc. auto.
Qed.
Theorem C02_bag p a mn w : bag_of 10 p = Some (a, mn) -> Lang (re_of p) w ->
  bnames (brun a (map BAdd w)) = w /\ Forall (fun o => o = BOk) (bouts a ([], 0) (map BAdd w)) /\ bverdict mn (brun a (map BAdd w)) = true.
Proof.
  intros B L. apply (bag_of_lang 10 p a mn B) in L as [Hl Hf].
  destruct (brun_adds a w ([], 0) Hf) as [A O]. unfold brun. split; [|split]; auto.
  unfold bverdict. assert (E: length (fst (fold_left (fun s o => fst (bstep a s o)) (map BAdd w) ([], 0))) = length w).
  { rewrite <- (map_length snd). fold (bnames (fold_left (fun s o => fst (bstep a s o)) (map BAdd w) ([], 0))). rewrite A. auto. }
  rewrite E. destruct mn; simpl; auto. destruct (length w); simpl; auto; lia.
Qed.
