From MX Require Import Spec.Particle Spec.Deriv.
From Coq Require Import Arith.
(* ---- templates: choice-free, non-leaf particles occur at most once, min in {0,1} ---- *)
Inductive stree := SLeaf (s:positive) (mn:nat) (mx:option nat) | SNode (opt:bool) (kids:list stree).
(* state mirrors the template; leaves hold (child id, name) in insertion order; nodes carry the sticky activation bit *)
Inductive sst := LeafS (s:positive) (mn:nat) (mx:option nat) (items:list (nat*positive)) | NodeS (opt:bool) (active:bool) (kids:list sst).
Fixpoint init (t:stree) : sst := match t with SLeaf s mn mx => LeafS s mn mx [] | SNode o k => NodeS o false (map init k) end.
Fixpoint re_of_s (t:stree) : re :=
  match t with SLeaf s mn mx => Rep (Sym s) mn mx
             | SNode o k => let body := fold_right (fun x acc => Cat (re_of_s x) acc) Eps k in
                            if o then Rep body 0 (Some 1) else body end.
Fixpoint shape (s:sst) : stree := match s with LeafS a mn mx _ => SLeaf a mn mx | NodeS o _ k => SNode o (map shape k) end.
Definition full (mx:option nat) (n:nat) := match mx with None => false | Some m => Nat.leb m n end.
(* add: first same-named, non-full leaf in document order.  result: None = no such leaf *)
Fixpoint add (c:nat) (a:positive) (s:sst) : option sst :=
  match s with
  | LeafS b mn mx it => if Pos.eqb a b && negb (full mx (length it)) then Some (LeafS b mn mx (it ++ [(c,a)])) else None
  | NodeS o act k =>
      match (fix go (l:list sst) : option (list sst) :=
               match l with [] => None
               | x::t => match add c a x with Some x' => Some (x'::t) | None => option_map (cons x) (go t) end end) k with
      | Some k' => Some (NodeS o true k') | None => None end
  end.
Fixpoint has_leaf (a:positive) (s:sst) : bool := match s with LeafS b _ _ _ => Pos.eqb a b | NodeS _ _ k => existsb (has_leaf a) k end.
Fixpoint remove (c:nat) (s:sst) : sst :=
  match s with LeafS b mn mx it => LeafS b mn mx (filter (fun x => negb (Nat.eqb (fst x) c)) it)
             | NodeS o act k => NodeS o act (map (remove c) k) end.
Fixpoint ordered (s:sst) : list (nat*positive) := match s with LeafS _ _ _ it => it | NodeS _ _ k => flat_map ordered k end.
(* final check: names of leaves lacking children under sequences that must be complete *)
Fixpoint required (act:bool) (s:sst) : list positive :=
  match s with
  | LeafS b mn _ it => if act && Nat.ltb (length it) mn then [b] else []
  | NodeS o a k => flat_map (required (act && (negb o || a))) k end.
Inductive outcome := OK | WrongElement | MaxOccurs.
Inductive op := Add (a:positive) | Remove (c:nat) | Final.
Definition step (st: sst * nat) (o:op) : (sst * nat) * outcome :=
  let '(s,next) := st in
  match o with
  | Add a => match add next a s with Some s' => ((s', S next), OK)
             | None => ((s, S next), if has_leaf a s then MaxOccurs else WrongElement) end
  | Remove c => ((remove c s, S next), OK)
  | Final => ((s, S next), OK) end.
Definition run (t:stree) (ops:list op) : sst := fst (fold_left (fun st o => fst (step st o)) ops (init t, 0)).

(* ---------------- invariant ---------------- *)
Fixpoint nonempty (s:sst) : bool := match s with LeafS _ _ _ it => negb (Nat.eqb (length it) 0) | NodeS _ _ k => existsb nonempty k end.
Fixpoint Inv (s:sst) : Prop :=
  match s with
  | LeafS b mn mx it => le_mx (length it) mx /\ Forall (fun x => snd x = b) it
  | NodeS o a k => (nonempty s = true -> a = true) /\ (fix all (l:list sst) : Prop := match l with [] => True | x::t => Inv x /\ all t end) k
  end.

(* ---------------- induction principle for the nested type ---------------- *)
Section sst_ind2.
  Variable P : sst -> Prop.
  Hypothesis HL : forall s mn mx it, P (LeafS s mn mx it).
  Hypothesis HN : forall o a k, Forall P k -> P (NodeS o a k).
  Fixpoint sst_ind2 (s:sst) : P s :=
    match s with
    | LeafS b mn mx it => HL b mn mx it
    | NodeS o a k => HN o a k ((fix go (l:list sst) : Forall P l := match l with [] => Forall_nil P | x::t => Forall_cons x (sst_ind2 x) (go t) end) k)
    end.
End sst_ind2.
Definition InvL := (fix all (l:list sst) : Prop := match l with [] => True | x::t => Inv x /\ all t end).
Lemma InvL_Forall l : InvL l <-> Forall Inv l.
Proof. induction l; simpl; split; intros H; auto. - destruct H; constructor; tauto. - inversion H; subst; tauto. Qed.
Lemma Inv_node o a k : Inv (NodeS o a k) <-> ((nonempty (NodeS o a k) = true -> a = true) /\ Forall Inv k).
Proof. simpl. rewrite <- InvL_Forall. tauto. Qed.
Definition names (l:list (nat*positive)) := map snd l.

Lemma pow_sym b n : pow (Lang (Sym b)) n (repeat b n).
Proof. induction n; simpl; auto. exists [b], (repeat b n); auto. Qed.
Lemma names_all b it : Forall (fun x : nat*positive => snd x = b) it -> names it = repeat b (length it).
Proof. induction 1; simpl; auto. unfold names in *; simpl; congruence. Qed.
Lemma nonempty_false_ordered s : nonempty s = false -> ordered s = [].
Proof.
  induction s using sst_ind2; simpl; intros E.
  - destruct it; auto; discriminate.
  - induction H; simpl in *; auto. apply orb_false_iff in E as [E1 E2]. rewrite H, IHForall; auto.
Qed.
Lemma lang_cats (k:list sst) (ws:list (list positive)) :
  Forall2 (fun x w => Lang (re_of_s (shape x)) w) k ws ->
  Lang (fold_right (fun x acc => Cat (re_of_s x) acc) Eps (map shape k)) (concat ws).
Proof. induction 1; simpl; auto. exists y, (concat l'); auto. Qed.

(* ---------------- the final check is sound (C01 on the abstract machine) ---------------- *)
Lemma required_sound s : Inv s -> required true s = [] -> Lang (re_of_s (shape s)) (names (ordered s)).
Proof.
  induction s using sst_ind2; intros I R.
  - simpl in *. destruct I as [Hmx Hall]. rewrite (names_all _ _ Hall).
    exists (length it). repeat split; auto.
    + destruct (Nat.ltb_spec (length it) mn); [discriminate|lia].
    + apply pow_sym.
  - apply Inv_node in I as [Hact Hk]. cbn [shape re_of_s].
    assert (Body: (negb o || a) = true ->
            Lang (fold_right (fun x acc => Cat (re_of_s x) acc) Eps (map shape k)) (names (ordered (NodeS o a k)))).
    { intros E. cbn [required] in R. rewrite E in R. cbn [andb] in R.
      cbn [ordered]. unfold names. rewrite flat_map_concat_map, concat_map, map_map.
      apply lang_cats. clear Hact E.
      induction k as [|x k IHk]; simpl; constructor.
      - inversion H; inversion Hk; subst. apply H2; auto. simpl in R. apply app_eq_nil in R; tauto.
      - inversion H; inversion Hk; subst. apply IHk; auto. simpl in R. apply app_eq_nil in R; tauto. }
    destruct o.
    + destruct a.
      * exists 1. repeat split; simpl; auto. exists (names (ordered (NodeS true true k))), []. rewrite app_nil_r. auto.
      * assert (nonempty (NodeS true false k) = false) by (destruct (nonempty (NodeS true false k)) eqn:E; auto; specialize (Hact eq_refl); discriminate).
        rewrite (nonempty_false_ordered _ H0). exists 0; simpl; auto.
    + apply Body; auto.
Qed.

(* ---------------- the invariant holds in every reachable state ---------------- *)
Section stree_ind2.
  Variable P : stree -> Prop.
  Hypothesis HL : forall s mn mx, P (SLeaf s mn mx).
  Hypothesis HN : forall o k, Forall P k -> P (SNode o k).
  Fixpoint stree_ind2 (s:stree) : P s :=
    match s with
    | SLeaf b mn mx => HL b mn mx
    | SNode o k => HN o k ((fix go (l:list stree) : Forall P l := match l with [] => Forall_nil P | x::t => Forall_cons x (stree_ind2 x) (go t) end) k)
    end.
End stree_ind2.
Lemma shape_init t : shape (init t) = t.
Proof. induction t using stree_ind2; simpl; auto. f_equal. rewrite map_map. induction H; simpl; congruence. Qed.
Lemma nonempty_init t : nonempty (init t) = false.
Proof. induction t using stree_ind2; simpl; auto. induction H; simpl; auto. rewrite H, IHForall; auto. Qed.

Lemma Inv_init t : Inv (init t).
Proof.
  induction t using stree_ind2.
  - simpl. split; [destruct mx; simpl; lia | constructor].
  - apply Inv_node. split.
    + intros E. pose proof (nonempty_init (SNode o k)) as N. change (nonempty (init (SNode o k)) = true) in E. congruence.
    + change (Forall Inv (map init k)). induction H; simpl; constructor; auto.
Qed.
(* the inner loop of add, as a standalone function, to reason about it *)
Fixpoint add_list (c:nat) (a:positive) (l:list sst) : option (list sst) :=
  match l with [] => None | x::t => match add c a x with Some x' => Some (x'::t) | None => option_map (cons x) (add_list c a t) end end.
Lemma add_node c a o act k : add c a (NodeS o act k) = match add_list c a k with Some k' => Some (NodeS o true k') | None => None end.
Proof. simpl. assert (E: forall l, (fix go (l:list sst) : option (list sst) := match l with [] => None | x::t => match add c a x with Some x' => Some (x'::t) | None => option_map (cons x) (go t) end end) l = add_list c a l) by (induction l; simpl; auto; rewrite IHl; auto). rewrite E; auto. Qed.
Lemma add_ok c a s : forall s', add c a s = Some s' -> Inv s -> Inv s' /\ shape s' = shape s.
Proof.
  induction s using sst_ind2; intros s' E I.
  - simpl in E. destruct (Pos.eqb_spec a s); simpl in E; [|discriminate]. subst a.
    destruct (full mx (length it)) eqn:F; simpl in E; [discriminate|]. injection E as <-.
    destruct I as [I1 I2]. simpl. split; auto. split.
    + rewrite app_length; simpl. destruct mx as [m|]; simpl in *; auto. apply Nat.leb_gt in F. lia.
    + apply Forall_app; split; auto.
  - rewrite add_node in E. destruct (add_list c a k) as [k'|] eqn:EL; [|discriminate]. injection E as <-.
    apply Inv_node in I as [_ Ik].
    assert (G: Forall Inv k' /\ map shape k' = map shape k).
    { clear -H EL Ik. revert k' EL. induction k as [|x k IHk]; intros k' EL; simpl in EL; [discriminate|].
      inversion H; inversion Ik; subst.
      destruct (add c a x) as [x'|] eqn:EX.
      - injection EL as <-. destruct (H2 _ eq_refl H6) as [A B]. split; [constructor; auto|simpl; congruence].
      - destruct (add_list c a k) as [k2|] eqn:E2; [|discriminate]. injection EL as <-.
        destruct (IHk H3 H7 _ eq_refl) as [A B]. split; [constructor; auto|simpl; congruence]. }
    destruct G as [G1 G2]. split; [apply Inv_node; split; auto|simpl; congruence].
Qed.
Lemma filter_len {A} (f:A->bool) l : length (filter f l) <= length l.
Proof. induction l; simpl; auto. destruct (f a); simpl; lia. Qed.
Lemma remove_ok c s : Inv s -> Inv (remove c s) /\ shape (remove c s) = shape s /\ (nonempty (remove c s) = true -> nonempty s = true).
Proof.
  induction s using sst_ind2; intros I.
  - simpl in *. destruct I as [I1 I2]. split; [split|split].
    + destruct mx as [m|]; simpl in *; auto. pose proof (filter_len (fun x : nat*positive => negb (fst x =? c)) it). lia.
    + apply Forall_forall. intros x Hx. apply filter_In in Hx as [Hx _]. rewrite Forall_forall in I2; auto.
    + auto.
    + destruct it; simpl; auto.
  - apply Inv_node in I as [Ia Ik].
    assert (G: Forall Inv (map (remove c) k) /\ map shape (map (remove c) k) = map shape k /\ (existsb nonempty (map (remove c) k) = true -> existsb nonempty k = true)).
    { clear Ia. induction k as [|x k IHk]; simpl; auto. inversion H; inversion Ik; subst.
      destruct (H2 H6) as (A&B&C). destruct (IHk H3 H7) as (A'&B'&C'). repeat split; [constructor; auto|congruence|].
      intros E. apply orb_true_iff in E as [E|E]; apply orb_true_iff; [left; auto|right; auto]. }
    destruct G as (G1&G2&G3). cbn [remove]. split; [|split].
    + apply Inv_node. split; auto.
    + simpl; congruence.
    + simpl. auto.
Qed.
Theorem run_inv t ops : Inv (run t ops) /\ shape (run t ops) = t.
Proof.
  unfold run. assert (G: forall st, Inv (fst st) /\ shape (fst st) = t ->
     Inv (fst (fold_left (fun st o => fst (step st o)) ops st)) /\ shape (fst (fold_left (fun st o => fst (step st o)) ops st)) = t).
  { induction ops as [|o ops IH]; intros st [I S]; simpl; auto. apply IH. destruct st as [s n]. simpl in *.
    destruct o; simpl.
    - destruct (add n a s) as [s'|] eqn:E; simpl; auto. destruct (add_ok _ _ _ _ E I); split; auto; congruence.
    - destruct (remove_ok c s I) as (A&B&_). split; auto; congruence.
    - auto. }
  apply G. simpl. split; [apply Inv_init|apply shape_init].
Qed.
(* C01 on the abstract sequence machine: for EVERY choice-free template and EVERY history *)
Theorem C01_seq t ops : required true (run t ops) = [] -> Lang (re_of_s t) (names (ordered (run t ops))).
Proof. intros R. destruct (run_inv t ops) as [I S]. rewrite <- S at 1. apply required_sound; auto. Qed.
Print Assumptions C01_seq.
(* non-vacuity: barline-like template, a history that activates and empties an optional group *)
Example ex_tpl := SNode false [SLeaf 1 0 (Some 1); SNode true [SLeaf 2 1 (Some 1); SLeaf 3 0 None]; SLeaf 4 0 (Some 2)].
Example ex1 : required true (run ex_tpl [Add 3; Add 2; Add 4; Final; Add 4; Add 4]) = [] /\ names (ordered (run ex_tpl [Add 3; Add 2; Add 4; Final; Add 4; Add 4])) = [2;3;4;4]%positive.
Proof. vm_compute. auto. Qed.
Example ex2_sticky : required true (run ex_tpl [Add 3; Remove 0]) = [2%positive] /\ required true (run ex_tpl []) = [].
Proof. vm_compute. auto. Qed.
