From MX Require Import Spec.Particle Spec.Deriv Model.AbsSeq.
From Coq Require Import Arith.
(* feed a word, ids n, n+1, ... ; None if some add is rejected *)
Fixpoint addw (w:list positive) (n:nat) (s:sst) : option sst :=
  match w with [] => Some s | a::w' => match add n a s with Some s' => addw w' (S n) s' | None => None end end.
Fixpoint addw_l (w:list positive) (n:nat) (k:list sst) : option (list sst) :=
  match w with [] => Some k | a::w' => match add_list n a k with Some k' => addw_l w' (S n) k' | None => None end end.
Fixpoint alpha (s:sst) : list positive := match s with LeafS b _ _ _ => [b] | NodeS _ _ k => flat_map alpha k end.
Fixpoint alpha_t (t:stree) : list positive := match t with SLeaf b _ _ => [b] | SNode _ k => flat_map alpha_t k end.
Fixpoint wf_t (t:stree) : bool := match t with SLeaf _ mn mx => match mx with None => true | Some m => Nat.leb mn m end | SNode _ k => forallb wf_t k end.

Lemma alpha_shape s : alpha s = alpha_t (shape s).
Proof. induction s using sst_ind2; simpl; auto. induction H; simpl; auto. rewrite H, IHForall; auto. Qed.
Lemma add_none c a s : ~ In a (alpha s) -> add c a s = None.
Proof.
  induction s using sst_ind2; intros N.
  - simpl in *. destruct (Pos.eqb_spec a s); auto. subst; tauto.
  - rewrite add_node. replace (add_list c a k) with (@None (list sst)); auto. symmetry.
    simpl in N. induction H; simpl in *; auto. rewrite in_app_iff in N.
    rewrite H by tauto. rewrite IHForall by tauto. auto.
Qed.
Lemma add_list_none c a k : ~ In a (flat_map alpha k) -> add_list c a k = None.
Proof. induction k; simpl; auto. intros N. rewrite in_app_iff in N. rewrite add_none by tauto. rewrite IHk by tauto. auto. Qed.
Lemma add_alpha c a s s' : add c a s = Some s' -> Inv s -> alpha s' = alpha s.
Proof. intros E I. destruct (add_ok _ _ _ _ E I) as [_ S]. rewrite !alpha_shape; congruence. Qed.

(* locality: a word over the alphabet of the first kid only touches the first kid *)
Lemma addw_l_head wx : forall n x rest, Inv x -> incl wx (alpha x) ->
  (forall a, In a (alpha x) -> ~ In a (flat_map alpha rest)) ->
  addw_l wx n (x::rest) = match addw wx n x with Some x' => Some (x'::rest) | None => None end.
Proof.
  induction wx as [|a wx IH]; intros n x rest I Inc Dis; simpl; auto.
  assert (Ia: In a (alpha x)) by (apply Inc; simpl; auto).
  destruct (add n a x) as [x'|] eqn:E.
  - destruct (add_ok _ _ _ _ E I) as [I' _]. rewrite IH; auto.
    + rewrite (add_alpha _ _ _ _ E I). intros b Hb; apply Inc; simpl; auto.
    + rewrite (add_alpha _ _ _ _ E I). auto.
  - rewrite add_list_none; auto.
Qed.
Lemma addw_l_skip w : forall n x rest, (forall a, In a w -> ~ In a (alpha x)) ->
  addw_l w n (x::rest) = option_map (cons x) (addw_l w n rest).
Proof.
  induction w as [|a w IH]; intros n x rest D; simpl; auto.
  rewrite add_none by (apply D; simpl; auto).
  destruct (add_list n a rest) as [r'|]; simpl; auto. apply IH. intros b Hb; apply D; simpl; auto.
Qed.
Lemma addw_l_app w1 : forall w2 n k, addw_l (w1 ++ w2) n k = match addw_l w1 n k with Some k' => addw_l w2 (n + length w1) k' | None => None end.
Proof.
  induction w1 as [|a w1 IH]; intros w2 n k; simpl.
  - rewrite Nat.add_0_r; auto.
  - destruct (add_list n a k); auto. rewrite IH. replace (S n + length w1) with (n + S (length w1)) by lia. auto.
Qed.
Lemma addw_node w : forall n o act k, addw w n (NodeS o act k) =
   match addw_l w n k with Some k' => Some (NodeS o (act || negb (Nat.eqb (length w) 0)) k') | None => None end.
Proof.
  induction w as [|a w IH]; intros n o act k.
  - simpl. rewrite orb_false_r; auto.
  - cbn [addw addw_l]. rewrite add_node. destruct (add_list n a k) as [k'|]; auto. rewrite IH. simpl. rewrite orb_true_r. destruct (addw_l w (S n) k'); auto.
Qed.

(* ---- words of the language only use the template's alphabet ---- *)
Lemma pow_incl (L:lang) (A:list positive) k : (forall w, L w -> incl w A) -> forall w, pow L k w -> incl w A.
Proof. intros H; induction k; simpl; intros w P. - subst; intros x []. - destruct P as (u&v&->&Lu&Pv). apply incl_app; auto. Qed.
Lemma lang_body_split (k:list stree) w :
  Lang (fold_right (fun x acc => Cat (re_of_s x) acc) Eps k) w <-> exists ws, w = concat ws /\ Forall2 (fun x u => Lang (re_of_s x) u) k ws.
Proof.
  revert w; induction k as [|x k IH]; intros w; simpl.
  - split. + intros ->. exists []; split; auto. + intros (ws&->&F). inversion F; auto.
  - split.
    + intros (u&v&->&A&B). apply IH in B as (ws&->&F). exists (u::ws); split; auto.
    + intros (ws&->&F). inversion F; subst. exists y, (concat l'); repeat split; auto. apply IH. exists l'; auto.
Qed.
Lemma lang_alpha t : forall w, Lang (re_of_s t) w -> incl w (alpha_t t).
Proof.
  induction t using stree_ind2; intros w L.
  - simpl in L. destruct L as (k&_&_&P). revert P. apply pow_incl. intros u ->. simpl. intros x [<-|[]]; simpl; auto.
  - assert (B: forall u, Lang (fold_right (fun x acc => Cat (re_of_s x) acc) Eps k) u -> incl u (flat_map alpha_t k)).
    { intros u Lu. apply lang_body_split in Lu as (ws&->&F). clear -H F. revert ws F. induction H; intros ws F; inversion F; subst; simpl.
      - intros a [].
      - apply incl_app; [apply incl_appl; auto | apply incl_appr; auto]. }
    simpl in *. destruct o; auto. destruct L as (j&_&_&P). revert P. apply pow_incl. auto.
Qed.
(* ---- leaf ---- *)
Lemma addw_leaf b mn mx j : forall n it, le_mx (length it + j) mx ->
  addw (repeat b j) n (LeafS b mn mx it) = Some (LeafS b mn mx (it ++ map (fun i => (i,b)) (seq n j))).
Proof.
  induction j; intros n it H; simpl.
  - rewrite app_nil_r; auto.
  - rewrite Pos.eqb_refl. simpl.
    assert (F: full mx (length it) = false). { destruct mx as [m|]; simpl in *; auto. apply Nat.leb_gt. lia. }
    rewrite F. simpl. rewrite IHj. + rewrite <- app_assoc; auto. + rewrite app_length; simpl. destruct mx; simpl in *; auto; lia.
Qed.
Lemma pow_sym_inv b k w : pow (Lang (Sym b)) k w -> w = repeat b k.
Proof. revert w; induction k; simpl; intros w P; auto. destruct P as (u&v&->&->&Pv). simpl. f_equal; auto. Qed.
Lemma required_false s : required false s = [].
Proof. induction s using sst_ind2; simpl; auto. induction H; simpl; auto. rewrite H, IHForall; auto. Qed.
Lemma names_seq b n j : names (map (fun i => (i,b)) (seq n j)) = repeat b j.
Proof. revert n; induction j; intros n; simpl; auto. unfold names in *. simpl. f_equal. apply IHj. Qed.

Lemma addw_ok w : forall n s s', addw w n s = Some s' -> Inv s -> Inv s' /\ shape s' = shape s.
Proof.
  induction w as [|a w IH]; intros n s s' E I; simpl in E.
  - injection E as <-; auto.
  - destruct (add n a s) as [s1|] eqn:E1; [|discriminate]. destruct (add_ok _ _ _ _ E1 I) as [I1 S1].
    destruct (IH _ _ _ E I1) as [I2 S2]. split; auto; congruence.
Qed.
Lemma NoDup_app_disj {A} (l1 l2:list A) : NoDup (l1 ++ l2) -> forall a, In a l1 -> ~ In a l2.
Proof.
  induction l1; simpl; intros N a0 [].
  - subst. inversion N; subst. intros H; apply H1. apply in_or_app; auto.
  - inversion N; subst. apply IHl1; auto.
Qed.
Lemma NoDup_app_r {A} (l1 l2:list A) : NoDup (l1 ++ l2) -> NoDup l2.
Proof. induction l1; simpl; auto. intros N; inversion N; auto. Qed.
Lemma NoDup_app_l {A} (l1 l2:list A) : NoDup (l1 ++ l2) -> NoDup l1.
Proof. induction l1; simpl; intros N; [constructor|]. inversion N; subst. constructor; auto. intros H; apply H1; apply in_or_app; auto. Qed.
Lemma flat_alpha_init k : flat_map alpha (map init k) = flat_map alpha_t k.
Proof. induction k; simpl; auto. rewrite alpha_shape, shape_init, IHk; auto. Qed.

Definition Good (t:stree) : Prop := forall w n, Lang (re_of_s t) w ->
   exists s, addw w n (init t) = Some s /\ required true s = [] /\ names (ordered s) = w.

Lemma kids_lemma k : Forall Good k -> NoDup (flat_map alpha_t k) -> forall ws n,
   Forall2 (fun x u => Lang (re_of_s x) u) k ws ->
   exists k', addw_l (concat ws) n (map init k) = Some k' /\ flat_map (required true) k' = [] /\ names (flat_map ordered k') = concat ws.
Proof.
  induction 1 as [|x k Gx Gk IH]; intros ND ws n F; inversion F; subst; simpl.
  - exists []; auto.
  - rename y into u, l' into us.
    destruct (Gx u n H1) as (x'&Ex&Rx&Nx).
    destruct (addw_ok _ _ _ _ Ex (Inv_init x)) as [Ix' Sx']. rewrite shape_init in Sx'.
    simpl in ND. pose proof (NoDup_app_disj _ _ ND) as Dis. pose proof (NoDup_app_r _ _ ND) as ND'.
    destruct (IH ND' us (n + length u) H3) as (k'&Ek&Rk&Nk).
    exists (x'::k'). rewrite addw_l_app.
    rewrite addw_l_head.
    + rewrite Ex. rewrite addw_l_skip.
      * rewrite Ek. simpl. repeat split; auto.
        -- rewrite Rx, Rk; auto.
        -- unfold names in *. rewrite map_app. congruence.
      * intros a Ha. rewrite alpha_shape, Sx'. intros Hx. apply (Dis a Hx).
        clear -Ha H3. revert Ha. induction H3; simpl; intros Ha; [destruct Ha|].
        apply in_app_or in Ha as [Ha|Ha]; apply in_or_app; [left; eapply lang_alpha; eauto|right; auto].
    + apply Inv_init.
    + rewrite alpha_shape, shape_init. apply lang_alpha; auto.
    + intros a Ha. rewrite alpha_shape, shape_init in Ha. rewrite flat_alpha_init. apply Dis; auto.
Qed.

Lemma flat_required_false k : flat_map (required false) k = [].
Proof. induction k; simpl; auto. rewrite required_false, IHk; auto. Qed.
Theorem C02_seq_gen t : wf_t t = true -> NoDup (alpha_t t) -> Good t.
Proof.
  induction t using stree_ind2; intros W ND w n L.
  - (* leaf *) simpl in L. destruct L as (j&J1&J2&P). apply pow_sym_inv in P. subst w.
    exists (LeafS s mn mx ([] ++ map (fun i => (i,s)) (seq n j))). split; [|split].
    + apply (addw_leaf s mn mx j n []). simpl; auto.
    + simpl. rewrite map_length, seq_length. destruct (Nat.ltb_spec j mn); auto; lia.
    + simpl. apply names_seq.
  - (* node *)
    assert (GK: Forall Good k).
    { simpl in W, ND. clear -H W ND. induction H as [|x k Hx Hk IH]; constructor; simpl in *; apply andb_true_iff in W as [W1 W2].
      - apply Hx; auto. eapply NoDup_app_l; eauto.
      - apply IH; auto. eapply NoDup_app_r; eauto. }
    simpl in ND.
    assert (Body: forall u, Lang (fold_right (fun x acc => Cat (re_of_s x) acc) Eps k) u ->
              exists k', addw_l u n (map init k) = Some k' /\ flat_map (required true) k' = [] /\ names (flat_map ordered k') = u).
    { intros u Lu. apply lang_body_split in Lu as (ws&->&F). apply kids_lemma; auto. }
    cbn [init]. rewrite addw_node. cbn [re_of_s] in L.
    destruct o.
    + (* optional *) destruct L as (j&_&J2&P). simpl in J2. destruct j as [|[|j]]; [| |lia].
      * simpl in P; subst w. simpl. eexists; split; [reflexivity|]. split.
        -- simpl. apply flat_required_false.
        -- change (NodeS true false (map init k)) with (init (SNode true k)). rewrite nonempty_false_ordered; auto. apply nonempty_init.
      * simpl in P. destruct P as (u&v&->&Lu&->). rewrite app_nil_r.
        destruct (Body u Lu) as (k'&E&R&N). rewrite E. eexists; split; [reflexivity|]. split; auto.
        cbn [required]. simpl. destruct (length u =? 0); simpl; auto. apply flat_required_false.
    + destruct (Body w L) as (k'&E&R&N). rewrite E. eexists; split; [reflexivity|]. split; auto.
Qed.
(* the statement in terms of the history runner of AbsSeq *)
Lemma run_adds w : forall st, fst (fold_left (fun st o => fst (step st o)) (map Add w) st) =
    match addw w (snd st) (fst st) with Some s' => s' | None => fst (fold_left (fun st o => fst (step st o)) (map Add w) st) end.
Proof.
  induction w as [|a w IH]; intros [s n]; simpl; auto.
  destruct (add n a s) as [s'|] eqn:E; simpl; auto. rewrite IH. simpl. destruct (addw w (S n) s'); auto.
Qed.
Theorem C02_seq t w : wf_t t = true -> NoDup (alpha_t t) -> Lang (re_of_s t) w ->
  let s := run t (map Add w) in
  addw w 0 (init t) = Some s /\ required true s = [] /\ names (ordered s) = w.
Proof.
  intros W ND L. destruct (C02_seq_gen t W ND w 0 L) as (s&E&R&N).
  unfold run. rewrite run_adds. simpl. rewrite E. auto.
Qed.
Print Assumptions C02_seq.
Example ex_c02 : wf_t ex_tpl = true /\ NoDup (alpha_t ex_tpl) /\ Lang (re_of_s ex_tpl) [1;2;3;3;4]%positive.
Proof.
  split; [reflexivity|split].
  - change (alpha_t ex_tpl) with [1;2;3;4]%positive. repeat constructor; simpl; intuition discriminate.
  - apply accepts_iff; reflexivity.
Qed.
