(* The attribute half of XMLElement: __setattr__ dispatch, _set_attributes, _check_attribute, _check_required_attributes,
   and what _create_et_xml_element serialises.  The value verdict (C05) is a parameter. *)
From MX Require Import Spec.Naming.
From Coq Require Import List String Bool.
Import ListNotations.
Open Scope string_scope.

Section Attr.
  Variable value : Type.
  Variable valid : string -> value -> bool.          (* simple type name -> value -> accepted by the type's class *)
  Record decl := mkDecl { d_name : string; d_type : string; d_req : bool }.
  Definition dict := list (string * value).
  Inductive aout := AOk | AWrongAttribute | AInvalidValue | AReserved | AChildSyntax.

  Fixpoint lookup (k:string) (d:dict) : option value := match d with [] => None | (x, v) :: t => if String.eqb x k then Some v else lookup k t end.
  Fixpoint remove_key (k:string) (d:dict) : dict := match d with [] => [] | (x, v) :: t => if String.eqb x k then t else (x, v) :: remove_key k t end.
  (* {**old, **{k: v}}: an existing key keeps its position *)
  Fixpoint update (k:string) (v:value) (d:dict) : dict :=
    match d with [] => [(k, v)] | (x, w) :: t => if String.eqb x k then (x, v) :: t else (x, w) :: update k v t end.
  Definition find_decl (decls:list decl) (k:string) : option decl := find (fun d => String.eqb (d_name d) k) decls.

  (* e.<key> = v   (v = None is Python's None) *)
  Definition set_attr (decls:list decl) (props:list string) (st:dict) (key:string) (v:option value) : dict * aout :=
    if String.prefix "_" key || mem_str key props then (st, AReserved)
    else if String.prefix "xml_" key then (st, AChildSyntax)
    else let k := hyph key in
      match v with
      | None => (remove_key k st, AOk)
      | Some x => match find_decl decls k with
                  | None => (st, AWrongAttribute)
                  | Some d => if valid (d_type d) x then (update k x st, AOk) else (st, AInvalidValue) end
      end.
  Definition missing_required (decls:list decl) (st:dict) : list string :=
    map d_name (filter (fun d => d_req d && match lookup (d_name d) st with None => true | Some _ => false end) decls).
  Definition to_string_attrs_ok (decls:list decl) (st:dict) : bool := match missing_required decls st with [] => true | _ => false end.

  Lemma lookup_update k v d k' : lookup k' (update k v d) = if String.eqb k k' then Some v else lookup k' d.
  Proof.
    induction d as [|[x w] t IH]; simpl.
    - destruct (String.eqb_spec k k'); auto.
    - destruct (String.eqb_spec x k).
      + subst. simpl. destruct (String.eqb_spec k k'); auto.
      + simpl. destruct (String.eqb_spec x k'); auto. subst. destruct (String.eqb_spec k k'); auto. congruence.
  Qed.
  Lemma NoDup_keys_update k v d : NoDup (map fst d) -> NoDup (map fst (update k v d)).
  Proof.
    induction d as [|[x w] t IH]; simpl; intros N.
    - constructor; [intros []|constructor].
    - inversion N; subst. destruct (String.eqb_spec x k); simpl; [constructor; auto|]. constructor; auto.
      intros I. apply H1. clear -I n. induction t as [|[y z] t IH]; simpl in *; [destruct I; [congruence|contradiction]|].
      destruct (String.eqb_spec y k); simpl in *; auto. destruct I; auto.
  Qed.
  Lemma lookup_remove k d k' : NoDup (map fst d) -> lookup k' (remove_key k d) = if String.eqb k k' then None else lookup k' d.
  Proof.
    induction d as [|[x w] t IH]; simpl; intros N.
    - destruct (String.eqb k k'); auto.
    - inversion N; subst. destruct (String.eqb_spec x k).
      + subst. destruct (String.eqb_spec k k'); auto. subst.
        clear -H1. induction t as [|[y z] t IH]; simpl in *; auto. destruct (String.eqb_spec y k'); [subst; exfalso; auto|]. apply IH. auto.
      + simpl. destruct (String.eqb_spec x k'); auto. subst. destruct (String.eqb_spec k k'); auto. congruence.
  Qed.
  Lemma NoDup_keys_remove k d : NoDup (map fst d) -> NoDup (map fst (remove_key k d)).
  Proof.
    induction d as [|[x w] t IH]; simpl; intros N; auto. inversion N; subst.
    destruct (String.eqb x k); auto. simpl. constructor; auto.
    intros I. apply H1. clear -I. induction t as [|[y z] t IH]; simpl in *; auto. destruct (String.eqb y k); simpl in *; auto. destruct I; auto.
  Qed.

  (* ---- the interface is exactly "declared and valid" ---- *)
  Definition plain_key (props:list string) (key:string) : bool := negb (String.prefix "_" key || mem_str key props) && negb (String.prefix "xml_" key).
  Theorem set_attr_accepts decls props st key x : plain_key props key = true ->
    (snd (set_attr decls props st key (Some x)) = AOk <-> exists d, find_decl decls (hyph key) = Some d /\ valid (d_type d) x = true).
  Proof.
    unfold plain_key, set_attr. intros P. apply andb_true_iff in P as [P1 P2]. apply negb_true_iff in P1, P2. rewrite P1, P2.
    destruct (find_decl decls (hyph key)) as [d|]; simpl.
    - destruct (valid (d_type d) x) eqn:V; simpl; split; try discriminate; eauto. intros (d' & E & V'). injection E as <-. congruence.
    - split; [discriminate|]. intros (d & E & _). discriminate.
  Qed.
  Theorem set_attr_failure_atomic decls props st key v : snd (set_attr decls props st key v) <> AOk -> fst (set_attr decls props st key v) = st.
  Proof.
    unfold set_attr. destruct (String.prefix "_" key || mem_str key props); auto. destruct (String.prefix "xml_" key); auto.
    destruct v as [x|]; simpl; [|intros H; exfalso; apply H; auto].
    destruct (find_decl decls (hyph key)) as [d|]; auto. destruct (valid (d_type d) x); simpl; auto. intros H; exfalso; apply H; auto.
  Qed.
  Theorem set_attr_lookup decls props st key v k' : NoDup (map fst st) ->
    let r := set_attr decls props st key v in
    NoDup (map fst (fst r)) /\
    lookup k' (fst r) = if (match snd r with AOk => true | _ => false end) && String.eqb (hyph key) k' then v else lookup k' st.
  Proof.
    intros N. unfold set_attr. destruct (String.prefix "_" key || mem_str key props); simpl; auto.
    destruct (String.prefix "xml_" key); simpl; auto.
    destruct v as [x|]; simpl.
    - destruct (find_decl decls (hyph key)) as [d|]; simpl; auto. destruct (valid (d_type d) x); simpl; auto.
      split; [apply NoDup_keys_update; auto|]. rewrite lookup_update. auto.
    - split; [apply NoDup_keys_remove; auto|]. rewrite lookup_remove; auto.
  Qed.
  (* any sequence of assignments: the stored value of k' is the last successful assignment to it *)
  Definition run (decls:list decl) (props:list string) (ops:list (string * option value)) (st:dict) : dict :=
    fold_left (fun s o => fst (set_attr decls props s (fst o) (snd o))) ops st.
  Theorem run_keys_nodup decls props ops : forall st, NoDup (map fst st) -> NoDup (map fst (run decls props ops st)).
  Proof. induction ops as [|o ops IH]; simpl; intros st N; auto. apply IH. apply (set_attr_lookup decls props st (fst o) (snd o) "" N). Qed.
  Theorem required_refusal decls st : to_string_attrs_ok decls st = false <-> exists d, In d decls /\ d_req d = true /\ lookup (d_name d) st = None.
  Proof.
    unfold to_string_attrs_ok, missing_required. split.
    - destruct (filter _ decls) as [|d l] eqn:F; simpl; [discriminate|]. intros _.
      assert (I: In d (filter (fun d => d_req d && match lookup (d_name d) st with None => true | Some _ => false end) decls)) by (rewrite F; simpl; auto).
      apply filter_In in I as [I H]. apply andb_true_iff in H as [R L]. exists d. repeat split; auto. destruct (lookup (d_name d) st); auto; discriminate.
    - intros (d & I & R & L). assert (J: In d (filter (fun d => d_req d && match lookup (d_name d) st with None => true | Some _ => false end) decls)).
      { apply filter_In. split; auto. rewrite R, L. auto. }
      destruct (filter _ decls); [destruct J|reflexivity].
  Qed.
End Attr.
