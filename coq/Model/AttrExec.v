(* Executable instance of Model/Attr.v for the correspondence: a value is a token carrying the verdict of the attribute's
   simple-type class on it (obtained from the implementation, C05 ties that verdict to the schema). *)
From MX Require Import Spec.Naming Model.Attr.
From Coq Require Import List String Bool.
Import ListNotations.
Definition aval := (nat * bool)%type.
Definition avalid (_:string) (v:aval) : bool := snd v.
Fixpoint attr_trace (decls:list decl) (props:list string) (st:dict aval) (ops:list (string * option aval)) : list (aout * dict aval * list string) :=
  match ops with [] => [] | (k, v) :: r =>
    let res := set_attr aval avalid decls props st k v in
    (snd res, fst res, missing_required aval decls (fst res)) :: attr_trace decls props (fst res) r end.
