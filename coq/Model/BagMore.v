(* The bag machine, continued: no reachable state is a dead end (C07), and a child is rejected only when no word of the content model
   contains it (C12 b).  Every arrangement of a bag's children is valid, so C12 (a) has nothing to say about these types. *)
From MX Require Import Spec.Particle Spec.Deriv Spec.Equiv Spec.Parikh Model.Classes Model.AbsBag.
From Coq Require Import Arith Lia.

(* C07: from every reachable state at most one further child - accepted - leads to a passing final check *)
Theorem C07_bag p a mn ops : bag_of 10 p = Some (a, mn) -> a <> [] ->
  exists w, length w <= 1 /\ Forall (fun o => o = BOk) (bouts a (brun a ops) (map BAdd w))
            /\ bverdict mn (fold_left (fun s o => fst (bstep a s o)) (map BAdd w) (brun a ops)) = true.
Proof.
  intros B NE. destruct (bverdict mn (brun a ops)) eqn:V.
  - exists []. simpl. auto.
  - destruct a as [|x a]; [contradiction|]. exists [x]. simpl. rewrite Pos.eqb_refl. simpl. split; [lia|]. split; [repeat constructor|].
    unfold bverdict. simpl. rewrite app_length. simpl. replace (length (fst (brun (x :: a) ops)) + 1) with (S (length (fst (brun (x :: a) ops)))) by lia.
    simpl. apply orb_true_r.
Qed.
Lemma count_zero_notin a w : ~ In a w -> count a w = 0.
Proof. intros H. destruct (count a w) eqn:E; auto. exfalso. apply H. apply count_In. lia. Qed.
(* C12 (b): a rejected child occurs in no word of the content model *)
Theorem C12b_bag p a mn s x : bag_of 10 p = Some (a, mn) -> snd (bstep a s (BAdd x)) <> BOk -> ~ Alive (re_of p) (bnames s ++ [x]).
Proof.
  intros B R (w & L & Dom). simpl in R. destruct (mem_pos x a) eqn:M; [exfalso; apply R; reflexivity|].
  apply (bag_of_lang 10 p a mn B) in L as [_ F]. specialize (Dom x). rewrite count_app in Dom. simpl in Dom. rewrite Pos.eqb_refl in Dom.
  rewrite (count_zero_notin x w) in Dom; [lia|]. intros I. rewrite Forall_forall in F. apply F in I. apply mem_pos_In in I. congruence.
Qed.
