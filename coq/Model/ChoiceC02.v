(* C02 on the choice machine: every word of the template's language, fed one child at a time, is accepted at every step, passes
   the final check and is kept in the order supplied - provided leaf names are pairwise distinct and no branch of a choice is nullable. *)
From MX Require Import Spec.Particle Spec.Deriv Model.AbsSeq Model.AbsSeqC02 Model.Classes Model.SeqMachine Model.SeqIds Model.ChoiceSeq Model.ChoiceClass.
From Coq Require Import Arith Lia.

Fixpoint caddw (w:list positive) (n:nat) (s:cst) : option cst :=
  match w with [] => Some s | a :: w' => match cadd n a s with Some s' => caddw w' (S n) s' | None => None end end.
Fixpoint saddw (w:list positive) (n:nat) (x:slot) : option slot :=
  match w with [] => Some x | a :: w' => match add_slot n a x with Some x' => saddw w' (S n) x' | None => None end end.
Definition alpha_st (x:slot) : list positive := match x with SPlain s => alpha s | SChoice _ _ _ brs => flat_map alpha brs end.

Lemma add_nth_none c a : forall i brs, ~ In a (flat_map alpha brs) -> add_nth c a i brs = None.
Proof.
  induction i as [|i IH]; intros [|b r] H; simpl in *; auto.
  - rewrite add_none; auto. intros I. apply H. apply in_or_app. auto.
  - rewrite IH; auto. intros I. apply H. apply in_or_app. auto.
Qed.
Lemma add_first_none c a : forall brs, ~ In a (flat_map alpha brs) -> add_first c a brs = None.
Proof.
  induction brs as [|b r IH]; intros H; simpl in *; auto.
  rewrite add_none by (intros I; apply H; apply in_or_app; auto). rewrite IH; auto. intros I. apply H. apply in_or_app. auto.
Qed.
Lemma add_slot_none c a x : ~ In a (alpha_st x) -> add_slot c a x = None.
Proof.
  destruct x as [s|mn d [i|] brs]; simpl; intros H.
  - rewrite add_none; auto.
  - rewrite add_nth_none; auto.
  - rewrite add_first_none; auto.
Qed.
Lemma flat_alpha_shape brs brs' : map shape brs' = map shape brs -> flat_map alpha brs' = flat_map alpha brs.
Proof.
  revert brs'. induction brs as [|b r IH]; intros [|b' r'] E; simpl in *; try discriminate; auto.
  injection E as E1 E2. rewrite (IH r' E2). rewrite !alpha_shape, E1. reflexivity.
Qed.
Lemma alpha_st_shape x x' : shape_slot x' = shape_slot x -> alpha_st x' = alpha_st x.
Proof.
  destruct x as [s|mn d ch brs], x' as [s'|mn' d' ch' brs']; simpl; intros E; try discriminate.
  - injection E as E. rewrite !alpha_shape, E. reflexivity.
  - injection E as _ E. apply flat_alpha_shape; auto.
Qed.
Lemma saddw_ok w : forall n x x', saddw w n x = Some x' -> SInv x -> SInv x' /\ shape_slot x' = shape_slot x.
Proof.
  induction w as [|a w IH]; intros n x x' E I; simpl in E.
  - injection E as <-. auto.
  - destruct (add_slot n a x) as [x1|] eqn:E1; [|discriminate]. destruct (add_slot_ok n a x x1 E1 I) as (I1 & S1 & _).
    destruct (IH _ _ _ E I1) as (I2 & S2). split; [auto|congruence].
Qed.
(* words over the first slot's names go to the first slot; words avoiding them skip it *)
Lemma caddw_head w : forall n x r, caddw w n (x :: r) = match saddw w n x with Some x' => Some (x' :: r) | None => caddw w n (x :: r) end.
Proof.
  induction w as [|a w IH]; intros n x r; simpl; auto.
  destruct (add_slot n a x) as [x1|] eqn:E1; auto.
Qed.
Lemma caddw_skip w : forall n x r, SInv x -> (forall a, In a w -> ~ In a (alpha_st x)) ->
  caddw w n (x :: r) = option_map (cons x) (caddw w n r).
Proof.
  induction w as [|a w IH]; intros n x r I H; simpl; auto.
  rewrite add_slot_none by (apply H; left; auto).
  destruct (cadd n a r) as [r'|]; simpl; auto. apply IH; auto. intros b Hb. apply H. right. auto.
Qed.
Lemma caddw_app w1 : forall w2 n s, caddw (w1 ++ w2) n s = match caddw w1 n s with Some s' => caddw w2 (n + length w1) s' | None => None end.
Proof.
  induction w1 as [|a w1 IH]; intros w2 n s; simpl.
  - rewrite Nat.add_0_r. reflexivity.
  - destruct (cadd n a s) as [s'|]; auto. rewrite IH. replace (S n + length w1) with (n + S (length w1)) by lia. reflexivity.
Qed.

(* a branch that cannot be empty: a required leaf on a mandatory path *)
Fixpoint nn_t (t:stree) : bool := match t with SLeaf _ mn _ => Nat.ltb 0 mn | SNode o k => negb o && existsb nn_t k end.
Lemma nn_t_sound t : nn_t t = true -> ~ Lang (re_of_s t) [].
Proof.
  induction t using stree_ind2; simpl; intros N L.
  - apply Nat.ltb_lt in N. destruct L as (k & K1 & _ & P). destruct k as [|k]; [lia|]. simpl in P. destruct P as (u & v & E & Hu & _). subst u. discriminate.
  - apply andb_true_iff in N as [No Nk]. apply negb_true_iff in No. subst o. apply lang_body_split in L as (ws & E & F).
    apply existsb_exists in Nk as (x & Ix & Nx). rewrite Forall_forall in H.
    assert (G: forall (k:list stree) ws, Forall2 (fun x u => Lang (re_of_s x) u) k ws -> [] = concat ws -> forall x, In x k -> Lang (re_of_s x) []).
    { clear. induction 1 as [|y u k ws Hy Hk IH]; intros E x Ix; [destruct Ix|]. simpl in E. symmetry in E. apply app_eq_nil in E as [-> E2].
      destruct Ix as [<-|Ix]; auto. }
    apply (H x Ix Nx). apply (G k ws F E x Ix).
Qed.
(* ---- one slot ---- *)
Definition GoodSlot (x:cslot) : Prop := forall w n, Lang (re_of_slot x) w ->
  exists x', saddw w n (init_slot x) = Some x' /\ required_slot x' = [] /\ ordered_slot x' = tagged n w.
Lemma saddw_plain w : forall n s, saddw w n (SPlain s) = option_map SPlain (addw w n s).
Proof. induction w as [|a w IH]; intros n s; simpl; auto. destruct (add n a s) as [s'|]; simpl; auto. Qed.
(* once a branch is chosen, feeding goes to that branch *)
Lemma add_nth_hit c a : forall i brs b b', nth_error brs i = Some b -> add c a b = Some b' ->
  exists brs', add_nth c a i brs = Some brs' /\ nth_error brs' i = Some b' /\ (forall j, j <> i -> nth_error brs' j = nth_error brs j) /\ length brs' = length brs.
Proof.
  induction i as [|i IH]; intros [|x r] b b' E A; simpl in *; try discriminate.
  - injection E as ->. rewrite A. eexists; split; [reflexivity|]. repeat split; auto. intros [|j] H; [contradiction|reflexivity].
  - destruct (IH r b b' E A) as (r' & E' & N & O & L). rewrite E'. eexists; split; [reflexivity|]. repeat split; simpl; auto.
    intros [|j] H; [reflexivity|]. apply O. lia.
Qed.
Lemma saddw_chosen w : forall n mn d i brs b s, nth_error brs i = Some b -> addw w n b = Some s ->
  exists brs', saddw w n (SChoice mn d (Some i) brs) = Some (SChoice mn d (Some i) brs') /\ nth_error brs' i = Some s
               /\ (forall j, j <> i -> nth_error brs' j = nth_error brs j).
Proof.
  induction w as [|a w IH]; intros n mn d i brs b s E A; simpl in *.
  - injection A as <-. exists brs. auto.
  - destruct (add n a b) as [b1|] eqn:E1; [|discriminate]. destruct (add_nth_hit n a i brs b b1 E E1) as (brs1 & En & N1 & O1 & _).
    rewrite En. simpl. destruct (IH (S n) mn d i brs1 b1 s N1 A) as (brs' & Es & N' & O'). exists brs'. repeat split; auto.
    intros j Hj. rewrite (O' j Hj). apply O1; auto.
Qed.
Lemma add_first_hit c a : forall i brs b b', nth_error brs i = Some b -> add c a b = Some b' ->
  (forall j bj, j < i -> nth_error brs j = Some bj -> ~ In a (alpha bj)) ->
  exists brs', add_first c a brs = Some (i, brs') /\ nth_error brs' i = Some b' /\ (forall j, j <> i -> nth_error brs' j = nth_error brs j).
Proof.
  induction i as [|i IH]; intros [|x r] b b' E A H; simpl in *; try discriminate.
  - injection E as ->. rewrite A. eexists; split; [reflexivity|]. split; auto. intros [|j] Hj; [contradiction|reflexivity].
  - rewrite (add_none c a x) by (apply (H 0 x); [lia|reflexivity]).
    destruct (IH r b b' E A) as (r' & E' & N & O). { intros j bj Hj Hn. apply (H (S j) bj); [lia|exact Hn]. }
    rewrite E'. simpl. eexists; split; [reflexivity|]. split; auto. intros [|j] Hj; [reflexivity|]. apply O. lia.
Qed.
Lemma lang_alt_of brs w : Lang (alt_of brs) w -> exists i b, nth_error brs i = Some b /\ Lang (re_of_s b) w.
Proof.
  induction brs as [|x r IH]; simpl; intros H; [contradiction|]. destruct H as [H|H].
  - exists 0, x. auto.
  - destruct (IH H) as (i & b & E & L). exists (S i), b. auto.
Qed.
Lemma nth_flat_alpha (brs:list stree) j bj a : nth_error brs j = Some bj -> In a (alpha_t bj) -> In a (flat_map alpha_t brs).
Proof. intros E I. apply in_flat_map. exists bj. split; auto. eapply nth_error_In; eauto. Qed.
(* distinct branches of a NoDup family share no name *)
Lemma NoDup_flat_disj (brs:list stree) : NoDup (flat_map alpha_t brs) -> forall i j bi bj a, i < j -> nth_error brs i = Some bi -> nth_error brs j = Some bj ->
  In a (alpha_t bi) -> ~ In a (alpha_t bj).
Proof.
  induction brs as [|x r IH]; intros ND i j bi bj a Lt Ei Ej Ia; [destruct i; discriminate|]. simpl in ND.
  destruct j as [|j]; [lia|]. destruct i as [|i]; simpl in *.
  - injection Ei as ->. intros Ib. apply (NoDup_app_disj _ _ ND a Ia). eapply nth_flat_alpha; eauto.
  - apply (IH (NoDup_app_r _ _ ND) i j bi bj a); auto. lia.
Qed.
Lemma choice_good mn brs : mn <= 1 -> Forall GoodI brs -> NoDup (flat_map alpha_t brs) -> forallb nn_t brs = true -> GoodSlot (CChoice mn brs).
Proof.
  intros Hmn G ND NN w n L. revert w L.
  assert (Alt: forall w, Lang (alt_of brs) w -> exists x', saddw w n (init_slot (CChoice mn brs)) = Some x' /\ required_slot x' = [] /\ ordered_slot x' = tagged n w).
  { intros w La. destruct (lang_alt_of brs w La) as (i & b & Eb & Lb).
    assert (Gb: GoodI b) by (rewrite Forall_forall in G; apply G; eapply nth_error_In; eauto).
    destruct (Gb w n Lb) as (s & Es & Rs & Ns).
    (* w is not empty: the branch is not nullable *)
    destruct w as [|a w'].
    { exfalso. apply (nn_t_sound b); auto. rewrite forallb_forall in NN. apply NN. eapply nth_error_In; eauto. }
    simpl in Es. destruct (add n a (init b)) as [b1|] eqn:E1; [|discriminate].
    assert (Ei: nth_error (map init brs) i = Some (init b)) by (rewrite nth_error_map, Eb; reflexivity).
    assert (Ia: In a (alpha_t b)).
    { destruct (in_dec Pos.eq_dec a (alpha (init b))) as [I|NI]; [rewrite alpha_shape, shape_init in I; auto|]. rewrite add_none in E1; auto. discriminate. }
    destruct (add_first_hit n a i (map init brs) (init b) b1 Ei E1) as (brs1 & Ef & N1 & O1).
    { intros j bj Hj Hn. rewrite nth_error_map in Hn. destruct (nth_error brs j) as [tj|] eqn:Ej; [|discriminate]. injection Hn as <-.
      rewrite alpha_shape, shape_init. intros Ij. apply (NoDup_flat_disj brs ND j i tj b a Hj Ej Eb Ij Ia). }
    destruct (saddw_chosen w' (S n) mn false i brs1 b1 s N1 Es) as (brs' & Ec & N' & O').
    exists (SChoice mn false (Some i) brs'). split; [|split].
    - simpl. rewrite Ef. simpl. exact Ec.
    - simpl. rewrite N'. exact Rs.
    - simpl.
      assert (OE: others_empty (Some i) brs').
      { intros j bj Hj Hne. assert (j <> i) by (intros ->; apply Hne; reflexivity). rewrite (O' j H), (O1 j H) in Hj.
        rewrite nth_error_map in Hj. destruct (nth_error brs j); [|discriminate]. injection Hj as <-. apply nonempty_init. }
      rewrite (flat_ordered_others (Some i) brs' OE). rewrite N'. exact Ns. }
  intros w L. simpl in L. destruct (Nat.eqb mn 0) eqn:M.
  - destruct L as (k & _ & K2 & P). simpl in K2. destruct k as [|[|k]]; [| |lia].
    + simpl in P. subst w. exists (init_slot (CChoice mn brs)). simpl. rewrite M. simpl. split; [reflexivity|]. split; [reflexivity|].
      unfold tagged. simpl. clear. induction brs as [|b r IH]; simpl; auto. rewrite (nonempty_false_ordered _ (nonempty_init b)). simpl. exact IH.
    + simpl in P. destruct P as (u & v & -> & Hu & ->). rewrite app_nil_r. apply Alt; auto.
  - apply Alt; auto.
Qed.

(* ---- all slots ---- *)
Lemma lang_alt_alpha brs w : Lang (alt_of brs) w -> incl w (flat_map alpha_t brs).
Proof.
  intros L. destruct (lang_alt_of brs w L) as (i & b & E & Lb). intros a Ia. apply in_flat_map. exists b. split; [eapply nth_error_In; eauto|].
  apply (lang_alpha b w Lb a Ia).
Qed.
Lemma lang_slot_alpha x w : Lang (re_of_slot x) w -> incl w (alpha_slot x).
Proof.
  destruct x as [t|mn brs]; simpl.
  - apply lang_alpha.
  - destruct (Nat.eqb mn 0).
    + intros (k & _ & _ & P). revert P. apply pow_incl. apply lang_alt_alpha.
    + apply lang_alt_alpha.
Qed.
Lemma alpha_st_init x : alpha_st (init_slot x) = alpha_slot x.
Proof. destruct x as [t|mn brs]; simpl; [rewrite alpha_shape, shape_init; reflexivity|apply flat_alpha_init]. Qed.
Lemma alpha_c_cinit r : flat_map alpha_st (cinit r) = alpha_c r.
Proof. unfold cinit, alpha_c. induction r as [|x r IH]; simpl; auto. rewrite alpha_st_init, IH. reflexivity. Qed.
Lemma lang_c_split (t:ctemplate) w : Lang (re_of_c t) w <-> exists ws, w = concat ws /\ Forall2 (fun x u => Lang (re_of_slot x) u) t ws.
Proof.
  revert w; induction t as [|x t IH]; intros w; simpl.
  - split. + intros ->. exists []; split; auto. + intros (ws & -> & F). inversion F; auto.
  - split.
    + intros (u & v & -> & A & B). apply IH in B as (ws & -> & F). exists (u :: ws); split; auto.
    + intros (ws & -> & F). inversion F; subst. exists y, (concat l'); repeat split; auto. apply IH. exists l'; auto.
Qed.
Lemma SInv_init x : wf_slot x = true -> SInv (init_slot x).
Proof. intros W. destruct (cinit_inv [x]) as (A & _ & _); [simpl; rewrite W; reflexivity|]. inversion A; auto. Qed.
Lemma slots_lemma t : Forall GoodSlot t -> wf_ct t = true -> NoDup (alpha_c t) -> forall ws n,
  Forall2 (fun x u => Lang (re_of_slot x) u) t ws ->
  exists s', caddw (concat ws) n (cinit t) = Some s' /\ crequired s' = [] /\ cordered s' = tagged n (concat ws).
Proof.
  induction 1 as [|x r Gx Gr IH]; intros W ND ws n F; inversion F; subst; simpl.
  - exists []; auto.
  - rename y into u, l' into us. simpl in W. apply andb_true_iff in W as [Wx Wr].
    destruct (Gx u n H1) as (x' & Ex & Rx & Nx).
    destruct (saddw_ok _ _ _ _ Ex (SInv_init x Wx)) as [Ix' Sx'].
    unfold alpha_c in ND. simpl in ND. pose proof (NoDup_app_disj _ _ ND) as Dis. pose proof (NoDup_app_r _ _ ND) as ND'.
    destruct (IH Wr ND' us (n + length u) H3) as (r' & Er & Rr & Nr).
    exists (x' :: r'). rewrite caddw_app. rewrite caddw_head. rewrite Ex. rewrite caddw_skip.
    + rewrite Er. simpl. repeat split; auto.
      * unfold crequired in *. simpl. rewrite Rx, Rr. reflexivity.
      * unfold cordered in *. simpl. rewrite tagged_app. congruence.
    + exact Ix'.
    + intros a Ha. rewrite (alpha_st_shape (init_slot x) x') by (rewrite Sx'; reflexivity). rewrite alpha_st_init. intros Hx. apply (Dis a Hx).
      clear -Ha H3. revert Ha. induction H3 as [|y v r us Hy Hr IH]; simpl; intros Ha; [destruct Ha|].
      apply in_app_or in Ha as [Ha|Ha]; apply in_or_app; [left; eapply lang_slot_alpha; eauto|right; auto].
Qed.
Definition c02_ok (x:cslot) : bool :=
  match x with CPlain t => wf_t t && nodup_pos (alpha_t t)
             | CChoice mn brs => Nat.leb mn 1 && forallb wf_t brs && forallb nn_t brs && nodup_pos (flat_map alpha_t brs) end.
Lemma nodup_flat_each (brs:list stree) : NoDup (flat_map alpha_t brs) -> Forall (fun b => NoDup (alpha_t b)) brs.
Proof. induction brs as [|b r IH]; simpl; intros ND; constructor; [eapply NoDup_app_l; eauto|apply IH; eapply NoDup_app_r; eauto]. Qed.
Lemma good_slot x : c02_ok x = true -> GoodSlot x.
Proof.
  destruct x as [t|mn brs]; simpl; intros H.
  - apply andb_true_iff in H as [W N]. intros w n L. destruct (C02_seq_ids t W (nodup_pos_NoDup _ N) w n L) as (s & E & R & Nm).
    exists (SPlain s). simpl. rewrite saddw_plain, E. auto.
  - apply andb_true_iff in H as [H N]. apply andb_true_iff in H as [H NN]. apply andb_true_iff in H as [M W]. apply Nat.leb_le in M.
    pose proof (nodup_pos_NoDup _ N) as ND. apply choice_good; auto.
    pose proof (nodup_flat_each brs ND) as Each. rewrite forallb_forall in W. apply Forall_forall. intros b Ib.
    apply C02_seq_ids; [apply W; auto|]. rewrite Forall_forall in Each. apply Each; auto.
Qed.
(* feeding a word through the machine = caddw on the slots; every add succeeds *)
Fixpoint couts (s:cmst) (ops:list mop) : list mout := match ops with [] => [] | o :: r => snd (cstep s o) :: couts (fst (cstep s o)) r end.
Lemma cmrun_adds w : forall s s', caddw w (cnext s) (ctree s) = Some s' ->
  ctree (fold_left (fun s o => fst (cstep s o)) (map MAdd w) s) = s' /\
  map snd (cins (fold_left (fun s o => fst (cstep s o)) (map MAdd w) s)) = map snd (cins s) ++ w /\
  Forall (fun o => o = MOk) (couts s (map MAdd w)).
Proof.
  induction w as [|a w IH]; intros s s' E; simpl in *.
  - injection E as <-. rewrite app_nil_r. auto.
  - destruct (cadd (cnext s) a (ctree s)) as [t1|] eqn:E1; [|discriminate]. simpl.
    destruct (IH (mkC t1 (cins s ++ [(cnext s, a)]) (S (cnext s))) s' E) as (A & B & D). split; [|split]; auto.
    rewrite B. simpl. rewrite map_app. simpl. rewrite <- app_assoc. auto.
Qed.
(* C02 on the choice machine *)
Theorem C02_cmachine_ids t w : wf_ct t = true -> forallb c02_ok t = true -> NoDup (alpha_c t) -> Lang (re_of_c t) w ->
  exists s', caddw w 0 (cinit t) = Some s' /\ crequired s' = [] /\ cordered s' = tagged 0 w.
Proof.
  intros W G ND L. apply lang_c_split in L as (ws & -> & F).
  assert (GS: Forall GoodSlot t) by (apply Forall_forall; intros x Ix; apply good_slot; rewrite forallb_forall in G; auto).
  apply (slots_lemma t GS W ND ws 0 F).
Qed.
Theorem C02_cmachine t w : wf_ct t = true -> forallb c02_ok t = true -> NoDup (alpha_c t) -> Lang (re_of_c t) w ->
  Forall (fun o => o = MOk) (couts (cminit t) (map MAdd w)) /\ cverdict_ok (cmrun t (map MAdd w)) = true /\
  names (cordered (ctree (cmrun t (map MAdd w)))) = w /\ map snd (cins (cmrun t (map MAdd w))) = w.
Proof.
  intros W G ND L. destruct (C02_cmachine_ids t w W G ND L) as (s' & E & R & N).
  destruct (cmrun_adds w (cminit t) s' E) as (A & B & D). unfold cmrun. rewrite A. repeat split; auto.
  - unfold cverdict_ok. rewrite A, R. reflexivity.
  - rewrite N. apply names_tagged.
Qed.
Lemma is_cseq_nodup p t : is_cseq p = true -> slots_of p = Some t -> wf_ct t = true /\ NoDup (alpha_c t).
Proof.
  unfold is_cseq. intros H E. rewrite E in H. apply andb_true_iff in H as [H _]. apply andb_true_iff in H as [H N]. apply andb_true_iff in H as [W _].
  split; auto. apply nodup_pos_NoDup; auto.
Qed.
(* re-feeding what a passing final check serialises reproduces it *)
Theorem crefeed_stable t ops : wf_ct t = true -> forallb c02_ok t = true -> NoDup (alpha_c t) -> cverdict_ok (cmrun t ops) = true ->
  let w := names (cordered (ctree (cmrun t ops))) in
  names (cordered (ctree (cmrun t (map MAdd w)))) = w /\ cverdict_ok (cmrun t (map MAdd w)) = true /\ Forall (fun o => o = MOk) (couts (cminit t) (map MAdd w)).
Proof.
  intros W G ND V w. pose proof (C01_cmachine t ops W V) as L. fold w in L.
  destruct (C02_cmachine t w W G ND L) as (A & B & C & _). auto.
Qed.
