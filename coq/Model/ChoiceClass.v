(* Which particles are choice-machine templates (slots_of / is_cseq), and the proof that the machine's regular expression
   (re_of_c) denotes the language of the particle (re_of). *)
From MX Require Import Spec.Particle Spec.Deriv Spec.Equiv Model.AbsSeq Model.AbsSeqC02 Model.Classes Model.SeqMachine Model.ChoiceSeq.
From Coq Require Import Arith.

Definition branch_t_ok (b:stree) : bool := match b with SLeaf _ 1 (Some 1) => true | SNode false _ => true | _ => false end.
Fixpoint slots_of (p:particle) : option ctemplate :=
  match p with
  | PElem s mn mx => Some [CPlain (SLeaf s mn mx)]
  | PChoice mn (Some 1) l =>
      if Nat.leb mn 1 then
        match all_some (map stree_of l) with
        | Some brs => if forallb branch_t_ok brs then Some [CChoice mn brs] else None
        | None => None end
      else None
  | PChoice _ _ _ => None
  | PSeq mn mx l | PGroup _ mn mx l =>
      match mn, mx with
      | 1, Some 1 => match all_some (map stree_of l) with
                     | Some kids => Some [CPlain (SNode false kids)]
                     | None => option_map (@concat cslot) (all_some (map slots_of l)) end
      | 0, Some 1 => option_map (fun kids => [CPlain (SNode true kids)]) (all_some (map stree_of l))
      | _, _ => None end
  end.
Definition alpha_slot (x:cslot) : list positive := match x with CPlain t => alpha_t t | CChoice _ brs => flat_map alpha_t brs end.
Definition alpha_c (t:ctemplate) : list positive := flat_map alpha_slot t.
Definition wf_slot_t (x:cslot) : bool := match x with CPlain t => wf_t t && opt_req_max1 false t | CChoice _ brs => forallb wf_t brs && forallb (opt_req_max1 false) brs end.
Definition has_choice (t:ctemplate) : bool := existsb (fun x => match x with CChoice _ _ => true | _ => false end) t.
(* the class: slots recognised, every choice-free part well-formed, leaf names pairwise distinct, at least one choice (otherwise it is is_seq) *)
Definition is_cseq (p:particle) : bool :=
  match slots_of p with
  | Some t => wf_ct t && forallb wf_slot_t t && nodup_pos (alpha_c t) && has_choice t
  | None => false end.

Lemma re_of_c_app t1 t2 w : Lang (re_of_c (t1 ++ t2)) w <-> Lang (Cat (re_of_c t1) (re_of_c t2)) w.
Proof.
  revert w. induction t1 as [|x r IH]; intros w; simpl.
  - split. + intros H. exists [], w. auto. + intros (u & v & -> & -> & H). auto.
  - split.
    + intros (u & v & -> & Hu & Hv). apply IH in Hv. destruct Hv as (v1 & v2 & -> & H1 & H2).
      exists (u ++ v1), v2. rewrite app_assoc. repeat split; auto. exists u, v1. auto.
    + intros (u & v & -> & (u1 & u2 & -> & H1 & H2) & Hv). exists u1, (u2 ++ v). rewrite app_assoc. repeat split; auto.
      apply IH. exists u2, v. auto.
Qed.
Lemma re_of_c_concat (ts:list ctemplate) (rs:list re) : Forall2 (fun t r => forall w, Lang (re_of_c t) w <-> Lang r w) ts rs ->
  forall w, Lang (re_of_c (concat ts)) w <-> Lang (fold_right Cat Eps rs) w.
Proof.
  induction 1 as [|t r ts rs Htr Hl IH]; intros w; simpl; [tauto|].
  rewrite re_of_c_app. simpl. split; intros (u & v & E & A & B); exists u, v; repeat split; auto; try apply Htr; try apply IH; auto.
Qed.
Lemma alts_fold (l:list re) w : Lang (alts l) w <-> Lang (fold_right Alt Void l) w.
Proof.
  revert w. induction l as [|a l IH]; intros w; simpl; [tauto|].
  destruct l as [|b l]; [simpl; tauto|]. change (Lang a w \/ Lang (alts (b :: l)) w <-> Lang a w \/ Lang (fold_right Alt Void (b :: l)) w).
  rewrite IH. tauto.
Qed.
Lemma alt_congr (l1 l2:list re) : Forall2 (fun a b => forall w, Lang a w <-> Lang b w) l1 l2 ->
  forall w, Lang (fold_right Alt Void l1) w <-> Lang (fold_right Alt Void l2) w.
Proof. induction 1 as [|a b l1 l2 Hab Hl IH]; intros w; simpl; [tauto|]. rewrite Hab, IH. tauto. Qed.
Lemma alt_of_map brs : alt_of brs = fold_right Alt Void (map re_of_s brs).
Proof. unfold alt_of. induction brs; simpl; congruence. Qed.
Lemma plain_slot t w : Lang (re_of_c [CPlain t]) w <-> Lang (re_of_s t) w.
Proof. simpl. split. - intros (u & v & -> & H & ->). rewrite app_nil_r. auto. - intros H. exists w, []. rewrite app_nil_r. auto. Qed.
Lemma one_slot x w : Lang (re_of_c [x]) w <-> Lang (re_of_slot x) w.
Proof. simpl. split. - intros (u & v & -> & H & ->). rewrite app_nil_r. auto. - intros H. exists w, []. rewrite app_nil_r. auto. Qed.

Theorem slots_of_lang p : forall t, slots_of p = Some t -> forall w, Lang (re_of p) w <-> Lang (re_of_c t) w.
Proof.
  induction p using particle_ind2; intros t E.
  - simpl in E. injection E as <-. intros w. rewrite plain_slot. apply (stree_of_lang (PElem s mn mx) _ eq_refl).
  - (* sequence *)
    simpl in E. destruct mn as [|[|mn]]; try discriminate; destruct mx as [[|[|m]]|]; try discriminate.
    + destruct (all_some (map stree_of l)) as [kids|] eqn:Ek; [|discriminate]. injection E as <-. intros w. rewrite plain_slot.
      apply (stree_of_lang (PSeq 0 (Some 1) l)). simpl. rewrite Ek. reflexivity.
    + destruct (all_some (map stree_of l)) as [kids|] eqn:Ek.
      * injection E as <-. intros w. rewrite plain_slot. apply (stree_of_lang (PSeq 1 (Some 1) l)). simpl. rewrite Ek. reflexivity.
      * destruct (all_some (map slots_of l)) as [ts|] eqn:Es; [|discriminate]. injection E as <-. intros w.
        cbn [re_of]. unfold wrap. rewrite cats_fold. symmetry. apply re_of_c_concat.
        apply all_some_Forall2 in Es. clear -H Es. revert ts Es. induction H as [|x l Hx Hl IH]; intros ts Es; inversion Es; subst; simpl; constructor; auto.
        intros w. symmetry. apply Hx; auto.
  - (* choice *)
    simpl in E. destruct mx as [[|[|m]]|]; try discriminate. destruct (Nat.leb mn 1) eqn:Lm; [|discriminate].
    destruct (all_some (map stree_of l)) as [brs|] eqn:Eb; [|discriminate]. destruct (forallb branch_t_ok brs); [|discriminate]. injection E as <-.
    assert (A: forall w, Lang (alts (map re_of l)) w <-> Lang (alt_of brs) w).
    { intros w. rewrite alts_fold, alt_of_map. apply alt_congr. apply all_some_Forall2 in Eb. clear -Eb.
      induction Eb as [|x b l brs Hxb Hl IH]; simpl; constructor; auto. intros w. apply stree_of_lang; auto. }
    intros w. rewrite one_slot. cbn [re_of re_of_slot]. apply Nat.leb_le in Lm. destruct mn as [|[|mn]]; try lia; simpl Nat.eqb; cbv iota.
    + rewrite wrap_rep. apply rep_congr. exact A.
    + unfold wrap. apply A.
  - (* group: as sequence *)
    simpl in E. destruct mn as [|[|mn]]; try discriminate; destruct mx as [[|[|m]]|]; try discriminate.
    + destruct (all_some (map stree_of l)) as [kids|] eqn:Ek; [|discriminate]. injection E as <-. intros w. rewrite plain_slot.
      apply (stree_of_lang (PGroup g 0 (Some 1) l)). simpl. rewrite Ek. reflexivity.
    + destruct (all_some (map stree_of l)) as [kids|] eqn:Ek.
      * injection E as <-. intros w. rewrite plain_slot. apply (stree_of_lang (PGroup g 1 (Some 1) l)). simpl. rewrite Ek. reflexivity.
      * destruct (all_some (map slots_of l)) as [ts|] eqn:Es; [|discriminate]. injection E as <-. intros w.
        cbn [re_of]. unfold wrap. rewrite cats_fold. symmetry. apply re_of_c_concat.
        apply all_some_Forall2 in Es. clear -H Es. revert ts Es. induction H as [|x l Hx Hl IH]; intros ts Es; inversion Es; subst; simpl; constructor; auto.
        intros w. symmetry. apply Hx; auto.
Qed.
Lemma is_cseq_parts p : is_cseq p = true -> exists t, slots_of p = Some t /\ wf_ct t = true.
Proof.
  unfold is_cseq. destruct (slots_of p) as [t|]; [|discriminate]. intros H. exists t. split; auto.
  apply andb_true_iff in H as [H _]. apply andb_true_iff in H as [H _]. apply andb_true_iff in H as [H _]. exact H.
Qed.
