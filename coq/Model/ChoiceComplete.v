(* C07 on the choice machine: every reachable state can be completed by further adds that are ALL accepted. *)
From MX Require Import Spec.Particle Spec.Deriv Model.AbsSeq Model.AbsSeqC02 Model.Classes Model.SeqMachine Model.SeqComplete Model.ChoiceSeq Model.ChoiceClass Model.ChoiceC02.
From Coq Require Import Arith Lia.

Definition CompletableSlot (x:slot) : Prop := forall n, exists ext x', saddw ext n x = Some x' /\ required_slot x' = [] /\ incl ext (alpha_st x).
(* an empty branch that cannot be empty still requires something *)
Lemma nn_required s : nn_t (shape s) = true -> nonempty s = false -> required true s <> [].
Proof.
  induction s using sst_ind2; simpl; intros N E.
  - apply Nat.ltb_lt in N. destruct it; [|discriminate]. simpl. destruct mn; [lia|]. simpl. discriminate.
  - apply andb_true_iff in N as [No Nk]. apply negb_true_iff in No. subst o. simpl.
    rewrite existsb_exists in Nk. destruct Nk as (t & It & Nt). apply in_map_iff in It as (x & <- & Ix).
    assert (Ex: nonempty x = false).
    { clear -E Ix. induction k as [|y k IH]; [destruct Ix|]. simpl in E. apply orb_false_iff in E as [E1 E2]. destruct Ix as [<-|Ix]; auto. }
    rewrite Forall_forall in H. specialize (H x Ix Nt Ex). intros F. apply H.
    clear -F Ix. induction k as [|y k IH]; [destruct Ix|]. simpl in F. apply app_eq_nil in F as [F1 F2]. destruct Ix as [<-|Ix]; auto.
Qed.
Lemma incl_nth_flat (brs:list sst) i b l : nth_error brs i = Some b -> incl l (alpha b) -> incl l (flat_map alpha brs).
Proof. intros E I a Ha. apply in_flat_map. exists b. split; [eapply nth_error_In; eauto|auto]. Qed.
Lemma wf_s_forall brs : forallb wf_t (map shape brs) = true -> forall b, In b brs -> wf_s b = true.
Proof. intros W b Ib. rewrite wf_s_shape. rewrite forallb_forall in W. apply W. apply in_map; auto. Qed.
Lemma nodup_flat_alpha_each (brs:list sst) : NoDup (flat_map alpha brs) -> forall b, In b brs -> NoDup (alpha b).
Proof. induction brs as [|x r IH]; simpl; intros ND b Ib; [destruct Ib|]. destruct Ib as [<-|Ib]; [eapply NoDup_app_l; eauto|apply IH; auto; eapply NoDup_app_r; eauto]. Qed.

Definition slot_ok (x:slot) : Prop :=
  match x with
  | SPlain s => wf_s s = true /\ NoDup (alpha s)
  | SChoice mn d ch brs => forallb wf_t (map shape brs) = true /\ forallb nn_t (map shape brs) = true /\ NoDup (flat_map alpha brs) /\ brs <> [] end.
Lemma slot_completable x : SInv x -> slot_ok x -> CompletableSlot x.
Proof.
  destruct x as [s|mn d [i|] brs]; simpl; intros I K n.
  - destruct K as [W ND]. destruct (all_completable s ND I W true n) as (ext & s' & E & R & In').
    exists ext, (SPlain s'). rewrite saddw_plain, E. auto.
  - destruct I as (FI & BO & O & B). destruct K as (W & NN & ND & NE).
    destruct (nth_error brs i) as [b|] eqn:Eb; [|exfalso; apply nth_error_None in Eb; specialize (B i eq_refl); lia].
    assert (Ib: In b brs) by (eapply nth_error_In; eauto).
    destruct (all_completable b (nodup_flat_alpha_each brs ND b Ib) (proj1 (Forall_forall _ _) FI b Ib) (wf_s_forall brs W b Ib) true n) as (ext & b' & E & R & In').
    destruct (saddw_chosen ext n mn d i brs b b' Eb E) as (brs' & Es & N' & _).
    exists ext, (SChoice mn d (Some i) brs'). split; [exact Es|]. split; [simpl; rewrite N'; exact R|]. eapply incl_nth_flat; eauto.
  - destruct I as (FI & BO & O & B). destruct K as (W & NN & ND & NE).
    destruct (negb (Nat.eqb mn 0) || d) eqn:Dm.
    + destruct brs as [|b0 r]; [contradiction|].
      assert (I0: Inv b0) by (inversion FI; auto).
      assert (ND0: NoDup (alpha b0)) by (apply (nodup_flat_alpha_each (b0 :: r) ND); left; auto).
      assert (W0: wf_s b0 = true) by (apply (wf_s_forall (b0 :: r) W); left; auto).
      destruct (all_completable b0 ND0 I0 W0 true n) as (ext & b0' & E & R & In').
      destruct ext as [|a ext'].
      { exfalso. simpl in E. injection E as <-. simpl in NN. apply andb_true_iff in NN as [N0 _].
        apply (nn_required b0 N0); auto. apply (O 0 b0 eq_refl). discriminate. }
      simpl in E. destruct (add n a b0) as [b1|] eqn:E1; [|discriminate].
      destruct (add_first_hit n a 0 (b0 :: r) b0 b1 eq_refl E1) as (brs1 & Ef & N1 & _). { intros j bj Hj; lia. }
      destruct (saddw_chosen ext' (S n) mn d 0 brs1 b1 b0' N1 E) as (brs' & Es & N' & _).
      exists (a :: ext'), (SChoice mn d (Some 0) brs'). split; [|split].
      * cbn [saddw add_slot]. rewrite Ef. cbn [option_map fst snd]. exact Es.
      * cbn [required_slot]. rewrite N'. exact R.
      * intros x Hx. simpl. apply in_or_app. left. auto.
    + exists [], (SChoice mn d None brs). simpl. rewrite Dm. repeat split; auto. intros x [].
Qed.
Definition cst_ok (s:cst) : Prop := Forall slot_ok s /\ NoDup (flat_map alpha_st s).
Lemma slot_ok_shape x x' : shape_slot x' = shape_slot x -> slot_ok x -> slot_ok x'.
Proof.
  destruct x as [s|mn d ch brs], x' as [s'|mn' d' ch' brs']; simpl; intros E K; try discriminate.
  - injection E as E. rewrite wf_s_shape, alpha_shape, E, <- wf_s_shape, <- alpha_shape. exact K.
  - injection E as _ E. destruct K as (W & NN & ND & NE). rewrite E. rewrite (flat_alpha_shape brs brs' E). repeat split; auto.
    intros ->. destruct brs; [contradiction|discriminate].
Qed.
Lemma cst_completable s : CInv s -> cst_ok s -> forall n, exists ext s', caddw ext n s = Some s' /\ crequired s' = [].
Proof.
  induction s as [|x r IH]; intros I [K ND] n.
  - exists [], []. auto.
  - inversion I as [|? ? Ix Ir]; subst. inversion K as [|? ? Kx Kr]; subst. simpl in ND.
    pose proof (NoDup_app_disj _ _ ND) as Dis. pose proof (NoDup_app_r _ _ ND) as ND'.
    destruct (slot_completable x Ix Kx n) as (e1 & x' & E1 & R1 & In1).
    destruct (saddw_ok _ _ _ _ E1 Ix) as [Ix' Sx'].
    destruct (IH Ir (conj Kr ND') (n + length e1)) as (e2 & r' & E2 & R2).
    (* the second completion uses only names of the remaining slots: re-derive it with that information *)
    assert (G: forall r0, CInv r0 -> cst_ok r0 -> forall m, exists ext s', caddw ext m r0 = Some s' /\ crequired s' = [] /\ incl ext (flat_map alpha_st r0)).
    { clear. induction r0 as [|y r0 IHr]; intros I [K ND] m.
      - exists [], []. repeat split; auto. intros a [].
      - inversion I as [|? ? Iy Ir]; subst. inversion K as [|? ? Ky Kr]; subst. simpl in ND.
        pose proof (NoDup_app_disj _ _ ND) as Dis. pose proof (NoDup_app_r _ _ ND) as ND'.
        destruct (slot_completable y Iy Ky m) as (e1 & y' & E1 & R1 & In1). destruct (saddw_ok _ _ _ _ E1 Iy) as [Iy' Sy'].
        destruct (IHr Ir (conj Kr ND') (m + length e1)) as (e2 & r' & E2 & R2 & In2).
        exists (e1 ++ e2), (y' :: r'). rewrite caddw_app, caddw_head, E1. rewrite caddw_skip; auto.
        + rewrite E2. simpl. repeat split; auto.
          * unfold crequired in *. simpl. rewrite R1, R2. reflexivity.
          * simpl. apply incl_app; [apply incl_appl; auto|apply incl_appr; auto].
        + intros a Ha. rewrite (alpha_st_shape y y' Sy'). intros Hy. apply (Dis a Hy). apply In2. auto. }
    clear e2 r' E2 R2. destruct (G r Ir (conj Kr ND') (n + length e1)) as (e2 & r' & E2 & R2 & In2).
    exists (e1 ++ e2), (x' :: r'). rewrite caddw_app, caddw_head, E1. rewrite caddw_skip; auto.
    + rewrite E2. simpl. split; auto. unfold crequired in *. simpl. rewrite R1, R2. reflexivity.
    + intros a Ha. rewrite (alpha_st_shape x x' Sx'). intros Hx. apply (Dis a Hx). apply In2. auto.
Qed.
(* the static conditions on the template that make every reachable state satisfy cst_ok *)
Definition c07_ok (x:cslot) : bool :=
  match x with CPlain t => wf_t t | CChoice mn brs => forallb wf_t brs && forallb nn_t brs && negb (match brs with [] => true | _ => false end) end.
Lemma cst_ok_of_shape s t : cshape s = t -> forallb c07_ok t = true -> NoDup (alpha_c t) -> cst_ok s.
Proof.
  intros <- K ND. split.
  - apply Forall_forall. intros x Ix. rewrite forallb_forall in K. specialize (K (shape_slot x) (in_map _ _ _ Ix)).
    destruct x as [s0|mn d ch brs]; simpl in *.
    + split; [rewrite wf_s_shape; auto|].
      assert (Sub: forall (l:cst), In (SPlain s0) l -> NoDup (flat_map alpha_slot (cshape l)) -> NoDup (alpha s0)).
      { clear. induction l as [|y l IH]; intros I ND; [destruct I|]. destruct I as [->|I]; simpl in ND.
        - rewrite alpha_shape. eapply NoDup_app_l; eauto.
        - apply IH; auto. eapply NoDup_app_r; eauto. }
      apply (Sub s); auto.
    + apply andb_true_iff in K as [K NE]. apply andb_true_iff in K as [W NN]. repeat split; auto.
      * assert (Sub: forall (l:cst), In (SChoice mn d ch brs) l -> NoDup (flat_map alpha_slot (cshape l)) -> NoDup (flat_map alpha brs)).
        { clear. induction l as [|y l IH]; intros I ND; [destruct I|]. destruct I as [->|I]; simpl in ND.
          - assert (E: flat_map alpha brs = flat_map alpha_t (map shape brs)) by (clear; induction brs as [|b r IHb]; simpl; auto; rewrite alpha_shape, IHb; reflexivity).
            rewrite E. eapply NoDup_app_l; eauto.
          - apply IH; auto. eapply NoDup_app_r; eauto. }
        apply (Sub s); auto.
      * intros ->. simpl in NE. discriminate.
  - assert (E: flat_map alpha_st s = alpha_c (cshape s)).
    { unfold alpha_c, cshape. clear. induction s as [|x r IH]; simpl; auto. rewrite IH. f_equal.
      destruct x as [s0|mn d ch brs]; simpl; [apply alpha_shape|]. clear. induction brs as [|b r IHb]; simpl; auto. rewrite alpha_shape, IHb. reflexivity. }
    rewrite E. exact ND.
Qed.
Theorem C07_cmachine t ops : wf_ct t = true -> forallb c07_ok t = true -> NoDup (alpha_c t) ->
  exists ext, Forall (fun o => o = MOk) (couts (cmrun t ops) (map MAdd ext)) /\
              cverdict_ok (fold_left (fun s o => fst (cstep s o)) (map MAdd ext) (cmrun t ops)) = true.
Proof.
  intros W K ND. destruct (cmrun_inv t ops W) as (I & Sh & _).
  destruct (cst_completable (ctree (cmrun t ops)) I (cst_ok_of_shape _ t Sh K ND) (cnext (cmrun t ops))) as (ext & s' & E & R).
  exists ext. destruct (cmrun_adds ext (cmrun t ops) s' E) as (A & _ & D). split; auto. unfold cverdict_ok. rewrite A, R. reflexivity.
Qed.
