(* C12(a) on the choice machine: insertion order does not matter.  For every template of the choice class with pairwise distinct
   leaf names: if the children of a word are accepted in the word's own order, they are accepted in EVERY order, serialise in the
   word's order and pass the final check.  Method: (1) adding children of two different names commutes, on choice-free states
   (add_comm), inside the chosen branch (add_nth_comm), when the first of the two chooses the branch (slot_comm) and across
   slots (cadd_comm); (2) with child identities erased (strip) children of the same name are interchangeable, so the final state
   reached by a permutation is LITERALLY the same; (3) views and verdict do not depend on the identities. *)
From MX Require Import Spec.Particle Spec.Deriv Model.AbsSeq Model.AbsSeqC02 Model.Classes Model.SeqMachine Model.SeqIds Model.ChoiceSeq
  Model.ChoiceClass Model.ChoiceC02.
From Coq Require Import Arith Lia Permutation.

(* ---- whether a state takes another child of a given name ---- *)
Fixpoint can_add (a:positive) (s:sst) : bool :=
  match s with LeafS b _ mx it => Pos.eqb a b && negb (full mx (length it)) | NodeS _ _ k => existsb (can_add a) k end.
Lemma add_list_none_iff c a k : Forall (fun s => add c a s = None <-> can_add a s = false) k ->
  (add_list c a k = None <-> existsb (can_add a) k = false).
Proof.
  induction 1 as [|x k Hx Hk IH]; simpl; [tauto|]. rewrite orb_false_iff. destruct (add c a x) as [x'|] eqn:E.
  - split; [discriminate|]. intros [A _]. apply Hx in A. discriminate.
  - destruct (add_list c a k); simpl; split; intros H; try discriminate.
    + destruct H as [_ B]. apply IH in B. discriminate.
    + split; [apply Hx; auto|apply IH; auto].
    + auto.
Qed.
Lemma add_none_iff c a s : add c a s = None <-> can_add a s = false.
Proof.
  induction s using sst_ind2.
  - simpl. destruct (Pos.eqb a s && negb (full mx (length it)))%bool; split; intros; auto; discriminate.
  - rewrite add_node. cbn [can_add]. rewrite <- (add_list_none_iff c a k H). destruct (add_list c a k); split; intros; auto; discriminate.
Qed.
(* adding a child of another name does not change it *)
Lemma can_add_after c y x : x <> y -> forall s s', add c y s = Some s' -> can_add x s' = can_add x s.
Proof.
  intros Ne. induction s using sst_ind2; intros s' E.
  - simpl in E. destruct (Pos.eqb y s && negb (full mx (length it)))%bool eqn:B; [|discriminate]. injection E as <-.
    apply andb_true_iff in B as [B _]. apply Pos.eqb_eq in B. subst s. simpl.
    destruct (Pos.eqb_spec x y); [contradiction|reflexivity].
  - rewrite add_node in E. destruct (add_list c y k) as [k'|] eqn:EL; [|discriminate]. injection E as <-. cbn [can_add].
    revert k' EL. induction H as [|h r Hh Hr IH]; intros k' EL; simpl in EL; [discriminate|].
    destruct (add c y h) as [h'|] eqn:Eh.
    + injection EL as <-. simpl. rewrite (Hh h' eq_refl). reflexivity.
    + destruct (add_list c y r) as [r'|]; [|discriminate]. injection EL as <-. simpl. rewrite (IH r' eq_refl). reflexivity.
Qed.

(* ---- (1) two children of different names can be added in either order, with the same result ---- *)
Lemma add_comm c d x y : x <> y -> forall s s1 s2, add c y s = Some s1 -> add d x s1 = Some s2 ->
  exists t1, add d x s = Some t1 /\ add c y t1 = Some s2.
Proof.
  intros Ne. induction s using sst_ind2; intros s1 s2 E1 E2.
  - simpl in E1. destruct (Pos.eqb y s && negb (full mx (length it)))%bool eqn:B; [|discriminate]. injection E1 as <-.
    apply andb_true_iff in B as [B _]. apply Pos.eqb_eq in B. subst s. simpl in E2.
    destruct (Pos.eqb_spec x y); [contradiction|discriminate].
  - rewrite add_node in E1. destruct (add_list c y k) as [k1|] eqn:L1; [|discriminate]. injection E1 as <-.
    rewrite add_node in E2. destruct (add_list d x k1) as [k2|] eqn:L2; [|discriminate]. injection E2 as <-.
    assert (G: exists t, add_list d x k = Some t /\ add_list c y t = Some k2).
    { clear a o. revert k1 k2 L1 L2. induction H as [|h r Hh Hr IH]; intros k1 k2 L1 L2; simpl in L1; [discriminate|].
      destruct (add c y h) as [h1|] eqn:Eh.
      - injection L1 as <-. simpl in L2. destruct (add d x h1) as [h2|] eqn:Eh2.
        + injection L2 as <-. destruct (Hh h1 h2 eq_refl Eh2) as (g & G1 & G2). exists (g :: r). simpl. rewrite G1, G2. auto.
        + destruct (add_list d x r) as [r2|] eqn:Er; [|discriminate]. injection L2 as <-.
          assert (N: add d x h = None).
          { apply add_none_iff. rewrite <- (can_add_after c y x Ne h h1 Eh). apply add_none_iff with (c:=d). exact Eh2. }
          exists (h :: r2). simpl. rewrite N, Er, Eh. auto.
      - destruct (add_list c y r) as [r1|] eqn:Er1; [|discriminate]. injection L1 as <-. simpl in L2.
        destruct (add d x h) as [h2|] eqn:Eh2.
        + injection L2 as <-.
          assert (N: add c y h2 = None).
          { apply add_none_iff. rewrite (can_add_after d x y (fun e => Ne (eq_sym e)) h h2 Eh2). apply add_none_iff with (c:=c). exact Eh. }
          exists (h2 :: r). simpl. rewrite Eh2, N, Er1. auto.
        + destruct (add_list d x r1) as [r2|] eqn:Er2; [|discriminate]. injection L2 as <-.
          destruct (IH r1 r2 eq_refl Er2) as (t & T1 & T2). exists (h :: t). simpl. rewrite Eh2, T1, Eh, T2. auto. }
    destruct G as (t & T1 & T2). exists (NodeS o true t). rewrite !add_node, T1, T2. auto.
Qed.
Lemma add_nth_comm c d x y : x <> y -> forall i brs b1 b2, add_nth c y i brs = Some b1 -> add_nth d x i b1 = Some b2 ->
  exists g, add_nth d x i brs = Some g /\ add_nth c y i g = Some b2.
Proof.
  intros Ne. induction i as [|i IH]; intros [|h r] b1 b2 E1 E2; simpl in E1; try discriminate.
  - destruct (add c y h) as [h1|] eqn:Eh; [|discriminate]. injection E1 as <-. simpl in E2.
    destruct (add d x h1) as [h2|] eqn:Eh2; [|discriminate]. injection E2 as <-.
    destruct (add_comm c d x y Ne h h1 h2 Eh Eh2) as (g & G1 & G2). exists (g :: r). simpl. rewrite G1, G2. auto.
  - destruct (add_nth c y i r) as [r1|] eqn:Er; [|discriminate]. injection E1 as <-. simpl in E2.
    destruct (add_nth d x i r1) as [r2|] eqn:Er2; [|discriminate]. injection E2 as <-.
    destruct (IH r r1 r2 Er Er2) as (g & G1 & G2). exists (h :: g). simpl. rewrite G1, G2. auto.
Qed.
Lemma add_nth_first c a : forall i brs g, add_nth c a i brs = Some g ->
  (forall j bj, j < i -> nth_error brs j = Some bj -> add c a bj = None) -> add_first c a brs = Some (i, g).
Proof.
  induction i as [|i IH]; intros [|h r] g E H; simpl in E; try discriminate.
  - destruct (add c a h) as [h1|] eqn:Eh; [|discriminate]. injection E as <-. simpl. rewrite Eh. reflexivity.
  - destruct (add_nth c a i r) as [r1|] eqn:Er; [|discriminate]. injection E as <-. simpl.
    rewrite (H 0 h) by (simpl; auto; lia). rewrite (IH r r1 Er); auto.
    intros j bj Hj Hn. apply (H (S j) bj); [lia|exact Hn].
Qed.
Lemma add_nth_in c a : forall i brs g, add_nth c a i brs = Some g -> exists b, nth_error brs i = Some b /\ In a (alpha b).
Proof.
  induction i as [|i IH]; intros [|h r] g E; simpl in E; try discriminate.
  - destruct (add c a h) as [h1|] eqn:Eh; [|discriminate]. exists h. split; auto.
    destruct (in_dec Pos.eq_dec a (alpha h)) as [I|NI]; auto. rewrite add_none in Eh; auto. discriminate.
  - destruct (add_nth c a i r) as [r1|] eqn:Er; [|discriminate]. apply (IH r r1 Er).
Qed.
Lemma NoDup_flat_disj_gen {A B} (f:A -> list B) (l:list A) : NoDup (flat_map f l) -> forall i j bi bj a, i < j ->
  nth_error l i = Some bi -> nth_error l j = Some bj -> In a (f bi) -> ~ In a (f bj).
Proof.
  induction l as [|x r IH]; intros ND i j bi bj a Lt Ei Ej Ia; [destruct i; discriminate|]. simpl in ND.
  destruct j as [|j]; [lia|]. destruct i as [|i]; simpl in *.
  - injection Ei as ->. intros Ib. apply (NoDup_app_disj _ _ ND a Ia). apply in_flat_map. exists bj. split; auto. eapply nth_error_In; eauto.
  - apply (IH (NoDup_app_r _ _ ND) i j bi bj a); auto. lia.
Qed.
Lemma slot_comm c d x y h : x <> y -> NoDup (alpha_st h) -> forall h1 h2, add_slot c y h = Some h1 -> add_slot d x h1 = Some h2 ->
  exists g, add_slot d x h = Some g /\ add_slot c y g = Some h2.
Proof.
  intros Ne ND h1 h2 E1 E2. destruct h as [s|mn dm [i|] brs]; simpl in E1.
  - destruct (add c y s) as [s1|] eqn:Es; [|discriminate]. injection E1 as <-. simpl in E2.
    destruct (add d x s1) as [s2|] eqn:Es2; [|discriminate]. injection E2 as <-.
    destruct (add_comm c d x y Ne s s1 s2 Es Es2) as (g & G1 & G2). exists (SPlain g). simpl. rewrite G1. simpl. rewrite G2. auto.
  - destruct (add_nth c y i brs) as [b1|] eqn:Eb; [|discriminate]. injection E1 as <-. simpl in E2.
    destruct (add_nth d x i b1) as [b2|] eqn:Eb2; [|discriminate]. injection E2 as <-.
    destruct (add_nth_comm c d x y Ne i brs b1 b2 Eb Eb2) as (g & G1 & G2). exists (SChoice mn dm (Some i) g). simpl. rewrite G1. simpl. rewrite G2. auto.
  - destruct (add_first c y brs) as [[i b1]|] eqn:Ef; [|discriminate]. injection E1 as <-. simpl in E2.
    destruct (add_nth d x i b1) as [b2|] eqn:Eb2; [|discriminate]. injection E2 as <-.
    pose proof (add_first_is_nth c y brs i b1 Ef) as Eb.
    destruct (add_nth_comm c d x y Ne i brs b1 b2 Eb Eb2) as (g & G1 & G2).
    destruct (add_nth_in d x i brs g G1) as (bi & Ei & Ix).
    assert (F: add_first d x brs = Some (i, g)).
    { apply add_nth_first; auto. intros j bj Hj Hn. apply add_none. simpl in ND.
      intros Ij. apply (NoDup_flat_disj_gen alpha brs ND j i bj bi x Hj Hn Ei Ij Ix). }
    exists (SChoice mn dm (Some i) g). simpl. rewrite F. simpl. rewrite G2. auto.
Qed.

(* ---- across slots ---- *)
Lemma cadd_none c a : forall s, ~ In a (flat_map alpha_st s) -> cadd c a s = None.
Proof.
  induction s as [|x r IH]; simpl; intros H; auto.
  rewrite add_slot_none by (intros I; apply H; apply in_or_app; auto). rewrite IH; auto. intros I. apply H. apply in_or_app. auto.
Qed.
Lemma cadd_in c a s s' : cadd c a s = Some s' -> In a (flat_map alpha_st s).
Proof. intros E. destruct (in_dec Pos.eq_dec a (flat_map alpha_st s)) as [I|NI]; auto. rewrite cadd_none in E; auto. discriminate. Qed.
Lemma add_slot_in c a x x' : add_slot c a x = Some x' -> In a (alpha_st x).
Proof. intros E. destruct (in_dec Pos.eq_dec a (alpha_st x)) as [I|NI]; auto. rewrite add_slot_none in E; auto. discriminate. Qed.
Lemma alpha_cshape s : forall s', cshape s' = cshape s -> flat_map alpha_st s' = flat_map alpha_st s.
Proof.
  induction s as [|x r IH]; intros [|x' r'] E; simpl in *; try discriminate; auto.
  injection E as E1 E2. rewrite (alpha_st_shape x x' E1), (IH r' E2). reflexivity.
Qed.
Lemma cadd_comm c d x y : x <> y -> forall s, CInv s -> NoDup (flat_map alpha_st s) -> forall s1 s2, cadd c y s = Some s1 -> cadd d x s1 = Some s2 ->
  exists t1, cadd d x s = Some t1 /\ cadd c y t1 = Some s2.
Proof.
  intros Ne. induction s as [|h r IH]; intros I ND s1 s2 E1 E2; simpl in E1; [discriminate|].
  inversion I as [|? ? Ih Ir]; subst. simpl in ND. pose proof (NoDup_app_disj _ _ ND) as Dis.
  destruct (add_slot c y h) as [h1|] eqn:Eh.
  - injection E1 as <-. simpl in E2. destruct (add_slot d x h1) as [h2|] eqn:Eh2.
    + injection E2 as <-. destruct (slot_comm c d x y h Ne (NoDup_app_l _ _ ND) h1 h2 Eh Eh2) as (g & G1 & G2).
      exists (g :: r). simpl. rewrite G1, G2. auto.
    + destruct (cadd d x r) as [r2|] eqn:Er; [|discriminate]. injection E2 as <-.
      assert (N: add_slot d x h = None).
      { apply add_slot_none. intros Ix. apply (Dis x Ix). eapply cadd_in; eauto. }
      exists (h :: r2). simpl. rewrite N, Er, Eh. auto.
  - destruct (cadd c y r) as [r1|] eqn:Er1; [|discriminate]. injection E1 as <-. simpl in E2.
    destruct (add_slot d x h) as [h2|] eqn:Eh2.
    + injection E2 as <-.
      assert (N: add_slot c y h2 = None).
      { apply add_slot_none. destruct (add_slot_ok d x h h2 Eh2 Ih) as (_ & Sh & _). rewrite (alpha_st_shape h h2 Sh).
        intros Iy. apply (Dis y Iy). eapply cadd_in; eauto. }
      exists (h2 :: r). simpl. rewrite Eh2, N, Er1. auto.
    + destruct (cadd d x r1) as [r2|] eqn:Er2; [|discriminate]. injection E2 as <-.
      destruct (IH Ir (NoDup_app_r _ _ ND) r1 r2 eq_refl Er2) as (t & T1 & T2). exists (h :: t). simpl. rewrite Eh2, T1, Eh, T2. auto.
Qed.

(* ---- (2) identities erased ---- *)
Definition z0 (x:nat*positive) : nat*positive := (0, snd x).
Fixpoint strip (s:sst) : sst := match s with LeafS b mn mx it => LeafS b mn mx (map z0 it) | NodeS o a k => NodeS o a (map strip k) end.
Definition strip_slot (x:slot) : slot := match x with SPlain s => SPlain (strip s) | SChoice mn d ch brs => SChoice mn d ch (map strip brs) end.
Definition cstrip (s:cst) : cst := map strip_slot s.
Fixpoint caddz (w:list positive) (s:cst) : option cst :=
  match w with [] => Some s | a :: w' => match cadd 0 a s with Some s' => caddz w' s' | None => None end end.

Lemma add_strip c a s : option_map strip (add c a s) = add 0 a (strip s).
Proof.
  induction s using sst_ind2.
  - simpl. rewrite map_length. destruct (Pos.eqb a s && negb (full mx (length it)))%bool; simpl; auto. rewrite map_app. reflexivity.
  - cbn [strip]. rewrite !add_node.
    assert (G: option_map (map strip) (add_list c a k) = add_list 0 a (map strip k)).
    { induction H as [|h r Hh Hr IH]; simpl; auto. rewrite <- Hh. destruct (add c a h) as [h'|]; simpl; auto.
      rewrite <- IH. destruct (add_list c a r); simpl; auto. }
    rewrite <- G. destruct (add_list c a k); simpl; auto.
Qed.
Lemma add_nth_strip c a : forall i brs, option_map (map strip) (add_nth c a i brs) = add_nth 0 a i (map strip brs).
Proof.
  induction i as [|i IH]; intros [|h r]; simpl; auto.
  - rewrite <- (add_strip c a h). destruct (add c a h); simpl; auto.
  - rewrite <- IH. destruct (add_nth c a i r); simpl; auto.
Qed.
Lemma add_first_strip c a : forall brs, option_map (fun p => (fst p, map strip (snd p))) (add_first c a brs) = add_first 0 a (map strip brs).
Proof.
  induction brs as [|h r IH]; simpl; auto.
  rewrite <- (add_strip c a h). destruct (add c a h); simpl; auto. rewrite <- IH. destruct (add_first c a r) as [[j r']|]; simpl; auto.
Qed.
Lemma add_slot_strip c a x : option_map strip_slot (add_slot c a x) = add_slot 0 a (strip_slot x).
Proof.
  destruct x as [s|mn d [i|] brs]; simpl.
  - rewrite <- (add_strip c a s). destruct (add c a s); simpl; auto.
  - rewrite <- (add_nth_strip c a i brs). destruct (add_nth c a i brs); simpl; auto.
  - rewrite <- (add_first_strip c a brs). destruct (add_first c a brs) as [[j r']|]; simpl; auto.
Qed.
Lemma cadd_strip c a : forall s, option_map cstrip (cadd c a s) = cadd 0 a (cstrip s).
Proof.
  induction s as [|x r IH]; simpl; auto.
  rewrite <- (add_slot_strip c a x). destruct (add_slot c a x); simpl; auto. rewrite <- IH. destruct (cadd c a r); simpl; auto.
Qed.
Lemma caddw_strip w : forall n s s1, caddw w n s = Some s1 -> caddz w (cstrip s) = Some (cstrip s1).
Proof.
  induction w as [|a w IH]; intros n s s1 E; simpl in *; [injection E as <-; auto|].
  rewrite <- (cadd_strip n a s). destruct (cadd n a s) as [s'|]; [|discriminate]. simpl. eapply IH; eauto.
Qed.
Lemma caddz_unstrip w : forall n s z, caddz w (cstrip s) = Some z -> exists s2, caddw w n s = Some s2 /\ cstrip s2 = z.
Proof.
  induction w as [|a w IH]; intros n s z E; simpl in *; [injection E as <-; eauto|].
  rewrite <- (cadd_strip n a s) in E. destruct (cadd n a s) as [s'|]; [|discriminate]. simpl in E. eapply IH; eauto.
Qed.

(* ---- (3) views and verdict do not depend on the identities ---- *)
Lemma ordered_strip s : ordered (strip s) = map z0 (ordered s).
Proof.
  induction s using sst_ind2; simpl; auto. induction H as [|h r Hh Hr IH]; simpl; auto. rewrite map_app, Hh, IH. reflexivity.
Qed.
Lemma names_z0 l : names (map z0 l) = names l.
Proof. unfold names. rewrite map_map. apply map_ext. intros [c a]; reflexivity. Qed.
Lemma required_strip s : forall act, required act (strip s) = required act s.
Proof.
  induction s using sst_ind2; intros act; simpl; [rewrite map_length; reflexivity|].
  generalize (act && (negb o || a))%bool. intros b. induction H as [|h r Hh Hr IH]; simpl; auto. rewrite Hh, IH. reflexivity.
Qed.
Lemma cordered_strip s : names (cordered (cstrip s)) = names (cordered s).
Proof.
  unfold cordered. induction s as [|x r IH]; simpl; auto. unfold names in *. rewrite !map_app, IH. f_equal.
  destruct x as [t|mn d ch brs]; simpl.
  - rewrite ordered_strip. apply names_z0.
  - induction brs as [|b k IHk]; simpl; auto. rewrite !map_app, IHk, ordered_strip. f_equal. apply names_z0.
Qed.
Lemma crequired_strip s : crequired (cstrip s) = crequired s.
Proof.
  unfold crequired. induction s as [|x r IH]; simpl; auto. rewrite IH. f_equal.
  destruct x as [t|mn d [i|] brs]; simpl; auto.
  - apply required_strip.
  - rewrite nth_error_map. destruct (nth_error brs i); simpl; auto. apply required_strip.
Qed.
Lemma strip_init t : strip (init t) = init t.
Proof. induction t using stree_ind2; simpl; auto. f_equal. induction H as [|h r Hh Hr IH]; simpl; auto. rewrite Hh, IH. reflexivity. Qed.
Lemma cstrip_cinit t : cstrip (cinit t) = cinit t.
Proof.
  unfold cstrip, cinit. induction t as [|x r IH]; simpl; auto. rewrite IH. f_equal. destruct x as [t0|mn brs]; simpl; [rewrite strip_init; reflexivity|].
  f_equal. induction brs as [|b k IHk]; simpl; auto. rewrite strip_init, IHk. reflexivity.
Qed.

(* ---- the order of the additions does not matter ---- *)
Lemma caddz_perm l l' : Permutation l l' -> forall s s', CInv s -> NoDup (flat_map alpha_st s) -> caddz l s = Some s' -> caddz l' s = Some s'.
Proof.
  induction 1 as [|a l l' P IH|a b l|l1 l2 l3 P1 IH1 P2 IH2]; intros s s' I ND E; auto.
  - simpl in *. destruct (cadd 0 a s) as [s1|] eqn:E1; [|discriminate]. destruct (cadd_ok 0 a s s1 E1 I) as (I1 & Sh & _).
    apply IH; auto. rewrite (alpha_cshape s s1 Sh). exact ND.
  - simpl in *. destruct (cadd 0 b s) as [s1|] eqn:E1; [|discriminate]. destruct (cadd 0 a s1) as [s2|] eqn:E2; [|discriminate].
    destruct (Pos.eq_dec a b) as [->|Ne].
    + rewrite E1, E2. exact E.
    + destruct (cadd_comm 0 0 a b Ne s I ND s1 s2 E1 E2) as (t1 & T1 & T2). rewrite T1, T2. exact E.
Qed.
Lemma cinit_alpha t : flat_map alpha_st (cinit t) = alpha_c t.
Proof. apply alpha_c_cinit. Qed.

(* C12(a) on the choice machine *)
Theorem C12a_cmachine_ids t w p : wf_ct t = true -> forallb c02_ok t = true -> NoDup (alpha_c t) -> Lang (re_of_c t) w -> Permutation w p ->
  exists s, caddw p 0 (cinit t) = Some s /\ names (cordered s) = w /\ crequired s = [].
Proof.
  intros W G ND L P. destruct (C02_cmachine_ids t w W G ND L) as (s1 & E1 & R1 & N1).
  pose proof (caddw_strip w 0 (cinit t) s1 E1) as Z1. rewrite cstrip_cinit in Z1.
  destruct (cinit_inv t W) as (I0 & _ & _).
  assert (Z2: caddz p (cinit t) = Some (cstrip s1)).
  { apply (caddz_perm w p P); auto. rewrite cinit_alpha. exact ND. }
  rewrite <- cstrip_cinit in Z2. destruct (caddz_unstrip p 0 (cinit t) (cstrip s1) Z2) as (s2 & E2 & S2).
  exists s2. split; auto. split.
  - rewrite <- cordered_strip, S2, cordered_strip, N1. apply names_tagged.
  - rewrite <- crequired_strip, S2, crequired_strip. exact R1.
Qed.
Theorem C12a_cmachine t w p : wf_ct t = true -> forallb c02_ok t = true -> NoDup (alpha_c t) -> Lang (re_of_c t) w -> Permutation w p ->
  Forall (fun o => o = MOk) (couts (cminit t) (map MAdd p)) /\ cverdict_ok (cmrun t (map MAdd p)) = true /\
  names (cordered (ctree (cmrun t (map MAdd p)))) = w /\ map snd (cins (cmrun t (map MAdd p))) = p.
Proof.
  intros W G ND L P. destruct (C12a_cmachine_ids t w p W G ND L P) as (s & E & N & R).
  destruct (cmrun_adds p (cminit t) s E) as (A & B & D). unfold cmrun. rewrite A. repeat split; auto.
  unfold cverdict_ok. rewrite A, R. reflexivity.
Qed.
