(* C12(b) on the choice machine, for histories without removals: a child is rejected only when it cannot be arranged with the
   children already present.  Either its leaves are saturated (the children of that name present are as many as any word of the
   content model contains: SeqReject.saturated), or it belongs to a branch of an exclusive choice whose other branch holds a child -
   and no word contains children of two branches of one choice.  (With removals the statement is FALSE for the machine and for the
   library: a sequence branch that was emptied stays chosen - the refutation is in Properties/C12.v.) *)
From MX Require Import Spec.Particle Spec.Deriv Spec.Parikh Model.AbsSeq Model.AbsSeqC02 Model.Classes Model.SeqMachine Model.SeqIds Model.SeqReject
  Model.SeqRemove Model.ChoiceSeq Model.ChoiceClass Model.ChoiceC02 Model.ChoicePermute.
From Coq Require Import Arith Lia Permutation.

Definition no_remove (ops:list mop) : bool := forallb (fun o => match o with MRemove _ => false | _ => true end) ops.
(* in states reached without removals the chosen branch of a choice holds a child *)
Definition TightS (x:slot) : Prop :=
  match x with SPlain _ => True | SChoice mn d ch brs => forall i, ch = Some i -> exists b, nth_error brs i = Some b /\ nonempty b = true end.
Definition TightC (s:cst) : Prop := Forall TightS s.

Lemma add_nth_at c a : forall i brs brs', add_nth c a i brs = Some brs' -> exists b b', nth_error brs i = Some b /\ add c a b = Some b' /\ nth_error brs' i = Some b'.
Proof.
  induction i as [|i IH]; intros [|h r] brs' E; simpl in E; try discriminate.
  - destruct (add c a h) as [h'|] eqn:Eh; [|discriminate]. injection E as <-. exists h, h'. auto.
  - destruct (add_nth c a i r) as [r'|] eqn:Er; [|discriminate]. injection E as <-. apply (IH r r' Er).
Qed.
Lemma add_nth_none_at c a : forall i brs b, add_nth c a i brs = None -> nth_error brs i = Some b -> add c a b = None.
Proof.
  induction i as [|i IH]; intros [|h r] b E N; simpl in *; try discriminate.
  - injection N as ->. destruct (add c a b); [discriminate|reflexivity].
  - apply (IH r b); auto. destruct (add_nth c a i r); [discriminate|reflexivity].
Qed.
Lemma add_first_none_all c a : forall brs, add_first c a brs = None -> forall b, In b brs -> add c a b = None.
Proof.
  induction brs as [|h r IH]; intros E b Ib; [destruct Ib|]. simpl in E. destruct (add c a h) eqn:Eh; [discriminate|].
  destruct Ib as [<-|Ib]; auto. apply IH; auto. destruct (add_first c a r); [discriminate|reflexivity].
Qed.
Lemma add_slot_tight c a x x' : add_slot c a x = Some x' -> TightS x'.
Proof.
  destruct x as [s|mn d [i|] brs]; simpl; intros E.
  - destruct (add c a s); [|discriminate]. injection E as <-. exact I.
  - destruct (add_nth c a i brs) as [brs'|] eqn:En; [|discriminate]. injection E as <-. simpl. intros k Hk. injection Hk as <-.
    destruct (add_nth_at c a i brs brs' En) as (b & b' & _ & Eb & Nb). exists b'. split; auto. eapply add_nonempty; eauto.
  - destruct (add_first c a brs) as [[i brs']|] eqn:Ef; [|discriminate]. injection E as <-. simpl. intros k Hk. injection Hk as <-.
    destruct (add_nth_at c a i brs brs' (add_first_is_nth c a brs i brs' Ef)) as (b & b' & _ & Eb & Nb). exists b'. split; auto. eapply add_nonempty; eauto.
Qed.
Lemma cadd_tight c a : forall s s', cadd c a s = Some s' -> TightC s -> TightC s'.
Proof.
  induction s as [|x r IH]; intros s' E T; simpl in E; [discriminate|]. inversion T as [|? ? Tx Tr]; subst.
  destruct (add_slot c a x) as [x'|] eqn:Ex.
  - injection E as <-. constructor; auto. eapply add_slot_tight; eauto.
  - destruct (cadd c a r) as [r'|] eqn:Er; [|discriminate]. injection E as <-. constructor; auto. apply (IH r' eq_refl Tr).
Qed.
Lemma csubst_tight c n s : CInv s -> TightC s -> TightC (csubst c n s).
Proof.
  induction 1 as [|x r Ix Ir IH]; intros T; simpl; [constructor|]. inversion T as [|? ? Tx Tr]; subst. constructor; [|apply IH; exact Tr].
  destruct x as [s0|mn d ch brs]; simpl; auto. intros i Hi. destruct (Tx i Hi) as (b & Eb & Nb). exists (subst c n b). split.
  - rewrite nth_error_map, Eb. reflexivity.
  - destruct Ix as (FI & _). rewrite Forall_forall in FI. destruct (subst_ok c n b (FI b (nth_error_In _ _ Eb))) as (_ & _ & Ne). congruence.
Qed.
Lemma cinit_tight t : TightC (cinit t).
Proof. unfold cinit. induction t as [|x r IH]; simpl; constructor; auto. destruct x; simpl; auto. intros i Hi. discriminate. Qed.
Lemma cstep_tight t s o : CMInv t s -> TightC (ctree s) -> (match o with MRemove _ => false | _ => true end) = true -> TightC (ctree (fst (cstep s o))).
Proof.
  intros (I & _ & _) T NR. destruct o as [a|k|k a|k|]; simpl; try discriminate.
  - destruct (cadd (cnext s) a (ctree s)) as [t'|] eqn:E; simpl; auto. eapply cadd_tight; eauto.
  - destruct (nth_error (cins s) k) as [[c b]|]; simpl; auto. destruct (Pos.eqb a b); simpl; auto. apply csubst_tight; auto.
  - destruct (nth_error (cins s) k) as [[c b]|]; simpl; auto. apply csubst_tight; auto.
  - auto.
Qed.
Lemma cmrun_tight t ops : wf_ct t = true -> no_remove ops = true -> TightC (ctree (cmrun t ops)).
Proof.
  intros W NR. unfold cmrun.
  assert (G: forall s, CMInv t s -> TightC (ctree s) -> TightC (ctree (fold_left (fun s o => fst (cstep s o)) ops s))).
  { induction ops as [|o ops IH]; intros s I T; simpl; auto. simpl in NR. apply andb_true_iff in NR as [N1 N2].
    apply IH; auto. - apply cstep_inv; auto. - apply cstep_tight with (t:=t); auto. }
  apply G.
  - destruct (cinit_inv t W) as (A & B & C). repeat split; simpl; auto. rewrite C. constructor.
  - apply cinit_tight.
Qed.

(* ---- counting ---- *)
Lemma count_zero a w : ~ In a w -> count a w = 0.
Proof. intros H. destruct (count a w) eqn:E; auto. exfalso. apply H. apply count_In. lia. Qed.
Lemma count_flat_nth a : forall (brs:list sst) i b, nth_error brs i = Some b -> count a (names (ordered b)) <= count a (names (flat_map ordered brs)).
Proof.
  induction brs as [|h r IH]; intros [|i] b E; simpl in *; try discriminate; unfold names in *; rewrite map_app, count_app.
  - injection E as ->. lia.
  - specialize (IH i b E). lia.
Qed.
Lemma ordered_in_alpha s : Inv s -> forall x, In x (ordered s) -> In (snd x) (alpha s).
Proof.
  induction s using sst_ind2; intros I x Ix.
  - simpl in *. destruct I as [_ F]. rewrite Forall_forall in F. left. symmetry. apply F; auto.
  - apply Inv_node in I as [_ Ik]. simpl in *. apply in_flat_map in Ix as (b & Ib & Ixb). apply in_flat_map. exists b. split; auto.
    rewrite Forall_forall in H, Ik. apply H; auto.
Qed.
Lemma NoDup_flat_disj_ne {A B} (f:A -> list B) (l:list A) : NoDup (flat_map f l) -> forall i j bi bj a, i <> j ->
  nth_error l i = Some bi -> nth_error l j = Some bj -> In a (f bi) -> ~ In a (f bj).
Proof.
  intros ND i j bi bj a Ne Ei Ej Ia. destruct (Nat.lt_ge_cases i j) as [Lt|Ge].
  - eapply NoDup_flat_disj_gen; eauto.
  - intros Ib. assert (Lt: j < i) by lia. exact (NoDup_flat_disj_gen f l ND j i bj bi a Lt Ej Ei Ib Ia).
Qed.
Lemma alt_branch (brs:list sst) u : Lang (alt_of (map shape brs)) u -> exists k bk, nth_error brs k = Some bk /\ Lang (re_of_s (shape bk)) u.
Proof.
  intros L. destruct (lang_alt_of _ _ L) as (k & tk & Ek & Lk). rewrite nth_error_map in Ek. destruct (nth_error brs k) as [bk|] eqn:E; [|discriminate].
  injection Ek as <-. exists k, bk. auto.
Qed.
Lemma flat_alpha_shape_eq (brs:list sst) : flat_map alpha brs = flat_map alpha_t (map shape brs).
Proof. induction brs as [|b r IH]; simpl; auto. rewrite alpha_shape, IH. reflexivity. Qed.
Lemma alpha_st_slot x : alpha_st x = alpha_slot (shape_slot x).
Proof. destruct x as [s|mn d ch brs]; simpl; [apply alpha_shape|apply flat_alpha_shape_eq]. Qed.

(* ---- one slot ---- *)
Lemma slot_saturated c a x : SInv x -> TightS x -> NoDup (alpha_st x) -> add_slot c a x = None -> In a (alpha_st x) ->
  forall u, Lang (re_of_slot (shape_slot x)) u -> exists n, In n (alpha_st x) /\ count n u < count n (names (ordered_slot x) ++ [a]).
Proof.
  intros I T ND E Ia u L. destruct x as [s|mn d ch brs].
  - simpl in *. destruct (add c a s) eqn:Es; [discriminate|]. exists a. split; auto.
    pose proof (saturated s c a Es I u L) as B. rewrite count_app. simpl. rewrite Pos.eqb_refl. lia.
  - simpl in I, T, ND, Ia. destruct I as (FI & BO & O & B). rewrite Forall_forall in FI.
    assert (Cases: u = [] \/ exists k bk, nth_error brs k = Some bk /\ Lang (re_of_s (shape bk)) u).
    { simpl in L. destruct (Nat.eqb mn 0).
      - destruct L as (q & _ & Q2 & P). simpl in Q2. destruct q as [|[|q]]; [left; exact P| |lia]. right.
        simpl in P. destruct P as (u1 & v & -> & Hu & ->). rewrite app_nil_r. apply alt_branch; auto.
      - right. apply alt_branch; auto. }
    assert (A1: forall v, count a v < count a (v ++ [a])) by (intros v; rewrite count_app; simpl; rewrite Pos.eqb_refl; lia).
    destruct Cases as [->|(k & bk & Ek & Lk)].
    { exists a. split; auto. simpl. rewrite count_app. simpl. rewrite Pos.eqb_refl. lia. }
    assert (Uk: incl u (alpha bk)) by (rewrite alpha_shape; apply lang_alpha; auto).
    assert (Ik: Inv bk) by (apply FI; eapply nth_error_In; eauto).
    assert (Sat: add c a bk = None -> exists n, In n (flat_map alpha brs) /\ count n u < count n (names (ordered_slot (SChoice mn d ch brs)) ++ [a])).
    { intros Rk. exists a. split; auto. pose proof (saturated bk c a Rk Ik u Lk) as Bd. pose proof (count_flat_nth a brs k bk Ek) as Fl.
      simpl. rewrite count_app. simpl. rewrite Pos.eqb_refl. lia. }
    destruct ch as [i|]; simpl in E.
    + destruct (T i eq_refl) as (bi & Ei & Ni).
      assert (Ri: add c a bi = None).
      { apply (add_nth_none_at c a i brs bi); auto. destruct (add_nth c a i brs); [discriminate|reflexivity]. }
      destruct (Nat.eq_dec k i) as [->|Hk].
      * rewrite Ei in Ek. injection Ek as <-. apply Sat; auto.
      * (* the chosen branch holds a child whose name no word of branch k contains *)
        destruct (ordered bi) as [|x0 rest] eqn:Ob.
        { apply nonempty_ordered in Ob. congruence. }
        assert (Ix0: In x0 (ordered bi)) by (rewrite Ob; left; reflexivity).
        assert (Ib: In (snd x0) (alpha bi)) by (apply ordered_in_alpha; auto; apply FI; eapply nth_error_In; eauto).
        assert (Nb: ~ In (snd x0) (alpha bk)).
        { apply (NoDup_flat_disj_ne alpha brs ND i k bi bk (snd x0)); auto. }
        exists (snd x0). split; [apply in_flat_map; exists bi; split; auto; eapply nth_error_In; eauto|].
        rewrite (count_zero (snd x0) u) by (intros Iu; apply Nb; apply Uk; exact Iu).
        assert (1 <= count (snd x0) (names (ordered bi))) by (apply count_In; unfold names; apply in_map; exact Ix0).
        pose proof (count_flat_nth (snd x0) brs i bi Ei) as Fl. simpl. rewrite count_app. lia.
    + apply Sat. apply (add_first_none_all c a brs); [|eapply nth_error_In; eauto].
      destruct (add_first c a brs); [discriminate|reflexivity].
Qed.

(* ---- all slots ---- *)
Lemma slot_words_alpha (r:cst) us : Forall2 (fun x u => Lang (re_of_slot (shape_slot x)) u) r us -> incl (concat us) (flat_map alpha_st r).
Proof.
  induction 1 as [|x u r us Hx Hr IH]; simpl; [intros a []|]. intros a Ia. apply in_app_or in Ia as [Ia|Ia]; apply in_or_app.
  - left. rewrite alpha_st_slot. eapply lang_slot_alpha; eauto.
  - right. apply IH; auto.
Qed.
Lemma cst_saturated c a : forall s ws, CInv s -> TightC s -> NoDup (flat_map alpha_st s) -> cadd c a s = None -> In a (flat_map alpha_st s) ->
  Forall2 (fun x u => Lang (re_of_slot (shape_slot x)) u) s ws ->
  exists n, In n (flat_map alpha_st s) /\ count n (concat ws) < count n (names (cordered s) ++ [a]).
Proof.
  induction s as [|x r IH]; intros ws I T ND E Ia F; [destruct Ia|]. inversion F as [|? u ? us Lx Lr]; subst.
  inversion I as [|? ? Ix Ir]; inversion T as [|? ? Tx Tr]; subst. simpl in ND, E, Ia.
  destruct (add_slot c a x) eqn:Ex; [discriminate|]. destruct (cadd c a r) eqn:Er; [discriminate|].
  pose proof (NoDup_app_disj _ _ ND) as Dis.
  assert (Cn: forall n, count n (names (cordered (x :: r)) ++ [a]) = count n (names (ordered_slot x)) + count n (names (cordered r) ++ [a])).
  { intros n. unfold cordered. simpl. unfold names. rewrite map_app, !count_app. lia. }
  apply in_app_or in Ia as [Ia|Ia].
  - destruct (slot_saturated c a x Ix Tx (NoDup_app_l _ _ ND) Ex Ia u Lx) as (n & In_n & Cnt).
    exists n. split; [simpl; apply in_or_app; auto|]. simpl concat. rewrite count_app.
    rewrite (count_zero n (concat us)) by (intros Iu; apply (Dis n In_n); apply (slot_words_alpha r us Lr); exact Iu).
    rewrite Cn. rewrite count_app in Cnt. rewrite count_app. lia.
  - destruct (IH us Ir Tr (NoDup_app_r _ _ ND) eq_refl Ia Lr) as (n & In_n & Cnt).
    exists n. split; [simpl; apply in_or_app; auto|]. simpl concat. rewrite count_app.
    rewrite (count_zero n u).
    + rewrite Cn. lia.
    + intros Iu. apply (Dis n); auto. rewrite alpha_st_slot. eapply lang_slot_alpha; eauto.
Qed.
Lemma alpha_c_cshape s : flat_map alpha_st s = alpha_c (cshape s).
Proof. unfold alpha_c, cshape. induction s as [|x r IH]; simpl; auto. rewrite alpha_st_slot, IH. reflexivity. Qed.
Lemma Forall2_shape (s:cst) ws : Forall2 (fun x u => Lang (re_of_slot x) u) (cshape s) ws -> Forall2 (fun x u => Lang (re_of_slot (shape_slot x)) u) s ws.
Proof. revert ws. induction s as [|x r IH]; intros ws F; inversion F; subst; constructor; auto. Qed.
Lemma lang_c_alpha t w : Lang (re_of_c t) w -> incl w (alpha_c t).
Proof.
  intros L. apply lang_c_split in L as (ws & -> & F). unfold alpha_c. induction F as [|x u r us Hx Hr IH]; simpl; [intros a []|].
  intros a Ia. apply in_app_or in Ia as [Ia|Ia]; apply in_or_app; [left; eapply lang_slot_alpha; eauto|right; auto].
Qed.

(* C12(b) on the choice machine: in a history without removals a child is rejected only if NO word of the content model contains
   the children present together with it *)
Theorem C12b_cmachine t ops a : wf_ct t = true -> NoDup (alpha_c t) -> no_remove ops = true ->
  snd (cstep (cmrun t ops) (MAdd a)) <> MOk -> ~ Alive (re_of_c t) (names (cordered (ctree (cmrun t ops))) ++ [a]).
Proof.
  intros W ND NR R (w & L & Dom). destruct (cmrun_inv t ops W) as (I & Sh & _). pose proof (cmrun_tight t ops W NR) as T.
  set (s := cmrun t ops) in *. simpl in R. destruct (cadd (cnext s) a (ctree s)) eqn:E; [exfalso; apply R; reflexivity|].
  destruct (in_dec Pos.eq_dec a (alpha_c t)) as [Ia|Na].
  - pose proof L as L'. apply lang_c_split in L' as (ws & -> & F). rewrite <- Sh in F. apply Forall2_shape in F.
    destruct (cst_saturated (cnext s) a (ctree s) ws I T) as (n & _ & Cnt); auto.
    + rewrite alpha_c_cshape, Sh. exact ND.
    + rewrite alpha_c_cshape, Sh. exact Ia.
    + specialize (Dom n). lia.
  - specialize (Dom a). rewrite count_app in Dom. simpl in Dom. rewrite Pos.eqb_refl in Dom.
    rewrite (count_zero a w) in Dom by (intros Iw; apply Na; apply (lang_c_alpha t w L); exact Iw). lia.
Qed.
