(* The choice machine: the specification machine of the templates that are a sequence of SLOTS, each slot either a choice-free
   subtree (AbsSeq.sst) or ONE exclusive choice (maxOccurs = 1, minOccurs 0 or 1) between choice-free branches, a branch being a
   [1,1] leaf or a mandatory sequence.  (arrow, bend, harmonic, instrument-change, measure-style, percussion, score-instrument, swing.)
   add   : first slot (in document order) that takes the child; inside a choice: the chosen branch only, or - nothing chosen yet -
           the first branch that takes it, which becomes the chosen one;
   remove: the child is deleted from its leaf; a choice whose chosen branch is a LEAF is released (and from then on demands a
           child even when optional: the library's requirement flag is reset to False, not to "unknown"); a sequence branch stays chosen;
   final : every plain slot complete; a choice complete iff its chosen branch is, or nothing chosen and optional and never released. *)
From MX Require Import Spec.Particle Spec.Deriv Model.AbsSeq Model.AbsSeqC02 Model.SeqMachine.
From Coq Require Import Arith Permutation Lia.

Inductive cslot := CPlain (t:stree) | CChoice (mn:nat) (brs:list stree).
Definition ctemplate := list cslot.
Inductive slot := SPlain (s:sst) | SChoice (mn:nat) (demanded:bool) (chosen:option nat) (brs:list sst).
Definition cst := list slot.

Definition alt_of (brs:list stree) : re := fold_right (fun b acc => Alt (re_of_s b) acc) Void brs.
Definition re_of_slot (x:cslot) : re :=
  match x with CPlain t => re_of_s t | CChoice mn brs => if Nat.eqb mn 0 then Rep (alt_of brs) 0 (Some 1) else alt_of brs end.
Definition re_of_c (t:ctemplate) : re := fold_right (fun x acc => Cat (re_of_slot x) acc) Eps t.
Definition init_slot (x:cslot) : slot := match x with CPlain t => SPlain (init t) | CChoice mn brs => SChoice mn false None (map init brs) end.
Definition cinit (t:ctemplate) : cst := map init_slot t.
Definition shape_slot (x:slot) : cslot := match x with SPlain s => CPlain (shape s) | SChoice mn _ _ brs => CChoice mn (map shape brs) end.
Definition cshape (s:cst) : ctemplate := map shape_slot s.

(* add into the i-th branch only *)
Fixpoint add_nth (c:nat) (a:positive) (i:nat) (brs:list sst) : option (list sst) :=
  match brs, i with
  | [], _ => None
  | b :: r, 0 => option_map (fun b' => b' :: r) (add c a b)
  | b :: r, S j => option_map (cons b) (add_nth c a j r) end.
(* first branch that takes the child, with its index *)
Fixpoint add_first (c:nat) (a:positive) (brs:list sst) : option (nat * list sst) :=
  match brs with
  | [] => None
  | b :: r => match add c a b with
              | Some b' => Some (0, b' :: r)
              | None => option_map (fun p => (S (fst p), b :: snd p)) (add_first c a r) end end.
Definition add_slot (c:nat) (a:positive) (x:slot) : option slot :=
  match x with
  | SPlain s => option_map SPlain (add c a s)
  | SChoice mn d (Some i) brs => option_map (SChoice mn d (Some i)) (add_nth c a i brs)
  | SChoice mn d None brs => option_map (fun p => SChoice mn d (Some (fst p)) (snd p)) (add_first c a brs) end.
Fixpoint cadd (c:nat) (a:positive) (s:cst) : option cst :=
  match s with [] => None | x :: r => match add_slot c a x with Some x' => Some (x' :: r) | None => option_map (cons x) (cadd c a r) end end.
Definition is_leaf_with (c:nat) (b:sst) : bool := match b with LeafS _ _ _ it => existsb (fun x => Nat.eqb (fst x) c) it | _ => false end.
Definition remove_slot (c:nat) (x:slot) : slot :=
  match x with
  | SPlain s => SPlain (remove c s)
  | SChoice mn d ch brs => if existsb (is_leaf_with c) brs then SChoice mn true None (map (remove c) brs) else SChoice mn d ch (map (remove c) brs) end.
Definition cremove (c:nat) (s:cst) : cst := map (remove_slot c) s.
Definition subst_slot (c n:nat) (x:slot) : slot :=
  match x with SPlain s => SPlain (subst c n s) | SChoice mn d ch brs => SChoice mn d ch (map (subst c n) brs) end.
Definition csubst (c n:nat) (s:cst) : cst := map (subst_slot c n) s.
Definition ordered_slot (x:slot) : list (nat*positive) := match x with SPlain s => ordered s | SChoice _ _ _ brs => flat_map ordered brs end.
Definition cordered (s:cst) : list (nat*positive) := flat_map ordered_slot s.
Definition has_leaf_slot (a:positive) (x:slot) : bool := match x with SPlain s => has_leaf a s | SChoice _ _ _ brs => existsb (has_leaf a) brs end.
Definition chas_leaf (a:positive) (s:cst) : bool := existsb (has_leaf_slot a) s.
Definition required_slot (x:slot) : list positive :=
  match x with
  | SPlain s => required true s
  | SChoice mn d (Some i) brs => match nth_error brs i with Some b => required true b | None => [] end
  | SChoice mn d None brs => if negb (Nat.eqb mn 0) || d then [1%positive] (* "one of the alternatives" *) else [] end.
Definition crequired (s:cst) : list positive := flat_map required_slot s.

(* ---- the machine ---- *)
Record cmst := mkC { ctree : cst; cins : list (nat * positive); cnext : nat }.
Definition cbump (s:cmst) : cmst := mkC (ctree s) (cins s) (S (cnext s)).
Definition cstep (s:cmst) (o:mop) : cmst * mout :=
  match o with
  | MAdd a => match cadd (cnext s) a (ctree s) with
              | Some t' => (mkC t' (cins s ++ [(cnext s, a)]) (S (cnext s)), MOk)
              | None => (cbump s, if chas_leaf a (ctree s) then MMax else MWrong) end
  | MRemove k => match nth_error (cins s) k with
                 | Some (c, _) => (mkC (cremove c (ctree s)) (filter (keep c) (cins s)) (S (cnext s)), MOk)
                 | None => (cbump s, MBadIndex) end
  | MReplace k a => match nth_error (cins s) k with
                    | Some (c, b) => if Pos.eqb a b then (mkC (csubst c (cnext s) (ctree s)) (map (renum c (cnext s)) (cins s)) (S (cnext s)), MOk)
                                     else (cbump s, MOutOfDomain)
                    | None => (cbump s, MBadIndex) end
  | MReplaceSame k => match nth_error (cins s) k with
                    | Some (c, b) => (mkC (csubst c (cnext s) (ctree s)) (map (renum c (cnext s)) (cins s)) (S (cnext s)), MOk)
                    | None => (cbump s, MBadIndex) end
  | MFinal => (cbump s, MOk)
  end.
Definition cminit (t:ctemplate) : cmst := mkC (cinit t) [] 0.
Definition cmrun (t:ctemplate) (ops:list mop) : cmst := fold_left (fun s o => fst (cstep s o)) ops (cminit t).
Definition cverdict_ok (s:cmst) : bool := match crequired (ctree s) with [] => true | _ => false end.
(* per-operation observables, for the correspondence with the implementation *)
Fixpoint ctrace (s:cmst) (ops:list mop) : list (mout * list nat * list nat * list positive) :=
  match ops with [] => [] | o :: r =>
    let s' := fst (cstep s o) in
    (snd (cstep s o), map fst (cordered (ctree s')), map fst (cins s'), crequired (ctree s')) :: ctrace s' r end.

(* ---- invariant ---- *)
(* a branch is a [1,1] leaf or a mandatory sequence *)
Definition branch_ok (b:sst) : bool := match b with LeafS _ 1 (Some 1) _ => true | NodeS false _ _ => true | _ => false end.
Definition others_empty (ch:option nat) (brs:list sst) : Prop :=
  forall j b, nth_error brs j = Some b -> ch <> Some j -> nonempty b = false.
Definition SInv (x:slot) : Prop :=
  match x with
  | SPlain s => Inv s
  | SChoice mn d ch brs => Forall Inv brs /\ forallb branch_ok brs = true /\ others_empty ch brs
                           /\ (forall i, ch = Some i -> i < length brs) end.
Definition CInv (s:cst) : Prop := Forall SInv s.

Lemma branch_ok_shape b b' : shape b' = shape b -> branch_ok b' = branch_ok b.
Proof. destruct b, b'; simpl; intros E; try discriminate; injection E; intros; subst; auto. Qed.
Lemma nonempty_ordered s : nonempty s = false <-> ordered s = [].
Proof.
  split; [apply nonempty_false_ordered|].
  induction s using sst_ind2; simpl; intros E.
  - subst. reflexivity.
  - induction H as [|x k Hx Hk IH]; simpl in *; auto. apply app_eq_nil in E as [E1 E2]. rewrite Hx, IH; auto.
Qed.
Lemma flat_ordered_others ch brs : others_empty ch brs ->
  flat_map ordered brs = match ch with Some i => match nth_error brs i with Some b => ordered b | None => [] end | None => [] end.
Proof.
  revert ch. induction brs as [|b r IH]; intros ch O; simpl.
  - destruct ch as [[|i]|]; reflexivity.
  - destruct ch as [[|i]|]; simpl.
    + assert (R: flat_map ordered r = []).
      { rewrite (IH None); auto. intros j b' Hj _. apply (O (S j) b' Hj). discriminate. }
      rewrite R, app_nil_r. reflexivity.
    + assert (E: ordered b = []) by (apply nonempty_ordered; apply (O 0 b eq_refl); discriminate).
      rewrite E. simpl. apply (IH (Some i)). intros j b' Hj Hne. apply (O (S j) b' Hj). intros H; injection H as H; subst; apply Hne; reflexivity.
    + assert (E: ordered b = []) by (apply nonempty_ordered; apply (O 0 b eq_refl); discriminate).
      rewrite E. simpl. apply (IH None). intros j b' Hj _. apply (O (S j) b' Hj). discriminate.
Qed.

(* ---- C01: the final check is sound ---- *)
Lemma alt_of_nth brs i b w : nth_error brs i = Some b -> Lang (re_of_s b) w -> Lang (alt_of brs) w.
Proof.
  revert i. induction brs as [|x r IH]; intros [|i] E L; simpl in *; try discriminate.
  - injection E as ->. left; auto.
  - right. eapply IH; eauto.
Qed.
Lemma slot_sound x : SInv x -> required_slot x = [] -> Lang (re_of_slot (shape_slot x)) (names (ordered_slot x)).
Proof.
  destruct x as [s|mn d ch brs]; simpl; intros I R.
  - apply required_sound; auto.
  - destruct I as (FI & _ & O & B). rewrite (flat_ordered_others ch brs O).
    destruct ch as [i|].
    + destruct (nth_error brs i) as [b|] eqn:E; [|exfalso; apply nth_error_None in E; specialize (B i eq_refl); lia].
      assert (Lb: Lang (re_of_s (shape b)) (names (ordered b))).
      { apply required_sound; auto. rewrite Forall_forall in FI. apply FI. eapply nth_error_In; eauto. }
      assert (La: Lang (alt_of (map shape brs)) (names (ordered b))).
      { eapply alt_of_nth; [|exact Lb]. rewrite nth_error_map, E. reflexivity. }
      destruct (Nat.eqb mn 0); auto. exists 1. repeat split; simpl; auto. exists (names (ordered b)), []. rewrite app_nil_r. auto.
    + destruct (Nat.eqb mn 0) eqn:M; simpl in R; [|discriminate]. destruct d; [discriminate|]. exists 0. simpl. repeat split; auto.
Qed.
Lemma lang_cat_slots (s:cst) : Forall (fun x => Lang (re_of_slot (shape_slot x)) (names (ordered_slot x))) s ->
  Lang (re_of_c (cshape s)) (names (cordered s)).
Proof.
  induction 1 as [|x r Hx Hr IH]; simpl; auto.
  exists (names (ordered_slot x)), (names (cordered r)). unfold names in *. rewrite map_app. auto.
Qed.
Theorem crequired_sound s : CInv s -> crequired s = [] -> Lang (re_of_c (cshape s)) (names (cordered s)).
Proof.
  intros I R. apply lang_cat_slots. induction I as [|x r Ix Ir IH]; constructor.
  - apply slot_sound; auto. simpl in R. apply app_eq_nil in R; tauto.
  - apply IH. simpl in R. apply app_eq_nil in R; tauto.
Qed.

(* ---- the three mutations preserve the invariant, the shape, and the relation between the two views ---- *)
Lemma add_nth_ok c a : forall i brs brs', add_nth c a i brs = Some brs' -> Forall Inv brs ->
  Forall Inv brs' /\ map shape brs' = map shape brs /\ length brs' = length brs /\ i < length brs
  /\ (forall j, j <> i -> nth_error brs' j = nth_error brs j)
  /\ Permutation (flat_map ordered brs') ((c, a) :: flat_map ordered brs).
Proof.
  induction i as [|i IH]; intros [|b r] brs' E F; simpl in E; try discriminate.
  - destruct (add c a b) as [b'|] eqn:Eb; [|discriminate]. injection E as <-. inversion F as [|? ? Ib Ir]; subst.
    destruct (add_ok _ _ _ _ Eb Ib) as [Ib' Sb]. repeat split; simpl; auto; try congruence; try lia.
    + intros [|j] Hj; [contradiction|reflexivity].
    + change ((c, a) :: ordered b ++ flat_map ordered r) with (((c, a) :: ordered b) ++ flat_map ordered r).
      apply Permutation_app_tail. apply ordered_add; auto.
  - destruct (add_nth c a i r) as [r'|] eqn:Er; [|discriminate]. injection E as <-. inversion F as [|? ? Ib Ir]; subst.
    destruct (IH r r' Er Ir) as (A & B & C & D & G & P). repeat split; simpl; auto; try congruence; try lia.
    + intros [|j] Hj; [reflexivity|]. apply G. lia.
    + apply Permutation_trans with (ordered b ++ (c, a) :: flat_map ordered r).
      * apply Permutation_app_head; auto.
      * apply Permutation_sym, Permutation_middle.
Qed.
Lemma add_first_is_nth c a : forall brs i brs', add_first c a brs = Some (i, brs') -> add_nth c a i brs = Some brs'.
Proof.
  induction brs as [|b r IH]; intros i brs' E; simpl in E; [discriminate|].
  destruct (add c a b) as [b'|] eqn:Eb.
  - injection E as <- <-. simpl. rewrite Eb. reflexivity.
  - destruct (add_first c a r) as [[j r']|] eqn:Er; [|discriminate]. injection E as <- <-. simpl. rewrite (IH j r' eq_refl). reflexivity.
Qed.
Lemma forallb_branch_ok_shape brs brs' : map shape brs' = map shape brs -> forallb branch_ok brs' = forallb branch_ok brs.
Proof.
  revert brs'. induction brs as [|b r IH]; intros [|b' r'] E; simpl in *; try discriminate; auto.
  injection E as E1 E2. rewrite (branch_ok_shape b b' E1), (IH r' E2). reflexivity.
Qed.
Lemma add_slot_ok c a x x' : add_slot c a x = Some x' -> SInv x ->
  SInv x' /\ shape_slot x' = shape_slot x /\ Permutation (ordered_slot x') ((c, a) :: ordered_slot x).
Proof.
  destruct x as [s|mn d [i|] brs]; simpl; intros E I.
  - destruct (add c a s) as [s'|] eqn:Es; [|discriminate]. injection E as <-. destruct (add_ok _ _ _ _ Es I) as [I' S'].
    simpl. repeat split; auto; try congruence. apply ordered_add; auto.
  - destruct (add_nth c a i brs) as [brs'|] eqn:En; [|discriminate]. injection E as <-. destruct I as (FI & BO & O & B).
    destruct (add_nth_ok c a i brs brs' En FI) as (A & Sh & Ln & Lt & G & P). simpl. split; [|split; [congruence|exact P]].
    split; [exact A|]. split; [rewrite (forallb_branch_ok_shape brs brs' Sh); exact BO|]. split.
    + intros j b Hj Hne. assert (j <> i) by (intros ->; apply Hne; reflexivity). rewrite (G j H) in Hj. apply (O j b Hj Hne).
    + intros k Hk. injection Hk as <-. lia.
  - destruct (add_first c a brs) as [[i brs']|] eqn:Ef; [|discriminate]. injection E as <-. destruct I as (FI & BO & O & B).
    pose proof (add_first_is_nth c a brs i brs' Ef) as En.
    destruct (add_nth_ok c a i brs brs' En FI) as (A & Sh & Ln & Lt & G & P). simpl. split; [|split; [congruence|exact P]].
    split; [exact A|]. split; [rewrite (forallb_branch_ok_shape brs brs' Sh); exact BO|]. split.
    + intros j b Hj Hne. assert (j <> i) by (intros ->; apply Hne; reflexivity). rewrite (G j H) in Hj. apply (O j b Hj). discriminate.
    + intros k Hk. injection Hk as <-. lia.
Qed.
Lemma cadd_ok c a : forall s s', cadd c a s = Some s' -> CInv s -> CInv s' /\ cshape s' = cshape s /\ Permutation (cordered s') ((c, a) :: cordered s).
Proof.
  induction s as [|x r IH]; intros s' E I; simpl in E; [discriminate|]. inversion I as [|? ? Ix Ir]; subst.
  destruct (add_slot c a x) as [x'|] eqn:Ex.
  - injection E as <-. destruct (add_slot_ok c a x x' Ex Ix) as (A & B & P). repeat split; simpl; [constructor; auto|congruence|].
    change ((c, a) :: ordered_slot x ++ cordered r) with (((c, a) :: ordered_slot x) ++ cordered r). apply Permutation_app_tail; auto.
  - destruct (cadd c a r) as [r'|] eqn:Er; [|discriminate]. injection E as <-. destruct (IH r' eq_refl Ir) as (A & B & P).
    repeat split; simpl; [constructor; auto|congruence|].
    apply Permutation_trans with (ordered_slot x ++ (c, a) :: cordered r); [apply Permutation_app_head; auto|apply Permutation_sym, Permutation_middle].
Qed.
Lemma flat_ordered_remove c brs : flat_map ordered (map (remove c) brs) = filter (keep c) (flat_map ordered brs).
Proof. induction brs as [|b r IH]; simpl; auto. rewrite filter_app, ordered_remove, IH. reflexivity. Qed.
Lemma flat_ordered_subst c n brs : flat_map ordered (map (subst c n) brs) = map (renum c n) (flat_map ordered brs).
Proof. induction brs as [|b r IH]; simpl; auto. rewrite map_app, ordered_subst, IH. reflexivity. Qed.
Lemma Forall_Inv_remove c brs : Forall Inv brs -> Forall Inv (map (remove c) brs) /\ map shape (map (remove c) brs) = map shape brs.
Proof. induction 1 as [|b r Ib Ir IH]; simpl; auto. destruct (remove_ok c b Ib) as (A & B & _). destruct IH. split; [constructor; auto|congruence]. Qed.
Lemma Forall_Inv_subst c n brs : Forall Inv brs -> Forall Inv (map (subst c n) brs) /\ map shape (map (subst c n) brs) = map shape brs.
Proof. induction 1 as [|b r Ib Ir IH]; simpl; auto. destruct (subst_ok c n b Ib) as (A & B & _). destruct IH. split; [constructor; auto|congruence]. Qed.
(* a [1,1] leaf that holds c holds nothing else: removing c empties it *)
Lemma leaf_release c b : Inv b -> branch_ok b = true -> is_leaf_with c b = true -> nonempty (remove c b) = false.
Proof.
  destruct b as [s mn mx it|o act k]; simpl; [|discriminate]. intros [L _] BO H.
  destruct mn as [|[|?]]; try discriminate. destruct mx as [[|[|?]]|]; try discriminate. simpl in L.
  destruct it as [|[c1 a1] [|? ?]]; simpl in *; try discriminate; try lia.
  rewrite orb_false_r in H. rewrite H. reflexivity.
Qed.
Lemma remove_slot_ok c x : SInv x -> SInv (remove_slot c x) /\ shape_slot (remove_slot c x) = shape_slot x
  /\ ordered_slot (remove_slot c x) = filter (keep c) (ordered_slot x).
Proof.
  destruct x as [s|mn d ch brs]; simpl; intros I.
  - destruct (remove_ok c s I) as (A & B & _). repeat split; auto; try congruence. apply ordered_remove.
  - destruct I as (FI & BO & O & B). destruct (Forall_Inv_remove c brs FI) as (FI' & Sh).
    assert (Keep: forall ch', (forall j b, nth_error brs j = Some b -> ch' <> Some j -> nonempty (remove c b) = false) ->
                   others_empty ch' (map (remove c) brs)).
    { intros ch' H j b' Hj Hne. rewrite nth_error_map in Hj. destruct (nth_error brs j) as [b|] eqn:Ej; [|discriminate]. injection Hj as <-. eapply H; eauto. }
    assert (Mono: forall b, Inv b -> nonempty b = false -> nonempty (remove c b) = false).
    { intros b Ib Hb. destruct (remove_ok c b Ib) as (_ & _ & M). destruct (nonempty (remove c b)); auto. rewrite (M eq_refl) in Hb. discriminate. }
    destruct (existsb (is_leaf_with c) brs) eqn:Ex; simpl.
    + split; [|split; [congruence|apply flat_ordered_remove]].
      split; [exact FI'|]. split; [rewrite (forallb_branch_ok_shape brs _ Sh); exact BO|]. split; [|intros i Hi; discriminate].
      apply Keep. intros j b Hj _.
      assert (Ib: Inv b) by (rewrite Forall_forall in FI; apply FI; eapply nth_error_In; eauto).
      destruct (is_leaf_with c b) eqn:Lw.
      * apply leaf_release; auto. rewrite forallb_forall in BO. apply BO. eapply nth_error_In; eauto.
      * (* b does not hold c as a leaf; the branch that does is non-empty, hence the chosen one *)
        apply existsb_exists in Ex as (b0 & In0 & L0). apply In_nth_error in In0 as (j0 & Hj0).
        assert (N0: nonempty b0 = true).
        { destruct b0 as [s0 mn0 mx0 it0|]; simpl in L0; [|discriminate]. simpl. destruct it0; [discriminate|reflexivity]. }
        destruct (Nat.eq_dec j j0) as [->|Hne].
        -- rewrite Hj in Hj0. injection Hj0 as <-. rewrite L0 in Lw. discriminate.
        -- apply Mono; auto. destruct (nonempty b) eqn:Nb; auto. exfalso.
           assert (C1: ch = Some j).
           { destruct ch as [i|]; [destruct (Nat.eq_dec i j) as [->|D]; auto|]; rewrite (O j b Hj) in Nb; try discriminate; congruence. }
           assert (C2: ch = Some j0).
           { destruct ch as [i|]; [destruct (Nat.eq_dec i j0) as [->|D]; auto|]; rewrite (O j0 b0 Hj0) in N0; try discriminate; congruence. }
           rewrite C1 in C2. injection C2 as C2. contradiction.
    + split; [|split; [congruence|apply flat_ordered_remove]].
      split; [exact FI'|]. split; [rewrite (forallb_branch_ok_shape brs _ Sh); exact BO|]. split.
      * apply Keep. intros j b Hj Hne. apply Mono; [rewrite Forall_forall in FI; apply FI; eapply nth_error_In; eauto|]. apply (O j b Hj Hne).
      * intros i Hi. rewrite map_length. auto.
Qed.
Lemma subst_slot_ok c n x : SInv x -> SInv (subst_slot c n x) /\ shape_slot (subst_slot c n x) = shape_slot x
  /\ ordered_slot (subst_slot c n x) = map (renum c n) (ordered_slot x).
Proof.
  destruct x as [s|mn d ch brs]; simpl; intros I.
  - destruct (subst_ok c n s I) as (A & B & _). repeat split; auto; try congruence. apply ordered_subst.
  - destruct I as (FI & BO & O & B). destruct (Forall_Inv_subst c n brs FI) as (FI' & Sh).
    split; [|split; [congruence|apply flat_ordered_subst]].
    split; [exact FI'|]. split; [rewrite (forallb_branch_ok_shape brs _ Sh); exact BO|]. split.
    + intros j b' Hj Hne. rewrite nth_error_map in Hj. destruct (nth_error brs j) as [b|] eqn:Ej; [|discriminate]. injection Hj as <-.
      assert (Ib: Inv b) by (rewrite Forall_forall in FI; apply FI; eapply nth_error_In; eauto).
      destruct (subst_ok c n b Ib) as (_ & _ & Ne). rewrite Ne. apply (O j b Ej Hne).
    + intros i Hi. rewrite map_length. auto.
Qed.
Lemma cremove_ok c s : CInv s -> CInv (cremove c s) /\ cshape (cremove c s) = cshape s /\ cordered (cremove c s) = filter (keep c) (cordered s).
Proof.
  induction 1 as [|x r Ix Ir IH]; simpl; [repeat split; constructor|]. destruct (remove_slot_ok c x Ix) as (A & B & C). destruct IH as (A' & B' & C').
  repeat split; [constructor; auto|congruence|]. unfold cordered, cremove in *. simpl. rewrite filter_app, C, C'. reflexivity.
Qed.
Lemma csubst_ok c n s : CInv s -> CInv (csubst c n s) /\ cshape (csubst c n s) = cshape s /\ cordered (csubst c n s) = map (renum c n) (cordered s).
Proof.
  induction 1 as [|x r Ix Ir IH]; simpl; [repeat split; constructor|]. destruct (subst_slot_ok c n x Ix) as (A & B & C). destruct IH as (A' & B' & C').
  repeat split; [constructor; auto|congruence|]. unfold cordered, csubst in *. simpl. rewrite map_app, C, C'. reflexivity.
Qed.

(* ---- every reachable state ---- *)
Definition wf_slot (x:cslot) : bool := match x with CPlain _ => true | CChoice _ brs => forallb (fun b => match b with SLeaf _ 1 (Some 1) => true | SNode false _ => true | _ => false end) brs end.
Definition wf_ct (t:ctemplate) : bool := forallb wf_slot t.
Definition CMInv (t:ctemplate) (s:cmst) : Prop := CInv (ctree s) /\ cshape (ctree s) = t /\ Permutation (cordered (ctree s)) (cins s).
Lemma cstep_inv t s o : CMInv t s -> CMInv t (fst (cstep s o)).
Proof.
  intros (I & Sh & P). destruct o as [a|k|k a|k|]; simpl.
  - destruct (cadd (cnext s) a (ctree s)) as [t'|] eqn:E; simpl; [|split; [|split]; auto].
    destruct (cadd_ok _ _ _ _ E I) as (I' & S' & P'). split; [|split]; simpl; auto; try congruence.
    eapply Permutation_trans; [exact P'|]. eapply Permutation_trans; [|apply Permutation_cons_append]. apply perm_skip; auto.
  - destruct (nth_error (cins s) k) as [[c b]|]; simpl; [|split; [|split]; auto].
    destruct (cremove_ok c (ctree s) I) as (A & B & C). split; [|split]; simpl; auto; try congruence. rewrite C. apply Permutation_filter'; auto.
  - destruct (nth_error (cins s) k) as [[c b]|]; simpl; [|split; [|split]; auto].
    destruct (Pos.eqb a b); simpl; [|split; [|split]; auto].
    destruct (csubst_ok c (cnext s) (ctree s) I) as (A & B & C). split; [|split]; simpl; auto; try congruence. rewrite C. apply Permutation_map; auto.
  - destruct (nth_error (cins s) k) as [[c b]|]; simpl; [|split; [|split]; auto].
    destruct (csubst_ok c (cnext s) (ctree s) I) as (A & B & C). split; [|split]; simpl; auto; try congruence. rewrite C. apply Permutation_map; auto.
  - split; [|split]; auto.
Qed.
Lemma init_branch_ok brs : forallb (fun b => match b with SLeaf _ 1 (Some 1) => true | SNode false _ => true | _ => false end) brs = true -> forallb branch_ok (map init brs) = true.
Proof.
  induction brs as [|b r IH]; simpl; auto. intros H. apply andb_true_iff in H as [H1 H2]. rewrite IH by auto. rewrite andb_true_r.
  destruct b as [s mn mx|o k]; simpl in *; auto.
Qed.
Lemma cinit_inv t : wf_ct t = true -> CInv (cinit t) /\ cshape (cinit t) = t /\ cordered (cinit t) = [].
Proof.
  induction t as [|x r IH]; simpl; intros W; [repeat split; constructor|]. apply andb_true_iff in W as [Wx Wr]. destruct (IH Wr) as (A & B & C).
  assert (Sx: SInv (init_slot x) /\ shape_slot (init_slot x) = x /\ ordered_slot (init_slot x) = []).
  { destruct x as [t0|mn brs]; simpl.
    - repeat split; [apply Inv_init|rewrite shape_init; reflexivity|apply nonempty_false_ordered, nonempty_init].
    - assert (E: forall l, flat_map ordered (map init l) = []) by (induction l as [|y l IHl]; simpl; auto; rewrite IHl, (nonempty_false_ordered _ (nonempty_init y)); reflexivity).
      repeat split; auto.
      + apply Forall_forall. intros b Hb. apply in_map_iff in Hb as (y & <- & _). apply Inv_init.
      + apply init_branch_ok; auto.
      + intros j b Hj _. rewrite nth_error_map in Hj. destruct (nth_error brs j); [|discriminate]. injection Hj as <-. apply nonempty_init.
      + intros i Hi. discriminate.
      + f_equal. rewrite map_map. clear. induction brs as [|b r IHr]; simpl; auto. rewrite shape_init, IHr. reflexivity. }
  destruct Sx as (S1 & S2 & S3). repeat split; [constructor; auto|congruence|]. unfold cordered in *. simpl. rewrite S3, C. reflexivity.
Qed.
Theorem cmrun_inv t ops : wf_ct t = true -> CMInv t (cmrun t ops).
Proof.
  intros W. unfold cmrun. assert (G: forall s, CMInv t s -> CMInv t (fold_left (fun s o => fst (cstep s o)) ops s)).
  { induction ops as [|o ops IH]; intros s H; simpl; auto. apply IH. apply cstep_inv; auto. }
  apply G. destruct (cinit_inv t W) as (A & B & C). repeat split; simpl; auto. rewrite C. constructor.
Qed.
(* C01 on the choice machine: whenever the final check passes, the schema-ordered names are a word of the template's language *)
Theorem C01_cmachine t ops : wf_ct t = true -> cverdict_ok (cmrun t ops) = true -> Lang (re_of_c t) (names (cordered (ctree (cmrun t ops)))).
Proof.
  intros W V. destruct (cmrun_inv t ops W) as (I & Sh & _). rewrite <- Sh at 1. apply crequired_sound; auto.
  unfold cverdict_ok in V. destruct (crequired (ctree (cmrun t ops))); auto; discriminate.
Qed.
(* C06: the schema-ordered view is a permutation of the insertion-ordered view in every reachable state *)
Theorem C06_cmachine t ops : wf_ct t = true -> Permutation (cordered (ctree (cmrun t ops))) (cins (cmrun t ops)).
Proof. intros W. destruct (cmrun_inv t ops W) as (_ & _ & P); exact P. Qed.
(* C10: an operation that does not succeed leaves both views unchanged *)
Theorem C10_cmachine s o : snd (cstep s o) <> MOk -> ctree (fst (cstep s o)) = ctree s /\ cins (fst (cstep s o)) = cins s.
Proof.
  destruct o as [a|k|k a|k|]; simpl.
  - destruct (cadd (cnext s) a (ctree s)); simpl; auto. intros H; exfalso; apply H; auto.
  - destruct (nth_error (cins s) k) as [[c b]|]; simpl; auto. intros H; exfalso; apply H; auto.
  - destruct (nth_error (cins s) k) as [[c b]|]; simpl; auto. destruct (Pos.eqb a b); simpl; auto. intros H; exfalso; apply H; auto.
  - destruct (nth_error (cins s) k) as [[c b]|]; simpl; auto. intros H; exfalso; apply H; auto.
  - auto.
Qed.
