(* Class-level slots that are looked up through the method resolution order.
     class K:           A = None                      (or no A at all)
     def get(cls):      if cls.A is None (or: if not cls.A): cls.A = compute(cls)        - the store goes to the class the call was made on
                        return cls.A                                                    - the READ walks cls, then its bases, in MRO order
   A class body may define A itself (the generated classes define _XSD_TREE that way): that value is found first and nothing is ever stored.
   Threads interleave at the two points of the function: the guard (a lookup) and the store.  What a use of class d returns when it runs alone
   in a fresh process is  expected d.  The theorem: when no class that is ever used inherits - unshadowed - from another class that is ever
   used and whose slot is filled lazily, EVERY interleaving of EVERY number of uses gives every use exactly  expected d.  The refutation: one
   base class and one class derived from it, both filled lazily; the derived class used after the base class obtains the base's table. *)
From Coq Require Import List Arith Bool Lia.
Import ListNotations.

Section Slots.
  Variable T : Type.
  Variable mro : nat -> list nat.              (* the strict ancestors of a class, in lookup order *)
  Variable body : nat -> option T.             (* the value the class body itself gives to A (a value the guard accepts), if any *)
  Variable compute : nat -> T.                 (* what the lazy initialisation computes for the class it runs on *)
  Variable U : nat -> Prop.                    (* the classes the program ever uses *)

  Definition store := nat -> option T.
  Definition upd (d:nat) (v:T) (s:store) : store := fun x => if Nat.eqb x d then Some v else s x.
  Fixpoint first_some (l:list nat) (f:nat -> option T) : option T :=
    match l with [] => None | x :: r => match f x with Some v => Some v | None => first_some r f end end.
  Definition val (s:store) (x:nat) : option T := match body x with Some v => Some v | None => s x end.
  Definition lookup (s:store) (d:nat) : option T := first_some (d :: mro d) (val s).
  Definition static (d:nat) : option T := first_some (d :: mro d) body.
  Definition expected (d:nat) : T := match static d with Some v => v | None => compute d end.
  Definition empty : store := fun _ => None.

  Lemma alone d : lookup empty d = static d.
  Proof.
    unfold lookup, static. generalize (d :: mro d). induction l as [|x r IH]; simpl; auto.
    unfold val at 1. destruct (body x); auto.
  Qed.

  (* ---- threads: each runs  guard ; [store] ; return  on its own class ---- *)
  Inductive tstate := Start (d:nat) | Storing (d:nat) | Done (d:nat) (v:T).
  Definition tstep (s:store) (t:tstate) : store * tstate :=
    match t with
    | Start d => match lookup s d with Some v => (s, Done d v) | None => (s, Storing d) end
    | Storing d => (upd d (compute d) s, Done d (compute d))
    | Done d v => (s, t)
    end.
  Fixpoint set_nth {A} (i:nat) (x:A) (l:list A) : list A := match l, i with [], _ => [] | _ :: t, 0 => x :: t | h :: t, S j => h :: set_nth j x t end.
  Definition sstep (st:store * list tstate) (tid:nat) : store * list tstate :=
    match nth_error (snd st) tid with None => st | Some t => let '(s', t') := tstep (fst st) t in (s', set_nth tid t' (snd st)) end.
  Definition srun (sched:list nat) (st:store * list tstate) : store * list tstate := fold_left sstep sched st.

  (* no class in use sees, unshadowed, the lazily filled slot of another class in use *)
  Definition shadowed_before (d c:nat) : Prop := exists pre post, d :: mro d = pre ++ c :: post /\ exists x, In x pre /\ body x <> None.
  Hypothesis mro_nodup : forall d, NoDup (d :: mro d).
  Hypothesis no_inherited_lazy_slot : forall d c, U d -> U c -> In c (mro d) -> body c = None -> shadowed_before d c.

  Definition Inv (s:store) : Prop := forall x v, s x = Some v -> U x /\ v = compute x /\ static x = None.

  Lemma first_some_none l f : first_some l f = None <-> forall x, In x l -> f x = None.
  Proof.
    induction l as [|a r IH]; simpl; split; intros H; auto.
    - intros x [].
    - destruct (f a) eqn:E; [discriminate|]. intros x [<-|I]; auto. apply IH; auto.
    - rewrite (H a) by auto. apply IH. intros x I. apply H. auto.
  Qed.
  Lemma first_some_split l f v : first_some l f = Some v -> exists pre c post, l = pre ++ c :: post /\ f c = Some v /\ forall x, In x pre -> f x = None.
  Proof.
    induction l as [|a r IH]; simpl; [discriminate|]. destruct (f a) eqn:E.
    - intros [= <-]. exists [], a, r. split; auto. split; auto. intros x [].
    - intros H. destruct (IH H) as (pre & c & post & -> & Fc & Hp). exists (a :: pre), c, post. split; auto. split; auto.
      intros x [<-|I]; auto.
  Qed.
  Lemma split_unique (pre pre' post post':list nat) c : pre ++ c :: post = pre' ++ c :: post' -> ~ In c pre -> ~ In c pre' -> pre = pre'.
  Proof.
    revert pre'. induction pre as [|a r IH]; intros [|a' r'] E N N'; simpl in *; auto.
    - injection E as <- _. exfalso. apply N'. auto.
    - injection E as -> _. exfalso. apply N. auto.
    - injection E as <- E. f_equal. apply IH with (pre' := r'); auto.
  Qed.

  (* in a state built by the library's own stores, a class in use finds nothing or exactly what it finds alone *)
  Lemma lookup_sound s d : Inv s -> U d -> lookup s d = None \/ lookup s d = Some (expected d).
  Proof.
    intros I Ud. destruct (lookup s d) as [v|] eqn:L; auto. right. f_equal.
    unfold lookup in L. apply first_some_split in L as (pre & c & post & E & Fc & Hp).
    unfold val in Fc. destruct (body c) as [b|] eqn:Bc.
    - (* a body-defined value is found first: the same as alone *)
      injection Fc as ->. unfold expected, static. rewrite E.
      assert (G: forall l, (forall x, In x l -> val s x = None) -> first_some (l ++ c :: post) body = Some v).
      { induction l as [|a r IH]; simpl; intros H; [rewrite Bc; auto|].
        assert (Ha := H a (or_introl eq_refl)). unfold val in Ha. destruct (body a); [discriminate|]. apply IH. intros x Ix. apply H. auto. }
      rewrite (G pre Hp). reflexivity.
    - (* a stored value: it is the class's own *)
      destruct (I c v Fc) as (Uc & -> & Sc).
      assert (Pre: forall x, In x pre -> body x = None).
      { intros x Ix. specialize (Hp x Ix). unfold val in Hp. destruct (body x); auto; discriminate. }
      destruct pre as [|p pre'].
      + simpl in E. injection E as <- _. unfold expected. rewrite Sc. reflexivity.
      + simpl in E. injection E as <- E. assert (Ic: In c (mro d)) by (rewrite E; apply in_or_app; right; left; auto).
        destruct (no_inherited_lazy_slot d c Ud Uc Ic Bc) as (pre2 & post2 & E2 & x & Ix & Bx).
        exfalso.
        (* c occurs once on the path: the two splits coincide, so a body-defined class would precede the hit - but everything before it is body-free *)
        assert (ND := mro_nodup d).
        assert (E1: d :: mro d = (d :: pre') ++ c :: post) by (simpl; f_equal; exact E).
        assert (N1: ~ In c (d :: pre')).
        { rewrite E1 in ND. apply NoDup_remove_2 in ND. intros H. apply ND. apply in_or_app. auto. }
        assert (N2: ~ In c pre2).
        { rewrite E2 in ND. apply NoDup_remove_2 in ND. intros H. apply ND. apply in_or_app. auto. }
        assert (EQ: d :: pre' = pre2) by (apply (split_unique _ _ post post2 c); [rewrite <- E1; exact E2|exact N1|exact N2]).
        apply Bx. apply Pre. rewrite EQ. exact Ix.
  Qed.
  Lemma lookup_none_expected s d : lookup s d = None -> expected d = compute d /\ static d = None.
  Proof.
    intros L. unfold lookup in L. rewrite first_some_none in L.
    assert (S: static d = None).
    { unfold static. apply first_some_none. intros x Ix. specialize (L x Ix). unfold val in L. destruct (body x); auto; discriminate. }
    unfold expected. rewrite S. auto.
  Qed.
  Lemma upd_inv s d : Inv s -> U d -> static d = None -> Inv (upd d (compute d) s).
  Proof.
    intros I Ud Sd x v. unfold upd. destruct (Nat.eqb_spec x d) as [->|Ne]; [intros [= <-]; auto|apply I].
  Qed.

  Definition tinv (t:tstate) : Prop :=
    match t with Start d => U d | Storing d => U d /\ static d = None | Done d v => v = expected d end.
  Lemma set_nth_Forall {A} (P:A -> Prop) i x l : Forall P l -> P x -> Forall P (set_nth i x l).
  Proof. revert i. induction l as [|h t IH]; intros i F Px; destruct i; simpl; auto; inversion F; subst; constructor; auto. Qed.
  Lemma sstep_inv st tid : Inv (fst st) -> Forall tinv (snd st) -> Inv (fst (sstep st tid)) /\ Forall tinv (snd (sstep st tid)).
  Proof.
    intros I F. unfold sstep. destruct (nth_error (snd st) tid) as [t|] eqn:N; auto.
    assert (Ht: tinv t) by (rewrite Forall_forall in F; apply F; eapply nth_error_In; eauto).
    destruct t as [d|d|d v]; simpl in *.
    - destruct (lookup (fst st) d) as [v|] eqn:L; simpl; split; auto; apply set_nth_Forall; auto; simpl.
      + destruct (lookup_sound (fst st) d I Ht) as [E|E]; rewrite E in L; [discriminate|]. injection L as <-. reflexivity.
      + split; auto. apply (lookup_none_expected _ _ L).
    - destruct Ht as (Ud & Sd). split; [apply upd_inv; auto|]. apply set_nth_Forall; auto. simpl. unfold expected. rewrite Sd. reflexivity.
    - split; auto. apply set_nth_Forall; auto.
  Qed.
  (* every schedule, every number of threads, every mix of classes in use: a thread that returns, returns what it would return alone *)
  Theorem slots_order_independent : forall sched ds t d v, Forall U ds ->
    In t (snd (srun sched (empty, map Start ds))) -> t = Done d v -> v = expected d.
  Proof.
    intros sched ds t d v Uds.
    assert (G: forall st, Inv (fst st) -> Forall tinv (snd st) -> Inv (fst (srun sched st)) /\ Forall tinv (snd (srun sched st))).
    { induction sched as [|a r IH]; intros st I F; simpl; auto. destruct (sstep_inv st a I F). apply IH; auto. }
    destruct (G (empty, map Start ds)) as (_ & F).
    - intros x w. discriminate.
    - simpl. rewrite Forall_forall in *. intros x Ix. apply in_map_iff in Ix as (y & <- & Iy). simpl. auto.
    - intros It ->. rewrite Forall_forall in F. apply (F _ It).
  Qed.
  (* and alone it is the same value: the first use of d in a fresh process *)
  Lemma alone_expected d : snd (fst (tstep empty (Start d)), match snd (tstep empty (Start d)) with Storing _ => Done d (compute d) | t => t end) = Done d (expected d).
  Proof.
    simpl. rewrite alone. unfold expected. destruct (static d); reflexivity.
  Qed.
End Slots.

(* ---- the refutation: class 1 derives from class 0, neither body defines the slot, both are in use ---- *)
Definition ex_mro (c:nat) : list nat := match c with 1 => [0] | _ => [] end.
Definition ex_body (c:nat) : option (list nat) := None.
Definition ex_compute (c:nat) : list nat := match c with 0 => [1;2;3;4;5] | _ => [1;3;5] end.
Example inherited_slot_refuted : exists sched,
  nth_error (snd (srun (list nat) ex_mro ex_body ex_compute sched (empty (list nat), [Start (list nat) 0; Start (list nat) 1]))) 1 = Some (Done (list nat) 1 [1;2;3;4;5])
  /\ expected (list nat) ex_mro ex_body ex_compute 1 = [1;3;5].
Proof. exists [0;0;1]. vm_compute. split; reflexivity. Qed.
(* the same two classes used in the other order are both right: the defect depends on who comes first *)
Example inherited_slot_other_order :
  nth_error (snd (srun (list nat) ex_mro ex_body ex_compute [1;1;0;0] (empty (list nat), [Start (list nat) 0; Start (list nat) 1]))) 1 = Some (Done (list nat) 1 [1;3;5]).
Proof. vm_compute. reflexivity. Qed.
