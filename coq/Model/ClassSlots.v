(* Class-level slots that are looked up through the method resolution order.
     class K:           A = None                      (or no A at all)
     def get(cls):      if cls.A is None (or: if not cls.A): cls.A = compute(cls)        - the store goes to the class the call was made on
                        return cls.A                                                    - the READ walks cls, then its bases, in MRO order and
                                                                                          stops at the FIRST class whose dictionary binds A
   A class body may bind A itself: to a value the guard accepts (the generated classes bind _XSD_TREE that way: found first, nothing is ever
   stored), or to a value the guard rejects (A = None, A = []: the walk stops there all the same, the guard fails and the class in use computes
   and stores its own).  A store replaces whatever the body of that class bound.  What is computed may itself be rejected by the guard (an empty
   list under a truthiness guard): it is stored and returned, and computed again next time.
   Threads interleave at the two points of the function: the guard (a lookup) and the store.  What a use of class d returns when it runs alone
   in a fresh process is  expected d.  The theorem: when no class that is ever used finds - unshadowed by an accepted body binding - another
   class that is ever used and is filled lazily on its lookup path, EVERY interleaving of EVERY number of uses gives every use exactly
   expected d.  The refutation: one base class and one class derived from it, both filled lazily; the derived class used after the base class
   obtains the base's table. *)
From Coq Require Import List Arith Bool Lia.
Import ListNotations.

Section Slots.
  Variable T : Type.
  Variable mro : nat -> list nat.              (* the strict ancestors of a class, in lookup order *)
  Variable body : nat -> option (option T).    (* None: the class body does not bind A; Some None: binds a value the guard rejects; Some (Some v): binds v *)
  Variable compute : nat -> option T.          (* what the lazy initialisation computes for the class it runs on (None: a value the guard rejects) *)
  Variable U : nat -> Prop.                    (* the classes the program ever uses *)

  Definition store := nat -> option (option T).
  Definition upd (d:nat) (b:option T) (s:store) : store := fun x => if Nat.eqb x d then Some b else s x.
  Fixpoint first_bound (l:list nat) (f:nat -> option (option T)) : option (option T) :=
    match l with [] => None | x :: r => match f x with Some b => Some b | None => first_bound r f end end.
  Definition val (s:store) (x:nat) : option (option T) := match s x with Some b => Some b | None => body x end.
  Definition flat (o:option (option T)) : option T := match o with Some (Some v) => Some v | _ => None end.
  Definition lookup (s:store) (d:nat) : option T := flat (first_bound (d :: mro d) (val s)).
  Definition empty : store := fun _ => None.
  Definition static (d:nat) : option T := lookup empty d.
  Definition expected (d:nat) : option T := match static d with Some v => Some v | None => compute d end.

  (* ---- threads: each runs  guard ; [store] ; return  on its own class ---- *)
  Inductive tstate := Start (d:nat) | Storing (d:nat) | Done (d:nat) (v:option T).
  Definition tstep (s:store) (t:tstate) : store * tstate :=
    match t with
    | Start d => match lookup s d with Some v => (s, Done d (Some v)) | None => (s, Storing d) end
    | Storing d => (upd d (compute d) s, Done d (compute d))
    | Done d v => (s, t)
    end.
  Fixpoint set_nth {A} (i:nat) (x:A) (l:list A) : list A := match l, i with [], _ => [] | _ :: t, 0 => x :: t | h :: t, S j => h :: set_nth j x t end.
  Definition sstep (st:store * list tstate) (tid:nat) : store * list tstate :=
    match nth_error (snd st) tid with None => st | Some t => let '(s', t') := tstep (fst st) t in (s', set_nth tid t' (snd st)) end.
  Definition srun (sched:list nat) (st:store * list tstate) : store * list tstate := fold_left sstep sched st.

  (* no class in use finds, unshadowed, another class in use that is filled lazily *)
  Definition accepted_body (x:nat) : Prop := exists v, body x = Some (Some v).
  Definition shadowed_before (d c:nat) : Prop := exists pre post, d :: mro d = pre ++ c :: post /\ exists x, In x pre /\ accepted_body x.
  Hypothesis mro_nodup : forall d, U d -> NoDup (d :: mro d).
  Hypothesis no_inherited_lazy_slot : forall d c, U d -> U c -> In c (mro d) -> ~ accepted_body c -> shadowed_before d c.

  Definition Inv (s:store) : Prop := forall x b, s x = Some b -> U x /\ b = compute x /\ static x = None.

  Lemma first_bound_none l f : first_bound l f = None <-> forall x, In x l -> f x = None.
  Proof.
    induction l as [|a r IH]; simpl; split; intros H; auto.
    - intros x [].
    - destruct (f a) eqn:E; [discriminate|]. intros x [<-|I]; auto. apply IH; auto.
    - rewrite (H a) by auto. apply IH. intros x I. apply H. auto.
  Qed.
  Lemma first_bound_split l f b : first_bound l f = Some b -> exists pre c post, l = pre ++ c :: post /\ f c = Some b /\ forall x, In x pre -> f x = None.
  Proof.
    induction l as [|a r IH]; simpl; [discriminate|]. destruct (f a) eqn:E.
    - intros [= <-]. exists [], a, r. split; auto. split; auto. intros x [].
    - intros H. destruct (IH H) as (pre & c & post & -> & Fc & Hp). exists (a :: pre), c, post. split; auto. split; auto.
      intros x [<-|I]; auto.
  Qed.
  Lemma first_bound_at pre c post f b : (forall x, In x pre -> f x = None) -> f c = Some b -> first_bound (pre ++ c :: post) f = Some b.
  Proof. induction pre as [|a r IH]; simpl; intros H Fc; [rewrite Fc; auto|]. rewrite (H a) by auto. apply IH; auto. Qed.
  Lemma split_unique (pre pre' post post':list nat) c : pre ++ c :: post = pre' ++ c :: post' -> ~ In c pre -> ~ In c pre' -> pre = pre'.
  Proof.
    revert pre'. induction pre as [|a r IH]; intros [|a' r'] E N N'; simpl in *; auto.
    - injection E as <- _. exfalso. apply N'. auto.
    - injection E as -> _. exfalso. apply N. auto.
    - injection E as <- E. f_equal. apply IH with (pre' := r'); auto.
  Qed.
  Lemma val_none s x : val s x = None -> s x = None /\ body x = None.
  Proof. unfold val. destruct (s x); [discriminate|auto]. Qed.

  (* where the walk of a class in use ends, in a state built by the library's own stores: at its own stored value, or exactly where it ends
     in a fresh process *)
  Lemma walk_sound s d : Inv s -> U d ->
    (exists b, s d = Some b /\ first_bound (d :: mro d) (val s) = Some b) \/ first_bound (d :: mro d) (val s) = first_bound (d :: mro d) (val empty).
  Proof.
    intros I Ud. destruct (first_bound (d :: mro d) (val s)) as [b|] eqn:L.
    - destruct (first_bound_split _ _ _ L) as (pre & c & post & E & Fc & Hp).
      assert (Pre: forall x, In x pre -> val empty x = None).
      { intros x Ix. destruct (val_none _ _ (Hp x Ix)) as (_ & Bx). unfold val, empty. exact Bx. }
      unfold val in Fc. destruct (s c) as [b'|] eqn:Sc.
      + injection Fc as ->. destruct (I c b Sc) as (Uc & Eb & Stc).
        destruct pre as [|p pre'].
        * simpl in E. injection E as <- _. left. exists b. auto.
        * exfalso. simpl in E. injection E as <- E. assert (Ic: In c (mro d)) by (rewrite E; apply in_or_app; right; left; auto).
          assert (NA: ~ accepted_body c).
          { intros (v & Bv). unfold static, lookup in Stc. simpl in Stc. unfold val at 1, empty in Stc. rewrite Bv in Stc. discriminate. }
          destruct (no_inherited_lazy_slot d c Ud Uc Ic NA) as (pre2 & post2 & E2 & x & Ix & (v & Bx)).
          assert (ND := mro_nodup d Ud).
          assert (E1: d :: mro d = (d :: pre') ++ c :: post) by (simpl; f_equal; exact E).
          assert (N1: ~ In c (d :: pre')).
          { rewrite E1 in ND. apply NoDup_remove_2 in ND. intros H. apply ND. apply in_or_app. auto. }
          assert (N2: ~ In c pre2).
          { rewrite E2 in ND. apply NoDup_remove_2 in ND. intros H. apply ND. apply in_or_app. auto. }
          assert (EQ: d :: pre' = pre2) by (apply (split_unique _ _ post post2 c); [rewrite <- E1; exact E2|exact N1|exact N2]).
          rewrite <- EQ in Ix. destruct (val_none _ _ (Hp x Ix)) as (_ & Bn). congruence.
      + right. rewrite E. symmetry. apply first_bound_at; [exact Pre|unfold val, empty; exact Fc].
    - right. symmetry. apply first_bound_none. rewrite first_bound_none in L. intros x Ix. destruct (val_none _ _ (L x Ix)) as (_ & Bx). unfold val, empty. exact Bx.
  Qed.
  Lemma lookup_sound s d : Inv s -> U d -> (lookup s d = None /\ static d = None) \/ (exists v, lookup s d = Some v /\ expected d = Some v).
  Proof.
    intros I Ud. destruct (walk_sound s d I Ud) as [(b & Sd & W)|W].
    - destruct (I d b Sd) as (_ & -> & St). unfold lookup. rewrite W. unfold expected. rewrite St. destruct (compute d) as [v|]; simpl; [right; exists v; auto|left; auto].
    - unfold lookup. rewrite W. fold (lookup empty d). fold (static d). unfold expected. destruct (static d) as [v|]; [right; exists v; auto|left; auto].
  Qed.
  Lemma upd_inv s d : Inv s -> U d -> static d = None -> Inv (upd d (compute d) s).
  Proof.
    intros I Ud Sd x b. unfold upd. destruct (Nat.eqb_spec x d) as [->|Ne]; [intros [= <-]; auto|apply I].
  Qed.

  Definition tinv (t:tstate) : Prop :=
    match t with Start d => U d | Storing d => U d /\ static d = None | Done d v => v = expected d end.
  Lemma set_nth_Forall {A} (P:A -> Prop) i x l : Forall P l -> P x -> Forall P (set_nth i x l).
  Proof. revert i. induction l as [|h t IH]; intros i F Px; destruct i; simpl; auto; inversion F; subst; constructor; auto. Qed.
  Lemma sstep_inv st tid : Inv (fst st) -> Forall tinv (snd st) -> Inv (fst (sstep st tid)) /\ Forall tinv (snd (sstep st tid)).
  Proof.
    intros I F. unfold sstep. destruct (nth_error (snd st) tid) as [t|] eqn:N; auto.
    assert (Ht: tinv t) by (rewrite Forall_forall in F; apply F; eapply nth_error_In; eauto).
    destruct t as [d|d|d v]; simpl in *.
    - destruct (lookup_sound (fst st) d I Ht) as [(L & S)|(v & L & E)]; rewrite L; simpl; split; auto; apply set_nth_Forall; auto; simpl; auto.
    - destruct Ht as (Ud & Sd). split; [apply upd_inv; auto|]. apply set_nth_Forall; auto. simpl. unfold expected. rewrite Sd. reflexivity.
    - split; auto. apply set_nth_Forall; auto.
  Qed.
  (* every schedule, every number of threads, every mix of classes in use: a thread that returns, returns what it would return alone *)
  Theorem slots_order_independent : forall sched ds t d v, Forall U ds ->
    In t (snd (srun sched (empty, map Start ds))) -> t = Done d v -> v = expected d.
  Proof.
    intros sched ds t d v Uds.
    assert (G: forall st, Inv (fst st) -> Forall tinv (snd st) -> Inv (fst (srun sched st)) /\ Forall tinv (snd (srun sched st))).
    { induction sched as [|a r IH]; intros st I F; simpl; auto. destruct (sstep_inv st a I F). apply IH; auto. }
    destruct (G (empty, map Start ds)) as (_ & F).
    - intros x w. discriminate.
    - simpl. rewrite Forall_forall in *. intros x Ix. apply in_map_iff in Ix as (y & <- & Iy). simpl. auto.
    - intros It ->. rewrite Forall_forall in F. apply (F _ It).
  Qed.
  (* and alone it is that value: the only thread of a fresh process, run to its end *)
  Lemma alone_expected d : nth_error (snd (srun [0; 0] (empty, [Start d]))) 0 = Some (Done d (expected d)).
  Proof.
    unfold srun, sstep, expected, static. simpl. destruct (lookup empty d) as [v|] eqn:L; simpl; rewrite ?L; reflexivity.
  Qed.
End Slots.

(* ---- the refutation: class 1 derives from class 0, neither body binds the slot, both are in use ---- *)
Definition ex_mro (c:nat) : list nat := match c with 1 => [0] | _ => [] end.
Definition ex_body (c:nat) : option (option (list nat)) := None.
Definition ex_compute (c:nat) : option (list nat) := match c with 0 => Some [1;2;3;4;5] | _ => Some [1;3;5] end.
Example inherited_slot_refuted : exists sched,
  nth_error (snd (srun (list nat) ex_mro ex_body ex_compute sched (empty (list nat), [Start (list nat) 0; Start (list nat) 1]))) 1 = Some (Done (list nat) 1 (Some [1;2;3;4;5]))
  /\ expected (list nat) ex_mro ex_body ex_compute 1 = Some [1;3;5].
Proof. exists [0;0;1]. vm_compute. split; reflexivity. Qed.
(* the same two classes used in the other order are both right: the defect depends on who comes first *)
Example inherited_slot_other_order :
  nth_error (snd (srun (list nat) ex_mro ex_body ex_compute [1;1;0;0] (empty (list nat), [Start (list nat) 0; Start (list nat) 1]))) 1 = Some (Done (list nat) 1 (Some [1;3;5])).
Proof. vm_compute. reflexivity. Qed.
(* a derived class whose own body binds the slot to a rejected value (A = None) is immune: the walk stops at its own dictionary *)
Example own_rejected_binding_is_immune :
  nth_error (snd (srun (list nat) ex_mro (fun c => match c with 1 => Some None | _ => None end) ex_compute [0;0;1;1] (empty (list nat), [Start (list nat) 0; Start (list nat) 1]))) 1
  = Some (Done (list nat) 1 (Some [1;3;5])).
Proof. vm_compute. reflexivity. Qed.

(* ---- executable instance for the correspondence with CPython's attribute lookup on the library's own classes (vlib/c20.py, slot_correspondence):
        a slot value is identified by the class it was computed on / whose body binds it; bodies: 0 unbound, 1 bound to a rejected value, 2 bound ---- *)
Definition own_mro (mros:list (list nat)) (c:nat) : list nat := nth c mros [].
Definition own_body (bodies:list nat) (c:nat) : option (option nat) := match nth c bodies 0 with 0 => None | 1 => Some None | _ => Some (Some c) end.
Definition own_result (t:tstate nat) : option nat := match t with Done _ _ v => v | _ => None end.
Definition owner_run (mros:list (list nat)) (bodies:list nat) (uses sched:list nat) : list (option nat) * list (option nat) :=
  let st := srun nat (own_mro mros) (own_body bodies) (fun d => Some d) sched (empty nat, map (Start nat) uses) in
  (map own_result (snd st), map (lookup nat (own_mro mros) (own_body bodies) (fst st)) (seq 0 (length mros))).

(* ---- the premise of slots_order_independent DECIDED on a class table (one row per class of a family: its strict ancestors in lookup order,
        what its body binds for the slot - 0 nothing, 1 a rejected value, 2 an accepted value -, whether the class can be in use) ---- *)
Definition row : Type := (list nat * nat * bool)%type.
Definition r_mro (tbl:list row) (c:nat) : list nat := fst (fst (nth c tbl ([], 0, false))).
Definition r_state (tbl:list row) (c:nat) : nat := snd (fst (nth c tbl ([], 0, false))).
Definition r_used (tbl:list row) (c:nat) : bool := snd (nth c tbl ([], 0, false)).
Definition r_body {T} (v:T) (tbl:list row) (c:nat) : option (option T) := match r_state tbl c with 0 => None | 1 => Some None | _ => Some (Some v) end.
Definition acc (tbl:list row) (c:nat) : bool := match r_state tbl c with 0 | 1 => false | _ => true end.
Fixpoint walk_ok (tbl:list row) (path:list nat) : bool :=
  match path with [] => true | c :: r => if acc tbl c then true else if r_used tbl c then false else walk_ok tbl r end.
Fixpoint nodupb (l:list nat) : bool := match l with [] => true | h :: t => negb (existsb (Nat.eqb h) t) && nodupb t end.
Definition class_ok (tbl:list row) (d:nat) : bool :=
  nodupb (d :: r_mro tbl d) && (negb (r_used tbl d) || acc tbl d || walk_ok tbl (r_mro tbl d)).
Definition table_ok (tbl:list row) : bool := forallb (class_ok tbl) (seq 0 (length tbl)).

Lemma nodupb_NoDup l : nodupb l = true -> NoDup l.
Proof.
  induction l as [|h t IH]; simpl; intros H; [constructor|]. apply andb_true_iff in H as [N R]. constructor; auto.
  intros I. apply negb_true_iff in N. assert (E: existsb (Nat.eqb h) t = true) by (apply existsb_exists; exists h; split; auto; apply Nat.eqb_refl). congruence.
Qed.
Lemma acc_body {T} (v:T) tbl c : acc tbl c = true <-> exists w, r_body v tbl c = Some (Some w).
Proof.
  unfold acc, r_body. destruct (r_state tbl c) as [|[|k]]; split; try discriminate; auto.
  - intros (w & E). discriminate.
  - intros (w & E). discriminate.
  - intros _. exists v. reflexivity.
Qed.
Lemma walk_shadow tbl : forall l c, walk_ok tbl l = true -> In c l -> r_used tbl c = true -> acc tbl c = false ->
  exists pre post, l = pre ++ c :: post /\ exists x, In x pre /\ acc tbl x = true.
Proof.
  induction l as [|a r IH]; intros c W I Uc Ac; [destruct I|]. simpl in W. destruct (acc tbl a) eqn:Aa.
  - destruct I as [<-|I]; [congruence|]. destruct (in_split _ _ I) as (p1 & post & ->). exists (a :: p1), post. split; auto. exists a. split; [left; auto|auto].
  - destruct (r_used tbl a) eqn:Ua; [discriminate|]. destruct I as [<-|I]; [congruence|].
    destruct (IH c W I Uc Ac) as (pre & post & -> & x & Ix & Ax). exists (a :: pre), post. split; auto. exists x. split; [right; auto|auto].
Qed.
Lemma below_length tbl d : d < length tbl \/ (r_used tbl d = false).
Proof.
  destruct (Nat.lt_ge_cases d (length tbl)); auto. right. unfold r_used. rewrite nth_overflow; auto.
Qed.
(* a table that passes the check satisfies the premise of the theorem, with the classes that can be in use as U *)
Theorem table_ok_sound {T} (v:T) tbl : table_ok tbl = true ->
  (forall d, r_used tbl d = true -> NoDup (d :: r_mro tbl d)) /\
  (forall d c, r_used tbl d = true -> r_used tbl c = true -> In c (r_mro tbl d) -> ~ accepted_body T (r_body v tbl) c -> shadowed_before T (r_mro tbl) (r_body v tbl) d c).
Proof.
  intros H. unfold table_ok in H. rewrite forallb_forall in H.
  assert (K: forall d, r_used tbl d = true -> class_ok tbl d = true).
  { intros d Ud. destruct (below_length tbl d) as [L|L]; [|congruence]. apply H. apply in_seq. lia. }
  split.
  - intros d Ud. specialize (K d Ud). unfold class_ok in K. apply andb_true_iff in K as [N _]. apply nodupb_NoDup. exact N.
  - intros d c Ud Uc Ic NA. specialize (K d Ud). unfold class_ok in K. apply andb_true_iff in K as [_ K]. rewrite Ud in K. simpl in K.
    assert (Ac: acc tbl c = false).
    { destruct (acc tbl c) eqn:E; auto. exfalso. apply NA. apply (acc_body v). exact E. }
    unfold shadowed_before, accepted_body. apply orb_true_iff in K as [Ad|W].
    + destruct (in_split _ _ Ic) as (p1 & post & E). exists (d :: p1), post. split; [simpl; f_equal; exact E|]. exists d. split; [left; auto|apply (acc_body v); exact Ad].
    + destruct (walk_shadow tbl _ c W Ic Uc Ac) as (pre & post & E & x & Ix & Ax). exists (d :: pre), post. split; [simpl; f_equal; exact E|].
      exists x. split; [right; auto|apply (acc_body v); exact Ax].
Qed.
(* the theorem on a checked table: any computation, any schedule, any number of uses of classes that can be in use *)
Theorem table_slots_order_independent {T} (v:T) (compute:nat -> option T) tbl : table_ok tbl = true ->
  forall sched ds t d w, Forall (fun c => r_used tbl c = true) ds ->
  In t (snd (srun T (r_mro tbl) (r_body v tbl) compute sched (empty T, map (Start T) ds))) -> t = Done T d w -> w = expected T (r_mro tbl) (r_body v tbl) compute d.
Proof.
  intros H. destruct (table_ok_sound v tbl H) as (ND & NI).
  apply (slots_order_independent T (r_mro tbl) (r_body v tbl) compute (fun c => r_used tbl c = true) ND NI).
Qed.
