(* Structural classes of templates: which particles are sequence-machine templates (is_seq), and the proof that the
   machine's own regular expression (re_of_s) denotes the same language as the particle's (re_of). *)
From MX Require Import Spec.Particle Spec.Deriv Spec.Equiv Model.AbsSeq Model.AbsSeqC02.
From Coq Require Import Arith.

Fixpoint all_some {A} (l:list (option A)) : option (list A) :=
  match l with [] => Some [] | Some x :: t => option_map (cons x) (all_some t) | None :: _ => None end.
Fixpoint stree_of (p:particle) : option stree :=
  match p with
  | PElem s mn mx => Some (SLeaf s mn mx)
  | PSeq mn mx l | PGroup _ mn mx l =>
      match mn, mx with
      | 1, Some 1 => option_map (SNode false) (all_some (map stree_of l))
      | 0, Some 1 => option_map (SNode true) (all_some (map stree_of l))
      | _, _ => None end
  | PChoice _ _ _ => None
  end.
Fixpoint nodup_pos (l:list positive) : bool := match l with [] => true | h :: t => negb (existsb (Pos.eqb h) t) && nodup_pos t end.
(* required leaves inside optional sequences occur at most once (side condition of the correspondence, see DESIGN 2.2) *)
Fixpoint opt_req_max1 (inopt:bool) (t:stree) : bool :=
  match t with
  | SLeaf _ mn mx => negb inopt || Nat.eqb mn 0 || match mx with Some 1 => true | _ => false end
  | SNode o k => forallb (opt_req_max1 (inopt || o)) k end.
Definition is_seq (p:particle) : bool :=
  match stree_of p with Some t => wf_t t && nodup_pos (alpha_t t) && opt_req_max1 false t | None => false end.
Fixpoint has_opt (t:stree) : bool := match t with SLeaf _ _ _ => false | SNode o k => o || existsb has_opt k end.
Definition no_opt (p:particle) : bool := match stree_of p with Some t => is_seq p && negb (has_opt t) | None => false end.

Lemma nodup_pos_NoDup l : nodup_pos l = true -> NoDup l.
Proof.
  induction l as [|h t IH]; simpl; intros H; constructor.
  - apply andb_true_iff in H as [H _]. intros I. apply negb_true_iff in H.
    assert (existsb (Pos.eqb h) t = true) by (apply existsb_exists; exists h; split; auto; apply Pos.eqb_refl). congruence.
  - apply andb_true_iff in H as [_ H]. auto.
Qed.

(* ---- language of the machine's expression = language of the particle ---- *)
Section particle_ind2.
  Variable P : particle -> Prop.
  Hypothesis HE : forall s mn mx, P (PElem s mn mx).
  Hypothesis HS : forall mn mx l, Forall P l -> P (PSeq mn mx l).
  Hypothesis HC : forall mn mx l, Forall P l -> P (PChoice mn mx l).
  Hypothesis HG : forall g mn mx l, Forall P l -> P (PGroup g mn mx l).
  Fixpoint particle_ind2 (p:particle) : P p :=
    let go := fix go (l:list particle) : Forall P l := match l with [] => Forall_nil P | x::t => Forall_cons x (particle_ind2 x) (go t) end in
    match p with
    | PElem s mn mx => HE s mn mx
    | PSeq mn mx l => HS mn mx l (go l)
    | PChoice mn mx l => HC mn mx l (go l)
    | PGroup g mn mx l => HG g mn mx l (go l)
    end.
End particle_ind2.

Lemma rep11 r w : Lang (Rep r 1 (Some 1)) w <-> Lang r w.
Proof.
  simpl. split.
  - intros (k & A & B & C). assert (k = 1) by lia. subst. simpl in C. destruct C as (u & v & -> & Hu & ->). rewrite app_nil_r. auto.
  - intros H. exists 1. repeat split; auto. simpl. exists w, []. rewrite app_nil_r. auto.
Qed.
Lemma wrap_rep r mn mx w : Lang (wrap r mn mx) w <-> Lang (Rep r mn mx) w.
Proof. unfold wrap. destruct mn as [|[|mn]]; try reflexivity. destruct mx as [[|[|m]]|]; try reflexivity. symmetry. apply rep11. Qed.
Lemma cats_fold (l:list re) w : Lang (cats l) w <-> Lang (fold_right Cat Eps l) w.
Proof.
  revert w. induction l as [|a l IH]; intros w; simpl; [tauto|].
  destruct l as [|b l].
  - simpl. split. + intros H. exists w, []. rewrite app_nil_r. auto. + intros (u & v & -> & H & ->). rewrite app_nil_r. auto.
  - change ((exists u v, w = u ++ v /\ Lang a u /\ Lang (cats (b :: l)) v) <-> (exists u v, w = u ++ v /\ Lang a u /\ Lang (fold_right Cat Eps (b :: l)) v)).
    split; intros (u & v & E & A & B); exists u, v; repeat split; auto; apply IH; auto.
Qed.
Lemma fold_congr (l1 l2:list re) : Forall2 (fun a b => forall w, Lang a w <-> Lang b w) l1 l2 ->
  forall w, Lang (fold_right Cat Eps l1) w <-> Lang (fold_right Cat Eps l2) w.
Proof.
  induction 1 as [|a b l1 l2 Hab Hl IH]; intros w; simpl; [tauto|].
  split; intros (u & v & E & A & B); exists u, v; repeat split; auto; try apply Hab; try apply IH; auto.
Qed.
Lemma rep_congr a b mn mx : (forall w, Lang a w <-> Lang b w) -> forall w, Lang (Rep a mn mx) w <-> Lang (Rep b mn mx) w.
Proof.
  intros H w. simpl. split; intros (k & A & B & C); exists k; repeat split; auto.
  - apply (pow_congr (Lang a) (Lang b) k H); auto.
  - apply (pow_congr (Lang a) (Lang b) k H); auto.
Qed.
Lemma fold_map_re (k:list stree) : fold_right (fun x acc => Cat (re_of_s x) acc) Eps k = fold_right Cat Eps (map re_of_s k).
Proof. induction k; simpl; congruence. Qed.
Lemma all_some_Forall2 {A B} (f:A -> option B) l r : all_some (map f l) = Some r -> Forall2 (fun a b => f a = Some b) l r.
Proof.
  revert r. induction l as [|a l IH]; simpl; intros r E.
  - injection E as <-. constructor.
  - destruct (f a) as [b|] eqn:Fa; [|discriminate]. destruct (all_some (map f l)) as [r'|]; [|discriminate].
    injection E as <-. constructor; auto.
Qed.
Theorem stree_of_lang p : forall t, stree_of p = Some t -> forall w, Lang (re_of p) w <-> Lang (re_of_s t) w.
Proof.
  induction p using particle_ind2; intros t E.
  - simpl in E. injection E as <-. intros w. simpl re_of. simpl re_of_s. apply wrap_rep.
  - assert (G: forall (o:bool) kids, all_some (map stree_of l) = Some kids ->
               forall w, Lang (cats (map re_of l)) w <-> Lang (fold_right (fun x acc => Cat (re_of_s x) acc) Eps kids) w).
    { intros o kids Ek w. rewrite fold_map_re, cats_fold. apply fold_congr.
      apply all_some_Forall2 in Ek. clear -H Ek. revert kids Ek. induction H; intros kids Ek; inversion Ek; subst; simpl; constructor; auto. }
    simpl in E. destruct mn as [|[|mn]]; try discriminate; destruct mx as [[|[|m]]|]; try discriminate;
      destruct (all_some (map stree_of l)) as [kids|] eqn:Ek; try discriminate; injection E as <-; intros w; cbn [re_of re_of_s].
    + rewrite wrap_rep. apply rep_congr. apply (G true); auto.
    + unfold wrap. apply (G false); auto.
  - discriminate.
  - assert (G: forall (o:bool) kids, all_some (map stree_of l) = Some kids ->
               forall w, Lang (cats (map re_of l)) w <-> Lang (fold_right (fun x acc => Cat (re_of_s x) acc) Eps kids) w).
    { intros o kids Ek w. rewrite fold_map_re, cats_fold. apply fold_congr.
      apply all_some_Forall2 in Ek. clear -H Ek. revert kids Ek. induction H; intros kids Ek; inversion Ek; subst; simpl; constructor; auto. }
    simpl in E. destruct mn as [|[|mn]]; try discriminate; destruct mx as [[|[|m]]|]; try discriminate;
      destruct (all_some (map stree_of l)) as [kids|] eqn:Ek; try discriminate; injection E as <-; intros w; cbn [re_of re_of_s].
    + rewrite wrap_rep. apply rep_congr. apply (G true); auto.
    + unfold wrap. apply (G false); auto.
Qed.
Lemma is_seq_parts p : is_seq p = true -> exists t, stree_of p = Some t /\ wf_t t = true /\ NoDup (alpha_t t).
Proof.
  unfold is_seq. destruct (stree_of p) as [t|]; [|discriminate]. intros H.
  apply andb_true_iff in H as [H _]. apply andb_true_iff in H as [W N]. exists t. repeat split; auto. apply nodup_pos_NoDup; auto.
Qed.
