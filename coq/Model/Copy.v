(* __deepcopy__ of XMLElement.  An element carries its value, its xsd_check flag, the keyword arguments it was
   constructed with (already validated attribute assignments) and its CURRENT attributes; children in serialisation order.
   Which of the two the copy is rebuilt from is read off the source by tr/code.py (Gen/Code.v: deepcopy_ctor/deepcopy_later). *)
From Coq Require Import List String Bool.
Import ListNotations.
Open Scope string_scope.
Inductive elt := Elt (value:string) (check:bool) (kwargs attrs:list (string*string)) (kids:list elt).
Inductive copy_source := FromKwargs | FromAttributes | UnknownSource.
Fixpoint deepcopy (src:copy_source) (e:elt) : elt :=
  match e with Elt v c kw at_ k =>
    match src with
    | FromAttributes => Elt v c at_ at_ (map (deepcopy src) k)
    | _ => Elt v c kw kw (map (deepcopy src) k) end end.
(* what to_string shows: value, current attributes, children *)
Inductive doc := Doc (value:string) (attrs:list (string*string)) (kids:list doc).
Fixpoint emit (e:elt) : doc := match e with Elt v _ _ at_ k => Doc v at_ (map emit k) end.
Fixpoint untouched (e:elt) : Prop := match e with Elt _ _ kw at_ k => kw = at_ /\ (fix all (l:list elt) : Prop := match l with [] => True | x :: t => untouched x /\ all t end) k end.

Section elt_ind2.
  Variable P : elt -> Prop.
  Hypothesis H : forall v c kw a k, Forall P k -> P (Elt v c kw a k).
  Fixpoint elt_ind2 (e:elt) : P e :=
    match e with Elt v c kw a k => H v c kw a k ((fix go (l:list elt) : Forall P l := match l with [] => Forall_nil P | x :: r => Forall_cons x (elt_ind2 x) (go r) end) k) end.
End elt_ind2.
(* copying from the current attributes is faithful for EVERY element tree *)
Theorem deepcopy_attrs_faithful : forall e, emit (deepcopy FromAttributes e) = emit e.
Proof.
  induction e using elt_ind2. simpl. f_equal. rewrite map_map. induction H; simpl; auto. rewrite H, IHForall. auto.
Qed.
(* the copy keeps xsd_check at every node *)
Fixpoint checks (e:elt) : list bool := match e with Elt _ c _ _ k => c :: flat_map checks k end.
Theorem deepcopy_keeps_xsd_check : forall src e, checks (deepcopy src e) = checks e.
Proof.
  intros src. induction e using elt_ind2. destruct src; simpl; f_equal; induction H; simpl; auto; rewrite H, IHForall; auto.
Qed.
(* copying from the constructor arguments is faithful only for trees whose attributes were never touched after construction *)
Theorem deepcopy_kwargs_partial : forall e, untouched e -> emit (deepcopy FromKwargs e) = emit e.
Proof.
  induction e using elt_ind2. simpl. intros [E U]. subst. f_equal. rewrite map_map.
  induction H; simpl; auto. destruct U as [U1 U2]. rewrite H; auto. rewrite IHForall; auto.
Qed.
Example deepcopy_kwargs_refuted :
  let e := Elt "hello" true [] [("font-family", "Arial")] [] in emit (deepcopy FromKwargs e) <> emit e.
Proof. simpl. intros H. discriminate. Qed.
