(* Documents (element structure to any depth) through the parser and back, on the sequence machine.
   parse : build the element of the tag, parse every child, attach the children with add_child in file order (ids = positions);
           a missing class or a rejected child aborts.
   emit  : to_string: refused unless the final check passes at every node; children in the schema-ordered view.
   Theorem: a document whose every node's child tags form a word of the node's content model is parsed, and emitting the result
   gives back exactly that document (same elements, same order, same nesting). *)
From MX Require Import Spec.Particle Spec.Deriv Model.AbsSeq Model.AbsSeqC02 Model.Classes Model.SeqIds.
From Coq Require Import Arith Lia.

Inductive xdoc := XNode (tag:positive) (kids:list xdoc).
Inductive elt := ENode (tag:positive) (state:sst) (children:list elt).
Definition tag_of (d:xdoc) : positive := match d with XNode t _ => t end.
Section xdoc_ind2.
  Variable P : xdoc -> Prop.
  Hypothesis H : forall t k, Forall P k -> P (XNode t k).
  Fixpoint xdoc_ind2 (d:xdoc) : P d :=
    match d with XNode t k => H t k ((fix go (l:list xdoc) : Forall P l := match l with [] => Forall_nil P | x :: r => Forall_cons x (xdoc_ind2 x) (go r) end) k) end.
End xdoc_ind2.

Section Doc.
  Variable tpl : positive -> option stree.
  Fixpoint parse (d:xdoc) : option elt :=
    match d with XNode tag kids =>
      match tpl tag with
      | None => None
      | Some t => match all_some (map parse kids) with
                  | None => None
                  | Some es => match addw (map tag_of kids) 0 (init t) with Some s => Some (ENode tag s es) | None => None end end end end.
  Definition pick (ds:list (option xdoc)) (p:nat*positive) : option xdoc := match nth_error ds (fst p) with Some (Some d) => Some d | _ => None end.
  Fixpoint emit (e:elt) : option xdoc :=
    match e with ENode tag s es =>
      match required true s with
      | [] => option_map (XNode tag) (all_some (map (pick (map emit es)) (ordered s)))
      | _ => None end end.
  Fixpoint valid (d:xdoc) : Prop :=
    match d with XNode tag kids =>
      (exists t, tpl tag = Some t /\ wf_t t = true /\ NoDup (alpha_t t) /\ Lang (re_of_s t) (map tag_of kids))
      /\ (fix all (l:list xdoc) : Prop := match l with [] => True | k :: r => valid k /\ all r end) kids end.

  Lemma all_some_map_Some {A} (l:list A) : all_some (map Some l) = Some l.
  Proof. induction l; simpl; auto. rewrite IHl. reflexivity. Qed.
  Lemma pick_tagged (kids:list xdoc) : forall n (pre:list xdoc) w, length w = length kids -> n = length pre ->
    all_some (map (pick (map Some (pre ++ kids))) (tagged n w)) = Some kids.
  Proof.
    induction kids as [|k r IH]; intros n pre w L N; destruct w as [|a w]; simpl in L; try discriminate; auto.
    unfold tagged. simpl. unfold pick at 1. simpl fst.
    replace (nth_error (map Some (pre ++ k :: r)) n) with (Some (Some k)).
    2:{ rewrite nth_error_map, nth_error_app2 by lia. rewrite N, Nat.sub_diag. reflexivity. }
    specialize (IH (S n) (pre ++ [k]) w). rewrite <- app_assoc in IH. simpl in IH. unfold tagged in IH. rewrite IH; auto.
    rewrite app_length. simpl. lia.
  Qed.
  Theorem doc_roundtrip : forall d, valid d -> exists e, parse d = Some e /\ emit e = Some d.
  Proof.
    induction d using xdoc_ind2. intros [(st & T & W & ND & L) VK].
    assert (K: exists es, all_some (map parse k) = Some es /\ map emit es = map Some k).
    { clear -H VK. induction H as [|x r Hx Hr IH]; simpl.
      - exists []. auto.
      - destruct VK as [Vx Vr]. destruct (Hx Vx) as (e & Pe & Ee). destruct (IH Vr) as (es & Pes & Ees).
        exists (e :: es). rewrite Pe, Pes. simpl. rewrite Ee, Ees. auto. }
    destruct K as (es & Pes & Ees).
    destruct (C02_seq_ids st W ND (map tag_of k) 0 L) as (s & A & R & O).
    exists (ENode t s es). simpl. rewrite T, Pes, A. split; auto. rewrite R, O, Ees.
    pose proof (pick_tagged k 0 [] (map tag_of k) (map_length _ _) eq_refl) as PT. simpl in PT. rewrite PT. reflexivity.
  Qed.
End Doc.
