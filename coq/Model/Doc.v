(* Documents (element structure to any depth) through the parser and back, on the sequence machine.
   parse : build the element of the tag, parse every child, attach the children with add_child in file order (ids = positions);
           a missing class or a rejected child aborts.
   emit  : to_string: refused unless the final check passes at every node; children in the schema-ordered view.
   Theorem: a document whose every node's child tags form a word of the node's content model is parsed, and emitting the result
   gives back exactly that document (same elements, same order, same nesting). *)
From MX Require Import Spec.Particle Spec.Deriv Model.AbsSeq Model.AbsSeqC02 Model.Classes Model.SeqMachine Model.SeqIds.
From Coq Require Import Arith Lia Permutation.

Inductive xdoc := XNode (tag:positive) (kids:list xdoc).
Inductive elt := ENode (tag:positive) (state:sst) (children:list elt).
Definition tag_of (d:xdoc) : positive := match d with XNode t _ => t end.
Section xdoc_ind2.
  Variable P : xdoc -> Prop.
  Hypothesis H : forall t k, Forall P k -> P (XNode t k).
  Fixpoint xdoc_ind2 (d:xdoc) : P d :=
    match d with XNode t k => H t k ((fix go (l:list xdoc) : Forall P l := match l with [] => Forall_nil P | x :: r => Forall_cons x (xdoc_ind2 x) (go r) end) k) end.
End xdoc_ind2.

Section Doc.
  Variable tpl : positive -> option stree.
  Fixpoint parse (d:xdoc) : option elt :=
    match d with XNode tag kids =>
      match tpl tag with
      | None => None
      | Some t => match all_some (map parse kids) with
                  | None => None
                  | Some es => match addw (map tag_of kids) 0 (init t) with Some s => Some (ENode tag s es) | None => None end end end end.
  Definition pick (ds:list (option xdoc)) (p:nat*positive) : option xdoc := match nth_error ds (fst p) with Some (Some d) => Some d | _ => None end.
  Fixpoint emit (e:elt) : option xdoc :=
    match e with ENode tag s es =>
      match required true s with
      | [] => option_map (XNode tag) (all_some (map (pick (map emit es)) (ordered s)))
      | _ => None end end.
  Fixpoint valid (d:xdoc) : Prop :=
    match d with XNode tag kids =>
      (exists t, tpl tag = Some t /\ wf_t t = true /\ NoDup (alpha_t t) /\ Lang (re_of_s t) (map tag_of kids))
      /\ (fix all (l:list xdoc) : Prop := match l with [] => True | k :: r => valid k /\ all r end) kids end.

  Lemma all_some_map_Some {A} (l:list A) : all_some (map Some l) = Some l.
  Proof. induction l; simpl; auto. rewrite IHl. reflexivity. Qed.
  Lemma pick_tagged (kids:list xdoc) : forall n (pre:list xdoc) w, length w = length kids -> n = length pre ->
    all_some (map (pick (map Some (pre ++ kids))) (tagged n w)) = Some kids.
  Proof.
    induction kids as [|k r IH]; intros n pre w L N; destruct w as [|a w]; simpl in L; try discriminate; auto.
    unfold tagged. simpl. unfold pick at 1. simpl fst.
    replace (nth_error (map Some (pre ++ k :: r)) n) with (Some (Some k)).
    2:{ rewrite nth_error_map, nth_error_app2 by lia. rewrite N, Nat.sub_diag. reflexivity. }
    specialize (IH (S n) (pre ++ [k]) w). rewrite <- app_assoc in IH. simpl in IH. unfold tagged in IH. rewrite IH; auto.
    rewrite app_length. simpl. lia.
  Qed.
  Theorem doc_roundtrip : forall d, valid d -> exists e, parse d = Some e /\ emit e = Some d.
  Proof.
    induction d using xdoc_ind2. intros [(st & T & W & ND & L) VK].
    assert (K: exists es, all_some (map parse k) = Some es /\ map emit es = map Some k).
    { clear -H VK. induction H as [|x r Hx Hr IH]; simpl.
      - exists []. auto.
      - destruct VK as [Vx Vr]. destruct (Hx Vx) as (e & Pe & Ee). destruct (IH Vr) as (es & Pes & Ees).
        exists (e :: es). rewrite Pe, Pes. simpl. rewrite Ee, Ees. auto. }
    destruct K as (es & Pes & Ees).
    destruct (C02_seq_ids st W ND (map tag_of k) 0 L) as (s & A & R & O).
    exists (ENode t s es). simpl. rewrite T, Pes, A. split; auto. rewrite R, O, Ees.
    pose proof (pick_tagged k 0 [] (map tag_of k) (map_length _ _) eq_refl) as PT. simpl in PT. rewrite PT. reflexivity.
  Qed.

  (* ---- the library's own output: whatever emit produces from a consistent element tree is a valid document ---- *)
  Definition etag (e:elt) : positive := match e with ENode t _ _ => t end.
  (* consistent: the state is a reachable state of the tag's template, and every (id, name) of the schema-ordered view points at a child
     with that tag (what add_child maintains: the id is the child's position in the insertion list) *)
  Fixpoint elt_ok (e:elt) : Prop :=
    match e with ENode tag s es =>
      (exists t, tpl tag = Some t /\ wf_t t = true /\ NoDup (alpha_t t) /\ Inv s /\ shape s = t)
      /\ (forall p, In p (ordered s) -> exists c, nth_error es (fst p) = Some c /\ etag c = snd p)
      /\ (fix all (l:list elt) : Prop := match l with [] => True | c :: r => elt_ok c /\ all r end) es end.
  Section elt_ind2.
    Variable P : elt -> Prop.
    Hypothesis H : forall t s k, Forall P k -> P (ENode t s k).
    Fixpoint elt_ind2 (e:elt) : P e :=
      match e with ENode t s k => H t s k ((fix go (l:list elt) : Forall P l := match l with [] => Forall_nil P | x :: r => Forall_cons x (elt_ind2 x) (go r) end) k) end.
  End elt_ind2.
  Lemma emit_tag e d : emit e = Some d -> tag_of d = etag e.
  Proof. destruct e as [t s es]. simpl. destruct (required true s); [|discriminate]. destruct (all_some _); simpl; [|discriminate]. intros E. injection E as <-. reflexivity. Qed.
  Lemma all_some_spec {A} (l:list (option A)) r : all_some l = Some r -> Forall2 (fun o x => o = Some x) l r.
  Proof.
    revert r. induction l as [|o l IH]; simpl; intros r E.
    - injection E as <-. constructor.
    - destruct o as [x|]; [|discriminate]. destruct (all_some l) as [r'|]; [|discriminate]. injection E as <-. constructor; auto.
  Qed.
  Theorem emitted_is_valid : forall e, elt_ok e -> forall d, emit e = Some d -> valid d.
  Proof.
    induction e using elt_ind2. intros [(st & T & W & ND & I & Sh) [C OK]] d E. simpl in E.
    destruct (required true s) eqn:R; [|discriminate].
    destruct (all_some (map (pick (map emit k)) (ordered s))) as [kids|] eqn:A; [|discriminate]. injection E as <-.
    apply all_some_spec in A.
    (* every picked kid is the emission of a consistent child with the recorded tag *)
    assert (K: Forall2 (fun p kd => tag_of kd = snd p /\ valid kd) (ordered s) kids).
    { assert (Sub: forall l kids0, (forall p, In p l -> In p (ordered s)) -> Forall2 (fun o x => o = Some x) (map (pick (map emit k)) l) kids0 ->
                   Forall2 (fun p kd => tag_of kd = snd p /\ valid kd) l kids0).
      { induction l as [|p l IHl]; intros kids0 Incl F; inversion F as [|o x l' r' H3 Hr]; subst; constructor.
        - destruct (C p (Incl p (or_introl eq_refl))) as (c & Nc & Tc). unfold pick in H3. rewrite nth_error_map, Nc in H3. simpl in H3.
          destruct (emit c) as [dc|] eqn:Ec; [|discriminate]. injection H3 as <-.
          split; [rewrite (emit_tag c dc Ec); exact Tc|].
          assert (Ic: In c k) by (eapply nth_error_In; eauto). rewrite Forall_forall in H. apply (H c Ic); auto.
          clear -OK Ic. induction k as [|x r IHr]; [destruct Ic|]. destruct OK as [Ox Or]. destruct Ic as [<-|Ic]; auto.
        - apply IHl; [|exact Hr]. intros q Hq. apply Incl. right. exact Hq. }
      apply Sub; auto. }
    simpl. split.
    - exists st. repeat split; auto. subst st.
      assert (N: map tag_of kids = names (ordered s)).
      { clear -K. induction K as [|p kd l kids0 [Hp _] _ IH]; simpl; auto. unfold names in *. simpl. congruence. }
      rewrite N. apply required_sound; auto.
    - clear -K. induction K as [|p kd l kids0 [_ Hv] _ IH]; simpl; auto.
  Qed.
  (* C08 at document level: what the library emits is read back by the parser as an element that emits the same document *)
  Theorem emitted_roundtrips : forall e d, elt_ok e -> emit e = Some d -> exists e', parse d = Some e' /\ emit e' = Some d.
  Proof. intros e d O E. apply doc_roundtrip. eapply emitted_is_valid; eauto. Qed.

  (* ---- any document, valid or not: if the parser returns and the result serialises, nothing was lost, invented or moved to another
     parent: at every node the emitted children are a permutation of the children read (each related recursively) ---- *)
  Inductive same_content : xdoc -> xdoc -> Prop :=
  | SC t k k' k'' : Forall2 same_content k k'' -> Permutation k'' k' -> same_content (XNode t k) (XNode t k').
  Lemma addw_perm w : forall n s s', addw w n s = Some s' -> Permutation (ordered s') (ordered s ++ tagged n w).
  Proof.
    induction w as [|a w IH]; intros n s s' E; simpl in E.
    - injection E as <-. unfold tagged. simpl. rewrite app_nil_r. apply Permutation_refl.
    - destruct (add n a s) as [s1|] eqn:E1; [|discriminate]. specialize (IH _ _ _ E).
      eapply Permutation_trans; [exact IH|]. unfold tagged. simpl.
      eapply Permutation_trans; [apply Permutation_app_tail; apply ordered_add; exact E1|]. simpl.
      apply Permutation_middle.
  Qed.
  Lemma pick_perm (ds:list (option xdoc)) : forall l1 l2, Permutation l1 l2 -> forall r1, all_some (map (pick ds) l1) = Some r1 ->
    exists r2, all_some (map (pick ds) l2) = Some r2 /\ Permutation r1 r2.
  Proof.
    induction 1 as [|x l1 l2 P IH|x y l|l1 l2 l3 P1 IH1 P2 IH2]; intros r1 E; simpl in *.
    - injection E as <-. exists []. auto.
    - destruct (pick ds x) as [d|]; [|discriminate]. destruct (all_some (map (pick ds) l1)) as [r|] eqn:Er; [|discriminate]. injection E as <-.
      destruct (IH r eq_refl) as (r2 & E2 & P2). rewrite E2. exists (d :: r2). auto.
    - destruct (pick ds y) as [dy|]; [|discriminate]. destruct (pick ds x) as [dx|]; [|discriminate].
      destruct (all_some (map (pick ds) l)) as [r|]; [|discriminate]. injection E as <-. exists (dx :: dy :: r). split; auto. apply perm_swap.
    - destruct (IH1 r1 E) as (r2 & E2 & Q2). destruct (IH2 r2 E2) as (r3 & E3 & Q3). exists r3. split; auto. eapply Permutation_trans; eauto.
  Qed.
  Theorem parse_loses_nothing : forall d e d', parse d = Some e -> emit e = Some d' -> same_content d d'.
  Proof.
    induction d using xdoc_ind2. intros e d' P E. simpl in P.
    destruct (tpl t) as [st|]; [|discriminate]. destruct (all_some (map parse k)) as [es|] eqn:Pes; [|discriminate].
    destruct (addw (map tag_of k) 0 (init st)) as [s|] eqn:A; [|discriminate]. injection P as <-. simpl in E.
    destruct (required true s); [|discriminate]. destruct (all_some (map (pick (map emit es)) (ordered s))) as [kids|] eqn:Pk; [|discriminate]. injection E as <-.
    pose proof (addw_perm _ _ _ _ A) as Perm. rewrite (nonempty_false_ordered _ (nonempty_init st)) in Perm. simpl in Perm.
    destruct (pick_perm (map emit es) _ _ Perm kids Pk) as (kids0 & Pk0 & Q).
    (* in file order every child was parsed and emits: kids0 are those emissions *)
    apply all_some_spec in Pes. apply all_some_spec in Pk0.
    assert (G: forall (k0:list xdoc) es0 (pre:list elt) n kids1, Forall (fun x => forall e d', parse x = Some e -> emit e = Some d' -> same_content x d') k0 ->
               Forall2 (fun o x => o = Some x) (map parse k0) es0 -> n = length pre ->
               Forall2 (fun o x => o = Some x) (map (pick (map emit (pre ++ es0))) (tagged n (map tag_of k0))) kids1 -> Forall2 same_content k0 kids1).
    { clear. induction k0 as [|x r IHr]; intros es0 pre n kids1 HF F1 N F2; inversion F1 as [|o e0 l es1 Ho Hr]; subst; unfold tagged in F2; simpl in F2.
      - inversion F2. constructor.
      - inversion F2 as [|o2 d0 l2 kids2 Hp Hk]; subst. inversion HF as [|? ? Hx HFr]; subst.
        unfold pick in Hp. simpl in Hp. rewrite nth_error_map, nth_error_app2 in Hp by lia. rewrite Nat.sub_diag in Hp. simpl in Hp.
        destruct (emit e0) as [de|] eqn:Ee; [|discriminate]. injection Hp as <-.
        constructor; [apply (Hx e0 de); auto|].
        apply (IHr es1 (pre ++ [e0]) (S (length pre)) kids2); auto.
        + rewrite app_length. simpl. lia.
        + rewrite <- app_assoc. simpl. exact Hk. }
    econstructor; [|apply Permutation_sym; exact Q]. apply (G k es [] 0 kids0); auto.
  Qed.
End Doc.
