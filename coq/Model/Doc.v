(* Documents (element structure to any depth) through the parser and back, over an abstract per-element machine.
   parse : build the element of the tag, parse every child, attach the children with add_child in file order (ids = positions);
           a missing class or a rejected child aborts.
   emit  : to_string: refused unless the final check passes at every node; children in the schema-ordered view.
   The machine of a tag (fresh state, feeding a list of children, final check, schema-ordered view) is a parameter with three laws, proved
   below for the sequence machine and the bag machine:
     good  : a word of the tag's language is accepted, passes the final check and is kept in order WITH its identities (C02);
     perm  : whatever is accepted is kept, up to order (C06);
     sound : in a consistent state a passing final check means a word of the language (C01). *)
From MX Require Import Spec.Particle Spec.Deriv Model.AbsSeq Model.AbsSeqC02 Model.Classes Model.SeqMachine Model.SeqIds Model.AbsBag
  Model.ChoiceSeq Model.ChoiceClass Model.ChoiceC02.
From Coq Require Import Arith Lia Permutation.

Inductive xdoc := XNode (tag:positive) (kids:list xdoc).
Definition tag_of (d:xdoc) : positive := match d with XNode t _ => t end.
Section xdoc_ind2.
  Variable P : xdoc -> Prop.
  Hypothesis H : forall t k, Forall P k -> P (XNode t k).
  Fixpoint xdoc_ind2 (d:xdoc) : P d :=
    match d with XNode t k => H t k ((fix go (l:list xdoc) : Forall P l := match l with [] => Forall_nil P | x :: r => Forall_cons x (xdoc_ind2 x) (go r) end) k) end.
End xdoc_ind2.
Lemma all_some_map_Some {A} (l:list A) : all_some (map Some l) = Some l.
Proof. induction l; simpl; auto. rewrite IHl. reflexivity. Qed.
Lemma all_some_spec {A} (l:list (option A)) r : all_some l = Some r -> Forall2 (fun o x => o = Some x) l r.
Proof.
  revert r. induction l as [|o l IH]; simpl; intros r E.
  - injection E as <-. constructor.
  - destruct o as [x|]; [|discriminate]. destruct (all_some l) as [r'|]; [|discriminate]. injection E as <-. constructor; auto.
Qed.

Section Doc.
  Variable S : Type.
  Variable start : positive -> option S.
  Variable feed : list positive -> S -> option S.
  Variable fin : S -> bool.
  Variable ord : S -> list (nat * positive).
  Variable L : positive -> list positive -> Prop.
  Variable okst : positive -> S -> Prop.
  Inductive elt := ENode (tag:positive) (state:S) (children:list elt).
  Fixpoint parse (d:xdoc) : option elt :=
    match d with XNode tag kids =>
      match start tag with
      | None => None
      | Some s0 => match all_some (map parse kids) with
                   | None => None
                   | Some es => match feed (map tag_of kids) s0 with Some s => Some (ENode tag s es) | None => None end end end end.
  Definition pick (ds:list (option xdoc)) (p:nat*positive) : option xdoc := match nth_error ds (fst p) with Some (Some d) => Some d | _ => None end.
  Fixpoint emit (e:elt) : option xdoc :=
    match e with ENode tag s es =>
      if fin s then option_map (XNode tag) (all_some (map (pick (map emit es)) (ord s))) else None end.
  Fixpoint valid (d:xdoc) : Prop :=
    match d with XNode tag kids =>
      (start tag <> None /\ L tag (map tag_of kids))
      /\ (fix all (l:list xdoc) : Prop := match l with [] => True | k :: r => valid k /\ all r end) kids end.
  Lemma pick_tagged (kids:list xdoc) : forall n (pre:list xdoc) w, length w = length kids -> n = length pre ->
    all_some (map (pick (map Some (pre ++ kids))) (tagged n w)) = Some kids.
  Proof.
    induction kids as [|k r IH]; intros n pre w Ln N; destruct w as [|a w]; simpl in Ln; try discriminate; auto.
    unfold tagged. simpl. unfold pick at 1. simpl fst.
    replace (nth_error (map Some (pre ++ k :: r)) n) with (Some (Some k)).
    2:{ rewrite nth_error_map, nth_error_app2 by lia. rewrite N, Nat.sub_diag. reflexivity. }
    specialize (IH (Datatypes.S n) (pre ++ [k]) w). rewrite <- app_assoc in IH. simpl in IH. unfold tagged in IH. rewrite IH; auto.
    rewrite app_length. simpl. lia.
  Qed.

  (* ---- valid documents are read and re-emitted identically ---- *)
  Hypothesis good : forall tag s0 w, start tag = Some s0 -> L tag w -> exists s, feed w s0 = Some s /\ fin s = true /\ ord s = tagged 0 w.
  Theorem doc_roundtrip : forall d, valid d -> exists e, parse d = Some e /\ emit e = Some d.
  Proof.
    induction d using xdoc_ind2. intros [(T & Lw) VK].
    assert (K: exists es, all_some (map parse k) = Some es /\ map emit es = map Some k).
    { clear -H VK. induction H as [|x r Hx Hr IH]; simpl.
      - exists []. auto.
      - destruct VK as [Vx Vr]. destruct (Hx Vx) as (e & Pe & Ee). destruct (IH Vr) as (es & Pes & Ees).
        exists (e :: es). rewrite Pe, Pes. simpl. rewrite Ee, Ees. auto. }
    destruct K as (es & Pes & Ees). destruct (start t) as [s0|] eqn:St; [|contradiction].
    destruct (good t s0 (map tag_of k) St Lw) as (s & A & R & O).
    exists (ENode t s es). simpl. rewrite St, Pes, A. split; auto. rewrite R, O, Ees.
    pose proof (pick_tagged k 0 [] (map tag_of k) (map_length _ _) eq_refl) as PT. simpl in PT. rewrite PT. reflexivity.
  Qed.

  (* ---- any document: nothing is lost, invented or moved to another parent ---- *)
  Hypothesis perm : forall tag s0 w s, start tag = Some s0 -> feed w s0 = Some s -> Permutation (ord s) (tagged 0 w).
  Inductive same_content : xdoc -> xdoc -> Prop :=
  | SC t k k' k'' : Forall2 same_content k k'' -> Permutation k'' k' -> same_content (XNode t k) (XNode t k').
  Lemma pick_perm (ds:list (option xdoc)) : forall l1 l2, Permutation l1 l2 -> forall r1, all_some (map (pick ds) l1) = Some r1 ->
    exists r2, all_some (map (pick ds) l2) = Some r2 /\ Permutation r1 r2.
  Proof.
    induction 1 as [|x l1 l2 P IH|x y l|l1 l2 l3 P1 IH1 P2 IH2]; intros r1 E; simpl in *.
    - injection E as <-. exists []. auto.
    - destruct (pick ds x) as [d|]; [|discriminate]. destruct (all_some (map (pick ds) l1)) as [r|] eqn:Er; [|discriminate]. injection E as <-.
      destruct (IH r eq_refl) as (r2 & E2 & P2). rewrite E2. exists (d :: r2). auto.
    - destruct (pick ds y) as [dy|]; [|discriminate]. destruct (pick ds x) as [dx|]; [|discriminate].
      destruct (all_some (map (pick ds) l)) as [r|]; [|discriminate]. injection E as <-. exists (dx :: dy :: r). split; auto. apply perm_swap.
    - destruct (IH1 r1 E) as (r2 & E2 & Q2). destruct (IH2 r2 E2) as (r3 & E3 & Q3). exists r3. split; auto. eapply Permutation_trans; eauto.
  Qed.
  Theorem parse_loses_nothing : forall d e d', parse d = Some e -> emit e = Some d' -> same_content d d'.
  Proof.
    induction d using xdoc_ind2. intros e d' P E. simpl in P.
    destruct (start t) as [s0|] eqn:St; [|discriminate]. destruct (all_some (map parse k)) as [es|] eqn:Pes; [|discriminate].
    destruct (feed (map tag_of k) s0) as [s|] eqn:A; [|discriminate]. injection P as <-. simpl in E.
    destruct (fin s); [|discriminate]. destruct (all_some (map (pick (map emit es)) (ord s))) as [kids|] eqn:Pk; [|discriminate]. injection E as <-.
    pose proof (perm t s0 _ s St A) as Perm.
    destruct (pick_perm (map emit es) _ _ Perm kids Pk) as (kids0 & Pk0 & Q).
    apply all_some_spec in Pes. apply all_some_spec in Pk0.
    assert (G: forall (k0:list xdoc) es0 (pre:list elt) n kids1, Forall (fun x => forall e d', parse x = Some e -> emit e = Some d' -> same_content x d') k0 ->
               Forall2 (fun o x => o = Some x) (map parse k0) es0 -> n = length pre ->
               Forall2 (fun o x => o = Some x) (map (pick (map emit (pre ++ es0))) (tagged n (map tag_of k0))) kids1 -> Forall2 same_content k0 kids1).
    { clear. induction k0 as [|x r IHr]; intros es0 pre n kids1 HF F1 N F2; inversion F1 as [|o e0 l es1 Ho Hr]; subst; unfold tagged in F2; simpl in F2.
      - inversion F2. constructor.
      - inversion F2 as [|o2 d0 l2 kids2 Hp Hk]; subst. inversion HF as [|? ? Hx HFr]; subst.
        unfold pick in Hp. simpl in Hp. rewrite nth_error_map, nth_error_app2 in Hp by lia. rewrite Nat.sub_diag in Hp. simpl in Hp.
        destruct (emit e0) as [de|] eqn:Ee; [|discriminate]. injection Hp as <-.
        constructor; [apply (Hx e0 de); auto|].
        apply (IHr es1 (pre ++ [e0]) (Datatypes.S (length pre)) kids2); auto.
        + rewrite app_length. simpl. lia.
        + rewrite <- app_assoc. simpl. exact Hk. }
    econstructor; [|apply Permutation_sym; exact Q]. apply (G k es [] 0 kids0); auto.
  Qed.

  (* ---- the library's own output: whatever emit produces from a consistent element tree is a valid document ---- *)
  Hypothesis sound : forall tag s, okst tag s -> fin s = true -> L tag (names (ord s)).
  Definition etag (e:elt) : positive := match e with ENode t _ _ => t end.
  (* consistent: the state is a reachable state of the tag's machine, and every (id, name) of the schema-ordered view points at a child
     with that tag (what add_child maintains: the id is the child's position in the insertion list) *)
  Fixpoint elt_ok (e:elt) : Prop :=
    match e with ENode tag s es =>
      (start tag <> None /\ okst tag s)
      /\ (forall p, In p (ord s) -> exists c, nth_error es (fst p) = Some c /\ etag c = snd p)
      /\ (fix all (l:list elt) : Prop := match l with [] => True | c :: r => elt_ok c /\ all r end) es end.
  Section elt_ind2.
    Variable P : elt -> Prop.
    Hypothesis H : forall t s k, Forall P k -> P (ENode t s k).
    Fixpoint elt_ind2 (e:elt) : P e :=
      match e with ENode t s k => H t s k ((fix go (l:list elt) : Forall P l := match l with [] => Forall_nil P | x :: r => Forall_cons x (elt_ind2 x) (go r) end) k) end.
  End elt_ind2.
  Lemma emit_tag e d : emit e = Some d -> tag_of d = etag e.
  Proof. destruct e as [t s es]. simpl. destruct (fin s); [|discriminate]. destruct (all_some _); simpl; [|discriminate]. intros E. injection E as <-. reflexivity. Qed.
  Theorem emitted_is_valid : forall e, elt_ok e -> forall d, emit e = Some d -> valid d.
  Proof.
    induction e using elt_ind2. intros [(T & I) [C OK]] d E. simpl in E.
    destruct (fin s) eqn:R; [|discriminate].
    destruct (all_some (map (pick (map emit k)) (ord s))) as [kids|] eqn:A; [|discriminate]. injection E as <-.
    apply all_some_spec in A.
    assert (K: Forall2 (fun p kd => tag_of kd = snd p /\ valid kd) (ord s) kids).
    { assert (Sub: forall l kids0, (forall p, In p l -> In p (ord s)) -> Forall2 (fun o x => o = Some x) (map (pick (map emit k)) l) kids0 ->
                   Forall2 (fun p kd => tag_of kd = snd p /\ valid kd) l kids0).
      { induction l as [|p l IHl]; intros kids0 Incl F; inversion F as [|o x l' r' H3 Hr]; subst; constructor.
        - destruct (C p (Incl p (or_introl eq_refl))) as (c & Nc & Tc). unfold pick in H3. rewrite nth_error_map, Nc in H3. simpl in H3.
          destruct (emit c) as [dc|] eqn:Ec; [|discriminate]. injection H3 as <-.
          split; [rewrite (emit_tag c dc Ec); exact Tc|].
          assert (Ic: In c k) by (eapply nth_error_In; eauto). rewrite Forall_forall in H. apply (H c Ic); auto.
          clear -OK Ic. induction k as [|x r IHr]; [destruct Ic|]. destruct OK as [Ox Or]. destruct Ic as [<-|Ic]; auto.
        - apply IHl; [|exact Hr]. intros q Hq. apply Incl. right. exact Hq. }
      apply Sub; auto. }
    simpl. split.
    - split; auto.
      assert (N: map tag_of kids = names (ord s)).
      { clear -K. induction K as [|p kd l kids0 [Hp _] _ IH]; simpl; auto. unfold names in *. simpl. congruence. }
      rewrite N. apply sound; auto.
    - clear -K. induction K as [|p kd l kids0 [_ Hv] _ IH]; simpl; auto.
  Qed.
  Theorem emitted_roundtrips : forall e d, elt_ok e -> emit e = Some d -> exists e', parse d = Some e' /\ emit e' = Some d.
  Proof. intros e d O E. apply doc_roundtrip. eapply emitted_is_valid; eauto. Qed.
End Doc.

(* ---- the machines of the three classes, as one state type ---- *)
Inductive ntpl := TSeq (t:stree) | TBag (alpha:list positive) (mn:nat) | TChoice (t:ctemplate).
Inductive nstate := NSeq (s:sst) | NBag (alpha:list positive) (mn:nat) (items:list (nat*positive)) | NChoice (s:cst).
Definition nstart (t:ntpl) : nstate := match t with TSeq t => NSeq (init t) | TBag a mn => NBag a mn [] | TChoice t => NChoice (cinit t) end.
Definition nfeed (w:list positive) (s:nstate) : option nstate :=
  match s with
  | NSeq s => option_map NSeq (addw w 0 s)
  | NBag a mn it => if forallb (fun x => mem_pos x a) w then Some (NBag a mn (it ++ tagged (length it) w)) else None
  | NChoice s => option_map NChoice (caddw w 0 s) end.
Definition nfin (s:nstate) : bool :=
  match s with NSeq s => match required true s with [] => true | _ => false end
             | NBag a mn it => Nat.eqb mn 0 || negb (Nat.eqb (length it) 0)
             | NChoice s => match crequired s with [] => true | _ => false end end.
Definition nord (s:nstate) : list (nat*positive) := match s with NSeq s => ordered s | NBag _ _ it => it | NChoice s => cordered s end.
Definition nlang (t:ntpl) (w:list positive) : Prop :=
  match t with TSeq t => Lang (re_of_s t) w | TBag a mn => mn <= length w /\ Forall (fun s => In s a) w | TChoice t => Lang (re_of_c t) w end.
Definition ntpl_ok (t:ntpl) : Prop :=
  match t with TSeq t => wf_t t = true /\ NoDup (alpha_t t) | TBag a mn => mn <= 1
             | TChoice t => wf_ct t = true /\ forallb c02_ok t = true /\ NoDup (alpha_c t) end.
Definition nst_ok (t:ntpl) (s:nstate) : Prop :=
  match t, s with
  | TSeq t, NSeq s => Inv s /\ shape s = t
  | TBag a mn, NBag a' mn' it => a' = a /\ mn' = mn /\ mn <= 1 /\ Forall (fun x => In (snd x) a) it
  | TChoice t, NChoice s => CInv s /\ cshape s = t
  | _, _ => False end.
Lemma addw_perm w : forall n s s', addw w n s = Some s' -> Permutation (ordered s') (ordered s ++ tagged n w).
Proof.
  induction w as [|a w IH]; intros n s s' E; simpl in E.
  - injection E as <-. unfold tagged. simpl. rewrite app_nil_r. apply Permutation_refl.
  - destruct (add n a s) as [s1|] eqn:E1; [|discriminate]. specialize (IH _ _ _ E).
    eapply Permutation_trans; [exact IH|]. unfold tagged. simpl.
    eapply Permutation_trans; [apply Permutation_app_tail; apply ordered_add; exact E1|]. simpl. apply Permutation_middle.
Qed.
Lemma ngood t : ntpl_ok t -> forall w, nlang t w -> exists s, nfeed w (nstart t) = Some s /\ nfin s = true /\ nord s = tagged 0 w.
Proof.
  destruct t as [t|a mn|t]; simpl; intros K w Lw.
  - destruct K as [W ND]. destruct (C02_seq_ids t W ND w 0 Lw) as (s & A & R & O). exists (NSeq s). simpl. rewrite A, R. auto.
  - destruct Lw as [Ln F]. assert (FB: forallb (fun x => mem_pos x a) w = true) by (apply forallb_forall; intros x Hx; apply mem_pos_In; rewrite Forall_forall in F; auto).
    rewrite FB. eexists; split; [reflexivity|]. simpl. split; auto.
    unfold tagged. rewrite combine_length, seq_length, Nat.min_id. destruct mn as [|[|?]]; simpl; auto; try lia. destruct (length w); simpl; auto; lia.
  - destruct K as (W & G & ND). destruct (C02_cmachine_ids t w W G ND Lw) as (s & A & R & O). exists (NChoice s). simpl. rewrite A, R. auto.
Qed.
Lemma caddw_perm w : forall n s s', caddw w n s = Some s' -> CInv s -> Permutation (cordered s') (cordered s ++ tagged n w).
Proof.
  induction w as [|a w IH]; intros n s s' E I; simpl in E.
  - injection E as <-. unfold tagged. simpl. rewrite app_nil_r. apply Permutation_refl.
  - destruct (cadd n a s) as [s1|] eqn:E1; [|discriminate]. destruct (cadd_ok _ _ _ _ E1 I) as (I1 & _ & P1). specialize (IH _ _ _ E I1).
    eapply Permutation_trans; [exact IH|]. unfold tagged. simpl.
    eapply Permutation_trans; [apply Permutation_app_tail; exact P1|]. simpl. apply Permutation_middle.
Qed.
Lemma nperm t w s : ntpl_ok t -> nfeed w (nstart t) = Some s -> Permutation (nord s) (tagged 0 w).
Proof.
  destruct t as [t|a mn|t]; simpl; intros K.
  - destruct (addw w 0 (init t)) as [s'|] eqn:A; simpl; [|discriminate]. intros E. injection E as <-. simpl.
    pose proof (addw_perm _ _ _ _ A) as P. rewrite (nonempty_false_ordered _ (nonempty_init t)) in P. exact P.
  - destruct (forallb (fun x => mem_pos x a) w); [|discriminate]. intros E. injection E as <-. simpl. apply Permutation_refl.
  - destruct K as (W & _ & _). destruct (caddw w 0 (cinit t)) as [s'|] eqn:A; simpl; [|discriminate]. intros E. injection E as <-. simpl.
    destruct (cinit_inv t W) as (I & _ & O). pose proof (caddw_perm _ _ _ _ A I) as P. rewrite O in P. exact P.
Qed.
Lemma nsound t s : nst_ok t s -> nfin s = true -> nlang t (names (nord s)).
Proof.
  destruct t as [t|a mn|t], s as [s|a' mn' it|s]; simpl; try contradiction.
  - intros [I Sh] R. subst t. apply required_sound; auto. destruct (required true s); auto; discriminate.
  - intros (-> & -> & M & F) R. unfold names. rewrite map_length. split.
    + apply orb_true_iff in R as [R|R]; [apply Nat.eqb_eq in R; lia|]. apply negb_true_iff in R. apply Nat.eqb_neq in R. lia.
    + apply Forall_forall. intros x Hx. apply in_map_iff in Hx as (p & <- & Hp). rewrite Forall_forall in F. auto.
  - intros [I Sh] R. subst t. apply crequired_sound; auto. destruct (crequired s); auto; discriminate.
Qed.
