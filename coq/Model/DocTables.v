(* Model/Doc.v instantiated with the regenerated tables: which template the parser's element gets for a tag, what the schema allows below
   it.  The lemmas take the row check of C03 (forallb cm_row_ok cm_rows = true) as a hypothesis; the Properties files supply it. *)
From MX Require Import Spec.Particle Spec.Deriv Spec.Equiv Gen.Names Gen.Schema Gen.Templates Gen.Lib Model.Tables Model.AbsSeq Model.AbsSeqC02 Model.Classes Model.SeqIds Model.Doc.
From Coq Require Import List String Bool.
Import ListNotations.
Open Scope string_scope.
Definition strip_anon (s:string) : string := if String.prefix "<anon>" s then String.substring 6 (String.length s - 6) s else s.
Definition elem_row (tag:positive) : option (string * option particle * option particle) :=
  match find (fun p => Pos.eqb (fst p) tag) sym_table with None => None | Some (_, n) =>
  match find (fun p => String.eqb (fst p) n) xsd_elements with None => None | Some (_, ty) =>
  match find (fun r => String.eqb (fst (fst r)) (strip_anon ty)) cm_rows with Some r => Some r | None => Some (ty, None, None) end end end.
(* the template the parser's element gets: the library template of the element's type when it is of the sequence class; no children for
   elements of simple / empty types *)
Definition elem_tpl (tag:positive) : option stree :=
  match elem_row tag with
  | Some (_, Some x, Some l) => if Classes.is_seq l then stree_of l else None
  | Some (_, None, None) => Some (SNode false [])
  | _ => None end.
(* what the SCHEMA allows below the element *)
Definition elem_schema_re (tag:positive) : re := match elem_row tag with Some (_, Some x, _) => re_of x | _ => Eps end.
Fixpoint schema_valid (d:xdoc) : Prop :=
  match d with XNode tag kids =>
    (elem_tpl tag <> None /\ Lang (elem_schema_re tag) (map tag_of kids))
    /\ (fix all (l:list xdoc) : Prop := match l with [] => True | k :: r => schema_valid k /\ all r end) kids end.
Section WithRows.
(* stated as a universally quantified fact, not as an equation between closed terms: tactics that inspect hypotheses must not start evaluating it *)
Hypothesis Hok : forall r, In r cm_rows -> cm_row_ok r = true.
Lemma elem_tpl_sound tag t : elem_tpl tag = Some t -> wf_t t = true /\ NoDup (alpha_t t) /\ forall w, Lang (elem_schema_re tag) w -> Lang (re_of_s t) w.
Proof.
  unfold elem_tpl, elem_schema_re, elem_row.
  destruct (find (fun p => Pos.eqb (fst p) tag) sym_table) as [[? n]|]; [|discriminate].
  destruct (find (fun p => String.eqb (fst p) n) xsd_elements) as [[? ty]|]; [|discriminate].
  destruct (find (fun r => String.eqb (fst (fst r)) (strip_anon ty)) cm_rows) as [[[key xp] lt]|] eqn:F.
  - apply find_some in F as [I _]. destruct xp as [x|], lt as [l|]; try discriminate.
    + destruct (Classes.is_seq l) eqn:S; [|discriminate]. intros St. destruct (is_seq_parts l S) as (t' & St' & W & ND). rewrite St in St'. injection St' as <-.
      split; [exact W|split; [exact ND|]]. intros w L. apply (stree_of_lang l t St). apply (proj1 (cm_row_sound key x l (Hok _ I))). exact L.
    + intros E. injection E as <-. split; [reflexivity|split; [constructor|intros w L; exact L]].
  - intros E. injection E as <-. split; [reflexivity|split; [constructor|intros w L; exact L]].
Qed.
Lemma schema_valid_valid : forall d, schema_valid d -> valid elem_tpl d.
Proof.
  induction d using xdoc_ind2. intros [[T L] VK]. simpl. split.
  - destruct (elem_tpl t) as [st|] eqn:E; [|contradiction]. destruct (elem_tpl_sound t st E) as (W & ND & Sound). exists st. split; [reflexivity|split; [exact W|split; [exact ND|apply Sound; exact L]]].
  - clear -H VK. induction H as [|x r Hx Hr IH]; simpl; [exact I|]. destruct VK as [Vx Vr]. split; [apply Hx; exact Vx|apply IH; exact Vr].
Qed.
(* a boolean test for the premise *)
Fixpoint schema_validb (d:xdoc) : bool :=
  match d with XNode tag kids =>
    match elem_tpl tag with Some _ => true | None => false end && accepts (elem_schema_re tag) (map tag_of kids) && forallb schema_validb kids end.
Lemma elem_schema_re_wf tag : wf (elem_schema_re tag) = true.
Proof.
  unfold elem_schema_re, elem_row.
  destruct (find (fun p => Pos.eqb (fst p) tag) sym_table) as [[? n]|]; [|reflexivity].
  destruct (find (fun p => String.eqb (fst p) n) xsd_elements) as [[? ty]|]; [|reflexivity].
  destruct (find (fun r => String.eqb (fst (fst r)) (strip_anon ty)) cm_rows) as [[[key xp] lt]|] eqn:F; [|reflexivity].
  apply find_some in F as [I _]. destruct xp as [x|]; [|reflexivity].
  pose proof (Hok _ I) as R. unfold cm_row_ok in R. cbv beta iota in R. destruct lt as [l|]; [|discriminate].
  apply andb_true_iff in R as [R _]. apply andb_true_iff in R as [_ R]. exact R.
Qed.
Lemma schema_validb_sound : forall d, schema_validb d = true -> schema_valid d.
Proof.
  induction d using xdoc_ind2. simpl. intros B. apply andb_true_iff in B as [B K]. apply andb_true_iff in B as [T A]. split.
  - split; [destruct (elem_tpl t); [discriminate|discriminate]|apply accepts_iff; [apply elem_schema_re_wf|exact A]].
  - clear -H K. induction H as [|x r Hx Hr IH]; simpl in *; [exact I|]. apply andb_true_iff in K as [K1 K2]. split; [apply Hx; exact K1|apply IH; exact K2].
Qed.
End WithRows.
