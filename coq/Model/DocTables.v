(* Model/Doc.v instantiated with the regenerated tables: which machine the parser's element gets for a tag (the sequence machine or the bag
   machine of the element's type, by its library template), what the SCHEMA allows below it.  The lemmas take the row check of C03 as a
   hypothesis; the Properties files supply it. *)
From MX Require Import Spec.Particle Spec.Deriv Spec.Equiv Gen.Names Gen.Schema Gen.Templates Gen.Lib Model.Tables Model.AbsSeq Model.AbsSeqC02 Model.Classes
  Model.SeqIds Model.AbsBag Model.ChoiceSeq Model.ChoiceClass Model.ChoiceC02 Model.Doc.
From Coq Require Import List String Bool Permutation.
Import ListNotations.
Open Scope string_scope.
Definition strip_anon (s:string) : string := if String.prefix "<anon>" s then String.substring 6 (String.length s - 6) s else s.
Definition elem_row (tag:positive) : option (string * option particle * option particle) :=
  match find (fun p => Pos.eqb (fst p) tag) sym_table with None => None | Some (_, n) =>
  match find (fun p => String.eqb (fst p) n) xsd_elements with None => None | Some (_, ty) =>
  match find (fun r => String.eqb (fst (fst r)) (strip_anon ty)) cm_rows with Some r => Some r | None => Some (ty, None, None) end end end.
(* the machine the parser's element gets: by the library template of the element's type (sequence class, choice class, bag class); no children for
   elements of simple / empty types; nothing for the other types *)
Definition elem_tpl (tag:positive) : option ntpl :=
  match elem_row tag with
  | Some (_, Some x, Some l) =>
      if Classes.is_seq l then option_map TSeq (stree_of l)
      else if is_cseq l then match slots_of l with Some t => if forallb c02_ok t then Some (TChoice t) else None | None => None end
      else match bag_of 10 l with Some (a, mn) => if Nat.leb mn 1 then Some (TBag a mn) else None | None => None end
  | Some (_, None, None) => Some (TSeq (SNode false []))
  | _ => None end.
Definition elem_start (tag:positive) : option nstate := option_map nstart (elem_tpl tag).
(* what the SCHEMA allows below the element *)
Definition elem_schema_re (tag:positive) : re := match elem_row tag with Some (_, Some x, _) => re_of x | _ => Eps end.
Definition elem_lang (tag:positive) (w:list positive) : Prop := Lang (elem_schema_re tag) w.
Definition elem_okst (tag:positive) (s:nstate) : Prop := match elem_tpl tag with Some t => nst_ok t s | None => False end.
Definition schema_valid := valid nstate elem_start elem_lang.
Definition doc_parse := parse nstate elem_start nfeed.
Definition doc_emit := emit nstate nfin nord.
Definition doc_elt_ok := elt_ok nstate elem_start nord elem_okst.

Section WithRows.
(* stated as a universally quantified fact, not as an equation between closed terms: tactics that inspect hypotheses must not start evaluating it *)
Hypothesis Hok : forall r, In r cm_rows -> cm_row_ok r = true.
Lemma elem_tpl_sound tag t : elem_tpl tag = Some t -> ntpl_ok t /\ forall w, elem_lang tag w <-> nlang t w.
Proof.
  unfold elem_tpl, elem_lang, elem_schema_re, elem_row.
  destruct (find (fun p => Pos.eqb (fst p) tag) sym_table) as [[? n]|]; [|discriminate].
  destruct (find (fun p => String.eqb (fst p) n) xsd_elements) as [[? ty]|]; [|discriminate].
  destruct (find (fun r => String.eqb (fst (fst r)) (strip_anon ty)) cm_rows) as [[[key xp] lt]|] eqn:F.
  - apply find_some in F as [I _]. destruct xp as [x|], lt as [l|]; try discriminate.
    + pose proof (cm_row_sound key x l (Hok _ I)) as [Q _].
      destruct (Classes.is_seq l) eqn:S.
      * destruct (stree_of l) as [t'|] eqn:St; [|discriminate]. intros E. injection E as <-.
        destruct (is_seq_parts l S) as (t'' & St' & W & ND). rewrite St in St'. injection St' as <-.
        split; [split; [exact W|exact ND]|]. intros w. simpl. rewrite Q. apply (stree_of_lang l t' St).
      * destruct (is_cseq l) eqn:Cs.
        -- destruct (slots_of l) as [t'|] eqn:St; [|discriminate]. destruct (forallb c02_ok t') eqn:G; [|discriminate]. intros E. injection E as <-.
           destruct (is_cseq_nodup l t' Cs St) as [W ND]. split; [split; [exact W|split; [exact G|exact ND]]|]. intros w. simpl. rewrite Q. apply (slots_of_lang l t' St).
        -- destruct (bag_of 10 l) as [[a mn]|] eqn:B; [|discriminate]. destruct (Nat.leb mn 1) eqn:M; [|discriminate]. intros E. injection E as <-.
           split; [apply Nat.leb_le; exact M|]. intros w. simpl. rewrite Q. apply (bag_of_lang 10 l a mn B).
    + intros E. injection E as <-. split; [split; [reflexivity|constructor]|]. intros w. simpl. tauto.
  - intros E. injection E as <-. split; [split; [reflexivity|constructor]|]. intros w. simpl. tauto.
Qed.
Lemma elem_good tag s0 w : elem_start tag = Some s0 -> elem_lang tag w -> exists s, nfeed w s0 = Some s /\ nfin s = true /\ nord s = tagged 0 w.
Proof.
  unfold elem_start. destruct (elem_tpl tag) as [t|] eqn:E; [|discriminate]. intros S0 Lw. injection S0 as <-.
  destruct (elem_tpl_sound tag t E) as [K Q]. apply ngood; [exact K|apply Q; exact Lw].
Qed.
Lemma elem_perm tag s0 w s : elem_start tag = Some s0 -> nfeed w s0 = Some s -> Permutation (nord s) (tagged 0 w).
Proof.
  unfold elem_start. destruct (elem_tpl tag) as [t|] eqn:E; [|discriminate]. intros S0 F. injection S0 as <-.
  destruct (elem_tpl_sound tag t E) as [K _]. eapply nperm; eauto.
Qed.
Lemma elem_sound tag s : elem_okst tag s -> nfin s = true -> elem_lang tag (names (nord s)).
Proof.
  unfold elem_okst. destruct (elem_tpl tag) as [t|] eqn:E; [|contradiction]. intros O R. destruct (elem_tpl_sound tag t E) as [_ Q]. apply Q. apply nsound; auto.
Qed.
(* the three document theorems for today's tables *)
Theorem tables_doc_roundtrip : forall d, schema_valid d -> exists e, doc_parse d = Some e /\ doc_emit e = Some d.
Proof. exact (doc_roundtrip nstate elem_start nfeed nfin nord elem_lang elem_good). Qed.
Theorem tables_no_silent_loss : forall d e d', doc_parse d = Some e -> doc_emit e = Some d' -> same_content d d'.
Proof. exact (parse_loses_nothing nstate elem_start nfeed nfin nord elem_perm). Qed.
(* C01 for whole documents: whatever is emitted from a consistent element tree is schema-valid at EVERY node *)
Theorem tables_emitted_valid : forall e d, doc_elt_ok e -> doc_emit e = Some d -> schema_valid d.
Proof. intros e d O E. exact (emitted_is_valid nstate elem_start nfin nord elem_lang elem_okst elem_sound e O d E). Qed.
Theorem tables_emitted_roundtrips : forall e d, doc_elt_ok e -> doc_emit e = Some d -> exists e', doc_parse d = Some e' /\ doc_emit e' = Some d.
Proof. exact (emitted_roundtrips nstate elem_start nfeed nfin nord elem_lang elem_okst elem_good elem_sound). Qed.

(* a boolean test for the premise *)
Fixpoint schema_validb (d:xdoc) : bool :=
  match d with XNode tag kids =>
    match elem_tpl tag with Some _ => true | None => false end && accepts (elem_schema_re tag) (map tag_of kids) && forallb schema_validb kids end.
Lemma elem_schema_re_wf tag : wf (elem_schema_re tag) = true.
Proof.
  unfold elem_schema_re, elem_row.
  destruct (find (fun p => Pos.eqb (fst p) tag) sym_table) as [[? n]|]; [|reflexivity].
  destruct (find (fun p => String.eqb (fst p) n) xsd_elements) as [[? ty]|]; [|reflexivity].
  destruct (find (fun r => String.eqb (fst (fst r)) (strip_anon ty)) cm_rows) as [[[key xp] lt]|] eqn:F; [|reflexivity].
  apply find_some in F as [I _]. destruct xp as [x|]; [|reflexivity].
  pose proof (Hok _ I) as R. unfold cm_row_ok in R. cbv beta iota in R. destruct lt as [l|]; [|discriminate].
  apply andb_true_iff in R as [R _]. apply andb_true_iff in R as [_ R]. exact R.
Qed.
Lemma schema_validb_sound : forall d, schema_validb d = true -> schema_valid d.
Proof.
  induction d using xdoc_ind2. unfold schema_valid. simpl. intros B. apply andb_true_iff in B as [B K]. apply andb_true_iff in B as [T A]. split.
  - split.
    + unfold elem_start. destruct (elem_tpl t); [discriminate|discriminate].
    + unfold elem_lang. apply accepts_iff; [apply elem_schema_re_wf|exact A].
  - clear -H K. induction H as [|x r Hx Hr IH]; simpl in *; [exact I|]. apply andb_true_iff in K as [K1 K2]. split; [apply Hx; exact K1|apply IH; exact K2].
Qed.
End WithRows.
