(* The payload of Model/PDoc.v instantiated with what a MusicXML node carries: its text and its attributes.
     file side    P = (text, [(attribute name, value text)])            (no text = the empty text, as the parser reads it)
     element side Q = (value_ or None, the attribute dict in insertion order)
     rdp : the constructor call with the text (through the parser's conversion ladder: rd_text) and one setattr per attribute in file order
           (rd_attr; a dict update: upd); any exception aborts
     wrp : refused when a required value or a required attribute is missing (_check_required_value, _check_required_attributes), otherwise
           str() of the value and of every attribute value, in dict order  (_create_et_xml_element)
   rd_text / rd_attr / wr are parameters here; Model/DocValTables.v supplies the library's ladders and value checks. *)
From MX Require Import Spec.Particle Model.PDoc.
From Coq Require Import List Bool Arith Lia String.
Import ListNotations.


Section DocVal.
  Variable V PV : Type.
  Variable vnil : V.
  Variable rd_text : positive -> V -> option PV.
  Variable rd_attr : positive -> string -> V -> option PV.
  Variable wr : PV -> V.
  Variable req : positive -> list string.
  Variable needs_value : positive -> bool.
  Variable Ltext : positive -> V -> Prop.
  Variable Lattr : positive -> string -> V -> Prop.

  Definition vpay : Type := (V * list (string * V))%type.
  Definition vq : Type := (option PV * list (string * PV))%type.
  Definition memp (a:string) (l:list string) : bool := existsb (String.eqb a) l.
  Fixpoint upd (a:string) (pv:PV) (st:list (string * PV)) : list (string * PV) :=
    match st with [] => [(a, pv)] | (b, w) :: r => if String.eqb a b then (b, pv) :: r else (b, w) :: upd a pv r end.
  Fixpoint set_all (tag:positive) (attrs:list (string * V)) (st:list (string * PV)) : option (list (string * PV)) :=
    match attrs with [] => Some st
    | (a, x) :: r => match rd_attr tag a x with Some pv => set_all tag r (upd a pv st) | None => None end end.
  Definition rdv (tag:positive) (p:vpay) : option vq :=
    match rd_text tag (fst p), set_all tag (snd p) [] with Some v, Some st => Some (Some v, st) | _, _ => None end.
  Definition wr_attr (p:string * PV) : string * V := (fst p, wr (snd p)).
  Definition wrv (tag:positive) (q:vq) : option vpay :=
    if (negb (needs_value tag) || match fst q with Some _ => true | None => false end) && forallb (fun a => memp a (map fst (snd q))) (req tag)
    then Some (match fst q with Some pv => wr pv | None => vnil end, map wr_attr (snd q)) else None.
  Definition Lv (tag:positive) (p:vpay) : Prop :=
    Ltext tag (fst p) /\ NoDup (map fst (snd p)) /\ Forall (fun ax => Lattr tag (fst ax) (snd ax)) (snd p) /\ incl (req tag) (map fst (snd p)).

  Lemma memp_In a l : memp a l = true <-> In a l.
  Proof.
    unfold memp. rewrite existsb_exists. split.
    - intros (x & Hx & E). apply String.eqb_eq in E. subst. auto.
    - intros H. exists a. split; auto. apply String.eqb_refl.
  Qed.
  Lemma upd_fresh a pv st : ~ In a (map fst st) -> upd a pv st = st ++ [(a, pv)].
  Proof.
    induction st as [|[b w] r IH]; simpl; intros H; auto.
    destruct (String.eqb_spec a b) as [->|Ne]; [exfalso; apply H; auto|]. rewrite IH; auto.
  Qed.
  (* attributes with pairwise distinct names, none of them set before: every one is appended, in file order *)
  Lemma set_all_spec tag : forall attrs st st', NoDup (map fst attrs) -> (forall a, In a (map fst attrs) -> ~ In a (map fst st)) ->
    set_all tag attrs st = Some st' ->
    exists pvs, Forall2 (fun ax pv => rd_attr tag (fst ax) (snd ax) = Some pv) attrs pvs /\ st' = st ++ combine (map fst attrs) pvs.
  Proof.
    induction attrs as [|[a x] r IH]; intros st st' ND Fr E; simpl in E.
    - injection E as <-. exists []. split; [constructor|]. simpl. rewrite app_nil_r. reflexivity.
    - destruct (rd_attr tag a x) as [pv|] eqn:Ra; [|discriminate]. simpl in ND. inversion ND as [|? ? Na NDr]; subst.
      rewrite upd_fresh in E by (apply Fr; left; reflexivity).
      destruct (IH (st ++ [(a, pv)]) st' NDr) as (pvs & F & Es); auto.
      + intros b Hb. rewrite map_app. simpl. intros I. apply in_app_or in I as [I|[<-|[]]]; [apply (Fr b); [right; exact Hb|exact I]|contradiction].
      + exists (pv :: pvs). split; [constructor; auto|]. rewrite Es, <- app_assoc. reflexivity.
  Qed.
  Lemma set_all_good tag : forall attrs st, NoDup (map fst attrs) -> (forall a, In a (map fst attrs) -> ~ In a (map fst st)) ->
    Forall (fun ax => exists pv, rd_attr tag (fst ax) (snd ax) = Some pv /\ wr pv = snd ax) attrs ->
    exists st', set_all tag attrs st = Some st' /\ map wr_attr st' = map wr_attr st ++ attrs.
  Proof.
    induction attrs as [|[a x] r IH]; intros st ND Fr G; simpl.
    - exists st. rewrite app_nil_r. auto.
    - inversion G as [|? ? Hx Gr]; subst. destruct Hx as (pv & Ra & Wa). simpl in Ra, Wa. rewrite Ra. simpl in ND. inversion ND as [|? ? Na NDr]; subst.
      rewrite upd_fresh by (apply Fr; left; reflexivity).
      destruct (IH (st ++ [(a, pv)]) NDr) as (st' & E & M); auto.
      + intros b Hb. rewrite map_app. simpl. intros I. apply in_app_or in I as [I|[<-|[]]]; [apply (Fr b); [right; exact Hb|exact I]|contradiction].
      + exists st'. split; auto. rewrite M, map_app. simpl. unfold wr_attr at 2. simpl. rewrite <- app_assoc. reflexivity.
  Qed.

  Hypothesis tgood : forall tag x, Ltext tag x -> exists pv, rd_text tag x = Some pv /\ wr pv = x.
  Hypothesis agood : forall tag a x, Lattr tag a x -> exists pv, rd_attr tag a x = Some pv /\ wr pv = x.
  (* a valid payload is read without an exception and emitted exactly as it was in the file *)
  Theorem vgood : forall tag p, Lv tag p -> exists q, rdv tag p = Some q /\ wrv tag q = Some p.
  Proof.
    intros tag [x attrs] (Lt & ND & La & Rq). simpl in *. destruct (tgood tag x Lt) as (pv & Rt & Wt).
    destruct (set_all_good tag attrs [] ND) as (st & E & M).
    { intros a _ []. }
    { rewrite Forall_forall in *. intros ax Hax. apply agood. apply La. exact Hax. }
    simpl in M. exists (Some pv, st). unfold rdv, wrv. simpl. rewrite Rt, E. split; auto.
    assert (K: map fst st = map fst attrs).
    { rewrite <- M. rewrite map_map. apply map_ext. intros [a w]. reflexivity. }
    assert (RQ: forallb (fun a => memp a (map fst st)) (req tag) = true).
    { apply forallb_forall. intros a Ha. apply memp_In. rewrite K. apply Rq. exact Ha. }
    rewrite RQ, orb_true_r. simpl. rewrite Wt, M. reflexivity.
  Qed.
  (* any payload with pairwise distinct attribute names (XML guarantees that) that is read and emitted: the text emitted is str() of the value the
     constructor accepted for the file's text, and the attributes emitted are exactly the file's, in file order, each with str() of the
     value setattr accepted for it - none dropped, none invented *)
  Theorem vloss : forall tag x attrs q x' attrs', NoDup (map fst attrs) -> rdv tag (x, attrs) = Some q -> wrv tag q = Some (x', attrs') ->
    (exists pv, rd_text tag x = Some pv /\ x' = wr pv)
    /\ Forall2 (fun ax ax' => fst ax' = fst ax /\ exists pv, rd_attr tag (fst ax) (snd ax) = Some pv /\ snd ax' = wr pv) attrs attrs'.
  Proof.
    intros tag x attrs q x' attrs' ND R W. unfold rdv in R. simpl in R.
    destruct (rd_text tag x) as [pv|] eqn:Rt; [|discriminate]. destruct (set_all tag attrs []) as [st|] eqn:E; [|discriminate]. injection R as <-.
    unfold wrv in W. simpl in W. destruct (_ && _); [|discriminate]. injection W as <- <-. split; [exists pv; auto|].
    assert (Fr: forall a, In a (map fst attrs) -> ~ In a (map fst (@nil (string * PV)))) by (intros a _ []).
    destruct (set_all_spec tag attrs [] st ND Fr E) as (pvs & F & ->).
    simpl. clear -F. induction F as [|[a v] pv0 r pvs Hr Fr IH]; simpl; constructor; auto.
    split; auto. exists pv0. auto.
  Qed.
  (* ---- the other direction: what serialisation emits from consistent stored values is a valid payload ---- *)
  Definition okv (tag:positive) (q:vq) : Prop :=
    NoDup (map fst (snd q)) /\ Ltext tag (match fst q with Some pv => wr pv | None => vnil end) /\ Forall (fun ap => Lattr tag (fst ap) (wr (snd ap))) (snd q).
  Theorem vsound : forall tag q p, okv tag q -> wrv tag q = Some p -> Lv tag p.
  Proof.
    intros tag [v st] p (ND & Lt & La) W. unfold wrv in W. simpl in *. destruct (_ && _) eqn:C; [|discriminate]. injection W as <-.
    apply andb_true_iff in C as [_ R]. unfold Lv. simpl.
    assert (K: map fst (map wr_attr st) = map fst st) by (rewrite map_map; apply map_ext; intros [a w]; reflexivity).
    split; [exact Lt|]. split; [rewrite K; exact ND|]. split.
    - clear -La. induction La as [|[a w] r Ha Hr IH]; simpl; constructor; auto.
    - intros a Ia. rewrite K. apply memp_In. rewrite forallb_forall in R. apply R. exact Ia.
  Qed.
End DocVal.
