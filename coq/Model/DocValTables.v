(* Model/PDoc.v + Model/DocVal.v instantiated with the regenerated tables: whole documents WITH text and attributes.
     children   : the machine of the element's type (Model/DocTables.v)
     text       : the parser's text ladder (rungs read from parser.py: Gen/Code.v) over the class of the element's simple type or of the simple
                  content of its complex type (class table dumped from the live classes: Gen/SimpleTypes.v); a complex type without simple
                  content keeps any (stripped) text
     attributes : one setattr per attribute in file order: the attribute must be declared by the element's complex type (Gen/Lib.v), its value
                  goes through the attribute ladder over the class of the declared simple type
     emission   : str() of every stored value (SimpleType.render); refused when the value of a simple-typed element or a required attribute is missing
   Outside this model (C04's model covers them): attribute names that need the underscore/hyphen translation or collide with Python-side names,
   namespaced attributes (xml:lang, xlink:*: known findings RC13/RC11).
   float() is a parameter; int() is the proved decimal reader (Parser.py_int_model). *)
From MX Require Import Spec.CharRe Spec.Particle Spec.Deriv Spec.Naming Gen.Names Gen.Schema Gen.Templates Gen.Lib Gen.SimpleTypes Gen.Code
  Model.Tables Model.SimpleType Model.SimpleTypeThms Model.Parser Model.AbsSeq Model.SeqIds Model.Doc Model.PDoc Model.DocVal Model.DocTables.
From Coq Require Import List String Bool NArith ZArith Permutation.
Import ListNotations.
Open Scope string_scope.

Definition elem_name (tag:positive) : option string := option_map snd (find (fun p => Pos.eqb (fst p) tag) sym_table).
Definition elem_tclass (tag:positive) : option string :=
  match elem_name tag with
  | Some n => match find (fun c => let '(_, en, _) := c in String.eqb en n) lib_classes with Some (_, _, tc) => Some tc | None => None end
  | None => None end.
Inductive ekind := KSimple (r:rcls) | KComplex (rows:list arow) (sc:option rcls).
Definition elem_kind (tag:positive) : option ekind :=
  match elem_tclass tag with None => None | Some tc =>
    match find (fun r => let '(k, _, _) := r in String.eqb k tc) lib_ctypes with
    | Some (_, ATable rows, None) => Some (KComplex rows None)
    | Some (_, ATable rows, Some c) => match resolve lib_st 6 c with Some r => Some (KComplex rows (Some r)) | None => None end
    | Some (_, ATableExc _, _) => None
    | None => option_map KSimple (resolve lib_st 6 tc) end end.
Definition find_row (a:string) (rows:list arow) : option arow :=
  find (fun r => match r with ARow n _ _ _ => String.eqb n a | ARowExc _ => false end) rows.
Definition lv (l:lres) : option pyval := match l with LValue v => Some v | _ => None end.
(* a row the library cannot even read (the xlink attribute groups: RC11, AttributeError while the table is walked): every setattr on such an element
   and its required-attribute check raise; modelled as "every attribute refused" and a requirement no attribute can meet *)
Definition has_exc_row (rows:list arow) : bool := existsb (fun r => match r with ARowExc _ => true | _ => false end) rows.
Definition vreq (tag:positive) : list string :=
  match elem_kind tag with
  | Some (KComplex rows _) => (if has_exc_row rows then ["<unreadable attribute table>"] else []) ++ flat_map (fun r => match r with ARow n _ true _ => [n] | _ => [] end) rows
  | _ => [] end.
Definition vneeds (tag:positive) : bool := match elem_kind tag with Some (KSimple _) => true | _ => false end.

Section WithPython.
  Variable py_float : pstr -> option pyval.
  Definition tladder := text_ladder py_float py_int_model parser_text_ladder.
  Definition aladder := attr_ladder py_float py_int_model parser_attr_ladder.
  Definition vrd_text (tag:positive) (x:pstr) : option pyval :=
    match elem_kind tag with
    | Some (KSimple r) => lv (tladder r x)
    | Some (KComplex _ (Some r)) => lv (tladder r x)
    | Some (KComplex _ None) => Some (VStr (strip x))
    | None => None end.
  Definition vrd_attr (tag:positive) (a:string) (x:pstr) : option pyval :=
    match elem_kind tag with
    | Some (KComplex rows _) =>
        if has_exc_row rows then None else
        match find_row a rows with
        | Some (ARow _ _ _ tc) => match resolve lib_st 6 tc with Some r => lv (aladder r x) | None => None end
        | _ => None end
    | _ => None end.

  (* ---- which texts / attribute values the theorem speaks about: enumeration literals, accepted integers of integer-only types, free strings ---- *)
  Definition vtext (r:rcls) (x:pstr) : Prop :=
    (exists lits lit, is_enum_r r = Some lits /\ In lit lits /\ x = cp lit /\ strip (cp lit) = cp lit)
    \/ (exists z, is_pure_int_r r = true /\ fst (SimpleType.run r (VInt z)) = Ok /\ x = render_int z)
    \/ (is_free_r r = true /\ strip x = x).
  Definition vattr (r:rcls) (x:pstr) : Prop :=
    (exists lits lit, is_enum_r r = Some lits /\ In lit lits /\ x = cp lit)
    \/ (exists z, is_pure_int_r r = true /\ fst (SimpleType.run r (VInt z)) = Ok /\ x = render_int z)
    \/ is_free_r r = true.
  Definition vLtext (tag:positive) (x:pstr) : Prop :=
    match elem_kind tag with
    | Some (KSimple r) => vtext r x
    | Some (KComplex _ (Some r)) => vtext r x
    | Some (KComplex _ None) => strip x = x
    | None => False end.
  Definition vLattr (tag:positive) (a:string) (x:pstr) : Prop :=
    match elem_kind tag with
    | Some (KComplex rows _) =>
        if has_exc_row rows then False else
        match find_row a rows with
        | Some (ARow _ _ _ tc) => match resolve lib_st 6 tc with Some r => vattr r x | None => False end
        | _ => False end
    | _ => False end.

  Hypothesis float_returns_float : forall s f, py_float s = Some f -> exists k q r, f = VFloat k q r.
  Hypothesis float_reads_integers : forall z, py_float (strip (render_int z)) <> None.
  (* the shape of the ladders as the translator reads them from parser.py: a premise here (this file must compile whatever the source says);
     Properties/C08.v and C09.v discharge it by computation on today's Gen/Code.v *)
  Hypothesis ladders : parser_text_ladder = [(CId, [PTypeError]); (CFloat, [PTypeError]); (CInt, [])]
    /\ parser_attr_ladder = [(CId, [PTypeError; PValueError]); (CInt, [PValueError]); (CFloat, [])].
  Lemma tladder_good r x : vtext r x -> exists pv, lv (tladder r x) = Some pv /\ render pv = x.
  Proof.
    unfold tladder. destruct ladders as [-> _]. intros [(lits & lit & E & I & -> & S)|[(z & P & A & ->)|(F & S)]].
    - exists (VStr (cp lit)). rewrite (text_ladder_enum py_float py_int_model [PTypeError] _ r lits lit E I S). auto.
    - exists (VInt z). destruct (py_int_model_render z) as [S1 _].
      assert (FF: forall f, py_float (strip (render_int z)) = Some f -> exists k q s, f = VFloat k q s) by (intros f Ef; eapply float_returns_float; eauto).
      rewrite (text_ladder_int py_float py_int_model [PTypeError] [PTypeError] [] r z eq_refl eq_refl P A FF (float_reads_integers z) S1). auto.
    - exists (VStr x). unfold text_ladder. rewrite S. cbn [ladder_run]. unfold attempt. cbn [conv_arg].
      rewrite (free_r_spec r F x). simpl. auto.
  Qed.
  Lemma aladder_good r x : vattr r x -> exists pv, lv (aladder r x) = Some pv /\ render pv = x.
  Proof.
    unfold aladder. destruct ladders as [_ ->]. intros [(lits & lit & E & I & ->)|[(z & P & A & ->)|F]].
    - exists (VStr (cp lit)). rewrite (attr_ladder_enum py_float py_int_model [PTypeError; PValueError] _ r lits lit E I). auto.
    - exists (VInt z). destruct (py_int_model_render z) as [_ S2].
      rewrite (attr_ladder_int py_float py_int_model [PTypeError; PValueError] [PValueError] _ r z eq_refl P A S2). auto.
    - exists (VStr x). unfold attr_ladder. cbn [ladder_run]. unfold attempt. cbn [conv_arg]. rewrite (free_r_spec r F x). simpl. auto.
  Qed.
  Lemma vtgood tag x : vLtext tag x -> exists pv, vrd_text tag x = Some pv /\ render pv = x.
  Proof.
    unfold vLtext, vrd_text. destruct (elem_kind tag) as [[r|rows [r|]]|]; try contradiction; try apply tladder_good.
    intros S. exists (VStr (strip x)). simpl. auto.
  Qed.
  Lemma vagood tag a x : vLattr tag a x -> exists pv, vrd_attr tag a x = Some pv /\ render pv = x.
  Proof.
    unfold vLattr, vrd_attr. destruct (elem_kind tag) as [[r|rows sc]|]; try contradiction. destruct (has_exc_row rows); try contradiction.
    destruct (find_row a rows) as [[n ty q tc|e]|]; try contradiction. destruct (resolve lib_st 6 tc) as [r|]; try contradiction. apply aladder_good.
  Qed.

  (* ---- the general premise: every text and every attribute value is a fixed point of its own ladder followed by str() ---- *)
  Definition gLtext (tag:positive) (x:pstr) : Prop := exists pv, vrd_text tag x = Some pv /\ render pv = x.
  Definition gLattr (tag:positive) (a:string) (x:pstr) : Prop := exists pv, vrd_attr tag a x = Some pv /\ render pv = x.
  Lemma families_text tag x : vLtext tag x -> gLtext tag x.
  Proof. exact (vtgood tag x). Qed.
  Lemma families_attr tag a x : vLattr tag a x -> gLattr tag a x.
  Proof. exact (vagood tag a x). Qed.

  (* ---- the document functions ---- *)
  Definition vP : Type := vpay pstr.
  Definition vQ : Type := vq pyval.
  Definition vdoc : Type := pdoc vP.
  Definition vrdp := rdv pstr pyval vrd_text vrd_attr.
  Definition vwrp := wrv pstr pyval [] render vreq vneeds.
  Definition vLp := Lv pstr vreq vLtext vLattr.
  Definition gLp := Lv pstr vreq gLtext gLattr.
  Definition vparse : vdoc -> option (pelt vQ nstate) := pparse vP vQ nstate elem_start nfeed vrdp.
  Definition vemit : pelt vQ nstate -> option vdoc := pemit vP vQ nstate nfin nord vwrp.
  Definition vvalid : vdoc -> Prop := pvalid vP nstate elem_start elem_lang vLp.
  Definition gvalid : vdoc -> Prop := pvalid vP nstate elem_start elem_lang gLp.
  Definition vsame : vdoc -> vdoc -> Prop := psame vP vQ vrdp vwrp.

  Section WithRows.
  Hypothesis Hok : forall r, In r cm_rows -> cm_row_ok r = true.
  (* a schema-valid document whose texts and attribute values are of the three kinds: read without an exception, every final check passes, and
     the document emitted is the document read - elements, order, nesting, every text and every attribute with its value *)
  Theorem tables_vdoc_roundtrip : forall d, vvalid d -> exists e, vparse d = Some e /\ vemit e = Some d.
  Proof.
    apply (pdoc_roundtrip vP vQ nstate elem_start nfeed nfin nord elem_lang vrdp vwrp vLp (elem_good Hok)).
    intros tag p. apply (vgood pstr pyval [] vrd_text vrd_attr render vreq vneeds vLtext vLattr vtgood vagood).
  Qed.
  (* the same with the general premise: schema-valid structure, declared distinct attributes with the required ones present, and every text / attribute
     value individually a fixed point of "read through the ladder, write with str()" (decimals whose repr is their text, union values, patterns, ...):
     the whole document is given back exactly *)
  Theorem tables_gdoc_roundtrip : forall d, gvalid d -> exists e, vparse d = Some e /\ vemit e = Some d.
  Proof.
    apply (pdoc_roundtrip vP vQ nstate elem_start nfeed nfin nord elem_lang vrdp vwrp gLp (elem_good Hok)).
    intros tag p. apply (vgood pstr pyval [] vrd_text vrd_attr render vreq vneeds gLtext gLattr); auto.
  Qed.
  (* ANY document (valid or not) for which the parser returns and serialisation succeeds: same elements up to order at every node, and at
     every node the payload emitted is what wrp makes of what rdp read *)
  Theorem tables_v_no_silent_loss : forall d e d', vparse d = Some e -> vemit e = Some d' -> vsame d d'.
  Proof. exact (pparse_loses_nothing vP vQ nstate elem_start nfeed nfin nord vrdp vwrp (elem_perm Hok)). Qed.
  (* the library's own output: an element tree (built through the API or by the parser) that is structurally consistent and whose every stored value
     has a str() that its own ladder reads back to a value with the same str(): whatever to_string emits from it is parsed to an element tree that
     emits the same document - structure, texts and attributes *)
  Definition gokq : positive -> vQ -> Prop := okv pstr pyval [] render gLtext gLattr.
  Definition velt_ok : pelt vQ nstate -> Prop := pelt_ok vQ nstate elem_start nord elem_okst gokq.
  Theorem tables_emitted_values_roundtrip : forall e d, velt_ok e -> vemit e = Some d -> exists e', vparse d = Some e' /\ vemit e' = Some d.
  Proof.
    apply (pemitted_roundtrips vP vQ nstate elem_start nfeed nfin nord elem_lang elem_okst vrdp vwrp gLp gokq (elem_good Hok)).
    - intros tag p. apply (vgood pstr pyval [] vrd_text vrd_attr render vreq vneeds gLtext gLattr); auto.
    - apply (elem_sound Hok).
    - intros tag q p. apply (vsound pstr pyval [] render vreq vneeds gLtext gLattr).
  Qed.
  End WithRows.
  (* ... and what that means for one node whose attribute names are pairwise distinct (as XML guarantees): the text emitted is str() of the value
     the constructor accepted for the file's text, the attributes emitted are exactly the file's, in file order, each with str() of the value
     setattr accepted - none dropped, none invented *)
  Theorem node_payload_kept : forall tag x attrs q x' attrs', NoDup (map fst attrs) -> vrdp tag (x, attrs) = Some q -> vwrp tag q = Some (x', attrs') ->
    (exists pv, vrd_text tag x = Some pv /\ x' = render pv)
    /\ Forall2 (fun ax ax' => fst ax' = fst ax /\ exists pv, vrd_attr tag (fst ax) (snd ax) = Some pv /\ snd ax' = render pv) attrs attrs'.
  Proof. exact (vloss pstr pyval [] vrd_text vrd_attr render vreq vneeds). Qed.
End WithPython.

(* ---- a boolean test for the premise of tables_vdoc_roundtrip, and the executable entry points for the correspondence ---- *)
Definition enumb (strip_too:bool) (r:rcls) (x:pstr) : bool :=
  match is_enum_r r with Some lits => existsb (fun lit => pstr_eqb x (cp lit) && (negb strip_too || pstr_eqb (strip (cp lit)) (cp lit))) lits | None => false end.
Definition intb (r:rcls) (x:pstr) : bool :=
  is_pure_int_r r && match parse_integer x with
                     | Some z => pstr_eqb x (render_int z) && match fst (SimpleType.run r (VInt z)) with Ok => true | _ => false end
                     | None => false end.
Definition vtextb (r:rcls) (x:pstr) : bool := enumb true r x || intb r x || (is_free_r r && pstr_eqb (strip x) x).
Definition vattrb (r:rcls) (x:pstr) : bool := enumb false r x || intb r x || is_free_r r.
Lemma intb_sound r x : intb r x = true -> exists z, is_pure_int_r r = true /\ fst (SimpleType.run r (VInt z)) = Ok /\ x = render_int z.
Proof.
  unfold intb. intros H. apply andb_true_iff in H as [P H]. destruct (parse_integer x) as [z|]; [|discriminate].
  apply andb_true_iff in H as [E A]. exists z. split; auto. split; [destruct (fst (SimpleType.run r (VInt z))); auto; discriminate|apply pstr_eqb_eq; exact E].
Qed.
Lemma vtextb_sound r x : vtextb r x = true -> vtext r x.
Proof.
  unfold vtextb. intros H. apply orb_true_iff in H as [H|H]; [apply orb_true_iff in H as [H|H]|].
  - left. unfold enumb in H. destruct (is_enum_r r) as [lits|]; [|discriminate]. apply existsb_exists in H as (lit & I & H).
    apply andb_true_iff in H as [E S]. simpl in S. exists lits, lit. repeat split; auto; apply pstr_eqb_eq; auto.
  - right. left. apply intb_sound; auto.
  - right. right. apply andb_true_iff in H as [F S]. split; auto. apply pstr_eqb_eq; auto.
Qed.
Lemma vattrb_sound r x : vattrb r x = true -> vattr r x.
Proof.
  unfold vattrb. intros H. apply orb_true_iff in H as [H|H]; [apply orb_true_iff in H as [H|H]|].
  - left. unfold enumb in H. destruct (is_enum_r r) as [lits|]; [|discriminate]. apply existsb_exists in H as (lit & I & H).
    apply andb_true_iff in H as [E _]. exists lits, lit. repeat split; auto; apply pstr_eqb_eq; auto.
  - right. left. apply intb_sound; auto.
  - right. right. exact H.
Qed.
Definition vLtextb (tag:positive) (x:pstr) : bool :=
  match elem_kind tag with
  | Some (KSimple r) => vtextb r x
  | Some (KComplex _ (Some r)) => vtextb r x
  | Some (KComplex _ None) => pstr_eqb (strip x) x
  | None => false end.
Definition vLattrb (tag:positive) (a:string) (x:pstr) : bool :=
  match elem_kind tag with
  | Some (KComplex rows _) =>
      if has_exc_row rows then false else
      match find_row a rows with
      | Some (ARow _ _ _ tc) => match resolve lib_st 6 tc with Some r => vattrb r x | None => false end
      | _ => false end
  | _ => false end.
Definition vLpb (tag:positive) (p:vP) : bool :=
  vLtextb tag (fst p) && nodup_str (map fst (snd p)) && forallb (fun ax => vLattrb tag (fst ax) (snd ax)) (snd p)
  && forallb (fun a => mem_str a (map fst (snd p))) (vreq tag).
Lemma vLpb_sound tag p : vLpb tag p = true -> vLp tag p.
Proof.
  unfold vLpb, vLp, Lv. intros H. apply andb_true_iff in H as [H R]. apply andb_true_iff in H as [H A]. apply andb_true_iff in H as [T N].
  split; [|split; [|split]].
  - unfold vLtextb in T. unfold vLtext. destruct (elem_kind tag) as [[r|rows [r|]]|]; try discriminate; try (apply vtextb_sound; exact T). apply pstr_eqb_eq; exact T.
  - apply nodup_str_NoDup; exact N.
  - apply Forall_forall. intros ax I. rewrite forallb_forall in A. specialize (A ax I). unfold vLattrb in A. unfold vLattr.
    destruct (elem_kind tag) as [[r|rows sc]|]; try discriminate. destruct (has_exc_row rows); try discriminate. destruct (find_row (fst ax) rows) as [[n ty q tc|e]|]; try discriminate.
    destruct (resolve lib_st 6 tc) as [r|]; try discriminate. apply vattrb_sound; exact A.
  - intros a I. rewrite forallb_forall in R. apply mem_str_In. apply R; exact I.
Qed.
Fixpoint vvalidb (d:vdoc) : bool :=
  match d with PNode _ tag p kids =>
    match elem_tpl tag with Some _ => true | None => false end && accepts (elem_schema_re tag) (map (ptag_of vP) kids) && vLpb tag p && forallb vvalidb kids end.
Lemma vvalidb_sound (Hok : forall r, In r cm_rows -> cm_row_ok r = true) : forall d, vvalidb d = true -> vvalid d.
Proof.
  induction d using pdoc_ind2. unfold vvalid. simpl. intros B. apply andb_true_iff in B as [B K]. apply andb_true_iff in B as [B Pp]. apply andb_true_iff in B as [T A]. split.
  - split; [|split].
    + unfold elem_start. destruct (elem_tpl t); [discriminate|discriminate].
    + unfold elem_lang. apply accepts_iff; [apply (elem_schema_re_wf Hok)|exact A].
    + apply vLpb_sound; exact Pp.
  - clear -H K. induction H as [|x r Hx Hr IH]; simpl in *; [exact I|]. apply andb_true_iff in K as [K1 K2]. split; [apply Hx; exact K1|apply IH; exact K2].
Qed.
(* float() for the correspondence: a finite table supplied by the harness (texts of the document -> what Python's float() returned) *)
Fixpoint float_table (t:list (pstr * option pyval)) (s:pstr) : option pyval :=
  match t with [] => None | (k, v) :: r => if pstr_eqb k s then v else float_table r s end.
(* the general premise as a boolean test (float() given as a table) *)
Definition gLpb (pf:pstr -> option pyval) (tag:positive) (p:vP) : bool :=
  match vrd_text pf tag (fst p) with Some pv => pstr_eqb (render pv) (fst p) | None => false end
  && nodup_str (map fst (snd p))
  && forallb (fun ax => match vrd_attr pf tag (fst ax) (snd ax) with Some pv => pstr_eqb (render pv) (snd ax) | None => false end) (snd p)
  && forallb (fun a => mem_str a (map fst (snd p))) (vreq tag).
Lemma gLpb_sound pf tag p : gLpb pf tag p = true -> gLp pf tag p.
Proof.
  unfold gLpb, gLp, Lv. intros H. apply andb_true_iff in H as [H R]. apply andb_true_iff in H as [H A]. apply andb_true_iff in H as [T N].
  split; [|split; [|split]].
  - unfold gLtext. destruct (vrd_text pf tag (fst p)) as [pv|]; [|discriminate]. exists pv. split; auto. apply pstr_eqb_eq; exact T.
  - apply nodup_str_NoDup; exact N.
  - apply Forall_forall. intros ax I. rewrite forallb_forall in A. specialize (A ax I). unfold gLattr.
    destruct (vrd_attr pf tag (fst ax) (snd ax)) as [pv|]; [|discriminate]. exists pv. split; auto. apply pstr_eqb_eq; exact A.
  - intros a I. rewrite forallb_forall in R. apply mem_str_In. apply R; exact I.
Qed.
Fixpoint gvalidb (pf:pstr -> option pyval) (d:vdoc) : bool :=
  match d with PNode _ tag p kids =>
    match elem_tpl tag with Some _ => true | None => false end && accepts (elem_schema_re tag) (map (ptag_of vP) kids) && gLpb pf tag p && forallb (gvalidb pf) kids end.
Lemma gvalidb_sound (Hok : forall r, In r cm_rows -> cm_row_ok r = true) pf : forall d, gvalidb pf d = true -> gvalid pf d.
Proof.
  induction d using pdoc_ind2. unfold gvalid. simpl. intros B. apply andb_true_iff in B as [B K]. apply andb_true_iff in B as [B Pp]. apply andb_true_iff in B as [T A]. split.
  - split; [|split].
    + unfold elem_start. destruct (elem_tpl t); [discriminate|discriminate].
    + unfold elem_lang. apply accepts_iff; [apply (elem_schema_re_wf Hok)|exact A].
    + apply gLpb_sound; exact Pp.
  - clear -H K. induction H as [|x r Hx Hr IH]; simpl in *; [exact I|]. apply andb_true_iff in K as [K1 K2]. split; [apply Hx; exact K1|apply IH; exact K2].
Qed.
Inductive vres := VNoParse | VNoEmit | VOk (d:vdoc).
Definition vrun (ft:list (pstr * option pyval)) (d:vdoc) : vres :=
  match vparse (float_table ft) d with None => VNoParse | Some e => match vemit e with None => VNoEmit | Some d' => VOk d' end end.
