(* File-system effects of XMLScorePartwise.write and the text encoding of every open() of the library.
   A file is an optional list of chunks (None = does not exist).  open(path,'w') truncates; a text-mode open without an
   explicit encoding uses the process locale's. *)
From MX Require Import Gen.Code.
From Coq Require Import List String Bool NArith Arith.
Import ListNotations.
Open Scope string_scope.

Inductive chunk := Decl | Document.
Definition file := option (list chunk).
Inductive outcome := Returned | Raised.
(* run the effect list; validation fails iff [fails]; an exception stops the run (the with-block closes the file as it is) *)
Fixpoint exec (effs:list effect) (fails:bool) (opened:bool) (f:file) : outcome * file :=
  match effs with
  | [] => (Returned, f)
  | EOpen mode _ :: r => if String.eqb mode "w" then exec r fails true (Some []) else (Raised, f)   (* only 'w' is modelled: anything else fails closed *)
  | EWrite what :: r =>
      if opened then exec r fails opened (match f with Some l => Some (l ++ [if String.eqb what "const" then Decl else Document])%list | None => None end)
      else (Raised, f)
  | EValidate :: r => if fails then (Raised, f) else exec r fails opened f
  | EClose :: r => exec r fails false f
  end.
(* all validation happens before the first open *)
Fixpoint validate_first (effs:list effect) : bool :=
  match effs with
  | [] => true
  | EValidate :: r => validate_first r
  | EOpen _ _ :: r => forallb (fun e => match e with EValidate => false | _ => true end) r
  | _ :: r => validate_first r end.
Fixpoint no_open_before_validate (effs:list effect) : bool :=
  match effs with [] => true | EValidate :: _ => true | EOpen _ _ :: _ => false | EWrite _ :: _ => false | EClose :: r => no_open_before_validate r end.
(* if the effect list validates before touching the file, a failing validation leaves ANY prior file state untouched *)
Theorem validate_first_atomic : forall effs f, no_open_before_validate effs = true -> existsb (fun e => match e with EValidate => true | _ => false end) effs = true ->
  exec effs true false f = (Raised, f).
Proof.
  induction effs as [|e r IH]; simpl; intros f N E; [discriminate|].
  destruct e; simpl in *; try discriminate; auto.
Qed.
(* text encoding actually used by an open() *)
Definition used_encoding (explicit:option string) (locale:string) : string := match explicit with Some e => e | None => locale end.
Fixpoint has_b (s:string) : bool := match s with EmptyString => false | String c t => Nat.eqb (Ascii.nat_of_ascii c) 98 || has_b t end.
Definition binary (mode:string) : bool := has_b mode.
Definition lower_utf8 (e:string) : bool := String.eqb e "utf-8" || String.eqb e "UTF-8" || String.eqb e "utf8".
Definition site_locale_free (s:string * N * string * option string) : bool :=
  let '(_, _, mode, enc) := s in
  binary mode || String.prefix "ET.parse:" mode || match enc with Some e => lower_utf8 e | None => false end.
Theorem explicit_encoding_locale_free : forall e l1 l2, used_encoding (Some e) l1 = used_encoding (Some e) l2.
Proof. reflexivity. Qed.
