(* Order of checks and stores in XMLElement.add_child / remove / the value_ setter, as read from the source by tr/code.py
   (Gen/Code.v: elt_add_child, elt_remove, elt_value_set).  An effect may raise (XRaise, XMatcher, XListRemove, XValidate: the guards
   and the calls that validate) and/or store into the element (everything but XRaise, XRead, XValidate).  XMatcher and XListRemove
   are all-or-nothing themselves: the matcher's own atomicity is the subject of C10_partial_* / M_py, list.remove raises before
   removing.  Reads and container bookkeeping on an attached child do not raise (an attached child has a slot: invariant of M_py). *)
From MX Require Import Gen.Code.
From Coq Require Import List Bool Arith String.
Import ListNotations.
(* serialisation stores into the cache field only (list read from _create_et_xml_element / et_xml_element) *)
Definition ser_only_cache : bool := match serialise_stores with [s] => String.eqb s "_et_xml_element" | _ => false end.

Definition may_raise (e:eeff) : bool := match e with XRaise | XMatcher | XListRemove | XValidate | XReadMayRaise => true | _ => false end.
Definition stores (e:eeff) : bool := match e with XRaise | XRead | XReadMayRaise | XValidate => false | _ => true end.
Inductive eout := EReturned | ERaised.
(* the log of stores performed; [fails i] says whether the i-th effect (if it may raise) raises *)
Fixpoint eexec (effs:list eeff) (fails:nat -> bool) (i:nat) (log:list eeff) : eout * list eeff :=
  match effs with
  | [] => (EReturned, log)
  | e :: r => if may_raise e && fails i then (ERaised, log)
              else eexec r fails (S i) (if stores e then log ++ [e] else log) end.
(* every effect that may raise comes before every store of another effect *)
Fixpoint checks_first (effs:list eeff) : bool :=
  match effs with
  | [] => true
  | e :: r => if stores e then forallb (fun x => negb (may_raise x)) r else checks_first r end.
Lemma no_raise_returns effs : forallb (fun x => negb (may_raise x)) effs = true -> forall fails i log, fst (eexec effs fails i log) = EReturned.
Proof.
  induction effs as [|e r IH]; simpl; intros H fails i log; auto.
  apply andb_true_iff in H as [H1 H2]. apply negb_true_iff in H1. rewrite H1. simpl. apply IH; auto.
Qed.
(* a call that raises has stored nothing, at whatever point and for whatever reason it raises *)
Theorem checks_first_atomic effs : checks_first effs = true -> forall fails i log, fst (eexec effs fails i log) = ERaised -> snd (eexec effs fails i log) = log.
Proof.
  induction effs as [|e r IH]; simpl; intros H fails i log R; [discriminate|].
  destruct (may_raise e && fails i) eqn:F; simpl in *; auto.
  destruct (stores e) eqn:S.
  - rewrite (no_raise_returns r H) in R. discriminate.
  - apply IH; auto.
Qed.
