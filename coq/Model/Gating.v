(* The gating of the final checks by xsd_check, interpreted from the shape that tr/code.py reads from XMLElement._final_checks and
   to_string (Gen/Code.v: final_checks_shape, to_string_guarded), related to the specification of Model/Unchecked.v. *)
From MX Require Import Gen.Code Model.Unchecked.
From Coq Require Import List Bool.
Import ListNotations.

Fixpoint final_checks_of (g:gating_shape) (t:etree) : bool :=
  match t with ENode c ok k =>
    let rec := forallb (final_checks_of g) k in
    match g with
    | GuardOwnThenRecurse => (negb c || ok) && rec       (* if xsd_check: own checks;  then recurse into every child *)
    | GuardAll => negb c || (ok && rec)                   (* if xsd_check: own checks; recurse *)
    | NoGuard => ok && rec end end.                      (* own checks; recurse *)
Definition to_string_of (g:gating_shape) (guarded:bool) (t:etree) : bool :=
  match t with ENode c _ _ => if guarded then negb c || final_checks_of g t else final_checks_of g t end.
Lemma forallb_ext_in {A} (f g:A -> bool) l : Forall (fun x => f x = g x) l -> forallb f l = forallb g l.
Proof. induction 1; simpl; auto. rewrite H, IHForall. reflexivity. Qed.
Theorem guard_own_then_recurse_is_spec t : final_checks_of GuardOwnThenRecurse t = final_checks t.
Proof. induction t using etree_ind2. simpl. rewrite (forallb_ext_in _ _ _ H). reflexivity. Qed.
Theorem to_string_guarded_is_spec t : to_string_of GuardOwnThenRecurse true t = to_string_ok t.
Proof. destruct t as [c ok k]. unfold to_string_of, to_string_ok. rewrite guard_own_then_recurse_is_spec. reflexivity. Qed.
(* the other shapes are NOT the specification: an unchecked, incomplete node below a checked one *)
Example no_guard_differs : final_checks_of NoGuard (ENode true true [ENode false false []]) <> final_checks (ENode true true [ENode false false []]).
Proof. vm_compute. discriminate. Qed.
Example guard_all_differs : final_checks_of GuardAll (ENode false true [ENode true false []]) <> final_checks (ENode false true [ENode true false []]).
Proof. vm_compute. discriminate. Qed.
