(* Documents WITH what every node carries besides its children (text and attributes: the "payload"), through the parser and back.
   The same development as Model/Doc.v, generic in
     - the per-element child machine (start / feed / fin / ord, laws good = C02 with identities, perm = C06, sound = C01), and
     - the payload: P in the file, Q in the element;  rdp = what the constructor and the setattr calls of the parser make of it (None = an
       exception), wrp = what serialisation emits (None = a final check refuses), law pgood: a valid payload is read and emitted unchanged.
   Model/DocVal.v instantiates the payload with text and attributes over the library's value checks. *)
From MX Require Import Spec.Particle Spec.Deriv Model.AbsSeq Model.Classes Model.SeqIds Model.Doc.
From Coq Require Import Arith Lia Permutation.

Section PDoc.
  Variable P Q : Type.
  Inductive pdoc := PNode (tag:positive) (pay:P) (kids:list pdoc).
  Definition ptag_of (d:pdoc) : positive := match d with PNode t _ _ => t end.
  Section pdoc_ind2.
    Variable R : pdoc -> Prop.
    Hypothesis H : forall t p k, Forall R k -> R (PNode t p k).
    Fixpoint pdoc_ind2 (d:pdoc) : R d :=
      match d with PNode t p k => H t p k ((fix go (l:list pdoc) : Forall R l := match l with [] => Forall_nil R | x :: r => Forall_cons x (pdoc_ind2 x) (go r) end) k) end.
  End pdoc_ind2.
  (* forgetting the payload gives the structure-only document of Model/Doc.v *)
  Fixpoint skeleton (d:pdoc) : xdoc := match d with PNode t _ k => XNode t (map skeleton k) end.

  Variable S : Type.
  Variable start : positive -> option S.
  Variable feed : list positive -> S -> option S.
  Variable fin : S -> bool.
  Variable ord : S -> list (nat * positive).
  Variable L : positive -> list positive -> Prop.
  Variable okst : positive -> S -> Prop.
  Variable rdp : positive -> P -> option Q.
  Variable wrp : positive -> Q -> option P.
  Variable Lp : positive -> P -> Prop.
  Variable okq : positive -> Q -> Prop.

  Inductive pelt := PE (tag:positive) (q:Q) (state:S) (children:list pelt).
  Fixpoint pparse (d:pdoc) : option pelt :=
    match d with PNode tag p kids =>
      match start tag, rdp tag p with
      | Some s0, Some q =>
          match all_some (map pparse kids) with
          | None => None
          | Some es => match feed (map ptag_of kids) s0 with Some s => Some (PE tag q s es) | None => None end end
      | _, _ => None end end.
  Definition ppick (ds:list (option pdoc)) (p:nat*positive) : option pdoc := match nth_error ds (fst p) with Some (Some d) => Some d | _ => None end.
  Fixpoint pemit (e:pelt) : option pdoc :=
    match e with PE tag q s es =>
      if fin s then match wrp tag q with
                    | Some p => option_map (PNode tag p) (all_some (map (ppick (map pemit es)) (ord s)))
                    | None => None end
      else None end.
  Fixpoint pvalid (d:pdoc) : Prop :=
    match d with PNode tag p kids =>
      (start tag <> None /\ L tag (map ptag_of kids) /\ Lp tag p)
      /\ (fix all (l:list pdoc) : Prop := match l with [] => True | k :: r => pvalid k /\ all r end) kids end.
  Lemma ppick_tagged (kids:list pdoc) : forall n (pre:list pdoc) w, length w = length kids -> n = length pre ->
    all_some (map (ppick (map Some (pre ++ kids))) (tagged n w)) = Some kids.
  Proof.
    induction kids as [|k r IH]; intros n pre w Ln N; destruct w as [|a w]; simpl in Ln; try discriminate; auto.
    unfold tagged. simpl. unfold ppick at 1. simpl fst.
    replace (nth_error (map Some (pre ++ k :: r)) n) with (Some (Some k)).
    2:{ rewrite nth_error_map, nth_error_app2 by lia. rewrite N, Nat.sub_diag. reflexivity. }
    specialize (IH (Datatypes.S n) (pre ++ [k]) w). rewrite <- app_assoc in IH. simpl in IH. unfold tagged in IH. rewrite IH; auto.
    rewrite app_length. simpl. lia.
  Qed.

  (* ---- valid documents are read and re-emitted identically: structure, text and attributes ---- *)
  Hypothesis good : forall tag s0 w, start tag = Some s0 -> L tag w -> exists s, feed w s0 = Some s /\ fin s = true /\ ord s = tagged 0 w.
  Hypothesis pgood : forall tag p, Lp tag p -> exists q, rdp tag p = Some q /\ wrp tag q = Some p.
  Theorem pdoc_roundtrip : forall d, pvalid d -> exists e, pparse d = Some e /\ pemit e = Some d.
  Proof.
    induction d using pdoc_ind2. intros [(T & Lw & Lq) VK].
    assert (K: exists es, all_some (map pparse k) = Some es /\ map pemit es = map Some k).
    { clear -H VK. induction H as [|x r Hx Hr IH]; simpl.
      - exists []. auto.
      - destruct VK as [Vx Vr]. destruct (Hx Vx) as (e & Pe & Ee). destruct (IH Vr) as (es & Pes & Ees).
        exists (e :: es). rewrite Pe, Pes. simpl. rewrite Ee, Ees. auto. }
    destruct K as (es & Pes & Ees). destruct (start t) as [s0|] eqn:St; [|contradiction].
    destruct (good t s0 (map ptag_of k) St Lw) as (s & A & R & O). destruct (pgood t p Lq) as (q & Rq & Wq).
    exists (PE t q s es). simpl. rewrite St, Rq, Pes, A. split; auto. rewrite R, Wq, O, Ees.
    pose proof (ppick_tagged k 0 [] (map ptag_of k) (map_length _ _) eq_refl) as PT. simpl in PT. rewrite PT. reflexivity.
  Qed.

  (* ---- any document: nothing is lost, invented or moved to another parent; the payload emitted is the payload READ ---- *)
  Hypothesis perm : forall tag s0 w s, start tag = Some s0 -> feed w s0 = Some s -> Permutation (ord s) (tagged 0 w).
  Inductive psame : pdoc -> pdoc -> Prop :=
  | PSC t p p' q k k' k'' : rdp t p = Some q -> wrp t q = Some p' -> Forall2 psame k k'' -> Permutation k'' k' -> psame (PNode t p k) (PNode t p' k').
  Lemma ppick_perm (ds:list (option pdoc)) : forall l1 l2, Permutation l1 l2 -> forall r1, all_some (map (ppick ds) l1) = Some r1 ->
    exists r2, all_some (map (ppick ds) l2) = Some r2 /\ Permutation r1 r2.
  Proof.
    induction 1 as [|x l1 l2 Pm IH|x y l|l1 l2 l3 P1 IH1 P2 IH2]; intros r1 E; simpl in *.
    - injection E as <-. exists []. auto.
    - destruct (ppick ds x) as [d|]; [|discriminate]. destruct (all_some (map (ppick ds) l1)) as [r|] eqn:Er; [|discriminate]. injection E as <-.
      destruct (IH r eq_refl) as (r2 & E2 & P2). rewrite E2. exists (d :: r2). auto.
    - destruct (ppick ds y) as [dy|]; [|discriminate]. destruct (ppick ds x) as [dx|]; [|discriminate].
      destruct (all_some (map (ppick ds) l)) as [r|]; [|discriminate]. injection E as <-. exists (dx :: dy :: r). split; auto. apply perm_swap.
    - destruct (IH1 r1 E) as (r2 & E2 & Q2). destruct (IH2 r2 E2) as (r3 & E3 & Q3). exists r3. split; auto. eapply Permutation_trans; eauto.
  Qed.
  Theorem pparse_loses_nothing : forall d e d', pparse d = Some e -> pemit e = Some d' -> psame d d'.
  Proof.
    induction d using pdoc_ind2. intros e d' Pa E. simpl in Pa.
    destruct (start t) as [s0|] eqn:St; [|discriminate]. destruct (rdp t p) as [q|] eqn:Rq; [|discriminate].
    destruct (all_some (map pparse k)) as [es|] eqn:Pes; [|discriminate].
    destruct (feed (map ptag_of k) s0) as [s|] eqn:A; [|discriminate]. injection Pa as <-. simpl in E.
    destruct (fin s); [|discriminate]. destruct (wrp t q) as [p'|] eqn:Wq; [|discriminate].
    destruct (all_some (map (ppick (map pemit es)) (ord s))) as [kids|] eqn:Pk; [|discriminate]. injection E as <-.
    pose proof (perm t s0 _ s St A) as Perm.
    destruct (ppick_perm (map pemit es) _ _ Perm kids Pk) as (kids0 & Pk0 & Qm).
    apply all_some_spec in Pes. apply all_some_spec in Pk0.
    assert (G: forall (k0:list pdoc) es0 (pre:list pelt) n kids1, Forall (fun x => forall e d', pparse x = Some e -> pemit e = Some d' -> psame x d') k0 ->
               Forall2 (fun o x => o = Some x) (map pparse k0) es0 -> n = length pre ->
               Forall2 (fun o x => o = Some x) (map (ppick (map pemit (pre ++ es0))) (tagged n (map ptag_of k0))) kids1 -> Forall2 psame k0 kids1).
    { clear. induction k0 as [|x r IHr]; intros es0 pre n kids1 HF F1 N F2; inversion F1 as [|o e0 l es1 Ho Hr]; subst; unfold tagged in F2; simpl in F2.
      - inversion F2. constructor.
      - inversion F2 as [|o2 d0 l2 kids2 Hp Hk]; subst. inversion HF as [|? ? Hx HFr]; subst.
        unfold ppick in Hp. simpl in Hp. rewrite nth_error_map, nth_error_app2 in Hp by lia. rewrite Nat.sub_diag in Hp. simpl in Hp.
        destruct (pemit e0) as [de|] eqn:Ee; [|discriminate]. injection Hp as <-.
        constructor; [apply (Hx e0 de); auto|].
        apply (IHr es1 (pre ++ [e0]) (Datatypes.S (length pre)) kids2); auto.
        + rewrite app_length. simpl. lia.
        + rewrite <- app_assoc. simpl. exact Hk. }
    econstructor; [exact Rq|exact Wq| |apply Permutation_sym; exact Qm]. apply (G k es [] 0 kids0); auto.
  Qed.

  (* ---- the library's own output: whatever is emitted from a consistent element tree is a valid document ---- *)
  Hypothesis sound : forall tag s, okst tag s -> fin s = true -> L tag (names (ord s)).
  Hypothesis psound : forall tag q p, okq tag q -> wrp tag q = Some p -> Lp tag p.
  Definition petag (e:pelt) : positive := match e with PE t _ _ _ => t end.
  Fixpoint pelt_ok (e:pelt) : Prop :=
    match e with PE tag q s es =>
      (start tag <> None /\ okst tag s /\ okq tag q)
      /\ (forall p, In p (ord s) -> exists c, nth_error es (fst p) = Some c /\ petag c = snd p)
      /\ (fix all (l:list pelt) : Prop := match l with [] => True | c :: r => pelt_ok c /\ all r end) es end.
  Section pelt_ind2.
    Variable R : pelt -> Prop.
    Hypothesis H : forall t q s k, Forall R k -> R (PE t q s k).
    Fixpoint pelt_ind2 (e:pelt) : R e :=
      match e with PE t q s k => H t q s k ((fix go (l:list pelt) : Forall R l := match l with [] => Forall_nil R | x :: r => Forall_cons x (pelt_ind2 x) (go r) end) k) end.
  End pelt_ind2.
  Lemma pemit_tag e d : pemit e = Some d -> ptag_of d = petag e.
  Proof.
    destruct e as [t q s es]. simpl. destruct (fin s); [|discriminate]. destruct (wrp t q); [|discriminate].
    destruct (all_some _); simpl; [|discriminate]. intros E. injection E as <-. reflexivity.
  Qed.
  Theorem pemitted_is_valid : forall e, pelt_ok e -> forall d, pemit e = Some d -> pvalid d.
  Proof.
    induction e using pelt_ind2. intros [(T & I & Iq) [C OK]] d E. simpl in E.
    destruct (fin s) eqn:R; [|discriminate]. destruct (wrp t q) as [p|] eqn:Wq; [|discriminate].
    destruct (all_some (map (ppick (map pemit k)) (ord s))) as [kids|] eqn:A; [|discriminate]. injection E as <-.
    apply all_some_spec in A.
    assert (K: Forall2 (fun p kd => ptag_of kd = snd p /\ pvalid kd) (ord s) kids).
    { assert (Sub: forall l kids0, (forall p, In p l -> In p (ord s)) -> Forall2 (fun o x => o = Some x) (map (ppick (map pemit k)) l) kids0 ->
                   Forall2 (fun p kd => ptag_of kd = snd p /\ pvalid kd) l kids0).
      { induction l as [|p0 l IHl]; intros kids0 Incl F; inversion F as [|o x l' r' H3 Hr]; subst; constructor.
        - destruct (C p0 (Incl p0 (or_introl eq_refl))) as (c & Nc & Tc). unfold ppick in H3. rewrite nth_error_map, Nc in H3. simpl in H3.
          destruct (pemit c) as [dc|] eqn:Ec; [|discriminate]. injection H3 as <-.
          split; [rewrite (pemit_tag c dc Ec); exact Tc|].
          assert (Ic: In c k) by (eapply nth_error_In; eauto). rewrite Forall_forall in H. apply (H c Ic); auto.
          clear -OK Ic. induction k as [|x r IHr]; [destruct Ic|]. destruct OK as [Ox Or]. destruct Ic as [<-|Ic]; auto.
        - apply IHl; [|exact Hr]. intros q0 Hq. apply Incl. right. exact Hq. }
      apply Sub; auto. }
    simpl. split.
    - split; auto.
      assert (N: map ptag_of kids = names (ord s)).
      { clear -K. induction K as [|p0 kd l kids0 [Hp _] _ IH]; simpl; auto. unfold names in *. simpl. congruence. }
      rewrite N. split; [apply sound; auto|]. eapply psound; eauto.
    - clear -K. induction K as [|p0 kd l kids0 [_ Hv] _ IH]; simpl; auto.
  Qed.
  Theorem pemitted_roundtrips : forall e d, pelt_ok e -> pemit e = Some d -> exists e', pparse d = Some e' /\ pemit e' = Some d.
  Proof. intros e d O E. apply pdoc_roundtrip. eapply pemitted_is_valid; eauto. Qed.
End PDoc.
