(* The conversion ladders of parse_musicxml (_et_xml_to_music_xml), interpreted from the rungs that tr/code.py reads from the source
   (at the pinned commit:
     text      : cls(value_=text.strip())  except TypeError -> cls(float(text)) except TypeError -> cls(int(text))
     attribute : setattr(k, v)  except (TypeError, ValueError) -> setattr(k, int(v))  except ValueError -> setattr(k, float(v)))
   on resolved simple-type classes (Model/SimpleType.v).  float() / int() of Python are parameters; the theorems only use
   their behaviour on the texts they speak about. *)
From MX Require Import Spec.CharRe Model.SimpleType Model.SimpleTypeThms Gen.Code.
From Coq Require Import List String NArith ZArith QArith Bool Lia DecimalString.
Import ListNotations.

Inductive lres := LValue (v:pyval) | LTypeError | LValueError | LOther.
Definition of_res (r:res) (v:pyval) : lres := match r with Ok => LValue v | TypeErr => LTypeError | ValueErr => LValueError | OtherErr => LOther end.
(* a ladder, as the translator reads it from the source (Gen/Code.v: parser_text_ladder, parser_attr_ladder): rungs
   (conversion applied to the text, exception classes whose handler leads to the next rung); the last rung has no handler *)
Definition has (e:pexn) (l:list pexn) : bool := existsb (fun x => match e, x with PTypeError, PTypeError | PValueError, PValueError => true | _, _ => false end) l.
Section Ladder.
  Variable py_float : pstr -> option pyval.     (* None: float() raises ValueError *)
  Variable py_int : pstr -> option Z.           (* None: int() raises ValueError *)
  Definition conv_arg (c:conv) (t:pstr) : option pyval := match c with CId => Some (VStr t) | CFloat => py_float t | CInt => option_map VInt (py_int t) end.
  Definition attempt (c:conv) (r:rcls) (t:pstr) : lres := match conv_arg c t with None => LValueError | Some v => of_res (fst (run r v)) v end.
  Fixpoint ladder_run (l:list (conv * list pexn)) (r:rcls) (t:pstr) : lres :=
    match l with
    | [] => LOther
    | (c, hs) :: rest =>
        match attempt c r t with
        | LTypeError => if has PTypeError hs then ladder_run rest r t else LTypeError
        | LValueError => if has PValueError hs then ladder_run rest r t else LValueError
        | o => o end end.
  (* element text is stripped first; attribute values are taken as they are *)
  Definition text_ladder (l:list (conv * list pexn)) (r:rcls) (text:pstr) : lres := ladder_run l r (strip text).
  Definition attr_ladder (l:list (conv * list pexn)) (r:rcls) (v:pstr) : lres := ladder_run l r v.

  (* ---- enumerations: a literal read back from a file is the same str (any ladder whose first rung offers the text itself) ---- *)
  Theorem text_ladder_enum hs rest r lits lit : is_enum_r r = Some lits -> In lit lits -> strip (cp lit) = cp lit ->
    text_ladder ((CId, hs) :: rest) r (cp lit) = LValue (VStr (cp lit)).
  Proof.
    intros E I S. unfold text_ladder. rewrite S. cbn [ladder_run]. unfold attempt. cbn [conv_arg]. rewrite (enum_r_spec r lits E). unfold enum_spec.
    assert (M: in_strs (VStr (cp lit)) lits = true) by (apply in_strs_In; exists lit; auto). rewrite M. reflexivity.
  Qed.
  Theorem attr_ladder_enum hs rest r lits lit : is_enum_r r = Some lits -> In lit lits -> attr_ladder ((CId, hs) :: rest) r (cp lit) = LValue (VStr (cp lit)).
  Proof.
    intros E I. unfold attr_ladder. cbn [ladder_run]. unfold attempt. cbn [conv_arg]. rewrite (enum_r_spec r lits E). unfold enum_spec.
    assert (M: in_strs (VStr (cp lit)) lits = true) by (apply in_strs_In; exists lit; auto). rewrite M. reflexivity.
  Qed.

  (* ---- pure integer classes: only int passes the type check ---- *)
  Definition is_pure_int_r (r:rcls) : bool := match r with R [TInt] _ _ _ _ _ _ _ _ _ => is_int_r r | _ => false end.
  Lemma pure_int_rejects r v : is_pure_int_r r = true -> (forall z, v <> VInt z) -> (forall b, v <> VBool b) -> fst (run r v) = TypeErr.
  Proof.
    destruct r as [types forced permitted members pattern pre_ sub has_restr restr chain]. simpl.
    destruct types as [|[| |] [|? ?]]; try discriminate. destruct forced; try discriminate. destruct permitted; try discriminate.
    destruct members; try discriminate. destruct pattern; try discriminate. intros H NI NB. apply andb_true_iff in H as [_ HC].
    assert (CT: r_check_type [TInt] [] v = TypeErr).
    { unfold r_check_type. destruct v; simpl; auto; [exfalso; eapply NI; eauto | exfalso; eapply NB; eauto]. }
    induction chain as [|k rest IH]; simpl in *.
    - rewrite CT. reflexivity.
    - apply andb_true_iff in HC as [K HC]. specialize (IH HC). destruct k; try discriminate; simpl.
      + rewrite CT. reflexivity.
      + match goal with |- fst (match ?g with _ => _ end) = _ => destruct g as [[] v'] eqn:G end; simpl in *; auto; discriminate.
      + match goal with |- fst (match ?g with _ => _ end) = _ => destruct g as [[] v'] eqn:G end; simpl in *; auto; discriminate.
  Qed.
  (* the text the library emits for an accepted integer is read back as that integer, whatever float() makes of it: on the ladder
     text -> float(text) -> int(text) whose first two rungs hand a TypeError on to the next *)
  Theorem text_ladder_int h1 h2 h3 r z : has PTypeError h1 = true -> has PTypeError h2 = true ->
    is_pure_int_r r = true -> fst (run r (VInt z)) = Ok ->
    (forall f, py_float (strip (render_int z)) = Some f -> exists k q s, f = VFloat k q s) ->
    py_float (strip (render_int z)) <> None -> py_int (strip (render_int z)) = Some z ->
    text_ladder [(CId, h1); (CFloat, h2); (CInt, h3)] r (render_int z) = LValue (VInt z).
  Proof.
    intros H1 H2 P A FF FN PI. unfold text_ladder. cbn [ladder_run]. unfold attempt. cbn [conv_arg].
    rewrite (pure_int_rejects r (VStr (strip (render_int z))) P) by (intros; discriminate). cbn [of_res]. rewrite H1.
    destruct (py_float (strip (render_int z))) as [f|] eqn:Ef; [|contradiction].
    destruct (FF f eq_refl) as (k & q & s & ->).
    rewrite (pure_int_rejects r (VFloat k q s) P) by (intros; discriminate). cbn [of_res]. rewrite H2.
    rewrite PI. cbn [option_map]. rewrite A. reflexivity.
  Qed.
  (* attributes: text -> int(text) -> ... *)
  Theorem attr_ladder_int h1 h2 rest r z : has PTypeError h1 = true -> is_pure_int_r r = true -> fst (run r (VInt z)) = Ok -> py_int (render_int z) = Some z ->
    attr_ladder ((CId, h1) :: (CInt, h2) :: rest) r (render_int z) = LValue (VInt z).
  Proof.
    intros H1 P A PI. unfold attr_ladder. cbn [ladder_run]. unfold attempt. cbn [conv_arg].
    rewrite (pure_int_rejects r (VStr (render_int z)) P) by (intros; discriminate). cbn [of_res]. rewrite H1. rewrite PI. cbn [option_map]. rewrite A. reflexivity.
  Qed.
End Ladder.
(* int() of Python on the texts the library emits for integers: modelled by the schema-side integer reader after strip *)
Definition py_int_model (s:pstr) : option Z := parse_integer (strip s).
Definition digitish (s:pstr) : bool := forallb (fun c => N.eqb c 45 || (N.leb 48 c && N.leb c 57)) s.
Lemma digitish_not_space c : (N.eqb c 45 || (N.leb 48 c && N.leb c 57)) = true -> is_space c = false.
Proof.
  intros H. unfold is_space. apply orb_true_iff in H as [H|H].
  - apply N.eqb_eq in H. subst. reflexivity.
  - apply andb_true_iff in H as [A B]. apply N.leb_le in A, B.
    repeat (apply orb_false_iff; split); try (apply N.eqb_neq; lia); apply andb_false_iff; [right|right|left]; apply N.leb_gt; lia.
Qed.
Lemma lstrip_digitish l : digitish l = true -> lstrip l = l.
Proof. destruct l as [|c t]; simpl; auto. intros H. apply andb_true_iff in H as [H _]. rewrite (digitish_not_space c H). reflexivity. Qed.
Lemma digitish_rev l : digitish l = true -> digitish (List.rev l) = true.
Proof. unfold digitish. rewrite !forallb_forall. intros H x I. apply H. apply in_rev. auto. Qed.
Lemma strip_digitish l : digitish l = true -> strip l = l.
Proof. intros H. unfold strip. rewrite (lstrip_digitish l H). rewrite (lstrip_digitish _ (digitish_rev l H)). apply rev_involutive. Qed.
Lemma digitish_uint d : digitish (cp (DecimalString.NilEmpty.string_of_uint d)) = true.
Proof. induction d; simpl; auto. Qed.
Lemma digitish_render_int z : digitish (render_int z) = true.
Proof.
  unfold render_int, DecimalString.NilZero.string_of_int, DecimalString.NilZero.string_of_uint.
  destruct (Z.to_int z) as [d|d]; destruct d; simpl; auto; apply digitish_uint.
Qed.
Theorem py_int_model_render z : py_int_model (strip (render_int z)) = Some z /\ py_int_model (render_int z) = Some z.
Proof. unfold py_int_model. rewrite (strip_digitish _ (digitish_render_int z)). rewrite (strip_digitish _ (digitish_render_int z)). split; apply parse_render_int. Qed.
