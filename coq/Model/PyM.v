From MX Require Import Spec.Particle.
From Coq Require Import Arith.
(* ---------- values ---------- *)
Definition id := nat.  Definition eid := nat.
Inductive kind := KSeq | KChoice | KGroup (g:positive) | KElem (s:positive) | KDup.
Inductive tri := TNone | TTrue | TFalse.
Inductive exn := WrongElement | MaxOccurs | AnotherChosen | EIndexError | ENotImplemented | EValueError
               | ETypeError | EAttributeNone | EChildNotFound | ENeedIC | OutOfFuel.
Record node := mkNode {
  n_kind : kind; n_min : nat; n_max : option nat; n_src : list particle;
  n_parent : option id; n_children : list id; n_is_leaf : bool;
  n_trav : option (list id); n_leaves : option (list id); n_rpath : option (list id);
  n_chosen : option id; n_force : tri; n_req : tri;
  n_elems : list eid; n_pxe : bool }.
Record store := mkStore { nodes : list node; el_leaf : list (eid * id) (* parent_xsd_element *);
                          root : id (* element's _child_container_tree *); unordered : list (eid*positive); out : nat; names : list (eid*positive); parented : list eid (* children whose _parent is the element *) }.
Inductive res (A:Type) := Ok (a:A) | Err (e:exn).
Arguments Ok {A}. Arguments Err {A}.
Definition M A := store -> res A * store.
Definition ret {A} (a:A) : M A := fun s => (Ok a, s).
Definition raise {A} (e:exn) : M A := fun s => (Err e, s).
Definition bind {A B} (m:M A) (f:A -> M B) : M B := fun s => match m s with (Ok a, s') => f a s' | (Err e, s') => (Err e, s') end.
Notation "x <- m ;; k" := (bind m (fun x => k)) (at level 61, m at next level, right associativity).
Notation "m ;;; k" := (bind m (fun _ => k)) (at level 61, right associativity).
Definition getS : M store := fun s => (Ok s, s).
Definition dummy := mkNode KSeq 0 None [] None [] true None None None None TNone TNone [] false.
Definition get (i:id) : M node := fun s => (Ok (nth i (nodes s) dummy), s).
Fixpoint set_nth {A} (i:nat) (x:A) (l:list A) := match l, i with [], _ => [] | _::t, 0 => x::t | h::t, S j => h :: set_nth j x t end.
Definition put (i:id) (n:node) : M unit := fun s => (Ok tt, mkStore (set_nth i n (nodes s)) (el_leaf s) (root s) (unordered s) (out s) (names s) (parented s)).
Definition upd (i:id) (f:node->node) : M unit := n <- get i ;; put i (f n).
Definition alloc (n:node) : M id := fun s => (Ok (length (nodes s)), mkStore (nodes s ++ [n]) (el_leaf s) (root s) (unordered s) (out s) (names s) (parented s)).
Definition set_root (i:id) : M unit := fun s => (Ok tt, mkStore (nodes s) (el_leaf s) i (unordered s) (out s) (names s) (parented s)).
Definition get_root : M id := fun s => (Ok (root s), s).
Definition size : M nat := fun s => (Ok (length (nodes s)), s).
(* field setters *)
Definition w_parent p n := mkNode (n_kind n) (n_min n) (n_max n) (n_src n) p (n_children n) (n_is_leaf n) (n_trav n) (n_leaves n) (n_rpath n) (n_chosen n) (n_force n) (n_req n) (n_elems n) (n_pxe n).
Definition w_children c n := mkNode (n_kind n) (n_min n) (n_max n) (n_src n) (n_parent n) c (n_is_leaf n) (n_trav n) (n_leaves n) (n_rpath n) (n_chosen n) (n_force n) (n_req n) (n_elems n) (n_pxe n).
Definition w_isleaf b n := mkNode (n_kind n) (n_min n) (n_max n) (n_src n) (n_parent n) (n_children n) b (n_trav n) (n_leaves n) (n_rpath n) (n_chosen n) (n_force n) (n_req n) (n_elems n) (n_pxe n).
Definition w_caches t l r n := mkNode (n_kind n) (n_min n) (n_max n) (n_src n) (n_parent n) (n_children n) (n_is_leaf n) t l r (n_chosen n) (n_force n) (n_req n) (n_elems n) (n_pxe n).
Definition w_chosen c n := mkNode (n_kind n) (n_min n) (n_max n) (n_src n) (n_parent n) (n_children n) (n_is_leaf n) (n_trav n) (n_leaves n) (n_rpath n) c (n_force n) (n_req n) (n_elems n) (n_pxe n).
Definition w_force f n := mkNode (n_kind n) (n_min n) (n_max n) (n_src n) (n_parent n) (n_children n) (n_is_leaf n) (n_trav n) (n_leaves n) (n_rpath n) (n_chosen n) f (n_req n) (n_elems n) (n_pxe n).
Definition w_req r n := mkNode (n_kind n) (n_min n) (n_max n) (n_src n) (n_parent n) (n_children n) (n_is_leaf n) (n_trav n) (n_leaves n) (n_rpath n) (n_chosen n) (n_force n) r (n_elems n) (n_pxe n).
Definition w_elems e n := mkNode (n_kind n) (n_min n) (n_max n) (n_src n) (n_parent n) (n_children n) (n_is_leaf n) (n_trav n) (n_leaves n) (n_rpath n) (n_chosen n) (n_force n) (n_req n) e (n_pxe n).
Definition w_pxe b n := mkNode (n_kind n) (n_min n) (n_max n) (n_src n) (n_parent n) (n_children n) (n_is_leaf n) (n_trav n) (n_leaves n) (n_rpath n) (n_chosen n) (n_force n) (n_req n) (n_elems n) b.
(* monadic list helpers *)
Fixpoint mapM {A B} (f:A -> M B) (l:list A) : M (list B) := match l with [] => ret [] | x::t => y <- f x ;; ys <- mapM f t ;; ret (y::ys) end.
Fixpoint iterM {A} (f:A -> M unit) (l:list A) : M unit := match l with [] => ret tt | x::t => f x ;;; iterM f t end.
Fixpoint filterM {A} (f:A -> M bool) (l:list A) : M (list A) := match l with [] => ret [] | x::t => b <- f x ;; r <- filterM f t ;; ret (if b then x::r else r) end.
(* loop with break: f returns true to break *)
Fixpoint iterBreak {A} (f:A -> M bool) (l:list A) : M unit := match l with [] => ret tt | x::t => b <- f x ;; if b then ret tt else iterBreak f t end.
Definition is_seq k := match k with KSeq | KDup => true | _ => false end.
Definition is_choice k := match k with KChoice => true | _ => false end.
Definition is_group k := match k with KGroup _ => true | _ => false end.
Definition is_elem k := match k with KElem _ => true | _ => false end.
Definition is_dup k := match k with KDup => true | _ => false end.
Definition truthy t := match t with TTrue => true | _ => false end.
Definition unb (m:option nat) := match m with None => true | _ => false end.
Definition id_eqb := Nat.eqb.
Definition oid_eqb (a:option id) (b:id) := match a with Some x => Nat.eqb x b | None => false end.

(* ---------- verysimpletree.Tree ---------- *)
Fixpoint reset_iterators (fuel:nat) (i:id) : M unit :=
  match fuel with 0 => raise OutOfFuel | S f =>
    n <- get i ;;
    (match n_parent n with Some p => reset_iterators f p | None => ret tt end) ;;;
    upd i (w_caches None None None) end.
Definition tree_add_child (fuel:nat) (p c:id) : M unit :=
  upd c (w_parent (Some p)) ;;; upd p (fun n => w_children (n_children n ++ [c]) n) ;;;
  reset_iterators fuel p ;;; upd p (w_isleaf false).
Fixpoint remove_first (x:nat) (l:list nat) := match l with [] => [] | h::t => if Nat.eqb h x then t else h :: remove_first x t end.
Definition tree_remove (fuel:nat) (p c:id) : M unit :=
  n <- get p ;;
  if existsb (Nat.eqb c) (n_children n) then
    upd c (w_parent None) ;;; upd p (fun n => w_children (remove_first c (n_children n)) n) ;;; reset_iterators fuel p
  else raise EChildNotFound.
Fixpoint raw_traverse (fuel:nat) (i:id) : M (list id) :=
  match fuel with 0 => raise OutOfFuel | S f =>
    n <- get i ;; ls <- mapM (raw_traverse f) (n_children n) ;; ret (i :: concat ls) end.
Definition traverse (fuel:nat) (i:id) : M (list id) :=
  n <- get i ;; match n_trav n with Some l => ret l | None =>
    l <- raw_traverse fuel i ;; upd i (fun n => w_caches (Some l) (n_leaves n) (n_rpath n) n) ;;; ret l end.
Definition iterate_leaves (fuel:nat) (i:id) : M (list id) :=
  n <- get i ;; match n_leaves n with Some l => ret l | None =>
    t <- traverse fuel i ;; l <- filterM (fun j => m <- get j ;; ret (n_is_leaf m)) t ;;
    upd i (fun n => w_caches (n_trav n) (Some l) (n_rpath n) n) ;;; ret l end.
Fixpoint rpath (fuel:nat) (i:id) : M (list id) :=
  match fuel with 0 => raise OutOfFuel | S f =>
    n <- get i ;; match n_rpath n with Some l => ret l | None =>
      rest <- (match n_parent n with Some p => rpath f p | None => ret [] end) ;;
      let l := i :: rest in upd i (fun n => w_caches (n_trav n) (n_leaves n) (Some l) n) ;;; ret l end end.

(* ---------- XMLChildContainer ---------- *)
Definition occ_of (p:particle) := match p with PElem _ mn mx | PSeq mn mx _ | PChoice mn mx _ | PGroup _ mn mx _ => (mn,mx) end.
Definition fresh k mn mx src := mkNode k mn mx src None [] true None None None None TNone TNone [] false.
Fixpoint build (fuel:nat) (p:particle) : M id :=
  match fuel with 0 => raise OutOfFuel | S f =>
  match p with
  | PElem s mn mx => alloc (fresh (KElem s) mn mx [])
  | PSeq mn mx l => i <- alloc (fresh KSeq mn mx l) ;; iterM (fun c => j <- build f c ;; tree_add_child 1000 i j) l ;;; ret i
  | PChoice mn mx l => i <- alloc (fresh KChoice mn mx l) ;; iterM (fun c => j <- build f c ;; tree_add_child 1000 i j) l ;;; ret i
  | PGroup g mn mx l => i <- alloc (fresh (KGroup g) mn mx l) ;; iterM (fun c => j <- build f c ;; tree_add_child 1000 i j) l ;;; ret i
  end end.
(* _create_empty_copy : rebuild from src with same kind/min/max *)
Definition create_empty_copy (fuel:nat) (i:id) : M id :=
  n <- get i ;;
  match n_kind n with
  | KDup => raise ETypeError
  | KElem _ => raise ETypeError
  | k => j <- alloc (fresh k (n_min n) (n_max n) (n_src n)) ;;
         iterM (fun c => x <- build fuel c ;; tree_add_child fuel j x) (n_src n) ;;; ret j
  end.
Fixpoint index_of (x:nat) (l:list nat) : option nat := match l with [] => None | h::t => if Nat.eqb h x then Some 0 else option_map S (index_of x t) end.
Fixpoint insert_at {A} (i:nat) (x:A) (l:list A) := match i, l with 0, _ => x::l | S j, h::t => h :: insert_at j x t | S _, [] => [x] end.
Definition add_duplication_parent (fuel:nat) (i:id) : M unit :=
  n <- get i ;;
  match n_parent n with
  | None => pc <- alloc (fresh KDup 1 (Some 1) []) ;; tree_add_child fuel pc i
  | Some p =>
    pn <- get p ;;
    if is_dup (n_kind pn) then ret tt else
      pc <- alloc (fresh KDup 1 (Some 1) []) ;;
      match index_of i (n_children pn) with None => raise EValueError | Some ix =>
        tree_remove fuel p i ;;;
        upd p (fun m => w_children (insert_at ix pc (n_children m)) m) ;;;
        upd pc (w_parent (Some p)) ;;;
        tree_add_child fuel pc i ;;;
        pn' <- get p ;;
        if is_choice (n_kind pn') && oid_eqb (n_chosen pn') i then upd p (w_chosen (Some pc)) else ret tt
      end
  end.
Definition duplicate (fuel:nat) (i:id) : M id :=
  n <- get i ;;
  if is_elem (n_kind n) || is_dup (n_kind n) && false then raise ETypeError else
  if negb (unb (n_max n)) then raise EValueError else
  add_duplication_parent fuel i ;;;
  c <- create_empty_copy fuel i ;;
  n' <- get i ;;
  match n_parent n' with None => raise EAttributeNone | Some p =>
    upd c (w_parent (Some p)) ;;; tree_add_child fuel p c ;;; ret c end.
Fixpoint removelast' {A} (l:list A) := match l with [] => [] | [x] => [] | x::t => x :: removelast' t end.
Fixpoint first_some {A B} (f:A -> M (option B)) (l:list A) : M (option B) :=
  match l with [] => ret None | x::t => r <- f x ;; match r with Some b => ret (Some b) | None => first_some f t end end.
Definition duplicate_parent_in_path (fuel:nat) (leaf:id) : M (option id) :=
  p <- rpath fuel leaf ;;
  first_some (fun nd => n <- get nd ;;
     match n_parent n with None => raise EAttributeNone | Some par =>
       pn <- get par ;; if unb (n_max pn) then d <- duplicate fuel par ;; ret (Some d) else ret None end) (removelast' p).
Definition max_is_reached (i:id) : M bool :=
  n <- get i ;;
  if negb (is_elem (n_kind n)) then raise ETypeError else
  match n_max n with None => ret false | Some m =>
    let l := length (n_elems n) in
    if Nat.eqb l m then ret true else if Nat.ltb m l then raise EValueError else ret false end.
Definition set_force_validate (fuel:nat) (self node:id) (val:tri) : M unit :=
  upd self (w_force val) ;;;
  sn <- get self ;;
  iterM (fun child =>
     t <- traverse fuel child ;;
     iterBreak (fun x =>
        n <- get x ;;
        if is_choice (n_kind n) then
          (chs <- mapM get (n_children n) ;;
           (if negb (Nat.eqb (n_min n) 0) && negb (match n_chosen n with Some _ => true | None => false end)
               && existsb (fun c => negb (Nat.eqb (n_min c) 0)) chs
            then upd x (w_req TFalse) else ret tt) ;;; ret true)
        else if is_seq (n_kind n) && Nat.eqb (n_min n) 0 then ret true
        else if is_seq (n_kind n) then
          (match n_parent n with None => raise EAttributeNone | Some p =>
             pn <- get p ;;
             (if negb (is_group (n_kind pn) && Nat.eqb (n_min pn) 0) then upd x (w_force val) else ret tt) ;;; ret false end)
        else ret false) t)
   (filter (fun c => negb (Nat.eqb c node)) (n_children sn)).
(* walk the (cached) path; returns when break *)
Definition update_requirements_in_path (fuel:nat) (leaf:id) : M unit :=
  n <- get leaf ;;
  if negb (is_elem (n_kind n)) then raise EValueError else
  mr <- max_is_reached leaf ;;
  (if mr then upd leaf (w_req TTrue) else ret tt) ;;;
  n <- get leaf ;;
  match n_elems n with [] => ret tt | _ =>
    p <- rpath fuel leaf ;;
    iterBreak (fun nd =>
      m <- get nd ;;
      match n_parent m with None => ret false | Some P =>
        pn <- get P ;;
        if is_choice (n_kind pn) then
          match n_chosen pn with
          | Some c => if Nat.eqb c nd then ret true else raise AnotherChosen
          | None => upd P (w_chosen (Some nd)) ;;;
                    (match n_req pn with TFalse => upd P (w_req TTrue) ;;; ret true | _ => upd P (w_req TTrue) ;;; ret false end)
          end
        else if is_seq (n_kind pn) then
          (if truthy (n_force pn) then ret true else set_force_validate fuel P nd TTrue ;;; ret false)
        else ret false
      end) p
  end.
Definition choices_in_rpath (fuel:nat) (i:id) : M (list id) :=
  p <- rpath fuel i ;; filterM (fun j => m <- get j ;; ret (is_choice (n_kind m))) (tl p).
Definition set_requirements_fulfilled (fuel:nat) (self:id) : M unit :=
  t <- traverse fuel self ;;
  iterM (fun x =>
    n <- get x ;;
    cs <- choices_in_rpath fuel x ;; cns <- mapM get cs ;;
    if is_choice (n_kind n) && (match n_req n with TNone => true | _ => false end)
       && negb (existsb (fun c => match n_req c with TFalse => true | _ => false end) cns) && negb (Nat.eqb (n_min n) 0)
    then
      lv <- iterate_leaves fuel x ;; lns <- mapM get lv ;;
      (if existsb (fun l => match n_elems l with [] => false | _ => true end) lns then upd x (w_req TTrue) else ret tt) ;;;
      n1 <- get x ;;
      (match n_req n1 with TNone =>
         match n_children n1 with [] => ret tt | c::_ => cn <- get c ;; if negb (Nat.eqb (n_min cn) 0) then upd x (w_req TFalse) else ret tt end
       | _ => ret tt end) ;;;
      n2 <- get x ;;
      (match n_req n2 with TNone => upd x (w_req TTrue) | _ => ret tt end)
    else upd x (w_req TTrue)) t.
Fixpoint check_container (fuel:nat) (c:id) : M unit :=
  match fuel with 0 => raise OutOfFuel | S f =>
  n <- get c ;;
  let seq_check (s:id) : M unit :=
    sn <- get s ;;
    (if truthy (n_force sn) then
       iterM (fun ch => cn <- get ch ;;
          if is_elem (n_kind cn) then (if Nat.ltb (length (n_elems cn)) (n_min cn) then upd ch (w_req TFalse) else ret tt)
          else check_container f ch) (n_children sn)
     else ret tt) ;;;
    (if Nat.ltb 0 (n_min sn) then
       iterM (fun ch => cn <- get ch ;;
          if truthy (n_force cn) then check_container f ch
          else if Nat.eqb (n_min cn) 0 then ret tt
          else if Nat.eqb (n_min cn) 1 then
            (if is_elem (n_kind cn) then
               cs <- choices_in_rpath fuel ch ;;
               match cs with _::_ => ret tt | [] =>
                 if Nat.ltb (length (n_elems cn)) (n_min cn) then upd ch (w_req TFalse) else upd ch (w_req TTrue) end
             else check_container f ch)
          else raise ENotImplemented) (n_children sn)
     else ret tt) in
  match n_kind n with
  | KSeq | KDup => seq_check c
  | KGroup _ =>
      match n_children n with [] => raise EIndexError | c0::_ =>
        c0n <- get c0 ;;
        if Nat.eqb (n_min n) 0 && negb (truthy (n_force c0n)) then ret tt else seq_check c0 end
  | KChoice =>
      chosen <- mapM (fun ch => cn <- get ch ;;
          if is_group (n_kind cn) then
            match n_children cn with [] => raise EIndexError | g0::_ =>
              g0n <- get g0 ;; (if truthy (n_force g0n) then check_container f g0 else ret tt) ;;; ret false end
          else if truthy (n_force cn) then check_container f ch ;;; ret false
          else if Nat.eqb (n_min cn) 0 then ret false
          else if Nat.eqb (n_min cn) 1 then
            (if is_elem (n_kind cn) then
               match length (n_elems cn) with 0 => ret false | 1 => ret true | _ => raise ENotImplemented end
             else check_container f ch ;;; ret false)
          else raise ENotImplemented) (n_children n) ;;
      if existsb (fun b => b) chosen then upd c (w_req TTrue) else ret tt
  | KElem _ => raise ENotImplemented
  end end.
Definition check_required_elements (fuel:nat) (self:id) : M bool :=
  n <- get self ;;
  (match n_req n with TNone => set_requirements_fulfilled fuel self | _ => ret tt end) ;;;
  check_container fuel self ;;;
  t <- traverse fuel self ;; ns <- mapM get t ;;
  ret (existsb (fun m => match n_req m with TFalse => true | _ => false end) ns).
(* get_required_element_names, flattened, via actual children recursion *)
Fixpoint leaves_dfs (fuel:nat) (i:id) : M (list id) :=
  match fuel with 0 => raise OutOfFuel | S f =>
    n <- get i ;; if is_elem (n_kind n) then ret [i] else
    match n_kind n with
    | KGroup _ => match n_children n with [] => raise EIndexError | c0::_ => leaves_dfs f c0 end
    | _ => ls <- mapM (leaves_dfs f) (n_children n) ;; ret (concat ls) end end.
Definition sym_of k := match k with KElem s => s | _ => 1%positive end.
Definition required_names_after (fuel:nat) (self:id) : M (list positive) :=
  ls <- leaves_dfs fuel self ;;
  r <- filterM (fun l =>
        n <- get l ;;
        match n_req n with TFalse => ret true | _ =>
          cs <- choices_in_rpath fuel l ;; cns <- mapM get cs ;;
          if negb (Nat.eqb (n_min n) 0) && existsb (fun c => match n_req c with TFalse => true | _ => false end) cns then
            match n_parent n with None => raise EAttributeNone | Some p =>
              pn <- get p ;;
              if is_seq (n_kind pn) && Nat.eqb (n_min pn) 0 && negb (truthy (n_force pn)) then ret false else ret true end
          else ret false end) ls ;;
  ns <- mapM get r ;; ret (map (fun n => sym_of (n_kind n)) ns).
(* select_valid_leaves : returns None (python None), Some [] , Some l *)
Definition select_valid_leaves (fuel:nat) (leaves:list id) : M (option (list id)) :=
  r <- mapM (fun leaf =>
         p <- rpath fuel leaf ;;
         first_some (fun nd => m <- get nd ;;
            match n_parent m with None => ret None | Some P =>
              pn <- get P ;;
              if is_choice (n_kind pn) then
                match n_chosen pn with Some c => ret (Some (P, Nat.eqb c nd)) | None => ret None end
              else ret None end) p) leaves ;;
  let cwcc := fold_left (fun acc x => match x with Some (P,_) => Some P | None => acc end) r None in
  let output := concat (map (fun lx => match snd lx with Some (_,true) => [fst lx] | _ => [] end) (combine leaves r)) in
  match cwcc with
  | None => ret (Some leaves)
  | Some C =>
    match output with
    | _::_ => ret (Some output)
    | [] =>
      cn <- get C ;;
      match n_max cn with
      | Some 1 =>
         match n_parent cn with
         | Some u => un <- get u ;; if is_seq (n_kind un) && unb (n_max un) then ret (Some []) else ret None
         | None => ret None end
      | _ => ret (Some [])
      end
    end
  end.
Definition name_is (s:positive) (i:id) : M bool := n <- get i ;; ret (match n_kind n with KElem t => Pos.eqb s t | _ => false end).
Definition not_full_named (s:positive) (i:id) : M bool := b <- name_is s i ;; if b then m <- max_is_reached i ;; ret (negb m) else ret false.
Definition fix_root_after_dup (self:id) : M unit :=
  n <- get self ;;
  match n_parent n with Some u => if n_pxe n then set_root u else ret tt | None => ret tt end.
Definition attach (e:eid) (s:positive) (leaf:id) : M unit :=
  upd leaf (fun n => w_elems (n_elems n ++ [e]) n) ;;;
  (fun st => (Ok tt, mkStore (nodes st) ((e,leaf) :: el_leaf st) (root st) (unordered st) (out st) (names st) (parented st))).
Definition print_out : M unit := fun st => (Ok tt, mkStore (nodes st) (el_leaf st) (root st) (unordered st) (S (out st)) (names st) (parented st)).
Definition reg_name (e:eid) (s:positive) : M unit := fun st => (Ok tt, mkStore (nodes st) (el_leaf st) (root st) (unordered st) (out st) ((e,s) :: names st) (parented st)).
Fixpoint assocp (e:eid) (l:list (eid*positive)) : positive := match l with [] => 1%positive | (x,i)::t => if Nat.eqb x e then i else assocp e t end.
Definition name_of (e:eid) : M positive := st <- getS ;; ret (assocp e (names st)).
(* add_element; [on_none] is what happens when select_valid_leaves returns python None *)
Definition add_element_gen (on_none : M id) (fuel:nat) (self:id) (e:eid) (s:positive) (forward:option nat) : M id :=
  reset_iterators fuel self ;;;
  n <- get self ;;
  (match n_req n with TNone => _ <- check_required_elements fuel self ;; ret tt | _ => ret tt end) ;;;
  lv <- iterate_leaves fuel self ;;
  same <- filterM (name_is s) lv ;;
  match same with [] => raise WrongElement | _ =>
    sel <- select_valid_leaves fuel same ;;
    match sel with
    | None => on_none
    | Some sel0 =>
      sel1 <- (match sel0 with
               | [] => d <- duplicate_parent_in_path fuel (last same 0) ;;
                       match d with
                       | Some dp => l <- iterate_leaves fuel dp ;; r <- filterM (not_full_named s) l ;; fix_root_after_dup self ;;; ret r
                       | None => raise AnotherChosen end
               | _ => ret sel0 end) ;;
      selected <- (match forward with
        | Some fw =>
            match nth_error same fw with None => raise EIndexError | Some x =>
              if existsb (Nat.eqb x) sel1 then ret x else raise AnotherChosen end
        | None =>
            nf <- filterM (fun l => m <- max_is_reached l ;; ret (negb m)) sel1 ;;
            nf1 <- (match nf with
                    | [] => match sel1 with [] => raise EIndexError | _ =>
                            d <- duplicate_parent_in_path fuel (last sel1 0) ;;
                            match d with
                            | Some dp => l <- iterate_leaves fuel dp ;; r <- filterM (not_full_named s) l ;; fix_root_after_dup self ;;; ret r
                            | None => raise MaxOccurs end end
                    | _ => ret nf end) ;;
            match nf1 with [] => raise EIndexError | x::_ => ret x end
        end) ;;
      attach e s selected ;;; update_requirements_in_path fuel selected ;;; ret selected
    end
  end.
Definition add_element_noic := add_element_gen (raise AnotherChosen).
Definition attached_elements (fuel:nat) (self:id) : M (list eid) :=
  lv <- iterate_leaves fuel self ;; lns <- mapM get lv ;; ret (concat (map n_elems lns)).
(* try/except AnotherChosen around a computation: returns None on that exception *)
Definition try_chosen {A} (m:M A) : M (option A) := fun st => match m st with (Ok a, s1) => (Ok (Some a), s1) | (Err AnotherChosen, s1) => (Ok None, s1) | (Err e, s1) => (Err e, s1) end.
Fixpoint dedup_last (l:list (positive * list nat)) : list (positive * list nat) :=   (* dict semantics: first insertion position, last value *)
  match l with [] => [] | (k,v)::t =>
    let t' := dedup_last t in
    if existsb (fun kv => Pos.eqb (fst kv) k) t' then
      (k, match find (fun kv => Pos.eqb (fst kv) k) (rev t') with Some kv => snd kv | None => v end) :: filter (fun kv => negb (Pos.eqb (fst kv) k)) t'
    else (k,v)::t' end.
Definition check_choices_intelligently (fuel:nat) (self:id) (newel:option (eid*positive)) : M (option id) :=
  (* the debug print that stood here was removed from the code by the fix: commit recorded in known_findings.json *)
  lv <- iterate_leaves fuel self ;; lns <- mapM get lv ;;
  let lvn := combine lv lns in
  let same_next (nm:positive) : list nat :=
      tl (map fst (filter (fun ix => match n_kind (snd (snd ix)) with KElem t => Pos.eqb t nm | _ => false end)
                     (combine (seq 0 (length lvn)) lvn))) in
  (* indices are positions among same-name leaves: 1,2,.. *)
  let same_next_idx (nm:positive) : list nat := seq 1 (length (same_next nm)) in
  let current := filter (fun x => match n_elems (snd x) with [] => false | _ => true end) lvn in
  let opts := concat (map (fun x => match n_kind (snd x) with KElem nm => match same_next_idx nm with [] => [] | l => [(nm,l)] end | _ => [] end) current) in
  match opts with [] => ret None | _ =>
    let sorted_options := dedup_last opts in
    let '(eff_name, fwd) := last sorted_options (1%positive, []) in
    att <- attached_elements fuel self ;;
    att_named <- mapM (fun e => nm <- name_of e ;; ret (e,nm)) att ;;
    let sorted_els := filter (fun en => negb (Pos.eqb (snd en) eff_name)) att_named in
    let eff_els := filter (fun en => Pos.eqb (snd en) eff_name) att_named in
    let attempts := concat (map (fun en => map (fun f => (en,f)) fwd) eff_els) in
    first_some (fun att1 =>
       let '((e,nm),f) := att1 in
       cp <- create_empty_copy fuel self ;;
       _ <- add_element_noic fuel cp e nm (Some f) ;;
       r <- try_chosen (
              iterM (fun en => _ <- add_element_noic fuel cp (fst en) (snd en) None ;; ret tt) sorted_els ;;;
              match newel with
              | Some (ne,ns) => _ <- add_element_noic fuel cp ne ns None ;; ret true
              | None => b <- check_required_elements fuel cp ;; ret (negb b) end) ;;
       match r with Some true => ret (Some cp) | _ => ret None end) attempts
  end.
Definition tree_replace_child (fuel:nat) (p old new:id) : M unit :=
  pn <- get p ;;
  match index_of old (n_children pn) with None => raise EValueError | Some ix =>
    upd p (fun m => w_children (insert_at ix new (remove_first old (n_children m))) m) ;;;
    upd old (w_parent None) ;;; reset_iterators fuel p ;;; upd new (w_parent (Some p)) end.
Definition adopt_copy (fuel:nat) (self cp:id) : M unit :=
  sn <- get self ;; cn <- get cp ;;
  (* zip over self.get_children() (mutated in place, same length positions) and copy's children *)
  iterM (fun ix => s1 <- get self ;; c1 <- get cp ;;
           match nth_error (n_children s1) ix, nth_error (n_children c1) ix with
           | Some o, Some nw => tree_replace_child fuel self o nw
           | _, _ => ret tt end) (seq 0 (Nat.min (length (n_children sn)) (length (n_children cn)))).
Definition add_element (fuel:nat) (self:id) (e:eid) (s:positive) (forward:option nat) : M id :=
  add_element_gen
    (match forward with
     | Some _ => raise AnotherChosen
     | None =>
        c <- check_choices_intelligently fuel self (Some (e,s)) ;;
        match c with
        | None => raise AnotherChosen
        | Some cp =>
            adopt_copy fuel self cp ;;;
            lv <- iterate_leaves fuel cp ;; lns <- mapM get lv ;;
            match filter (fun x => existsb (Nat.eqb e) (n_elems (snd x))) (combine lv lns) with
            | [] => raise EIndexError | x::_ => ret (fst x) end
        end
     end) fuel self e s forward.
Definition check_required_elements_ic (fuel:nat) (self:id) (ic:bool) : M bool :=
  b <- check_required_elements fuel self ;;
  if b && ic then
    sn <- get self ;;
    if is_choice (n_kind sn) then ret b else
    c <- check_choices_intelligently fuel self None ;;
    match c with Some cp => adopt_copy fuel self cp ;;; ret false | None => ret b end
  else ret b.
(* ---------- XMLElement level ---------- *)
Definition FUEL := 2000.
Definition set_parented (f:list eid -> list eid) : M unit :=
  fun st => (Ok tt, mkStore (nodes st) (el_leaf st) (root st) (unordered st) (out st) (names st) (f (parented st))).
Fixpoint remove_first_u (e:eid) (l:list (eid*positive)) := match l with [] => [] | h::t => if Nat.eqb (fst h) e then t else h :: remove_first_u e t end.
Fixpoint replace_first_u (old:eid) (nw:eid*positive) (l:list (eid*positive)) := match l with [] => [] | h::t => if Nat.eqb (fst h) old then nw :: t else h :: replace_first_u old nw t end.
Definition el_add_child (e:eid) (s:positive) (fw:option nat) : M unit :=
  reg_name e s ;;;
  r <- get_root ;; _ <- add_element FUEL r e s fw ;;
  (fun st => (Ok tt, mkStore (nodes st) (el_leaf st) (root st) (unordered st ++ [(e,s)]) (out st) (names st) (parented st))) ;;;
  set_parented (fun l => e :: filter (fun x => negb (Nat.eqb x e)) l).
Fixpoint assoc (e:eid) (l:list (eid*id)) : option id := match l with [] => None | (x,i)::t => if Nat.eqb x e then Some i else assoc e t end.
Definition el_remove (e:eid) : M unit :=
  st <- getS ;;
  if negb (existsb (fun x => Nat.eqb (fst x) e) (unordered st)) then raise EValueError else
  (fun st => (Ok tt, mkStore (nodes st) (el_leaf st) (root st) (remove_first_u e (unordered st)) (out st) (names st) (parented st))) ;;;
  match assoc e (el_leaf st) with None => raise EAttributeNone | Some leaf =>
    ln <- get leaf ;;
    match n_parent ln with None => raise EAttributeNone | Some pc =>
      pn <- get pc ;;
      (if oid_eqb (n_chosen pn) leaf then upd pc (w_chosen None) ;;; upd pc (w_req TFalse) else ret tt) ;;;
      (if existsb (Nat.eqb e) (n_elems ln) then ret tt else raise EValueError) ;;;
      upd leaf (fun n => w_elems (remove_first e (n_elems n)) n) ;;;
      (fun st => (Ok tt, mkStore (nodes st) (filter (fun x => negb (Nat.eqb (fst x) e)) (el_leaf st)) (root st) (unordered st) (out st) (names st) (parented st))) ;;;
      p <- rpath FUEL pc ;;
      iterM (fun nd =>
        m <- get nd ;;
        match n_parent m with None => ret tt | Some u =>
          un <- get u ;;
          if is_dup (n_kind un) && Nat.ltb 1 (length (n_children un)) then
            lv <- iterate_leaves FUEL nd ;; lns <- mapM get lv ;;
            let rd := match lns with [] => false | l0::_ => match n_elems l0 with [] => true | _ => false end end in
            if rd then tree_remove FUEL u nd else ret tt
          else ret tt
        end) p ;;;
      set_parented (filter (fun x => negb (Nat.eqb x e)))
    end
  end.
Definition el_ordered : M (list eid) :=
  r <- get_root ;; lv <- iterate_leaves FUEL r ;; lns <- mapM get lv ;; ret (concat (map n_elems lns)).
Definition el_replace (old new:eid) (s:positive) : M unit :=
  reg_name new s ;;;
  ord <- el_ordered ;;
  if negb (existsb (Nat.eqb old) ord) then raise EValueError else
  st0 <- getS ;;
  (* self._unordered_children.index(old) raises ValueError when old is only in the ordered view *)
  if negb (existsb (fun x => Nat.eqb (fst x) old) (unordered st0)) then raise EValueError else
  (fun st => (Ok tt, mkStore (nodes st) (el_leaf st) (root st) (replace_first_u old (new,s) (unordered st)) (out st) (names st) (parented st))) ;;;
  st <- getS ;;
  match assoc old (el_leaf st) with None => raise EAttributeNone | Some leaf =>
    upd leaf (fun n => w_elems (map (fun x => if Nat.eqb x old then new else x) (n_elems n)) n) ;;;
    (fun st => (Ok tt, mkStore (nodes st) ((new,leaf) :: el_leaf st) (root st) (unordered st) (out st) (names st) (parented st))) ;;;
    (* new._parent = self ; old._parent = None  (in this order: replacing a child by itself orphans it) *)
    set_parented (fun l => filter (fun x => negb (Nat.eqb x old)) (new :: filter (fun x => negb (Nat.eqb x new)) l)) end.
Definition el_verdict (ic:bool) : M (list positive) :=
  r <- get_root ;; _ <- check_required_elements_ic FUEL r ic ;; required_names_after FUEL r.
Definition init (p:particle) : M unit :=
  t <- build FUEL p ;;
  i <- build FUEL p ;; upd i (w_pxe true) ;;; set_root i.
Inductive op := OAdd (s:positive) | OAddFwd (s:positive) (i:nat) | ORemove (k:nat) | OReplace (k:nat) (s:positive) | OReplaceSame (k:nat) | OAddExisting (k:nat) | OReplaceSelf (k:nat) | OFinal (ic:bool).
Record line := mkLine { l_exn : option exn; l_ordered : list eid; l_unordered : list (eid*positive); l_req : option (list positive); l_out : nat; l_orphans : list eid }.
Definition orphans (st:store) : list eid := filter (fun e => negb (existsb (Nat.eqb e) (parented st))) (map fst (unordered st)).
Definition empty_store := mkStore [] [] 0 [] 0 [] [].
Definition catch {A} (m:M A) (st:store) : option exn * store := match m st with (Ok _, s1) => (None, s1) | (Err e, s1) => (Some e, s1) end.
Fixpoint run_ops (ops:list op) (next:eid) (st:store) : list line :=
  match ops with [] => [] | o::t =>
    let o0 := out st in
    let '(r, st') := match o with
      | OAdd s => catch (el_add_child next s None) st
      | OAddFwd s i => catch (el_add_child next s (Some i)) st
      | ORemove k => match nth_error (unordered st) k with None => (None, st) | Some (e,_) => catch (el_remove e) st end
      | OReplace k s => match nth_error (unordered st) k with None => (None, st) | Some (e,_) => catch (el_replace e next s) st end
      | OReplaceSame k => match nth_error (unordered st) k with None => (None, st) | Some (e,s0) => catch (el_replace e next s0) st end
      | OAddExisting k => match nth_error (unordered st) k with None => (None, st) | Some (e,s0) => catch (el_add_child e s0 None) st end
      | OReplaceSelf k => match nth_error (unordered st) k with None => (None, st) | Some (e,s0) => catch (el_replace e e s0) st end
      | OFinal _ => (None, st) end in
    let '(vr, st2) := match o with
      | OFinal ic => match el_verdict ic st' with (Ok v, s2) => (Some (Ok v), s2) | (Err e, s2) => (Some (Err e), s2) end
      | _ => (None, st') end in
    let '(ord, st3) := match el_ordered st2 with (Ok l, s3) => (l, s3) | (Err _, s3) => ([], s3) end in
    let ln := match vr with
              | Some (Ok v) => mkLine r ord (unordered st3) (Some v) (out st3 - o0) (orphans st3)
              | Some (Err e) => mkLine (Some e) ord (unordered st3) None (out st3 - o0) (orphans st3)
              | None => mkLine r ord (unordered st3) None (out st3 - o0) (orphans st3) end in
    ln :: run_ops t (S next) st3
  end.
Definition run (p:particle) (ops:list op) : list line :=
  match init p empty_store with (Ok _, st) => run_ops ops 0 st | (Err e, _) => [mkLine (Some e) [] [] None 0 []] end.
