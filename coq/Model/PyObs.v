(* Observation helpers on runs of the faithful model M_py (Model/PyM.v), used by the refutation witnesses. *)
From MX Require Import Spec.Particle Model.PyM.
Definition dline := mkLine None [] [] None 0 [].
Definition last_line (ls:list line) : line := last ls dline.
Definition ord_names (ln:line) : list positive := map (fun e => assocp e (l_unordered ln)) (l_ordered ln).
Definition outcomes (ls:list line) : list (option exn) := map l_exn ls.
(* the final check passes: no exception and no required names *)
Definition passes (ln:line) : bool := match l_exn ln, l_req ln with None, Some [] => true | _, _ => false end.
Definition refuses (ln:line) : bool := match l_exn ln, l_req ln with None, Some (_ :: _) => true | _, _ => false end.
Definition printed (ls:list line) : bool := existsb (fun ln => negb (Nat.eqb (l_out ln) 0)) ls.
Definition all_outcomes_ok (ls:list line) : bool := forallb (fun ln => match l_exn ln with None => true | _ => false end) ls.
