(* C07 on the sequence machine: every reachable state can be completed - there is a list of further adds, ALL accepted, after
   which the final check passes.  (The completion adds the missing required leaves of every sequence that must be complete.) *)
From MX Require Import Spec.Particle Spec.Deriv Model.AbsSeq Model.AbsSeqC02 Model.SeqMachine.
From Coq Require Import Arith Lia.

Fixpoint wf_s (s:sst) : bool := match s with LeafS _ mn mx _ => match mx with None => true | Some m => Nat.leb mn m end | NodeS _ _ k => forallb wf_s k end.
Lemma wf_s_shape s : wf_s s = wf_t (shape s).
Proof. induction s using sst_ind2; simpl; auto. induction H; simpl; auto. rewrite H, IHForall. auto. Qed.

Definition Completable (x:sst) : Prop := Inv x -> wf_s x = true -> forall act n, exists ext x', addw ext n x = Some x' /\ required act x' = [] /\ incl ext (alpha x).

Lemma leaf_completable b mn mx it : Completable (LeafS b mn mx it).
Proof.
  intros [Hmx Hall] W act n. simpl in W.
  destruct (act && Nat.ltb (length it) mn)%bool eqn:E.
  - apply andb_true_iff in E as [Ea El]. apply Nat.ltb_lt in El.
    exists (repeat b (mn - length it)), (LeafS b mn mx (it ++ map (fun i => (i, b)) (seq n (mn - length it)))). split; [|split].
    + apply addw_leaf. destruct mx as [m|]; simpl in *; auto. apply Nat.leb_le in W. lia.
    + simpl. rewrite app_length, map_length, seq_length. replace (length it + (mn - length it)) with mn by lia. rewrite Nat.ltb_irrefl. rewrite andb_false_r. reflexivity.
    + simpl. intros x Hx. apply repeat_spec in Hx. subst. simpl. auto.
  - exists [], (LeafS b mn mx it). simpl. rewrite E. repeat split; auto. intros x [].
Qed.
Lemma kids_completable k : Forall Completable k -> Forall Inv k -> forallb wf_s k = true -> NoDup (flat_map alpha k) -> forall act n,
  exists ext k', addw_l ext n k = Some k' /\ flat_map (required act) k' = [] /\ incl ext (flat_map alpha k).
Proof.
  induction 1 as [|x k Cx Ck IH]; intros I W ND act n.
  - exists [], []. simpl. repeat split; auto. intros a [].
  - inversion I as [|? ? Ix Ik]; subst. simpl in W. apply andb_true_iff in W as [Wx Wk]. simpl in ND.
    pose proof (NoDup_app_disj _ _ ND) as Dis. pose proof (NoDup_app_r _ _ ND) as ND'.
    destruct (Cx Ix Wx act n) as (e1 & x' & E1 & R1 & In1).
    destruct (addw_ok _ _ _ _ E1 Ix) as [Ix' Sx'].
    destruct (IH Ik Wk ND' act (n + length e1)) as (e2 & k' & E2 & R2 & In2).
    exists (e1 ++ e2), (x' :: k'). split; [|split].
    + rewrite addw_l_app. rewrite addw_l_head; auto.
      rewrite E1. rewrite addw_l_skip.
      * rewrite E2. reflexivity.
      * intros a Ha Hx. rewrite alpha_shape, Sx', <- alpha_shape in Hx. apply (Dis a Hx). apply In2. auto.
    + simpl. rewrite R1, R2. reflexivity.
    + simpl. apply incl_app; [apply incl_appl; auto|apply incl_appr; auto].
Qed.
Lemma all_completable : forall s, NoDup (alpha s) -> Completable s.
Proof.
  induction s using sst_ind2; intros ND.
  - apply leaf_completable.
  - intros I W act n. apply Inv_node in I as [Ia Ik]. simpl in W, ND.
    assert (CK: Forall Completable k).
    { clear -H ND. induction H as [|x k Hx Hk IH]; constructor; simpl in ND.
      - apply Hx. eapply NoDup_app_l; eauto.
      - apply IH. eapply NoDup_app_r; eauto. }
    destruct (act && (negb o || a))%bool eqn:E.
    + destruct (kids_completable k CK Ik W ND true n) as (ext & k' & Ek & Rk & Ink).
      exists ext, (NodeS o (a || negb (Nat.eqb (length ext) 0)) k'). split; [|split].
      * rewrite addw_node. rewrite Ek. reflexivity.
      * cbn [required]. apply andb_true_iff in E as [Ea Eo]. rewrite Ea. simpl.
        replace (negb o || (a || negb (length ext =? 0)))%bool with true; auto.
        symmetry. destruct o; simpl in *; auto. rewrite Eo. reflexivity.
      * simpl. auto.
    + exists [], (NodeS o a k). simpl. split; [reflexivity|split].
      * rewrite E. apply flat_required_false.
      * intros x [].
Qed.
(* C07 on the machine: from EVERY reachable state of EVERY well-formed template with distinct leaf names there is a completion *)
Theorem C07_machine t ops : wf_t t = true -> NoDup (alpha_t t) ->
  exists ext, Forall (fun o => o = MOk) (mouts (mrun t ops) (map MAdd ext)) /\
              verdict_ok (fold_left (fun s o => fst (mstep s o)) (map MAdd ext) (mrun t ops)) = true.
Proof.
  intros W ND. destruct (mrun_inv t ops) as (I & Sh & _).
  assert (NDs: NoDup (alpha (tree (mrun t ops)))) by (rewrite alpha_shape, Sh; auto).
  assert (Ws: wf_s (tree (mrun t ops)) = true) by (rewrite wf_s_shape, Sh; auto).
  destruct (all_completable _ NDs I Ws true (next (mrun t ops))) as (ext & x' & E & R & _).
  exists ext. destruct (mrun_adds ext (mrun t ops) x' E) as (A & _ & D). split; auto.
  unfold verdict_ok. rewrite A, R. reflexivity.
Qed.
