(* C02 with child identities: feeding a word of the language to a fresh element with ids n, n+1, ... leaves the children in the
   schema-ordered view in exactly the order and with exactly the identities supplied (not only the same names). *)
From MX Require Import Spec.Particle Spec.Deriv Model.AbsSeq Model.AbsSeqC02.
From Coq Require Import Arith Lia.

Definition tagged (n:nat) (w:list positive) : list (nat*positive) := combine (seq n (length w)) w.
Lemma tagged_app n u v : tagged n (u ++ v) = tagged n u ++ tagged (n + length u) v.
Proof.
  unfold tagged. revert n. induction u as [|a u IH]; intros n; simpl.
  - rewrite Nat.add_0_r. reflexivity.
  - f_equal. rewrite IH. replace (S n + length u) with (n + S (length u)) by lia. reflexivity.
Qed.
Lemma tagged_repeat b n j : map (fun i => (i, b)) (seq n j) = tagged n (repeat b j).
Proof. unfold tagged. rewrite repeat_length. revert n. induction j; intros n; simpl; auto. f_equal. apply IHj. Qed.
Lemma names_tagged n w : names (tagged n w) = w.
Proof. unfold names, tagged. revert n. induction w as [|a w IH]; intros n; simpl; auto. f_equal. apply IH. Qed.

Definition GoodI (t:stree) : Prop := forall w n, Lang (re_of_s t) w ->
   exists s, addw w n (init t) = Some s /\ required true s = [] /\ ordered s = tagged n w.
Lemma kids_lemma_i k : Forall GoodI k -> NoDup (flat_map alpha_t k) -> forall ws n,
   Forall2 (fun x u => Lang (re_of_s x) u) k ws ->
   exists k', addw_l (concat ws) n (map init k) = Some k' /\ flat_map (required true) k' = [] /\ flat_map ordered k' = tagged n (concat ws).
Proof.
  induction 1 as [|x k Gx Gk IH]; intros ND ws n F; inversion F; subst; simpl.
  - exists []; auto.
  - rename y into u, l' into us.
    destruct (Gx u n H1) as (x'&Ex&Rx&Nx).
    destruct (addw_ok _ _ _ _ Ex (Inv_init x)) as [Ix' Sx']. rewrite shape_init in Sx'.
    simpl in ND. pose proof (NoDup_app_disj _ _ ND) as Dis. pose proof (NoDup_app_r _ _ ND) as ND'.
    destruct (IH ND' us (n + length u) H3) as (k'&Ek&Rk&Nk).
    exists (x'::k'). rewrite addw_l_app.
    rewrite addw_l_head.
    + rewrite Ex. rewrite addw_l_skip.
      * rewrite Ek. simpl. repeat split; auto.
        -- rewrite Rx, Rk; auto.
        -- rewrite tagged_app. congruence.
      * intros a Ha. rewrite alpha_shape, Sx'. intros Hx. apply (Dis a Hx).
        clear -Ha H3. revert Ha. induction H3; simpl; intros Ha; [destruct Ha|].
        apply in_app_or in Ha as [Ha|Ha]; apply in_or_app; [left; eapply lang_alpha; eauto|right; auto].
    + apply Inv_init.
    + rewrite alpha_shape, shape_init. apply lang_alpha; auto.
    + intros a Ha. rewrite alpha_shape, shape_init in Ha. rewrite flat_alpha_init. apply Dis; auto.
Qed.
Theorem C02_seq_ids t : wf_t t = true -> NoDup (alpha_t t) -> GoodI t.
Proof.
  induction t using stree_ind2; intros W ND w n L.
  - simpl in L. destruct L as (j&J1&J2&P). apply pow_sym_inv in P. subst w.
    exists (LeafS s mn mx ([] ++ map (fun i => (i,s)) (seq n j))). split; [|split].
    + apply (addw_leaf s mn mx j n []). simpl; auto.
    + simpl. rewrite map_length, seq_length. destruct (Nat.ltb_spec j mn); auto; lia.
    + simpl. apply tagged_repeat.
  - assert (GK: Forall GoodI k).
    { simpl in W, ND. clear -H W ND. induction H as [|x k Hx Hk IH]; constructor; simpl in *; apply andb_true_iff in W as [W1 W2].
      - apply Hx; auto. eapply NoDup_app_l; eauto.
      - apply IH; auto. eapply NoDup_app_r; eauto. }
    simpl in ND.
    assert (Body: forall u, Lang (fold_right (fun x acc => Cat (re_of_s x) acc) Eps k) u ->
              exists k', addw_l u n (map init k) = Some k' /\ flat_map (required true) k' = [] /\ flat_map ordered k' = tagged n u).
    { intros u Lu. apply lang_body_split in Lu as (ws&->&F). apply kids_lemma_i; auto. }
    cbn [init]. rewrite addw_node. cbn [re_of_s] in L.
    destruct o.
    + destruct L as (j&_&J2&P). simpl in J2. destruct j as [|[|j]]; [| |lia].
      * simpl in P; subst w. simpl. eexists; split; [reflexivity|]. split.
        -- simpl. apply flat_required_false.
        -- change (NodeS true false (map init k)) with (init (SNode true k)). rewrite nonempty_false_ordered; auto. apply nonempty_init.
      * simpl in P. destruct P as (u&v&->&Lu&->). rewrite app_nil_r.
        destruct (Body u Lu) as (k'&E&R&N). rewrite E. eexists; split; [reflexivity|]. split; auto.
        cbn [required]. simpl. destruct (length u =? 0); simpl; auto. apply flat_required_false.
    + destruct (Body w L) as (k'&E&R&N). rewrite E. eexists; split; [reflexivity|]. split; auto.
Qed.
