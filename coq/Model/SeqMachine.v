(* The sequence machine with its insertion-ordered view: the specification machine of every is_seq template under
   add / remove / same-name replace / final check.  State = leaf lists (AbsSeq.sst) + insertion list + id counter. *)
From MX Require Import Spec.Particle Spec.Deriv Model.AbsSeq Model.AbsSeqC02.
From Coq Require Import Arith Permutation.

Record mst := mkM { tree : sst; ins : list (nat * positive); next : nat }.
Inductive mop := MAdd (a:positive) | MRemove (k:nat) | MReplace (k:nat) (a:positive) | MReplaceSame (k:nat) | MFinal.
Inductive mout := MOk | MWrong | MMax | MBadIndex | MOutOfDomain.
Definition renum (c n:nat) (x:nat*positive) : nat*positive := if Nat.eqb (fst x) c then (n, snd x) else x.
Fixpoint subst (c n:nat) (s:sst) : sst :=
  match s with LeafS b mn mx it => LeafS b mn mx (map (renum c n) it) | NodeS o a k => NodeS o a (map (subst c n) k) end.
Definition keep (c:nat) (x:nat*positive) : bool := negb (Nat.eqb (fst x) c).
Definition bump (s:mst) : mst := mkM (tree s) (ins s) (S (next s)).
Definition mstep (s:mst) (o:mop) : mst * mout :=
  match o with
  | MAdd a => match add (next s) a (tree s) with
              | Some t' => (mkM t' (ins s ++ [(next s, a)]) (S (next s)), MOk)
              | None => (bump s, if has_leaf a (tree s) then MMax else MWrong) end
  | MRemove k => match nth_error (ins s) k with
                 | Some (c, _) => (mkM (remove c (tree s)) (filter (keep c) (ins s)) (S (next s)), MOk)
                 | None => (bump s, MBadIndex) end
  | MReplace k a => match nth_error (ins s) k with
                    | Some (c, b) => if Pos.eqb a b then (mkM (subst c (next s) (tree s)) (map (renum c (next s)) (ins s)) (S (next s)), MOk)
                                     else (bump s, MOutOfDomain)
                    | None => (bump s, MBadIndex) end
  | MReplaceSame k => match nth_error (ins s) k with
                    | Some (c, b) => (mkM (subst c (next s) (tree s)) (map (renum c (next s)) (ins s)) (S (next s)), MOk)
                    | None => (bump s, MBadIndex) end
  | MFinal => (bump s, MOk)
  end.
Definition minit (t:stree) : mst := mkM (init t) [] 0.
Definition mrun (t:stree) (ops:list mop) : mst := fold_left (fun s o => fst (mstep s o)) ops (minit t).
Fixpoint mouts (s:mst) (ops:list mop) : list mout := match ops with [] => [] | o :: r => snd (mstep s o) :: mouts (fst (mstep s o)) r end.
Definition verdict_ok (s:mst) : bool := match required true (tree s) with [] => true | _ => false end.

(* ---- ordered view under the three mutations ---- *)
Lemma remove_filter c s : remove c s = remove c s. Proof. reflexivity. Qed.
Lemma ordered_remove c s : ordered (remove c s) = filter (keep c) (ordered s).
Proof.
  induction s using sst_ind2; simpl; auto.
  induction H as [|x k Hx Hk IH]; simpl; auto. rewrite filter_app. rewrite Hx, IH. auto.
Qed.
Lemma ordered_subst c n s : ordered (subst c n s) = map (renum c n) (ordered s).
Proof.
  induction s using sst_ind2; simpl; auto.
  induction H as [|x k Hx Hk IH]; simpl; auto. rewrite map_app. rewrite Hx, IH. auto.
Qed.
Lemma ordered_add c a s : forall s', add c a s = Some s' -> Permutation (ordered s') ((c, a) :: ordered s).
Proof.
  induction s using sst_ind2; intros s' E.
  - simpl in E. destruct (Pos.eqb_spec a s); simpl in E; [|discriminate]. subst.
    destruct (full mx (length it)); simpl in E; [discriminate|]. injection E as <-. simpl.
    apply Permutation_sym. apply Permutation_cons_append.
  - rewrite add_node in E. destruct (add_list c a k) as [k'|] eqn:EL; [|discriminate]. injection E as <-. simpl.
    revert k' EL. induction H as [|x k Hx Hk IH]; intros k' EL; simpl in EL; [discriminate|].
    destruct (add c a x) as [x'|] eqn:EX.
    + injection EL as <-. simpl. specialize (Hx _ eq_refl).
      change ((c, a) :: ordered x ++ flat_map ordered k) with (((c, a) :: ordered x) ++ flat_map ordered k).
      apply Permutation_app_tail. auto.
    + destruct (add_list c a k) as [k2|] eqn:E2; [|discriminate]. injection EL as <-. simpl.
      specialize (IH _ eq_refl).
      apply Permutation_trans with (ordered x ++ (c, a) :: flat_map ordered k).
      * apply Permutation_app_head. auto.
      * apply Permutation_sym. apply Permutation_middle.
Qed.
Lemma Permutation_filter' {A} (f:A -> bool) l1 l2 : Permutation l1 l2 -> Permutation (filter f l1) (filter f l2).
Proof.
  induction 1; simpl; auto.
  - destruct (f x); auto.
  - destruct (f x), (f y); auto. apply perm_swap.
  - eapply Permutation_trans; eauto.
Qed.
Lemma subst_ok c n s : Inv s -> Inv (subst c n s) /\ shape (subst c n s) = shape s /\ nonempty (subst c n s) = nonempty s.
Proof.
  induction s using sst_ind2; intros I.
  - simpl in *. destruct I as [I1 I2]. rewrite map_length. repeat split; auto.
    apply Forall_forall. intros x Hx. apply in_map_iff in Hx as (y & <- & Hy). rewrite Forall_forall in I2.
    unfold renum. destruct (fst y =? c); simpl; auto.
  - apply Inv_node in I as [Ia Ik].
    assert (G: Forall Inv (map (subst c n) k) /\ map shape (map (subst c n) k) = map shape k /\ existsb nonempty (map (subst c n) k) = existsb nonempty k).
    { clear Ia. induction k as [|x k IHk]; simpl; auto. inversion H; inversion Ik; subst.
      destruct (H2 H6) as (A & B & C). destruct (IHk H3 H7) as (A' & B' & C'). repeat split; [constructor; auto|congruence|congruence]. }
    destruct G as (G1 & G2 & G3). cbn [subst]. split; [|split].
    + apply Inv_node. split; auto. simpl. rewrite G3. exact Ia.
    + simpl; congruence.
    + simpl. auto.
Qed.

(* ---- the invariant of every reachable machine state ---- *)
Definition MInv (t:stree) (s:mst) : Prop := Inv (tree s) /\ shape (tree s) = t /\ Permutation (ordered (tree s)) (ins s).
Lemma mstep_inv t s o : MInv t s -> MInv t (fst (mstep s o)).
Proof.
  intros (I & Sh & P). destruct o as [a|k|k a|k|]; simpl.
  - destruct (add (next s) a (tree s)) as [t'|] eqn:E; simpl.
    + destruct (add_ok _ _ _ _ E I) as [I' S']. split; [|split]; simpl; auto; try congruence.
      eapply Permutation_trans; [apply ordered_add; eauto|].
      eapply Permutation_trans; [|apply Permutation_cons_append]. apply perm_skip; auto.
    + split; [|split]; auto.
  - destruct (nth_error (ins s) k) as [[c b]|]; simpl; [|split; [|split]; auto].
    destruct (remove_ok c (tree s) I) as (A & B & _). split; [|split]; simpl; auto; try congruence.
    rewrite ordered_remove. apply Permutation_filter'; auto.
  - destruct (nth_error (ins s) k) as [[c b]|]; simpl; [|split; [|split]; auto].
    destruct (Pos.eqb a b); simpl; [|split; [|split]; auto].
    destruct (subst_ok c (next s) (tree s) I) as (A & B & _). split; [|split]; simpl; auto; try congruence.
    rewrite ordered_subst. apply Permutation_map; auto.
  - destruct (nth_error (ins s) k) as [[c b]|]; simpl; [|split; [|split]; auto].
    destruct (subst_ok c (next s) (tree s) I) as (A & B & _). split; [|split]; simpl; auto; try congruence.
    rewrite ordered_subst. apply Permutation_map; auto.
  - split; [|split]; auto.
Qed.
Theorem mrun_inv t ops : MInv t (mrun t ops).
Proof.
  unfold mrun. assert (G: forall s, MInv t s -> MInv t (fold_left (fun s o => fst (mstep s o)) ops s)).
  { induction ops as [|o ops IH]; intros s H; simpl; auto. apply IH. apply mstep_inv; auto. }
  apply G. repeat split; simpl; [apply Inv_init | apply shape_init |].
  rewrite nonempty_false_ordered; [constructor | apply nonempty_init].
Qed.

(* C01 on the machine: whenever the final check passes, the schema-ordered names are a word of the template's language;
   for EVERY choice-free template and EVERY history of add / remove / same-name replace / final *)
Theorem C01_machine t ops : verdict_ok (mrun t ops) = true -> Lang (re_of_s t) (names (ordered (tree (mrun t ops)))).
Proof.
  intros V. destruct (mrun_inv t ops) as (I & Sh & _). rewrite <- Sh at 1. apply required_sound; auto.
  unfold verdict_ok in V. destruct (required true (tree (mrun t ops))); auto; discriminate.
Qed.
(* C06 on the machine: the schema-ordered view is a permutation of the insertion-ordered view in every reachable state *)
Theorem C06_machine t ops : Permutation (ordered (tree (mrun t ops))) (ins (mrun t ops)).
Proof. destruct (mrun_inv t ops) as (_ & _ & P); exact P. Qed.
(* C10 on the machine: an operation that does not succeed leaves both views (and hence every later behaviour, which is a
   function of them and of nothing else but the id counter) unchanged *)
Theorem C10_machine s o : snd (mstep s o) <> MOk -> tree (fst (mstep s o)) = tree s /\ ins (fst (mstep s o)) = ins s.
Proof.
  destruct o as [a|k|k a|k|]; simpl.
  - destruct (add (next s) a (tree s)); simpl; auto. intros H; exfalso; apply H; auto.
  - destruct (nth_error (ins s) k) as [[c b]|]; simpl; auto. intros H; exfalso; apply H; auto.
  - destruct (nth_error (ins s) k) as [[c b]|]; simpl; auto. destruct (Pos.eqb a b); simpl; auto. intros H; exfalso; apply H; auto.
  - destruct (nth_error (ins s) k) as [[c b]|]; simpl; auto. intros H; exfalso; apply H; auto.
  - intros H; exfalso; apply H; auto.
Qed.
(* the insertion list is the obvious list semantics: adds append, removals delete that id, replacements substitute in place *)
Theorem C06_spec_list s o : ins (fst (mstep s o)) =
  match o, snd (mstep s o) with
  | MAdd a, MOk => ins s ++ [(next s, a)]
  | MRemove k, MOk => match nth_error (ins s) k with Some (c, _) => filter (keep c) (ins s) | None => ins s end
  | MReplace k _, MOk | MReplaceSame k, MOk => match nth_error (ins s) k with Some (c, _) => map (renum c (next s)) (ins s) | None => ins s end
  | _, _ => ins s end.
Proof.
  destruct o as [a|k|k a|k|]; simpl; auto.
  - destruct (add (next s) a (tree s)); simpl; auto. destruct (has_leaf a (tree s)); auto.
  - destruct (nth_error (ins s) k) as [[c b]|]; simpl; auto.
  - destruct (nth_error (ins s) k) as [[c b]|]; simpl; auto. destruct (Pos.eqb a b); simpl; auto.
  - destruct (nth_error (ins s) k) as [[c b]|]; simpl; auto.
Qed.

(* per-operation observables, for the correspondence with the implementation *)
Fixpoint mtrace (s:mst) (ops:list mop) : list (mout * list nat * list nat * list positive) :=
  match ops with [] => [] | o :: r =>
    let s' := fst (mstep s o) in
    (snd (mstep s o), map fst (ordered (tree s')), map fst (ins s'), required true (tree s')) :: mtrace s' r end.

(* feeding a word through the machine = AbsSeqC02.addw on the tree; every add succeeds *)
Lemma mrun_adds w : forall s s', addw w (next s) (tree s) = Some s' ->
  tree (fold_left (fun s o => fst (mstep s o)) (map MAdd w) s) = s' /\
  map snd (ins (fold_left (fun s o => fst (mstep s o)) (map MAdd w) s)) = map snd (ins s) ++ w /\
  Forall (fun o => o = MOk) (mouts s (map MAdd w)).
Proof.
  induction w as [|a w IH]; intros s s' E; simpl in *.
  - injection E as <-. rewrite app_nil_r. auto.
  - destruct (add (next s) a (tree s)) as [t1|] eqn:E1; [|discriminate]. simpl.
    destruct (IH (mkM t1 (ins s ++ [(next s, a)]) (S (next s))) s' E) as (A & B & D). split; [|split]; auto.
    + rewrite B. simpl. rewrite map_app. simpl. rewrite <- app_assoc. auto.
Qed.

(* re-feeding what a passing final check would serialise reproduces it: children in schema order are a word of the language
   (C01_machine), and a word of the language is accepted in order and kept in order (C02_seq_gen) *)
Theorem refeed_stable t ops : wf_t t = true -> NoDup (alpha_t t) -> verdict_ok (mrun t ops) = true ->
  let w := names (ordered (tree (mrun t ops))) in
  names (ordered (tree (mrun t (map MAdd w)))) = w /\ verdict_ok (mrun t (map MAdd w)) = true /\ Forall (fun o => o = MOk) (mouts (minit t) (map MAdd w)).
Proof.
  intros W ND V w. pose proof (C01_machine t ops V) as L. fold w in L.
  destruct (C02_seq_gen t W ND w 0 L) as (s' & E & R & N).
  destruct (mrun_adds w (minit t) s' E) as (A & B & D). unfold mrun. rewrite A. split; [|split]; auto.
  unfold verdict_ok. fold (mrun t (map MAdd w)). unfold mrun. rewrite A, R. reflexivity.
Qed.
