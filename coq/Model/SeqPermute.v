(* C12(a) on the sequence machine: insertion order does not matter.  For every template with distinct leaf names: if one
   insertion order of a collection of children is accepted, every permutation of it is accepted, serialises in the same schema
   order and gets the same final-check verdict. *)
From MX Require Import Spec.Particle Spec.Deriv Spec.Parikh Model.AbsSeq Model.AbsSeqC02 Model.SeqMachine Model.SeqReject Model.SeqRemove.
From Coq Require Import Arith Lia Permutation.

(* states built by additions only: a sequence is marked active exactly when it holds a child *)
Fixpoint tight (s:sst) : Prop :=
  match s with LeafS _ _ _ _ => True
             | NodeS _ a k => a = nonempty s /\ (fix all (l:list sst) : Prop := match l with [] => True | x :: t => tight x /\ all t end) k end.
Definition tightL := (fix all (l:list sst) : Prop := match l with [] => True | x :: t => tight x /\ all t end).
Lemma tightL_Forall k : tightL k <-> Forall tight k.
Proof. induction k as [|x k IH]; simpl; split; intros H; auto. - destruct H; constructor; tauto. - inversion H; subst; tauto. Qed.
Lemma tight_node o a k : tight (NodeS o a k) <-> (a = nonempty (NodeS o a k) /\ Forall tight k).
Proof. change (tight (NodeS o a k)) with (a = nonempty (NodeS o a k) /\ tightL k). rewrite tightL_Forall. tauto. Qed.
Lemma tight_init t : tight (init t).
Proof.
  induction t using stree_ind2; simpl; auto. split.
  - symmetry. change (nonempty (init (SNode o k)) = false). apply nonempty_init.
  - induction H; simpl; auto.
Qed.
Lemma add_nonempty c a s s' : add c a s = Some s' -> nonempty s' = true.
Proof.
  revert s'. induction s using sst_ind2; intros s' E.
  - simpl in E. destruct (Pos.eqb a s && negb (full mx (length it)))%bool; [|discriminate]. injection E as <-. simpl. rewrite app_length. simpl. destruct (length it + 1) eqn:L; [lia|auto].
  - rewrite add_node in E. destruct (add_list c a k) as [k'|] eqn:EL; [|discriminate]. injection E as <-. simpl.
    revert k' EL. induction H as [|x k Hx Hk IH]; intros k' EL; simpl in EL; [discriminate|].
    destruct (add c a x) as [x'|] eqn:Ex.
    + injection EL as <-. simpl. rewrite (Hx _ eq_refl). auto.
    + destruct (add_list c a k) as [k2|]; [|discriminate]. injection EL as <-. simpl. rewrite (IH _ eq_refl). apply orb_true_r.
Qed.
Lemma add_tight c a s s' : add c a s = Some s' -> tight s -> tight s'.
Proof.
  revert s'. induction s using sst_ind2; intros s' E T.
  - simpl in E. destruct (Pos.eqb a s && negb (full mx (length it)))%bool; [|discriminate]. injection E as <-. simpl. auto.
  - pose proof (add_nonempty _ _ _ _ E) as NE. rewrite add_node in E. destruct (add_list c a k) as [k'|] eqn:EL; [|discriminate]. injection E as <-.
    apply tight_node in T as [_ Tk]. apply tight_node. split; [symmetry; exact NE|].
    clear NE. revert k' EL. induction H as [|x k Hx Hk IH]; intros k' EL; simpl in EL; [discriminate|]. inversion Tk; subst.
    destruct (add c a x) as [x'|] eqn:Ex.
    + injection EL as <-. constructor; auto.
    + destruct (add_list c a k) as [k2|]; [|discriminate]. injection EL as <-. constructor; auto.
Qed.
Lemma addw_tight w : forall n s s', addw w n s = Some s' -> tight s -> tight s'.
Proof. induction w as [|a w IH]; intros n s s' E T; simpl in E; [injection E as <-; auto|]. destruct (add n a s) eqn:Ea; [|discriminate]. eapply IH; eauto. eapply add_tight; eauto. Qed.

(* for tight states the verdict is a function of the erased state *)
Fixpoint e_nonempty (e:shp) : bool := match e with ELeaf _ _ _ n => negb (Nat.eqb n 0) | ENode k => existsb e_nonempty k end.
Lemma nonempty_erase s : nonempty s = e_nonempty (erase s).
Proof. induction s using sst_ind2; simpl; auto. induction H; simpl; auto. rewrite H, IHForall. auto. Qed.
(* the optional flags are part of the template (shape), not of the erased state: compare two states of the same shape *)
Lemma required_tight : forall s1 s2 act, shape s1 = shape s2 -> erase s1 = erase s2 -> tight s1 -> tight s2 -> required act s1 = required act s2.
Proof.
  fix IH 1. intros [b mn mx it|o a k] [b' mn' mx' it'|o' a' k'] act Sh E T1 T2; simpl in Sh, E; try discriminate.
  - injection E as -> -> -> L. simpl. rewrite L. reflexivity.
  - injection Sh as -> Sh. injection E as E. apply tight_node in T1 as [A1 T1]. apply tight_node in T2 as [A2 T2].
    assert (AA: a = a').
    { rewrite A1, A2. rewrite !nonempty_erase. simpl. rewrite E. reflexivity. }
    subst a'. cbn [required]. generalize (act && (negb o' || a))%bool as act'. intros act'.
    clear A1 A2. revert k' Sh E T2. induction k as [|x k IHk]; intros [|y k'] Sh E T2; simpl in *; try discriminate; auto.
    injection Sh as S1 S2. injection E as E1 E2. inversion T1; inversion T2; subst. f_equal; [apply IH; auto|apply IHk; auto].
Qed.

Theorem C12a_machine t w1 w2 s1 : NoDup (alpha_t t) -> Permutation w1 w2 -> addw w1 0 (init t) = Some s1 ->
  exists s2, addw w2 0 (init t) = Some s2 /\ erase s2 = erase s1 /\ names (ordered s2) = names (ordered s1) /\ required true s2 = required true s1.
Proof.
  intros ND P E1.
  destruct (addw_ok _ _ _ _ E1 (Inv_init t)) as [I1 Sh1]. rewrite shape_init in Sh1.
  (* how many children of each name s1 holds *)
  destruct (rebuild s1 I1 w1 (init t) 0 (Inv_init t)) as (s1' & A1 & _ & _ & C1).
  { rewrite shape_init. auto. }
  { intros a. rewrite names_init_empty. simpl.
    (* the a's of w1 all sit in s1: each accepted add puts one child of that name *)
    clear -E1. assert (G: forall w n s s', addw w n s = Some s' -> Inv s -> count a (names (ordered s')) = count a (names (ordered s)) + count a w).
    { induction w as [|b w IH]; intros n s s' E I; simpl in E; [injection E as <-; simpl; lia|].
      destruct (add n b s) as [s0|] eqn:Eb; [|discriminate]. destruct (add_ok _ _ _ _ Eb I) as [I0 _]. rewrite (IH _ _ _ E I0).
      pose proof (ordered_add n b s s0 Eb) as Pm. apply (Permutation_map snd) in Pm. apply (Permutation_count a) in Pm. unfold names. rewrite Pm. simpl. lia. }
    rewrite (G _ _ _ _ E1 (Inv_init t)). rewrite names_init_empty. lia. }
  rewrite E1 in A1. injection A1 as <-.
  destruct (rebuild s1 I1 w2 (init t) 0 (Inv_init t)) as (s2 & A2 & I2 & Sh2 & C2).
  { rewrite shape_init. auto. }
  { intros a. rewrite names_init_empty. rewrite C1, names_init_empty. rewrite (Permutation_count a _ _ P). lia. }
  exists s2. split; auto.
  assert (EE: erase s2 = erase s1).
  { apply counts_determine.
    - apply erase_frame. congruence.
    - rewrite e_alpha_erase, alpha_shape, Sh2, Sh1. auto.
    - intros a. rewrite <- !names_erase by auto. rewrite C2, C1. rewrite (Permutation_count a _ _ P). reflexivity. }
  split; auto. split.
  - rewrite !names_erase by auto. rewrite EE. reflexivity.
  - apply required_tight.
    + exact Sh2.
    + exact EE.
    + eapply addw_tight; [exact A2|apply tight_init].
    + eapply addw_tight; [exact E1|apply tight_init].
Qed.
