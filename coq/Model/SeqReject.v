(* C12(b) on the sequence machine: a child is rejected only when it cannot be arranged with the children already present:
   if no same-named leaf has room, the number of such children present is already the maximum any word of the content model
   contains, so no word dominates "children + the new one". *)
From MX Require Import Spec.Particle Spec.Deriv Spec.Parikh Model.AbsSeq Model.AbsSeqC02 Model.SeqMachine.
From Coq Require Import Arith Lia.

Lemma add_list_none_all c a k : add_list c a k = None -> Forall (fun x => add c a x = None) k.
Proof.
  induction k as [|x k IH]; simpl; intros H; constructor.
  - destruct (add c a x); [discriminate|auto].
  - apply IH. destruct (add c a x); [discriminate|]. destruct (add_list c a k); [discriminate|auto].
Qed.
Lemma count_repeat a b k : count a (repeat b k) = if Pos.eqb a b then k else 0.
Proof. induction k; simpl; [destruct (Pos.eqb a b); auto|]. rewrite IHk. destruct (Pos.eqb a b); lia. Qed.
Lemma count_concat a ws : count a (concat ws) = fold_right (fun w acc => count a w + acc) 0 ws.
Proof. induction ws; simpl; auto. rewrite count_app, IHws. auto. Qed.
Lemma count_names_flat a k : count a (names (flat_map ordered k)) = fold_right (fun x acc => count a (names (ordered x)) + acc) 0 k.
Proof. induction k; simpl; auto. unfold names in *. rewrite map_app, count_app, IHk. auto. Qed.
Lemma count_names_all a b it : Forall (fun x : nat * positive => snd x = b) it -> count a (names it) = if Pos.eqb a b then length it else 0.
Proof. intros H. rewrite (names_all b it H). apply count_repeat. Qed.

(* when no leaf can take another a, the a's present are as many as ANY word of the language can contain *)
Lemma saturated s : forall c nm, add c nm s = None -> Inv s -> forall w, Lang (re_of_s (shape s)) w -> count nm w <= count nm (names (ordered s)).
Proof.
  induction s using sst_ind2; intros c nm E I w L.
  - simpl in E, I, L. destruct I as [Imx Iall]. destruct L as (k & K1 & K2 & P). apply pow_sym_inv in P. subst w.
    rewrite count_repeat. simpl. rewrite (count_names_all nm s it Iall).
    destruct (Pos.eqb_spec nm s); [|lia]. subst. simpl in E.
    destruct mx as [m|]; simpl in *; [|discriminate].
    destruct (Nat.leb_spec m (length it)); simpl in E; [|discriminate]. lia.
  - rewrite add_node in E. destruct (add_list c nm k) eqn:EL; [discriminate|]. apply add_list_none_all in EL.
    apply Inv_node in I as [_ Ik]. cbn [shape re_of_s] in L. cbn [ordered]. rewrite count_names_flat.
    assert (Body: forall u, Lang (fold_right (fun x acc => Cat (re_of_s x) acc) Eps (map shape k)) u ->
                   count nm u <= fold_right (fun x acc => count nm (names (ordered x)) + acc) 0 k).
    { intros u Lu. apply lang_body_split in Lu as (ws & -> & F). rewrite count_concat.
      clear -H EL Ik F. revert ws F. induction k as [|x k IHk]; intros ws F.
      - inversion F; subst. simpl. auto.
      - inversion F as [|? y ? l' Ly Ll]; subst. inversion H as [|? ? Hx Hk]; inversion EL as [|? ? Ex Ek]; inversion Ik as [|? ? Ix Ik']; subst.
        simpl. assert (count nm y <= count nm (names (ordered x))) by (eapply Hx; eauto).
        specialize (IHk Hk Ek Ik' _ Ll). lia. }
    destruct o.
    + destruct L as (j & _ & J2 & P). simpl in J2. destruct j as [|[|j]]; [| |lia].
      * simpl in P. subst. simpl. lia.
      * simpl in P. destruct P as (u & v & -> & Lu & ->). rewrite app_nil_r. apply Body; auto.
    + apply Body; auto.
Qed.
(* C12(b): whenever the machine rejects a child, NO word of the content model contains the children present plus that child *)
Theorem C12b_machine s a : Inv (tree s) -> snd (mstep s (MAdd a)) <> MOk ->
  ~ Alive (re_of_s (shape (tree s))) (names (ordered (tree s)) ++ [a]).
Proof.
  intros I R (w & L & Dom). simpl in R. destruct (add (next s) a (tree s)) eqn:E; [exfalso; apply R; reflexivity|].
  pose proof (saturated _ _ _ E I w L) as B. specialize (Dom a). rewrite count_app in Dom. simpl in Dom. rewrite Pos.eqb_refl in Dom. lia.
Qed.
Theorem C12b_reachable t ops a : snd (mstep (mrun t ops) (MAdd a)) <> MOk ->
  ~ Alive (re_of_s t) (names (ordered (tree (mrun t ops))) ++ [a]).
Proof. intros R. destruct (mrun_inv t ops) as (I & Sh & _). rewrite <- Sh at 1. apply C12b_machine; auto. Qed.
