(* C11 on the sequence machine, for templates without optional nested sequences (46 of today's types): after a removal the
   machine is in the state - forgetting child ids and the (unobservable, since nothing is optional) activation marks - that a
   fresh element reaches when the remaining children are added in their insertion order; hence identical children view,
   identical final-check verdict and identical acceptance of every further child. *)
From MX Require Import Spec.Particle Spec.Deriv Spec.Parikh Model.AbsSeq Model.AbsSeqC02 Model.SeqMachine Model.SeqReject.
From Coq Require Import Arith Lia Permutation.

(* what is observable of a tree when nothing is optional: per leaf, how many children it holds *)
Inductive shp := ELeaf (b:positive) (mn:nat) (mx:option nat) (n:nat) | ENode (kids:list shp).
Fixpoint erase (s:sst) : shp := match s with LeafS b mn mx it => ELeaf b mn mx (length it) | NodeS _ _ k => ENode (map erase k) end.
Fixpoint no_opt_s (s:sst) : bool := match s with LeafS _ _ _ _ => true | NodeS o _ k => negb o && forallb no_opt_s k end.

(* ---- the three observables are functions of the erased state ---- *)
Fixpoint e_names (e:shp) : list positive := match e with ELeaf b _ _ n => repeat b n | ENode k => flat_map e_names k end.
Fixpoint e_required (e:shp) : list positive := match e with ELeaf b mn _ n => if Nat.ltb n mn then [b] else [] | ENode k => flat_map e_required k end.
Fixpoint e_add (a:positive) (e:shp) : option shp :=
  match e with
  | ELeaf b mn mx n => if Pos.eqb a b && negb (full mx n) then Some (ELeaf b mn mx (S n)) else None
  | ENode k => match (fix go (l:list shp) : option (list shp) := match l with [] => None | x :: t => match e_add a x with Some x' => Some (x' :: t) | None => option_map (cons x) (go t) end end) k with
               | Some k' => Some (ENode k') | None => None end
  end.
Fixpoint e_add_list (a:positive) (l:list shp) : option (list shp) :=
  match l with [] => None | x :: t => match e_add a x with Some x' => Some (x' :: t) | None => option_map (cons x) (e_add_list a t) end end.
Lemma e_add_node a k : e_add a (ENode k) = match e_add_list a k with Some k' => Some (ENode k') | None => None end.
Proof. simpl. assert (E: forall l, (fix go (l:list shp) : option (list shp) := match l with [] => None | x :: t => match e_add a x with Some x' => Some (x' :: t) | None => option_map (cons x) (go t) end end) l = e_add_list a l) by (induction l; simpl; auto; rewrite IHl; auto). rewrite E. auto. Qed.

Lemma names_erase s : Inv s -> names (ordered s) = e_names (erase s).
Proof.
  induction s using sst_ind2; intros I.
  - simpl in *. destruct I as [_ I]. apply names_all; auto.
  - apply Inv_node in I as [_ Ik]. simpl. unfold names. rewrite flat_map_concat_map, concat_map, map_map.
    rewrite flat_map_concat_map, map_map. f_equal. induction H; simpl; auto. inversion Ik; subst. f_equal; auto.
Qed.
Lemma required_erase s : no_opt_s s = true -> required true s = e_required (erase s).
Proof.
  induction s using sst_ind2; intros N; simpl in *; auto.
  apply andb_true_iff in N as [No Nk]. apply negb_true_iff in No. subst. simpl.
  rewrite flat_map_concat_map. rewrite flat_map_concat_map, map_map. f_equal.
  induction H; simpl in *; auto. apply andb_true_iff in Nk as [N1 N2]. f_equal; auto.
Qed.
Lemma add_erase c a s : option_map erase (add c a s) = e_add a (erase s).
Proof.
  induction s using sst_ind2.
  - simpl. destruct (Pos.eqb a s && negb (full mx (length it)))%bool; simpl; auto. rewrite app_length. simpl. rewrite Nat.add_1_r. auto.
  - rewrite add_node. cbn [erase]. rewrite e_add_node.
    assert (L: option_map (map erase) (add_list c a k) = e_add_list a (map erase k)).
    { induction H as [|x k Hx Hk IH]; simpl; auto.
      destruct (add c a x) as [x'|] eqn:E; simpl in Hx.
      - rewrite <- Hx. simpl. reflexivity.
      - rewrite <- Hx. rewrite <- IH. destruct (add_list c a k); simpl; auto. }
    destruct (add_list c a k) as [k'|]; simpl in *; rewrite <- L; auto.
Qed.
Lemma no_opt_add c a s s' : add c a s = Some s' -> no_opt_s s = true -> no_opt_s s' = true.
Proof.
  revert s'. induction s using sst_ind2; intros s' E N.
  - simpl in E. destruct (Pos.eqb a s && negb (full mx (length it)))%bool; [|discriminate]. injection E as <-. auto.
  - rewrite add_node in E. destruct (add_list c a k) as [k'|] eqn:EL; [|discriminate]. injection E as <-. simpl in *.
    apply andb_true_iff in N as [No Nk]. rewrite No. simpl.
    revert k' EL. induction H as [|x k Hx Hk IH]; intros k' EL; simpl in *; [discriminate|].
    apply andb_true_iff in Nk as [N1 N2]. destruct (add c a x) as [x'|] eqn:E.
    + injection EL as <-. simpl. rewrite (Hx _ eq_refl N1), N2. auto.
    + destruct (add_list c a k) as [k2|]; [|discriminate]. injection EL as <-. simpl. rewrite N1. rewrite (IH N2 _ eq_refl). auto.
Qed.

(* ---- with distinct leaf names the erased state is determined by how many children of each name there are ---- *)
Fixpoint e_alpha (e:shp) : list positive := match e with ELeaf b _ _ _ => [b] | ENode k => flat_map e_alpha k end.
Fixpoint e_same_frame (e1 e2:shp) : Prop :=
  match e1, e2 with
  | ELeaf b mn mx _, ELeaf b' mn' mx' _ => b = b' /\ mn = mn' /\ mx = mx'
  | ENode k1, ENode k2 => (fix all2 (l1 l2:list shp) : Prop := match l1, l2 with [], [] => True | x :: t, y :: u => e_same_frame x y /\ all2 t u | _, _ => False end) k1 k2
  | _, _ => False end.
Lemma count_e_names_notin_ : forall e a, ~ In a (e_alpha e) -> count a (e_names e) = 0.
Proof.
  fix IH 1. intros [b mn mx n|k] a N; simpl in *.
  - rewrite count_repeat. destruct (Pos.eqb_spec a b); auto. subst. exfalso; auto.
  - induction k as [|x k IHk]; simpl in *; auto. rewrite count_app. rewrite in_app_iff in N. rewrite (IH x a) by tauto. rewrite IHk by tauto. auto.
Qed.
Lemma count_e_names_notin a e : ~ In a (e_alpha e) -> count a (e_names e) = 0.
Proof. apply count_e_names_notin_. Qed.
Lemma frame_alpha : forall e1 e2, e_same_frame e1 e2 -> e_alpha e1 = e_alpha e2.
Proof.
  fix IH 1. intros [b mn mx n|k1] [b' mn' mx' n'|k2] F; simpl in *; try contradiction.
  - destruct F as (-> & _). auto.
  - revert k2 F. induction k1 as [|x k1 IHk]; intros [|y k2] F; simpl in *; try contradiction; auto.
    destruct F as [F1 F2]. rewrite (IH x y F1). rewrite (IHk k2 F2). auto.
Qed.
Lemma counts_determine : forall e1 e2, e_same_frame e1 e2 -> NoDup (e_alpha e1) ->
  (forall a, count a (e_names e1) = count a (e_names e2)) -> e1 = e2.
Proof.
  fix IH 1. intros [b mn mx n|k1] [b' mn' mx' n'|k2] F ND C; simpl in *; try contradiction.
  - destruct F as (-> & -> & ->). specialize (C b'). rewrite !count_repeat, Pos.eqb_refl in C. subst. auto.
  - f_equal. revert k2 F ND C. induction k1 as [|x k1 IHk]; intros [|y k2] F ND C; simpl in *; try contradiction; auto.
    destruct F as [F1 F2].
    pose proof (NoDup_app_disj _ _ ND) as Dis. pose proof (NoDup_app_l _ _ ND) as NDx. pose proof (NoDup_app_r _ _ ND) as NDk.
    assert (Ax: e_alpha x = e_alpha y) by (apply frame_alpha; auto).
    assert (Ak: flat_map e_alpha k1 = flat_map e_alpha k2).
    { clear -F2 IH. revert k2 F2. induction k1 as [|u k1 IHk]; intros [|v k2] F; simpl in *; try contradiction; auto. destruct F as [F1 F2]. rewrite (frame_alpha u v F1), (IHk k2 F2). auto. }
    assert (Cx: forall a, count a (e_names x) = count a (e_names y)).
    { intros a. specialize (C a). rewrite !count_app in C. destruct (in_dec Pos.eq_dec a (e_alpha x)) as [I|NI].
      - assert (N1: count a (flat_map e_names k1) = 0) by (apply (count_e_names_notin a (ENode k1)); simpl; apply Dis; auto).
        assert (N2: count a (flat_map e_names k2) = 0) by (apply (count_e_names_notin a (ENode k2)); simpl; rewrite <- Ak; apply Dis; auto). lia.
      - rewrite (count_e_names_notin a x NI). rewrite Ax in NI. rewrite (count_e_names_notin a y NI). auto. }
    assert (Ck: forall a, count a (flat_map e_names k1) = count a (flat_map e_names k2)).
    { intros a. specialize (C a). rewrite !count_app in C. rewrite (Cx a) in C. lia. }
    f_equal; [apply IH; auto | apply IHk; auto].
Qed.

Lemma e_alpha_erase s : e_alpha (erase s) = alpha s.
Proof. induction s using sst_ind2; simpl; auto. rewrite flat_map_concat_map, map_map. rewrite flat_map_concat_map. f_equal. induction H; simpl; auto. f_equal; auto. Qed.
Lemma erase_frame : forall s1 s2, shape s1 = shape s2 -> e_same_frame (erase s1) (erase s2).
Proof.
  fix IH 1. intros [b mn mx it|o a k] [b' mn' mx' it'|o' a' k'] E; simpl in *; try discriminate.
  - injection E as -> -> ->. auto.
  - injection E as _ E. revert k' E. induction k as [|x k IHk]; intros [|y k'] E; simpl in *; try discriminate; auto.
    injection E as E1 E2. split; [apply IH; auto|apply IHk; auto].
Qed.
Lemma Permutation_count a (l1 l2:list positive) : Permutation l1 l2 -> count a l1 = count a l2.
Proof. induction 1; simpl; auto; lia. Qed.
(* if a cannot be added, no valid state of the same shape holds more a's *)
Lemma add_none_max : forall s0 c a, add c a s0 = None -> Inv s0 -> forall s1, shape s1 = shape s0 -> Inv s1 ->
  count a (names (ordered s1)) <= count a (names (ordered s0)).
Proof.
  fix IH 1. intros [b mn mx it|o act k] c a E I [b' mn' mx' it'|o' act' k'] Sh I1; simpl in Sh; try discriminate.
  - injection Sh as -> -> ->. simpl in *. destruct I as [Imx Iall]. destruct I1 as [Imx1 Iall1].
    rewrite (count_names_all a b it Iall), (count_names_all a b it' Iall1). destruct (Pos.eqb_spec a b); [|lia]. subst. simpl in E.
    destruct mx as [m|]; simpl in *; [|discriminate]. destruct (Nat.leb_spec m (length it)); simpl in E; [|discriminate]. lia.
  - injection Sh as _ Sh. rewrite add_node in E. destruct (add_list c a k) eqn:EL; [discriminate|]. apply add_list_none_all in EL.
    apply Inv_node in I as [_ Ik]. apply Inv_node in I1 as [_ Ik1]. cbn [ordered]. rewrite !count_names_flat.
    clear E. revert k' Sh Ik1. induction k as [|x k IHk]; intros [|y k'] Sh Ik1; simpl in *; try discriminate; auto.
    injection Sh as S1 S2. inversion EL as [|? ? Ex Ek]; inversion Ik as [|? ? Ix Ik']; inversion Ik1 as [|? ? Iy Ik1']; subst.
    pose proof (IH x c a Ex Ix y S1 Iy). specialize (IHk Ek Ik' k' S2 Ik1'). lia.
Qed.
Lemma rebuild s1 : Inv s1 -> forall w s0 n, Inv s0 -> shape s0 = shape s1 ->
  (forall a, count a (names (ordered s0)) + count a w <= count a (names (ordered s1))) ->
  exists s2, addw w n s0 = Some s2 /\ Inv s2 /\ shape s2 = shape s1 /\ forall a, count a (names (ordered s2)) = count a (names (ordered s0)) + count a w.
Proof.
  intros I1. induction w as [|b w IH]; intros s0 n I0 Sh B.
  - exists s0. simpl. repeat split; auto.
  - simpl. destruct (add n b s0) as [s0'|] eqn:E.
    + destruct (add_ok _ _ _ _ E I0) as [I0' Sh'].
      assert (C: forall a, count a (names (ordered s0')) = (if Pos.eqb a b then 1 else 0) + count a (names (ordered s0))).
      { intros a. pose proof (ordered_add n b s0 s0' E) as P. apply (Permutation_map snd) in P. apply (Permutation_count a) in P. simpl in P. exact P. }
      destruct (IH s0' (S n) I0') as (s2 & A & I2 & S2 & C2).
      * congruence.
      * intros a. rewrite C. specialize (B a). simpl in B. lia.
      * exists s2. repeat split; auto. intros a. rewrite C2, C. simpl. lia.
    + exfalso. pose proof (add_none_max s0 n b E I0 s1 (eq_sym Sh) I1) as M. specialize (B b). simpl in B. rewrite Pos.eqb_refl in B. lia.
Qed.
Lemma names_init_empty t a : count a (names (ordered (init t))) = 0.
Proof. rewrite nonempty_false_ordered by apply nonempty_init. reflexivity. Qed.

(* C11 on the machine: a removal, then anything, behaves as a fresh element to which the remaining children were added in their
   insertion order - for EVERY template without optional nested sequence and with distinct leaf names, EVERY history, EVERY child *)
(* the children view and the acceptance of every further child: for EVERY template with distinct leaf names (optional nested sequences included) *)
Theorem C11_machine_all t ops k c b : NoDup (alpha_t t) -> nth_error (ins (mrun t ops)) k = Some (c, b) ->
  let s1 := fst (mstep (mrun t ops) (MRemove k)) in
  let w := map snd (ins s1) in
  exists s2, addw w 0 (init t) = Some s2                          (* every remaining child is accepted again, in insertion order *)
    /\ erase s2 = erase (tree s1)                                   (* and the fresh element is in the same state up to child ids *)
    /\ names (ordered s2) = names (ordered (tree s1))               (* same children in schema order *)
    /\ (forall a n n', option_map erase (add n a s2) = option_map erase (add n' a (tree s1))).   (* same acceptance of every further child *)
Proof.
  intros ND E s1 w.
  assert (MI: MInv t s1) by (apply mstep_inv; apply mrun_inv). destruct MI as (I1 & Sh1 & P1).
  assert (HC: forall a, count a w = count a (names (ordered (tree s1)))).
  { intros a. unfold w, names. symmetry. apply Permutation_count. apply Permutation_map. exact P1. }
  destruct (rebuild (tree s1) I1 w (init t) 0 (Inv_init t)) as (s2 & A & I2 & S2 & C2).
  - rewrite shape_init. auto.
  - intros a. rewrite names_init_empty, HC. simpl. lia.
  - exists s2. split; auto.
    assert (EE: erase s2 = erase (tree s1)).
    { apply counts_determine.
      - apply erase_frame. congruence.
      - rewrite e_alpha_erase, alpha_shape, S2, Sh1. auto.
      - intros a. rewrite <- !names_erase by auto. rewrite C2, names_init_empty, HC. reflexivity. }
    split; auto. split.
    + rewrite !names_erase by auto. rewrite EE. reflexivity.
    + intros a n n'. rewrite !add_erase. rewrite EE. reflexivity.
Qed.
Theorem C11_machine t ops k c b : no_opt_s (init t) = true -> NoDup (alpha_t t) -> nth_error (ins (mrun t ops)) k = Some (c, b) ->
  let s1 := fst (mstep (mrun t ops) (MRemove k)) in
  let w := map snd (ins s1) in
  exists s2, addw w 0 (init t) = Some s2
    /\ erase s2 = erase (tree s1)
    /\ names (ordered s2) = names (ordered (tree s1))
    /\ (forall a n n', option_map erase (add n a s2) = option_map erase (add n' a (tree s1))).
Proof. intros _. apply C11_machine_all. Qed.
(* and the final-check verdict is the same (nothing is optional, so the verdict only depends on the erased state) *)
Theorem C11_machine_verdict s2 s1 : no_opt_s s2 = true -> no_opt_s s1 = true -> erase s2 = erase s1 -> required true s2 = required true s1.
Proof. intros N2 N1 E. rewrite !required_erase by auto. rewrite E. reflexivity. Qed.
Fixpoint has_opt_t (t:stree) : bool := match t with SLeaf _ _ _ => false | SNode o k => o || existsb has_opt_t k end.
Lemma no_opt_init t : has_opt_t t = false -> no_opt_s (init t) = true.
Proof.
  induction t using stree_ind2; simpl; auto. intros E. apply orb_false_iff in E as [-> E]. simpl.
  induction H; simpl in *; auto. apply orb_false_iff in E as [E1 E2]. rewrite H by auto. simpl. auto.
Qed.

(* ---- the verdict after a removal is never MORE permissive than that of the fresh element with the remaining children ---- *)
(* in a state reached by adds only, a sequence is marked active exactly when it holds something *)
Fixpoint Exact (s:sst) : Prop :=
  match s with LeafS _ _ _ _ => True
             | NodeS o a k => (a = true -> nonempty s = true) /\ (fix all (l:list sst) : Prop := match l with [] => True | x :: t => Exact x /\ all t end) k end.
Lemma Exact_node o a k : Exact (NodeS o a k) <-> ((a = true -> nonempty (NodeS o a k) = true) /\ Forall Exact k).
Proof.
  simpl. assert (E: forall l, (fix all (l:list sst) : Prop := match l with [] => True | x :: t => Exact x /\ all t end) l <-> Forall Exact l).
  { induction l; simpl; split; intros H; auto. - destruct H; constructor; tauto. - inversion H; subst; tauto. }
  rewrite E. tauto.
Qed.
Lemma Exact_init t : Exact (init t).
Proof.
  induction t using stree_ind2; simpl; auto. split; [discriminate|]. induction H; simpl; auto.
Qed.
Lemma add_nonempty c a s s' : add c a s = Some s' -> nonempty s' = true.
Proof.
  revert s'. induction s using sst_ind2; intros s' E.
  - simpl in E. destruct (Pos.eqb a s && negb (full mx (length it)))%bool; [|discriminate]. injection E as <-. simpl. rewrite app_length. simpl.
    destruct (length it + 1) eqn:L; [lia|reflexivity].
  - rewrite add_node in E. destruct (add_list c a k) as [k'|] eqn:EL; [|discriminate]. injection E as <-. simpl.
    revert k' EL. induction H as [|x k Hx Hk IH]; intros k' EL; simpl in EL; [discriminate|].
    destruct (add c a x) as [x'|] eqn:Ex.
    + injection EL as <-. simpl. rewrite (Hx _ eq_refl). reflexivity.
    + destruct (add_list c a k) as [k2|]; [|discriminate]. injection EL as <-. simpl. rewrite (IH _ eq_refl). apply orb_true_r.
Qed.
Lemma add_Exact c a s s' : add c a s = Some s' -> Exact s -> Exact s'.
Proof.
  revert s'. induction s using sst_ind2; intros s' E X.
  - simpl in E. destruct (Pos.eqb a s && negb (full mx (length it)))%bool; [|discriminate]. injection E as <-. simpl. auto.
  - pose proof (add_nonempty c a _ _ E) as NE. rewrite add_node in E. destruct (add_list c a k) as [k'|] eqn:EL; [|discriminate]. injection E as <-.
    apply Exact_node in X as [_ Xk]. apply Exact_node. split; [intros _; exact NE|].
    clear NE. revert k' EL. induction H as [|x k Hx Hk IH]; intros k' EL; simpl in EL; [discriminate|]. inversion Xk as [|? ? Xx Xr]; subst.
    destruct (add c a x) as [x'|] eqn:Ex.
    + injection EL as <-. constructor; auto.
    + destruct (add_list c a k) as [k2|]; [|discriminate]. injection EL as <-. constructor; auto.
Qed.
Lemma addw_Exact w : forall n s s', addw w n s = Some s' -> Exact s -> Exact s'.
Proof.
  induction w as [|a w IH]; intros n s s' E X; simpl in E; [injection E as <-; auto|].
  destruct (add n a s) as [s1|] eqn:E1; [|discriminate]. eapply IH; eauto. eapply add_Exact; eauto.
Qed.
Lemma nonempty_erase s1 s2 : erase s1 = erase s2 -> nonempty s1 = nonempty s2.
Proof.
  revert s2. induction s1 using sst_ind2; intros [b' mn' mx' it'|o' a' k'] E; simpl in E; try discriminate.
  - injection E as _ _ _ L. simpl. rewrite L. reflexivity.
  - injection E as E. simpl. revert k' E. induction H as [|x k Hx Hk IH]; intros [|y k'] E; simpl in E; try discriminate; auto.
    injection E as E1 E2. simpl. rewrite (Hx y E1), (IH k' E2). reflexivity.
Qed.
(* same counts, same frame; s2 marks a sequence active only if it holds something; s1 satisfies the invariant: whatever s1 does not require,
   s2 does not require either *)
Lemma required_mono : forall s2 s1, erase s2 = erase s1 -> shape s2 = shape s1 -> Exact s2 -> Inv s1 ->
  forall act2 act1, (act2 = true -> act1 = true) -> required act1 s1 = [] -> required act2 s2 = [].
Proof.
  induction s2 using sst_ind2; intros s1 E Sh X I act2 act1 A R; destruct s1 as [b' mn' mx' it'|o' a' k']; simpl in E, Sh; try discriminate.
  - injection E as -> -> -> L. simpl in *. rewrite L. destruct act2; simpl; auto. rewrite (A eq_refl) in R. simpl in R. exact R.
  - injection E as E. injection Sh as -> Sh. apply Exact_node in X as [Xa Xk]. apply Inv_node in I as [Ia Ik]. cbn [required] in *.
    assert (NE: nonempty (NodeS o' a k) = nonempty (NodeS o' a' k')) by (apply nonempty_erase; simpl; f_equal; exact E).
    assert (A': (act2 && (negb o' || a))%bool = true -> (act1 && (negb o' || a'))%bool = true).
    { intros H2. apply andb_true_iff in H2 as [H2 H3]. rewrite (A H2). simpl. destruct o'; simpl in *; auto.
      apply Ia. rewrite <- NE. apply Xa. exact H3. }
    clear NE Xa Ia A. revert Xk k' E Sh Ik R. induction H as [|x k Hx Hk IH]; intros Xk k' E Sh Ik R; destruct k' as [|y k']; simpl in E, Sh; try discriminate; auto.
    injection E as E1 E2. injection Sh as S1 S2. inversion Xk as [|? ? Xx Xr]; subst. inversion Ik as [|? ? Iy Ir]; subst. simpl in R. apply app_eq_nil in R as [R1 R2].
    simpl. rewrite (Hx y E1 S1 Xx Iy _ _ A' R1). simpl. apply (IH Xr k' E2 S2 Ir R2).
Qed.
(* C11, verdict: after a removal the final check is never MORE permissive than on the fresh element given the remaining children - the
   discrepancy that the sticky activation causes is one-sided (for every template of the sequence class) *)
Theorem C11_verdict_one_sided t ops k c b : NoDup (alpha_t t) -> nth_error (ins (mrun t ops)) k = Some (c, b) ->
  let s1 := fst (mstep (mrun t ops) (MRemove k)) in
  forall s2, addw (map snd (ins s1)) 0 (init t) = Some s2 -> erase s2 = erase (tree s1) ->
  verdict_ok s1 = true -> required true s2 = [].
Proof.
  intros ND E s1 s2 A EE V.
  assert (MI: MInv t s1) by (apply mstep_inv; apply mrun_inv). destruct MI as (I1 & Sh1 & _).
  destruct (addw_ok _ _ _ _ A (Inv_init t)) as [_ S2]. rewrite shape_init in S2.
  apply (required_mono s2 (tree s1) EE (eq_trans S2 (eq_sym Sh1)) (addw_Exact _ _ _ _ A (Exact_init t)) I1 true true (fun H => H)).
  unfold verdict_ok in V. destruct (required true (tree s1)); auto; discriminate.
Qed.
