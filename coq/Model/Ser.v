(* Character escaping of xml.etree (CPython 3.12 _escape_cdata / _escape_attrib) and its inverse (what an XML parser does
   with the five predefined entities and numeric character references), on strings as lists of code points.
   Modelled, not verified: expat and ElementTree themselves; Ser.v is corresponded byte for byte with ET.tostring. *)
From Coq Require Import List NArith Bool Lia.
Import ListNotations.
Open Scope N_scope.
Definition str := list N.
(* code points of the characters involved *)
Definition AMP := 38. Definition LT := 60. Definition GT := 62. Definition QUOT := 34. Definition SEMI := 59. Definition HASH := 35.
Definition CR := 13. Definition LF := 10. Definition TAB := 9.
Definition s_amp : str := [AMP; 97; 109; 112; SEMI].         (* &amp; *)
Definition s_lt : str := [AMP; 108; 116; SEMI].              (* &lt; *)
Definition s_gt : str := [AMP; 103; 116; SEMI].              (* &gt; *)
Definition s_quot : str := [AMP; 113; 117; 111; 116; SEMI].  (* &quot; *)
Definition s_cr : str := [AMP; HASH; 49; 51; SEMI].          (* &#13; *)
Definition s_lf : str := [AMP; HASH; 49; 48; SEMI].          (* &#10; *)
Definition s_tab : str := [AMP; HASH; 48; 57; SEMI].         (* &#09; *)

Definition esc_text_char (c:N) : str := if c =? AMP then s_amp else if c =? LT then s_lt else if c =? GT then s_gt else [c].
Definition esc_attr_char (c:N) : str :=
  if c =? AMP then s_amp else if c =? LT then s_lt else if c =? GT then s_gt else if c =? QUOT then s_quot
  else if c =? CR then s_cr else if c =? LF then s_lf else if c =? TAB then s_tab else [c].
Definition escape_text (s:str) : str := flat_map esc_text_char s.
Definition escape_attr (s:str) : str := flat_map esc_attr_char s.

(* the reader: resolves the entity / character references the writer can emit; any other '&' is a well-formedness error *)
Fixpoint unescape (fuel:nat) (s:str) : option str :=
  match fuel with O => None | S f =>
  match s with
  | [] => Some []
  | 38 :: 97 :: 109 :: 112 :: 59 :: r => option_map (cons AMP) (unescape f r)
  | 38 :: 108 :: 116 :: 59 :: r => option_map (cons LT) (unescape f r)
  | 38 :: 103 :: 116 :: 59 :: r => option_map (cons GT) (unescape f r)
  | 38 :: 113 :: 117 :: 111 :: 116 :: 59 :: r => option_map (cons QUOT) (unescape f r)
  | 38 :: 35 :: 49 :: 51 :: 59 :: r => option_map (cons CR) (unescape f r)
  | 38 :: 35 :: 49 :: 48 :: 59 :: r => option_map (cons LF) (unescape f r)
  | 38 :: 35 :: 48 :: 57 :: 59 :: r => option_map (cons TAB) (unescape f r)
  | c :: r => if c =? AMP then None else if c =? LT then None else option_map (cons c) (unescape f r)
  end end.

Lemma unescape_plain f c r : c <> AMP -> c <> LT -> unescape (S f) (c :: r) = option_map (cons c) (unescape f r).
Proof.
  intros A L. unfold AMP, LT in *. cbn [unescape].
  destruct (N.eqb_spec c 38); [contradiction|]. destruct (N.eqb_spec c 60); [contradiction|].
  destruct c as [|p]; [reflexivity|]. do 6 (destruct p as [p|p|]; try reflexivity); try contradiction.
Qed.
(* text content: what the parser reads back is exactly what was written, for EVERY string *)
Theorem unescape_escape_text : forall s, unescape (S (length (escape_text s))) (escape_text s) = Some s.
Proof.
  assert (G: forall s f, (length (escape_text s) < f)%nat -> unescape f (escape_text s) = Some s).
  { induction s as [|c s IH]; intros f H; (destruct f as [|f]; [inversion H|]); [reflexivity|].
    unfold escape_text in *. cbn [flat_map] in *. unfold esc_text_char in *.
    destruct (N.eqb_spec c AMP) as [->|A]; [cbn in H |- *; rewrite IH by lia; reflexivity|].
    destruct (N.eqb_spec c LT) as [->|L]; [cbn in H |- *; rewrite IH by lia; reflexivity|].
    destruct (N.eqb_spec c GT) as [->|Gt]; [cbn in H |- *; rewrite IH by lia; reflexivity|].
    cbn [app] in *. rewrite unescape_plain by assumption. rewrite IH by (simpl in H; lia). reflexivity. }
  intros s. apply G. lia.
Qed.
(* attribute values: additionally the quote and the three white-space characters that attribute-value normalisation would
   otherwise turn into spaces survive *)
Theorem unescape_escape_attr : forall s, unescape (S (length (escape_attr s))) (escape_attr s) = Some s.
Proof.
  assert (G: forall s f, (length (escape_attr s) < f)%nat -> unescape f (escape_attr s) = Some s).
  { induction s as [|c s IH]; intros f H; (destruct f as [|f]; [inversion H|]); [reflexivity|].
    unfold escape_attr in *. cbn [flat_map] in *. unfold esc_attr_char in *.
    destruct (N.eqb_spec c AMP) as [->|A]; [cbn in H |- *; rewrite IH by lia; reflexivity|].
    destruct (N.eqb_spec c LT) as [->|L]; [cbn in H |- *; rewrite IH by lia; reflexivity|].
    destruct (N.eqb_spec c GT) as [->|Gt]; [cbn in H |- *; rewrite IH by lia; reflexivity|].
    destruct (N.eqb_spec c QUOT) as [->|Q]; [cbn in H |- *; rewrite IH by lia; reflexivity|].
    destruct (N.eqb_spec c CR) as [->|R]; [cbn in H |- *; rewrite IH by lia; reflexivity|].
    destruct (N.eqb_spec c LF) as [->|Lf]; [cbn in H |- *; rewrite IH by lia; reflexivity|].
    destruct (N.eqb_spec c TAB) as [->|T]; [cbn in H |- *; rewrite IH by lia; reflexivity|].
    cbn [app] in *. rewrite unescape_plain by assumption. rewrite IH by (simpl in H; lia). reflexivity. }
  intros s. apply G. lia.
Qed.
(* the escaped forms never contain a raw markup character: the output stays well-formed around them *)
Theorem escape_text_no_markup : forall s, ~ In LT (escape_text s) /\ ~ In GT (escape_text s).
Proof.
  intros s. split; induction s as [|c s IH]; simpl; auto; intros I; apply in_app_or in I as [I|I]; auto;
    unfold esc_text_char in I;
    (destruct (N.eqb_spec c AMP); [cbv in I; intuition discriminate|]);
    (destruct (N.eqb_spec c LT); [cbv in I; intuition discriminate|]);
    (destruct (N.eqb_spec c GT); [cbv in I; intuition discriminate|]);
    destruct I as [E|[]]; auto.
Qed.
Theorem escape_attr_no_quote : forall s, ~ In QUOT (escape_attr s) /\ ~ In LT (escape_attr s).
Proof.
  intros s. split; induction s as [|c s IH]; simpl; auto; intros I; apply in_app_or in I as [I|I]; auto;
    unfold esc_attr_char in I;
    (destruct (N.eqb_spec c AMP); [cbv in I; intuition discriminate|]);
    (destruct (N.eqb_spec c LT); [cbv in I; intuition discriminate|]);
    (destruct (N.eqb_spec c GT); [cbv in I; intuition discriminate|]);
    (destruct (N.eqb_spec c QUOT); [cbv in I; intuition discriminate|]);
    (destruct (N.eqb_spec c CR); [cbv in I; intuition discriminate|]);
    (destruct (N.eqb_spec c LF); [cbv in I; intuition discriminate|]);
    (destruct (N.eqb_spec c TAB); [cbv in I; intuition discriminate|]);
    destruct I as [E|[]]; auto.
Qed.

(* ---- structure: a token-level writer and reader; reading back what was written recovers EVERY tree ---- *)
Inductive xml := Node (name:str) (attrs:list (str*str)) (text:str) (kids:list xml).
Inductive tok := TOpen (name:str) (attrs:list (str*str)) | TText (s:str) | TClose.
Fixpoint write (x:xml) : list tok :=
  match x with Node n a t k => TOpen n a :: TText t :: flat_map write k ++ [TClose] end.
(* the reader: a forest parser - a sequence of elements up to the next close tag *)
Fixpoint parse_seq (fuel:nat) (ts:list tok) : option (list xml * list tok) :=
  match fuel with O => None | S f =>
  match ts with
  | TOpen n a :: TText t :: r =>
      match parse_seq f r with
      | Some (ks, TClose :: r1) =>
          match parse_seq f r1 with Some (sibs, r2) => Some (Node n a t ks :: sibs, r2) | None => None end
      | _ => None end
  | _ => Some ([], ts) end end.
Definition starts_open (ts:list tok) : bool := match ts with TOpen _ _ :: _ => true | _ => false end.

Section xml_ind2.
  Variable P : xml -> Prop.
  Hypothesis H : forall n a t k, Forall P k -> P (Node n a t k).
  Fixpoint xml_ind2 (x:xml) : P x :=
    match x with Node n a t k => H n a t k ((fix go (l:list xml) : Forall P l := match l with [] => Forall_nil P | y :: r => Forall_cons y (xml_ind2 y) (go r) end) k) end.
End xml_ind2.
Lemma parse_seq_mono f : forall ts r, parse_seq f ts = Some r -> forall g, (f <= g)%nat -> parse_seq g ts = Some r.
Proof.
  induction f as [|f IH]; intros ts r E g L; [discriminate|]. destruct g as [|g]; [lia|]. simpl in *.
  destruct ts as [|[n a|s0|] [|[n1 a1|t|] rest]]; auto.
  destruct (parse_seq f rest) as [[ks [|[n2 a2|s2|] r1]]|] eqn:E1; try discriminate.
  rewrite (IH _ _ E1 g) by lia.
  destruct (parse_seq f r1) as [[sibs r2]|] eqn:E2; [|discriminate]. rewrite (IH _ _ E2 g) by lia. auto.
Qed.
(* reading back what was written recovers the forest, for EVERY list of trees, whatever follows (as long as it is not an open tag) *)
Theorem read_write_forest : forall xs rest, starts_open rest = false -> exists f, parse_seq f (flat_map write xs ++ rest) = Some (xs, rest).
Proof.
  assert (One: forall x, (forall rest, starts_open rest = false -> forall xs, (exists f, parse_seq f (flat_map write xs ++ rest) = Some (xs, rest)) ->
                          exists f, parse_seq f (write x ++ flat_map write xs ++ rest) = Some (x :: xs, rest))).
  { induction x using xml_ind2. intros rest SO xs (f2 & E2). simpl. rewrite <- app_assoc. simpl.
    assert (K: exists f1, parse_seq f1 (flat_map write k ++ TClose :: flat_map write xs ++ rest) = Some (k, TClose :: flat_map write xs ++ rest)).
    { clear E2. induction H as [|y k Hy Hk IH].
      - exists 1%nat. reflexivity.
      - simpl. rewrite <- app_assoc. apply Hy; auto. }
    destruct K as (f1 & E1). exists (S (f1 + f2)). simpl.
    rewrite (parse_seq_mono _ _ _ E1 (f1 + f2)%nat) by lia. rewrite (parse_seq_mono _ _ _ E2 (f1 + f2)%nat) by lia. reflexivity. }
  induction xs as [|x xs IH]; intros rest SO.
  - exists 1%nat. simpl. destruct rest as [|[n a|s0|] r]; try discriminate; reflexivity.
  - simpl. rewrite <- app_assoc. apply One; auto.
Qed.
Theorem read_write : forall x, exists f, parse_seq f (write x) = Some ([x], []).
Proof. intros x. destruct (read_write_forest [x] [] eq_refl) as (f & E). exists f. simpl in E. rewrite !app_nil_r in E. exact E. Qed.
