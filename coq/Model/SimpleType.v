(* Value validation: Gallina transliteration of XSDSimpleType (__init__, _check_value_type, _check_value, the value setters of
   the six hand-written classes, get_cleaned_token) driven by the class table dumped from the live classes, and an
   independent validity judgement built only from the schema's simple-type table. *)
From MX Require Import Spec.CharRe.
From Coq Require Import List String NArith ZArith QArith Bool Arith Ascii DecimalString DecimalZ DecimalPos.
Import ListNotations.
Open Scope string_scope.

(* ---------- Python values ---------- *)
Definition pstr := list N.                                   (* a Python str as code points *)
Inductive fkind := FPlain | FExp | FNan | FInf.               (* shape of repr(float): 12.5 | 1e-05 | nan | inf/-inf *)
Inductive pyval := VStr (s:pstr) | VInt (z:Z) | VBool (b:bool) | VFloat (k:fkind) (q:Q) (repr:pstr) | VNone.
Inductive res := Ok | TypeErr | ValueErr | OtherErr.
Inductive pyt := TInt | TFloat | TStr.
Fixpoint cp (s:string) : pstr := match s with EmptyString => [] | String c t => N.of_nat (nat_of_ascii c) :: cp t end.
Fixpoint pstr_eqb (a b:pstr) : bool := match a, b with [], [] => true | x :: t, y :: u => N.eqb x y && pstr_eqb t u | _, _ => false end.
Definition isinstance (v:pyval) (t:pyt) : bool :=
  match v, t with VStr _, TStr => true | VInt _, TInt => true | VBool _, TInt => true | VFloat _ _ _, TFloat => true | _, _ => false end.
(* v in [str literals] *)
Definition in_strs (v:pyval) (l:list string) : bool := match v with VStr s => existsb (fun x => pstr_eqb s (cp x)) l | _ => false end.
(* numeric value (bool is an int); floats may be nan or infinite *)
Inductive xnum := XNan | XInt (z:Z) | XFin (q:Q) | XInf (positive_:bool).
Definition num_of (v:pyval) : option xnum :=
  match v with VInt z => Some (XInt z) | VBool b => Some (XInt (if b then 1 else 0)%Z)
             | VFloat FNan _ _ => Some XNan | VFloat FInf q _ => Some (XInf (Qle_bool 0 q)) | VFloat _ q _ => Some (XFin q) | _ => None end.
(* a <= b as Python evaluates it (False whenever a nan is involved) *)
Definition xle (a b:xnum) : bool :=
  match a, b with
  | XNan, _ | _, XNan => false
  | XInt a, XInt b => Z.leb a b
  | XInt a, XFin q => Qle_bool (inject_Z a) q
  | XFin p, XInt b => Qle_bool p (inject_Z b)
  | XFin p, XFin q => Qle_bool p q
  | XInf false, _ => true | _, XInf true => true
  | XInf true, _ => false | _, XInf false => false end.
Definition xlt (a b:xnum) : bool := match a, b with XNan, _ | _, XNan => false | _, _ => negb (xle b a) end.

(* ---------- get_cleaned_token ---------- *)
Definition is_space (c:N) : bool :=
  (N.leb 9 c && N.leb c 13) || (N.leb 28 c && N.leb c 32) || N.eqb c 133 || N.eqb c 160 || N.eqb c 5760 || (N.leb 8192 c && N.leb c 8202)
  || N.eqb c 8232 || N.eqb c 8233 || N.eqb c 8239 || N.eqb c 8287 || N.eqb c 12288.
Fixpoint lstrip (s:pstr) : pstr := match s with c :: t => if is_space c then lstrip t else s | [] => [] end.
Definition strip (s:pstr) : pstr := List.rev (lstrip (List.rev (lstrip s))).
Fixpoint split_cp (sep:N) (s:pstr) : list pstr :=
  match s with [] => [[]] | c :: t => if N.eqb c sep then [] :: split_cp sep t else match split_cp sep t with [] => [[c]] | h :: r => (c :: h) :: r end end.
Fixpoint join_cp (sep:N) (l:list pstr) : pstr := match l with [] => [] | [x] => x | x :: t => (x ++ sep :: join_cp sep t)%list end.
Definition clean_on (sep:N) (s:pstr) : pstr := join_cp 32 (map strip (split_cp sep s)).
Definition cleaned_token (s:pstr) : pstr :=
  let s1 := clean_on 13 (clean_on 9 (clean_on 10 s)) in
  join_cp 32 (filter (fun p => negb (match p with [] => true | _ => false end)) (map strip (split_cp 32 s1))).

(* ---------- the class table (Gen/SimpleTypes.v) ---------- *)
Record lcls := mkL { l_mro : list string; l_types : option (list pyt); l_forced : option (list string); l_union : option (list string);
  l_class_pattern : option cre; l_own_first_pattern : option cre; l_restr_base : option string; l_restr : list (string * string);
  l_has_restriction : bool; l_inner_enum : list string; l_setter : bool }.
Definition ltable := list (string * lcls).
Fixpoint lfind (k:string) (t:ltable) : option lcls := match t with [] => None | (x, v) :: r => if String.eqb x k then Some v else lfind k r end.
(* class attribute lookup through the MRO *)
Fixpoint mro_lookup {A} (t:ltable) (f:lcls -> option A) (mro:list string) : option A :=
  match mro with [] => None | k :: r => match lfind k t with Some c => match f c with Some a => Some a | None => mro_lookup t f r end | None => mro_lookup t f r end end.
Definition z_of_dec (s:string) : option Z :=
  (* facet values of the schema are plain optionally signed integers *)
  let fix go (s:string) (acc:Z) : option Z := match s with EmptyString => Some acc
      | String c t => let n := nat_of_ascii c in if (Nat.leb 48 n && Nat.leb n 57)%bool then go t (acc * 10 + Z.of_nat (n - 48))%Z else None end in
  match s with String "-"%char t => option_map Z.opp (go t 0%Z) | EmptyString => None | _ => go s 0%Z end.

Section Check.
  Variable T : ltable.
  Definition eff_types (c:lcls) : list pyt :=
    match mro_lookup T l_union (l_mro c) with
    | Some members => flat_map (fun m => match lfind m T with Some mc => match mro_lookup T l_types (l_mro mc) with Some l => l | None => [] end | None => [] end) members
    | None => match mro_lookup T l_types (l_mro c) with Some l => l | None => [] end end.
  Definition eff_forced (c:lcls) : list string :=
    match mro_lookup T l_forced (l_mro c) with Some (x :: l) => x :: l | _ => l_inner_enum c end.
  Definition own_permitted (c:lcls) : list string := map snd (filter (fun kv => String.eqb (fst kv) "enumeration") (l_restr c)).
  Definition eff_pattern (c:lcls) : option cre :=
    match l_own_first_pattern c with
    | Some p => Some p
    | None => match l_mro c with
              | _ :: parent :: _ => match lfind parent T with
                                    | Some pc => match l_own_first_pattern pc with Some p => Some p | None => mro_lookup T l_class_pattern (l_mro c) end
                                    | None => mro_lookup T l_class_pattern (l_mro c) end
              | _ => mro_lookup T l_class_pattern (l_mro c) end end.
  Definition check_type (c:lcls) (v:pyval) : res :=
    if in_strs v (eff_forced c) then Ok else if existsb (isinstance v) (eff_types c) then Ok else TypeErr.
  Definition cmp_fail (tag:string) (bound:Z) (v:pyval) : res :=
    (* raises ValueError when the comparison with int(bound) holds; comparing a str with an int is a TypeError *)
    match num_of v with
    | None => TypeErr
    | Some x =>
        let b := XInt bound in
        let bad := if String.eqb tag "minExclusive" then xle x b          (* v <= bound *)
                   else if String.eqb tag "minInclusive" then xlt x b     (* v < bound *)
                   else if String.eqb tag "maxInclusive" then xlt b x     (* v > bound *) else false in
        if bad then ValueErr else Ok end.
  Fixpoint facets (l:list (string * string)) (v:pyval) : res :=
    match l with [] => Ok | (tag, val) :: r =>
      let here := if String.eqb tag "minLength" then
                    match v, z_of_dec val with VStr s, Some n => if Z.ltb (Z.of_nat (List.length s)) n then ValueErr else Ok | VStr _, None => OtherErr | _, _ => TypeErr end
                  else if String.eqb tag "minExclusive" || String.eqb tag "minInclusive" || String.eqb tag "maxInclusive" then
                    match z_of_dec val with Some b => cmp_fail tag b v | None => OtherErr end
                  else Ok in
      match here with Ok => facets r v | e => e end end.
  (* ---- resolution: everything the constructor looks up in the class table, done once (closed computation) ---- *)
  Inductive setter := SCheckType | SNonNeg | SPos | SToken.
  Inductive pre := PreNone | PreDate | PreToken.
  Inductive rcls := R (types:list pyt) (forced permitted:list string) (members:option (list rcls)) (pattern:option cre) (pre_:pre) (sub:option rcls)
                      (has_restr:bool) (restr:list (string*string)) (chain:list setter).
  Definition setter_of (k:string) : option setter :=
    if String.eqb k "XSDSimpleTypeInteger" || String.eqb k "XSDSimpleTypeDecimal" || String.eqb k "XSDSimpleTypeString" then Some SCheckType
    else if String.eqb k "XSDSimpleTypeNonNegativeInteger" then Some SNonNeg
    else if String.eqb k "XSDSimpleTypePositiveInteger" then Some SPos
    else if String.eqb k "XSDSimpleTypeToken" then Some SToken else None.
  Fixpoint resolve (fuel:nat) (name:string) : option rcls :=
    match fuel with O => None | S f =>
    match lfind name T with None => None | Some c =>
      let members := match mro_lookup T l_union (l_mro c) with
                     | Some ms => Some (flat_map (fun m => match resolve f m with Some r => [r] | None => [] end) ms) | None => None end in
      let pat := eff_pattern c in
      let pre_kind := match pat with
                      | Some _ => if l_has_restriction c then match l_restr_base c with
                                    | Some b => if String.eqb b "xs:date" then PreDate else if String.eqb b "xs:token" then PreToken else PreNone | None => PreNone end else PreNone
                      | None => PreNone end in
      let sub := match pre_kind with PreDate => resolve f "XSDSimpleTypeDate" | PreToken => resolve f "XSDSimpleTypeToken" | PreNone => None end in
      let chain := flat_map (fun k => match lfind k T with Some kc => if l_setter kc then match setter_of k with Some st => [st] | None => [] end else [] | None => [] end) (l_mro c) in
      Some (R (eff_types c) (eff_forced c) (own_permitted c) members pat pre_kind sub (l_has_restriction c) (l_restr c) chain)
    end end.
  Definition r_check_type (types:list pyt) (forced:list string) (v:pyval) : res :=
    if in_strs v forced then Ok else if existsb (isinstance v) types then Ok else TypeErr.
  (* the constructor XSDSimpleTypeX(v) on a resolved class *)
  Fixpoint run (r:rcls) (v:pyval) : res * pyval :=
    match r with R types forced permitted members pattern pre_ sub has_restr restr chain =>
      let check_value (v:pyval) : res * pyval :=
        match members with
        | Some ms =>
            (fix try (ms:list rcls) : res * pyval :=
               match ms with [] => (ValueErr, v) | m :: rest => match fst (run m v) with Ok => (Ok, v) | TypeErr | ValueErr => try rest | OtherErr => (OtherErr, v) end end) ms
        | None =>
          if in_strs v forced then (Ok, v) else
          match permitted with
          | _ :: _ => if in_strs v permitted then (Ok, v) else (ValueErr, v)
          | [] =>
            match pattern with
            | Some p =>
                let prer : res * pyval :=
                  match pre_, sub with
                  | PreDate, Some d => (fst (run d v), v)
                  | PreToken, Some t => run t v
                  | PreNone, _ => (Ok, v)
                  | _, None => (OtherErr, v) end in
                match prer with
                | (Ok, v') => match v' with VStr s => if cmatch p s then (Ok, v) else (ValueErr, v) | _ => (TypeErr, v) end
                | (e, _) => (e, v) end
            | None => if has_restr then (facets restr v, v) else (Ok, v) end
          end end in
      let base_set (v:pyval) : res * pyval :=
        match r_check_type types forced v with Ok => if in_strs v forced then (Ok, v) else check_value v | e => (e, v) end in
      (fix go (ks:list setter) (v:pyval) : res * pyval :=
        match ks with [] => base_set v | k :: rest =>
          match k with
          | SCheckType => match r_check_type types forced v with Ok => go rest v | e => (e, v) end
          | SNonNeg => match go rest v with (Ok, v') => match num_of v with None => (TypeErr, v') | Some x => if xlt x (XInt 0) then (ValueErr, v') else (Ok, v') end | e => e end
          | SPos => match go rest v with (Ok, v') => match num_of v with None => (Ok, v') | Some x => if xle x (XInt 0) then (ValueErr, v') else (Ok, v') end | e => e end
          | SToken => match go rest v with (Ok, v') => match v with VStr s => (Ok, VStr (cleaned_token s)) | _ => (OtherErr, v') end | e => e end
          end end) chain v
    end.
  Definition lib_check (name:string) (v:pyval) : res := match resolve 6 name with Some r => fst (run r v) | None => OtherErr end.
End Check.

(* ---------- rendering (what _create_et_xml_element emits: str(v)) ---------- *)
Definition render_int (z:Z) : pstr := cp (NilZero.string_of_int (Z.to_int z)).
Definition render (v:pyval) : pstr :=
  match v with VStr s => s | VInt z => render_int z | VBool true => cp "True" | VBool false => cp "False" | VFloat _ _ r => r | VNone => cp "None" end.

(* ---------- the schema side ---------- *)
Record xst := mkX { x_base : option string; x_enum : list string; x_pattern : option cre; x_minI : option Z; x_maxI : option Z; x_minE : option Z;
  x_minLen : option nat; x_union : list string; x_inner_enum : list string }.
Definition xtable := list (string * xst).
Fixpoint xfind (k:string) (t:xtable) : option xst := match t with [] => None | (x, v) :: r => if String.eqb x k then Some v else xfind k r end.
(* whiteSpace=collapse *)
Definition collapse (s:pstr) : pstr :=
  let s1 := map (fun c => if N.eqb c 9 || N.eqb c 10 || N.eqb c 13 then 32%N else c) s in
  join_cp 32 (filter (fun p => negb (match p with [] => true | _ => false end)) (split_cp 32 s1)).
Definition is_digit (c:N) : bool := N.leb 48 c && N.leb c 57.
Fixpoint all_digits (s:pstr) : bool := match s with [] => true | c :: t => is_digit c && all_digits t end.
Fixpoint val_digits (s:pstr) (acc:Z) : Z := match s with [] => acc | c :: t => val_digits t (acc * 10 + Z.of_N (c - 48))%Z end.
Definition unsign (s:pstr) : bool * pstr := match s with 45%N :: t => (true, t) | 43%N :: t => (false, t) | _ => (false, s) end.
Fixpoint str_of (s:pstr) : option string :=
  match s with [] => Some EmptyString | c :: t => if N.ltb c 256 then option_map (String (ascii_of_N c)) (str_of t) else None end.
(* lexical xs:integer -> value: optional sign, digits (leading zeros allowed) *)
Definition parse_plain (s:pstr) : option Z := match str_of s with Some st => option_map Z.of_int (NilZero.int_of_string st) | None => None end.
Definition parse_integer (s:pstr) : option Z :=
  match parse_plain s with
  | Some z => Some z
  | None => match s with 43%N :: t => match t with 45%N :: _ => None | 43%N :: _ => None | _ => parse_plain t end | _ => None end end.
Fixpoint pow10 (n:nat) : positive := match n with O => 1%positive | S k => (10 * pow10 k)%positive end.
(* lexical xs:decimal -> value *)
Definition parse_decimal (s:pstr) : option Q :=
  match parse_integer s with Some z => Some (inject_Z z) | None =>
  let '(neg, d) := unsign s in
  let parts := split_cp 46 d in
  match parts with
  | [i] => match i with [] => None | _ => if all_digits i then Some (inject_Z (if neg then Z.opp (val_digits i 0) else val_digits i 0)) else None end
  | [i; f] => match i, f with [], [] => None | _, _ =>
      if all_digits i && all_digits f then
        let n := val_digits (i ++ f)%list 0 in Some (Qmake (if neg then Z.opp n else n) (pow10 (List.length f))) else None end
  | _ => None end end.
Definition xs_date : cre :=   (* -?YYYY+-MM-DD with optional time zone, as in XML Schema part 2 (month 01-12, day 01-31) *)
  let r (a b:N) := CSet false [(a, b)] in
  let d := r 48%N 57%N in
  let dash := r 45%N 45%N in
  let two := CRep d 2%nat (Some 2%nat) in
  let month := CAlt (CCat (r 48 48)%N (r 49 57)%N) (CCat (r 49 49)%N (r 48 50)%N) in
  let day := CAlt (CCat (r 48 48)%N (r 49 57)%N) (CAlt (CCat (r 49 50)%N d) (CCat (r 51 51)%N (r 48 49)%N)) in
  let tz := CAlt (r 90 90)%N (CCat (CSet false [(43,43);(45,45)]%N) (CCat two (CCat (r 58 58)%N two))) in
  CCat (CRep dash 0%nat (Some 1%nat)) (CCat (CRep d 4%nat None) (CCat dash (CCat month (CCat dash (CCat day (CRep tz 0%nat (Some 1%nat))))))).
(* ---- the schema side, resolved into a tree first (closed computation), then judged ---- *)
Inductive xr := XString | XToken | XDecimal | XInteger | XNonNeg | XPos | XDateT
  | XRestr (base:xr) (preserve:bool) (enum:list string) (pat:option cre) (minlen:option nat) (minI maxI minE:option Z)
  | XUnion (ms:list xr) (inner:list string).
Section Valid.
  Variable X : xtable.
  Fixpoint xresolve (fuel:nat) (t:string) : option xr :=
    match fuel with O => None | S f =>
    if String.eqb t "xs:string" then Some XString
    else if String.eqb t "xs:token" || String.eqb t "xs:normalizedString" || String.eqb t "xs:anySimpleType" then Some XToken
    else if String.eqb t "xs:decimal" then Some XDecimal
    else if String.eqb t "xs:integer" then Some XInteger
    else if String.eqb t "xs:nonNegativeInteger" then Some XNonNeg
    else if String.eqb t "xs:positiveInteger" then Some XPos
    else if String.eqb t "xs:date" then Some XDateT
    else match xfind t X with None => None | Some x =>
      match x_base x with
      | None => Some (XUnion (flat_map (fun m => match xresolve f m with Some r => [r] | None => [] end) (x_union x)) (x_inner_enum x))
      | Some b => match xresolve f b with
                  | Some br => Some (XRestr br (String.eqb b "xs:string") (x_enum x) (x_pattern x) (x_minLen x) (x_minI x) (x_maxI x) (x_minE x))
                  | None => None end
      end end end.
End Valid.
Definition qbounds_ok (minI maxI minE:option Z) (q:Q) : bool :=
  match minI with Some b => Qle_bool (inject_Z b) q | None => true end &&
  match maxI with Some b => Qle_bool q (inject_Z b) | None => true end &&
  match minE with Some b => negb (Qle_bool q (inject_Z b)) | None => true end.
(* is the string s in the lexical space of the resolved type? *)
Fixpoint xrun (x:xr) (s:pstr) : bool :=
  match x with
  | XString | XToken => true
  | XDecimal => match parse_decimal (collapse s) with Some _ => true | None => false end
  | XInteger => match parse_integer (collapse s) with Some _ => true | None => false end
  | XNonNeg => match parse_integer (collapse s) with Some z => Z.leb 0 z | None => false end
  | XPos => match parse_integer (collapse s) with Some z => Z.ltb 0 z | None => false end
  | XDateT => cmatch xs_date (collapse s)
  | XUnion ms inner => existsb (fun m => xrun m s) ms || existsb (fun e => pstr_eqb (collapse s) (cp e)) inner
  | XRestr base preserve enum pat minlen minI maxI minE =>
      let s' := if preserve then s else collapse s in
      xrun base s &&
      match enum with _ :: _ => existsb (fun e => pstr_eqb s' (cp e)) enum | [] => true end &&
      match pat with Some p => cmatch p s' | None => true end &&
      match minlen with Some n => Nat.leb n (List.length s') | None => true end &&
      (if existsb (fun o => match o with Some _ => true | None => false end) [minI; maxI; minE]
       then match parse_decimal (collapse s) with Some q => qbounds_ok minI maxI minE q | None => false end else true)
  end.
Definition xsd_valid (X:xtable) (fuel:nat) (t:string) (s:pstr) : bool := match xresolve X fuel t with Some x => xrun x s | None => false end.
