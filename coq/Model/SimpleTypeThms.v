(* Theorems about the value-validation model: generic in the resolved class / resolved schema type, so that the per-type facts
   of Properties/C05.v are closed computations over the regenerated tables. *)
From MX Require Import Spec.CharRe Model.SimpleType.
From Coq Require Import List String NArith ZArith QArith Bool Arith Ascii DecimalString DecimalZ DecimalPos Lia.
Import ListNotations.
Open Scope string_scope.

Lemma pstr_eqb_eq a : forall b, pstr_eqb a b = true -> a = b.
Proof.
  induction a as [|x t IH]; destruct b as [|y u]; simpl; intros H; try discriminate; auto.
  apply andb_true_iff in H as [H1 H2]. apply N.eqb_eq in H1. subst. f_equal. auto.
Qed.
Lemma pstr_eqb_refl a : pstr_eqb a a = true.
Proof. induction a; simpl; auto. rewrite N.eqb_refl. auto. Qed.
Lemma in_strs_In s l : in_strs (VStr s) l = true <-> exists x, In x l /\ s = cp x.
Proof.
  simpl. rewrite existsb_exists. split.
  - intros (x & I & E). exists x. split; auto. apply pstr_eqb_eq; auto.
  - intros (x & I & ->). exists x. split; auto. apply pstr_eqb_refl.
Qed.

(* ---------- enumeration classes ---------- *)
Definition enum_spec (lits:list string) (v:pyval) : res := match v with VStr s => if in_strs (VStr s) lits then Ok else ValueErr | _ => TypeErr end.
Definition enum_chain (chain:list setter) : bool := forallb (fun k => match k with SCheckType | SToken => true | _ => false end) chain.
(* shape of a resolved enumeration class: only str passes the type check, nothing forced, a non-empty permitted list,
   no union, setters only re-check the type or clean the token *)
Definition is_enum_r (r:rcls) : option (list string) :=
  match r with
  | R [TStr] [] (x :: l) None _ _ _ _ _ chain => if enum_chain chain then Some (x :: l) else None
  | _ => None end.
Theorem enum_r_spec r lits : is_enum_r r = Some lits -> forall v, fst (run r v) = enum_spec lits v.
Proof.
  destruct r as [types forced permitted members pattern pre_ sub has_restr restr chain]. simpl.
  destruct types as [|[| |] [|? ?]]; try discriminate. destruct forced; try discriminate. destruct permitted as [|x l]; try discriminate.
  destruct members; try discriminate. destruct (enum_chain chain) eqn:EC; try discriminate. intros E v. injection E as <-.
  induction chain as [|k rest IH]; simpl in *.
  - unfold r_check_type. destruct v; simpl; auto. destruct (pstr_eqb s (cp x) || existsb (fun x0 => pstr_eqb s (cp x0)) l); reflexivity.
  - apply andb_true_iff in EC as [K EC]. specialize (IH EC). destruct k; try discriminate.
    + unfold r_check_type at 1. destruct v; simpl; auto.
    + match goal with |- fst (match ?g with _ => _ end) = _ => destruct g as [[] v'] eqn:G end; simpl in *; auto.
      destruct v; simpl in *; auto; try discriminate.
      all: try (unfold enum_spec in IH; simpl in IH; destruct (pstr_eqb _ _ || _); discriminate).
Qed.

(* ---------- integers: rendering and reading back ---------- *)
Lemma ascii_N_roundtrip c : ascii_of_N (N.of_nat (nat_of_ascii c)) = c.
Proof. rewrite <- (ascii_nat_embedding c) at 2. reflexivity. Qed.
Lemma nat_of_ascii_small c : (N.of_nat (nat_of_ascii c) <? 256)%N = true.
Proof. apply N.ltb_lt. pose proof (nat_ascii_bounded c). lia. Qed.
Lemma str_of_cp s : str_of (cp s) = Some s.
Proof. induction s as [|c t IH]; simpl; auto. rewrite nat_of_ascii_small, IH, ascii_N_roundtrip. reflexivity. Qed.
Lemma to_int_nonnil z : Z.to_int z <> Decimal.Pos Decimal.Nil /\ Z.to_int z <> Decimal.Neg Decimal.Nil.
Proof.
  destruct z; simpl; split; try discriminate.
  - intros H. injection H as H. apply (DecimalPos.Unsigned.to_uint_nonnil p H).
  - intros H. injection H as H. apply (DecimalPos.Unsigned.to_uint_nonnil p H).
Qed.
Theorem parse_render_int z : parse_integer (render_int z) = Some z.
Proof.
  unfold parse_integer, parse_plain, render_int. rewrite str_of_cp.
  destruct (to_int_nonnil z) as [A B]. rewrite NilZero.isi by assumption. simpl. rewrite DecimalZ.of_to. reflexivity.
Qed.

(* ---------- integer-valued classes: what the library accepts is an interval ---------- *)
Definition zfacet (tag val:string) (z:Z) : bool :=        (* true = this facet lets z through *)
  if String.eqb tag "minExclusive" then match z_of_dec val with Some b => negb (Z.leb z b) | None => false end
  else if String.eqb tag "minInclusive" then match z_of_dec val with Some b => Z.leb b z | None => false end
  else if String.eqb tag "maxInclusive" then match z_of_dec val with Some b => Z.leb z b | None => false end
  else negb (String.eqb tag "minLength").
Definition zsetter (k:setter) (z:Z) : bool := match k with SNonNeg => Z.leb 0 z | SPos => negb (Z.leb z 0) | SCheckType => true | SToken => false end.
Definition int_accepts (has_restr:bool) (restr:list (string*string)) (chain:list setter) (z:Z) : bool :=
  (if has_restr then forallb (fun f => zfacet (fst f) (snd f) z) restr else true) && forallb (fun k => zsetter k z) chain.
Definition is_int_r (r:rcls) : bool :=
  match r with
  | R types [] [] None None _ _ _ restr chain => existsb (fun t => match t with TInt => true | _ => false end) types
       && forallb (fun k => match k with SToken => false | _ => true end) chain
  | _ => false end.
Lemma facets_int restr z : facets restr (VInt z) = Ok <-> forallb (fun f => zfacet (fst f) (snd f) z) restr = true.
Proof.
  induction restr as [|[tag val] r IH]; simpl; [tauto|]. unfold zfacet at 1. simpl.
  destruct (String.eqb tag "minLength") eqn:E1.
  - apply String.eqb_eq in E1. subst. simpl. split; [discriminate|]. intros H. discriminate.
  - destruct (String.eqb tag "minExclusive") eqn:E2; simpl.
    + destruct (z_of_dec val) as [b|]; simpl; [|split; discriminate]. unfold cmp_fail. simpl. rewrite E2.
      destruct (Z.leb z b); simpl; [split; discriminate|]. rewrite IH. tauto.
    + destruct (String.eqb tag "minInclusive") eqn:E3; simpl.
      * destruct (z_of_dec val) as [b|]; simpl; [|split; discriminate]. unfold cmp_fail. simpl. rewrite E2, E3. unfold xlt. simpl.
        destruct (Z.leb b z); simpl; [rewrite IH; tauto|split; discriminate].
      * destruct (String.eqb tag "maxInclusive") eqn:E4; simpl.
        -- destruct (z_of_dec val) as [b|]; simpl; [|split; discriminate]. unfold cmp_fail. simpl. rewrite E2, E3, E4. unfold xlt. simpl.
           destruct (Z.leb z b); simpl; [rewrite IH; tauto|split; discriminate].
        -- rewrite IH. tauto.
Qed.
Theorem int_r_spec r : is_int_r r = true ->
  match r with R _ _ _ _ _ _ _ has_restr restr chain => forall z, fst (run r (VInt z)) = Ok <-> int_accepts has_restr restr chain z = true end.
Proof.
  destruct r as [types forced permitted members pattern pre_ sub has_restr restr chain]. simpl.
  destruct forced; try discriminate. destruct permitted; try discriminate. destruct members; try discriminate. destruct pattern; try discriminate.
  intros H. apply andb_true_iff in H as [HT HC]. intros z. unfold int_accepts.
  assert (CT: r_check_type types [] (VInt z) = Ok).
  { unfold r_check_type. simpl. clear -HT. induction types as [|[| |] t IH]; simpl in *; auto; try discriminate; rewrite IH; auto. }
  induction chain as [|k rest IH]; simpl in *.
  - rewrite CT. simpl. rewrite andb_true_r. destruct has_restr; simpl; [apply facets_int|tauto].
  - apply andb_true_iff in HC as [K HC]. specialize (IH HC). destruct k; try discriminate; simpl.
    + rewrite CT. rewrite IH. tauto.
    + match goal with |- fst (match ?g with _ => _ end) = _ <-> _ => destruct g as [[] v'] eqn:G end; simpl in *.
      * unfold xlt. simpl. destruct (Z.leb 0 z) eqn:L; simpl.
        -- rewrite <- IH. tauto.
        -- split; [discriminate|]. intros H. apply andb_true_iff in H as [_ H]. discriminate.
      * split; [discriminate|]. intros H. apply andb_true_iff in H as [A B]. apply andb_true_iff in B as [_ B]. assert (TypeErr = Ok) by (apply IH; rewrite A, B; auto). discriminate.
      * split; [discriminate|]. intros H. apply andb_true_iff in H as [A B]. apply andb_true_iff in B as [_ B]. assert (ValueErr = Ok) by (apply IH; rewrite A, B; auto). discriminate.
      * split; [discriminate|]. intros H. apply andb_true_iff in H as [A B]. apply andb_true_iff in B as [_ B]. assert (OtherErr = Ok) by (apply IH; rewrite A, B; auto). discriminate.
    + match goal with |- fst (match ?g with _ => _ end) = _ <-> _ => destruct g as [[] v'] eqn:G end; simpl in *.
      * destruct (Z.leb z 0) eqn:L; simpl.
        -- split; [discriminate|]. intros H. apply andb_true_iff in H as [_ H]. discriminate.
        -- rewrite <- IH. tauto.
      * split; [discriminate|]. intros H. apply andb_true_iff in H as [A B]. apply andb_true_iff in B as [_ B]. assert (TypeErr = Ok) by (apply IH; rewrite A, B; auto). discriminate.
      * split; [discriminate|]. intros H. apply andb_true_iff in H as [A B]. apply andb_true_iff in B as [_ B]. assert (ValueErr = Ok) by (apply IH; rewrite A, B; auto). discriminate.
      * split; [discriminate|]. intros H. apply andb_true_iff in H as [A B]. apply andb_true_iff in B as [_ B]. assert (OtherErr = Ok) by (apply IH; rewrite A, B; auto). discriminate.
Qed.

(* ---------- the schema side on rendered integers ---------- *)
Fixpoint nows (s:pstr) : bool := match s with [] => true | c :: t => negb (N.eqb c 32 || N.eqb c 9 || N.eqb c 10 || N.eqb c 13) && nows t end.
Lemma split_nows s : nows s = true -> split_cp 32 s = [s].
Proof.
  induction s as [|c t IH]; simpl; auto. intros H. apply andb_true_iff in H as [H1 H2]. apply negb_true_iff in H1.
  apply orb_false_iff in H1 as [H1 _]. apply orb_false_iff in H1 as [H1 _]. apply orb_false_iff in H1 as [H1 _]. rewrite H1. rewrite IH; auto.
Qed.
Lemma map_nows s : nows s = true -> map (fun c => if N.eqb c 9 || N.eqb c 10 || N.eqb c 13 then 32%N else c) s = s.
Proof.
  induction s as [|c t IH]; simpl; auto. intros H. apply andb_true_iff in H as [H1 H2]. apply negb_true_iff in H1.
  apply orb_false_iff in H1 as [H1 A]. apply orb_false_iff in H1 as [H1 B]. apply orb_false_iff in H1 as [H1 D]. rewrite D, B, A. simpl. rewrite IH; auto.
Qed.
Lemma collapse_nows s : nows s = true -> collapse s = s.
Proof. intros H. unfold collapse. rewrite map_nows by auto. rewrite split_nows by auto. destruct s; reflexivity. Qed.
Lemma nows_uint d : nows (cp (NilEmpty.string_of_uint d)) = true.
Proof. induction d; simpl; auto. Qed.
Lemma nows_render_int z : nows (render_int z) = true.
Proof.
  unfold render_int, NilZero.string_of_int, NilZero.string_of_uint.
  destruct (Z.to_int z) as [d|d]; destruct d; simpl; auto; apply nows_uint.
Qed.
Lemma Qle_bool_inject a b : Qle_bool (inject_Z a) (inject_Z b) = Z.leb a b.
Proof. unfold Qle_bool, inject_Z. simpl. rewrite !Z.mul_1_r. reflexivity. Qed.
Lemma parse_decimal_render_int z : parse_decimal (render_int z) = Some (inject_Z z).
Proof. unfold parse_decimal. rewrite parse_render_int. reflexivity. Qed.
(* what the schema says about an integer value, for the numeric types *)
Definition zbounds_ok (minI maxI minE:option Z) (z:Z) : bool :=
  match minI with Some b => Z.leb b z | None => true end && match maxI with Some b => Z.leb z b | None => true end && match minE with Some b => negb (Z.leb z b) | None => true end.
Fixpoint xint_ok (x:xr) (z:Z) : bool :=
  match x with
  | XDecimal | XInteger => true | XNonNeg => Z.leb 0 z | XPos => Z.ltb 0 z
  | XRestr base _ [] None None minI maxI minE => xint_ok base z && zbounds_ok minI maxI minE z
  | _ => false end.
Fixpoint numeric_xr (x:xr) : bool :=
  match x with XDecimal | XInteger | XNonNeg | XPos => true | XRestr base _ [] None None _ _ _ => numeric_xr base | _ => false end.
Theorem xrun_render_int x z : numeric_xr x = true -> xrun x (render_int z) = xint_ok x z.
Proof.
  induction x; simpl; intros N; try discriminate.
  - rewrite collapse_nows by apply nows_render_int. rewrite parse_decimal_render_int. reflexivity.
  - rewrite collapse_nows by apply nows_render_int. rewrite parse_render_int. reflexivity.
  - rewrite collapse_nows by apply nows_render_int. rewrite parse_render_int. reflexivity.
  - rewrite collapse_nows by apply nows_render_int. rewrite parse_render_int. reflexivity.
  - destruct enum; try discriminate. destruct pat; try discriminate. destruct minlen; try discriminate.
    rewrite IHx by auto. rewrite !andb_true_r. f_equal.
    rewrite collapse_nows by apply nows_render_int. rewrite parse_decimal_render_int.
    unfold qbounds_ok, zbounds_ok. destruct minI, maxI, minE; simpl; rewrite ?Qle_bool_inject; reflexivity.
Qed.

(* ---------- decimal-valued classes on finite floats ---------- *)
Definition qfacet (tag val:string) (q:Q) : bool :=
  if String.eqb tag "minExclusive" then match z_of_dec val with Some b => negb (Qle_bool q (inject_Z b)) | None => false end
  else if String.eqb tag "minInclusive" then match z_of_dec val with Some b => Qle_bool (inject_Z b) q | None => false end
  else if String.eqb tag "maxInclusive" then match z_of_dec val with Some b => Qle_bool q (inject_Z b) | None => false end
  else negb (String.eqb tag "minLength").
Definition qsetter (k:setter) (q:Q) : bool :=
  match k with SNonNeg => Qle_bool (inject_Z 0) q | SPos => negb (Qle_bool q (inject_Z 0)) | SCheckType => true | SToken => false end.
Definition float_accepts (has_restr:bool) (restr:list (string*string)) (chain:list setter) (q:Q) : bool :=
  (if has_restr then forallb (fun f => qfacet (fst f) (snd f) q) restr else true) && forallb (fun k => qsetter k q) chain.
Definition is_dec_r (r:rcls) : bool :=
  match r with
  | R types [] [] None None _ _ _ restr chain => existsb (fun t => match t with TFloat => true | _ => false end) types
       && forallb (fun k => match k with SToken => false | _ => true end) chain
  | _ => false end.
Definition finite_kind (k:fkind) : bool := match k with FPlain | FExp => true | _ => false end.
Lemma num_of_finite k q rp : finite_kind k = true -> num_of (VFloat k q rp) = Some (XFin q).
Proof. destruct k; simpl; auto; discriminate. Qed.
Lemma facets_float restr k q rp : finite_kind k = true -> facets restr (VFloat k q rp) = Ok <-> forallb (fun f => qfacet (fst f) (snd f) q) restr = true.
Proof.
  intros FK. induction restr as [|[tag val] r IH]; simpl; [tauto|]. unfold qfacet at 1. simpl.
  destruct (String.eqb tag "minLength") eqn:E1.
  - apply String.eqb_eq in E1. subst. simpl. split; [discriminate|]. intros H. discriminate.
  - destruct (String.eqb tag "minExclusive") eqn:E2; simpl.
    + destruct (z_of_dec val) as [b|]; simpl; [|split; discriminate]. unfold cmp_fail. rewrite (num_of_finite k q rp FK). rewrite E2. simpl.
      destruct (Qle_bool q (inject_Z b)); simpl; [split; discriminate|]. rewrite IH. tauto.
    + destruct (String.eqb tag "minInclusive") eqn:E3; simpl.
      * destruct (z_of_dec val) as [b|]; simpl; [|split; discriminate]. unfold cmp_fail. rewrite (num_of_finite k q rp FK). rewrite E2, E3. unfold xlt. simpl.
        destruct (Qle_bool (inject_Z b) q); simpl; [rewrite IH; tauto|split; discriminate].
      * destruct (String.eqb tag "maxInclusive") eqn:E4; simpl.
        -- destruct (z_of_dec val) as [b|]; simpl; [|split; discriminate]. unfold cmp_fail. rewrite (num_of_finite k q rp FK). rewrite E2, E3, E4. unfold xlt. simpl.
           destruct (Qle_bool q (inject_Z b)); simpl; [rewrite IH; tauto|split; discriminate].
        -- rewrite IH. tauto.
Qed.
Theorem float_r_spec r : is_dec_r r = true ->
  match r with R _ _ _ _ _ _ _ has_restr restr chain =>
    forall k q rp, finite_kind k = true -> fst (run r (VFloat k q rp)) = Ok <-> float_accepts has_restr restr chain q = true end.
Proof.
  destruct r as [types forced permitted members pattern pre_ sub has_restr restr chain]. simpl.
  destruct forced; try discriminate. destruct permitted; try discriminate. destruct members; try discriminate. destruct pattern; try discriminate.
  intros H. apply andb_true_iff in H as [HT HC]. intros fk q rp FK. unfold float_accepts.
  assert (CT: r_check_type types [] (VFloat fk q rp) = Ok).
  { unfold r_check_type. simpl. clear -HT. induction types as [|[| |] t IH]; simpl in *; auto; try discriminate; rewrite IH; auto. }
  pose proof (num_of_finite fk q rp FK) as NO.
  induction chain as [|k rest IH]; simpl in *.
  - rewrite CT. simpl. rewrite andb_true_r. destruct has_restr; simpl; [apply facets_float; auto|tauto].
  - apply andb_true_iff in HC as [K HC]. specialize (IH HC). destruct k; try discriminate; simpl.
    + rewrite CT. rewrite IH. tauto.
    + match goal with |- fst (match ?g with _ => _ end) = _ <-> _ => destruct g as [[] v'] eqn:G end; simpl in *.
      * rewrite NO. unfold xlt. simpl. destruct (Qle_bool (inject_Z 0) q) eqn:L; simpl.
        -- rewrite <- IH. tauto.
        -- split; [discriminate|]. intros H. apply andb_true_iff in H as [_ H]. discriminate.
      * split; [discriminate|]. intros H. apply andb_true_iff in H as [A B]. apply andb_true_iff in B as [_ B]. assert (TypeErr = Ok) by (apply IH; rewrite A, B; auto). discriminate.
      * split; [discriminate|]. intros H. apply andb_true_iff in H as [A B]. apply andb_true_iff in B as [_ B]. assert (ValueErr = Ok) by (apply IH; rewrite A, B; auto). discriminate.
      * split; [discriminate|]. intros H. apply andb_true_iff in H as [A B]. apply andb_true_iff in B as [_ B]. assert (OtherErr = Ok) by (apply IH; rewrite A, B; auto). discriminate.
    + match goal with |- fst (match ?g with _ => _ end) = _ <-> _ => destruct g as [[] v'] eqn:G end; simpl in *.
      * rewrite NO. simpl. destruct (Qle_bool q (inject_Z 0)) eqn:L; simpl.
        -- split; [discriminate|]. intros H. apply andb_true_iff in H as [_ H]. discriminate.
        -- rewrite <- IH. tauto.
      * split; [discriminate|]. intros H. apply andb_true_iff in H as [A B]. apply andb_true_iff in B as [_ B]. assert (TypeErr = Ok) by (apply IH; rewrite A, B; auto). discriminate.
      * split; [discriminate|]. intros H. apply andb_true_iff in H as [A B]. apply andb_true_iff in B as [_ B]. assert (ValueErr = Ok) by (apply IH; rewrite A, B; auto). discriminate.
      * split; [discriminate|]. intros H. apply andb_true_iff in H as [A B]. apply andb_true_iff in B as [_ B]. assert (OtherErr = Ok) by (apply IH; rewrite A, B; auto). discriminate.
Qed.
(* the schema side on a text that is a plain decimal numeral of value q' *)
Fixpoint decimal_xr (x:xr) : bool := match x with XDecimal => true | XRestr base _ [] None None _ _ _ => decimal_xr base | _ => false end.
Fixpoint xq_ok (x:xr) (q:Q) : bool :=
  match x with XDecimal => true | XRestr base _ [] None None minI maxI minE => xq_ok base q && qbounds_ok minI maxI minE q | _ => false end.
Lemma Qle_bool_compat a b c d : a == b -> c == d -> Qle_bool a c = Qle_bool b d.
Proof. intros E1 E2. apply Bool.eq_true_iff_eq. rewrite !Qle_bool_iff. rewrite E1, E2. tauto. Qed.
Lemma qbounds_compat mi ma me p q : p == q -> qbounds_ok mi ma me p = qbounds_ok mi ma me q.
Proof.
  intros E. unfold qbounds_ok. destruct mi, ma, me; simpl;
    rewrite ?(Qle_bool_compat _ _ p q (Qeq_refl _) E), ?(Qle_bool_compat p q _ _ E (Qeq_refl _)); reflexivity.
Qed.
Lemma xq_ok_compat x p q : p == q -> xq_ok x p = xq_ok x q.
Proof.
  intros E. induction x; simpl; auto. destruct enum; auto. destruct pat; auto. destruct minlen; auto. rewrite IHx. rewrite (qbounds_compat minI maxI minE p q E). reflexivity.
Qed.
Theorem xrun_plain_decimal x rp q' : decimal_xr x = true -> nows rp = true -> parse_decimal rp = Some q' -> xrun x rp = xq_ok x q'.
Proof.
  intros D NW P. induction x; simpl in *; try discriminate.
  - rewrite collapse_nows by auto. rewrite P. reflexivity.
  - destruct enum; try discriminate. destruct pat; try discriminate. destruct minlen; try discriminate.
    rewrite IHx by auto. rewrite !andb_true_r. f_equal. rewrite collapse_nows by auto. rewrite P.
    destruct minI, maxI, minE; reflexivity.
Qed.

(* ---------- pattern classes without pre-processing, and free string classes ---------- *)
Definition str_chain (chain:list setter) : bool := forallb (fun k => match k with SCheckType | SToken => true | _ => false end) chain.
Definition is_pat_r (r:rcls) : option cre :=
  match r with R [TStr] [] [] None (Some p) PreNone _ _ _ chain => if str_chain chain then Some p else None | _ => None end.
Theorem pat_r_spec r p : is_pat_r r = Some p -> forall s, fst (run r (VStr s)) = if cmatch p s then Ok else ValueErr.
Proof.
  destruct r as [types forced permitted members pattern pre_ sub has_restr restr chain]. simpl.
  destruct types as [|[| |] [|? ?]]; try discriminate. destruct forced; try discriminate. destruct permitted; try discriminate.
  destruct members; try discriminate. destruct pattern as [q|]; try discriminate. destruct pre_; try discriminate.
  destruct (str_chain chain) eqn:EC; try discriminate. intros E s. injection E as ->.
  induction chain as [|k rest IH]; simpl in *.
  - unfold r_check_type. simpl. destruct (cmatch p s); reflexivity.
  - apply andb_true_iff in EC as [K EC]. specialize (IH EC). destruct k; try discriminate.
    + unfold r_check_type at 1. simpl. exact IH.
    + match goal with |- fst (match ?g with _ => _ end) = _ => destruct g as [[] v'] eqn:G end; simpl in *; auto.
Qed.
(* free strings: no facet that looks at the value *)
Definition harmless (restr:list (string*string)) : bool :=
  forallb (fun kv => negb (String.eqb (fst kv) "minLength" || String.eqb (fst kv) "minExclusive" || String.eqb (fst kv) "minInclusive" || String.eqb (fst kv) "maxInclusive")) restr.
Lemma facets_harmless restr v : harmless restr = true -> facets restr v = Ok.
Proof.
  induction restr as [|[tag val] r IH]; simpl; intros H; auto. apply andb_true_iff in H as [H1 H2]. apply negb_true_iff in H1.
  apply orb_false_iff in H1 as [H1 D]. apply orb_false_iff in H1 as [H1 C]. apply orb_false_iff in H1 as [A B]. simpl in *.
  rewrite A, B, C, D. simpl. auto.
Qed.
Definition is_free_r (r:rcls) : bool :=
  match r with R [TStr] [] [] None None _ _ has_restr restr chain => str_chain chain && (negb has_restr || harmless restr) | _ => false end.
Theorem free_r_run r : is_free_r r = true -> forall s, fst (run r (VStr s)) = Ok /\ (cleaned_token s = s -> run r (VStr s) = (Ok, VStr s)).
Proof.
  destruct r as [types forced permitted members pattern pre_ sub has_restr restr chain]. simpl.
  destruct types as [|[| |] [|? ?]]; try discriminate. destruct forced; try discriminate. destruct permitted; try discriminate.
  destruct members; try discriminate. destruct pattern; try discriminate. intros H s. apply andb_true_iff in H as [EC HR].
  assert (F: (if has_restr then facets restr (VStr s) else Ok) = Ok).
  { destruct has_restr; auto. simpl in HR. apply facets_harmless; auto. }
  induction chain as [|k rest IH]; simpl in *.
  - unfold r_check_type. simpl. destruct has_restr; simpl; [rewrite F|]; auto.
  - apply andb_true_iff in EC as [K EC]. specialize (IH EC). destruct IH as [IH1 IH2]. destruct k; try discriminate.
    + unfold r_check_type at 1 3. simpl. auto.
    + match goal with |- fst (match ?g with _ => _ end) = _ /\ _ => destruct g as [[] v'] eqn:G end; simpl in *; try discriminate.
      split; auto. intros C. rewrite C. reflexivity.
Qed.
Theorem free_r_spec r : is_free_r r = true -> forall s, fst (run r (VStr s)) = Ok.
Proof. intros H s. apply (free_r_run r H s). Qed.
(* pattern classes that clean the string as a token first (restriction of xs:token with a pattern) *)
Definition is_pat_tok_r (r:rcls) : option cre :=
  match r with R [TStr] [] [] None (Some p) PreToken (Some sub) _ _ chain => if str_chain chain && is_free_r sub then Some p else None | _ => None end.
Theorem pat_tok_r_spec r p : is_pat_tok_r r = Some p -> forall s, cleaned_token s = s -> fst (run r (VStr s)) = if cmatch p s then Ok else ValueErr.
Proof.
  destruct r as [types forced permitted members pattern pre_ sub has_restr restr chain]. simpl.
  destruct types as [|[| |] [|? ?]]; try discriminate. destruct forced; try discriminate. destruct permitted; try discriminate.
  destruct members; try discriminate. destruct pattern as [q|]; try discriminate. destruct pre_; try discriminate. destruct sub as [sub|]; try discriminate.
  destruct (str_chain chain && is_free_r sub) eqn:EC; try discriminate. intros E s C. injection E as ->. apply andb_true_iff in EC as [EC FS].
  pose proof (proj2 (free_r_run sub FS s) C) as RS.
  induction chain as [|k rest IH]; simpl in *.
  - unfold r_check_type. simpl. rewrite RS. destruct (cmatch p s); reflexivity.
  - apply andb_true_iff in EC as [K EC]. specialize (IH EC). destruct k; try discriminate.
    + unfold r_check_type at 1. simpl. exact IH.
    + match goal with |- fst (match ?g with _ => _ end) = _ => destruct g as [[] v'] eqn:G end; simpl in *; auto.
Qed.
