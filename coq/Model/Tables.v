(* C03: comparison of the schema-side tables (Gen/Schema.v, produced by an independent XSD reader) with what the
   live classes of the library say (Gen/Lib.v, Gen/Templates.v).  Every clause is a boolean function of the two
   generated tables; the language clause is lifted to all words by peq_sound. *)
From MX Require Import Spec.Particle Spec.Deriv Spec.Equiv Spec.Naming Gen.Schema Gen.Templates Gen.Lib.
From Coq Require Import List String Bool Arith.
Import ListNotations.
Open Scope string_scope.

(* ---- class expected for a declared type ---- *)
Definition anon_key (ty:string) : option string :=
  if String.prefix "<anon>" ty then Some (String.substring 6 (String.length ty - 6) ty) else None.
Definition expected_type_class (ty:string) : option string :=
  match anon_key ty with
  | Some k => Some (xsd_complex_class_name k)
  | None =>
    if has_prefix ty then Some (xsd_simple_class_name ty) else
    match assoc_str ty xsd_type_is_complex with
    | Some true => Some (xsd_complex_class_name ty)
    | Some false => Some (xsd_simple_class_name ty)
    | None => None end
  end.
Definition classes_for (name:string) : list (string*string*string) :=
  filter (fun c => let '(_, n, _) := c in String.eqb n name) lib_classes.
(* exactly one class; it has the documented name; it is bound to the declared type *)
Definition elem_ok (e:string*string) : bool :=
  let '(name, ty) := e in
  match classes_for name with
  | [(cls, _, tcls)] => String.eqb cls (xml_class_name name) &&
                        match expected_type_class ty with Some x => String.eqb x tcls | None => false end
  | _ => false end.
Definition all_elems_ok := forallb elem_ok xsd_elements.
Definition class_declared (c:string*string*string) : bool := let '(_, n, _) := c in existsb (fun e => String.eqb (fst e) n) xsd_elements.
Definition no_extra_classes := forallb class_declared lib_classes.
Definition element_names : list string := map fst xsd_elements.
Fixpoint dedup_adj (l:list string) : list string :=
  match l with a :: ((b :: _) as t) => if String.eqb a b then dedup_adj t else a :: dedup_adj t | _ => l end.
Definition names_injective := nodup_str (map xml_class_name (dedup_adj element_names)).
Definition one_type_per_name := nodup_str element_names.

(* ---- content models ---- *)
Definition lib_template (key:string) : option particle := assoc_str (xsd_complex_class_name key) lib_templates.
Definition cm_ok (r:string*bool*option particle*option string) : bool :=
  let '(key, _, xp, _) := r in
  match xp, lib_template key with
  | Some x, Some l => peq 40 x l && wf (re_of x) && wf (re_of l)
  | None, None => true
  | _, _ => false end.
Definition all_cm_ok := forallb cm_ok xsd_ctypes.
Definition template_declared (t:string*particle) : bool := existsb (fun r => let '(key, _, _, _) := r in String.eqb (xsd_complex_class_name key) (fst t)) xsd_ctypes.
Definition no_extra_templates := forallb template_declared lib_templates.

(* ---- attribute tables ---- *)
Definition xsd_attrs_of (key:string) : list (string*string*bool) :=
  map (fun r => let '(_, n, t, q) := r in (n, t, q)) (filter (fun r => let '(k, _, _, _) := r in String.eqb k key) xsd_attr_rows).
Definition lib_ctype (key:string) : option (atable * option string) :=
  assoc_str (xsd_complex_class_name key) (map (fun r => let '(k, a, s) := r in (k, (a, s))) lib_ctypes).
Definition row_eq (x:string*string*bool) (l:arow) : bool :=
  let '(n, t, q) := x in
  match l with
  | ARow ln lt lq ltc => String.eqb (strip_prefix n) ln && String.eqb t lt && Bool.eqb q lq
                         && (String.eqb t "" || String.eqb ltc (xsd_simple_class_name t))
  | ARowExc _ => false end.
Fixpoint rows_eq (xs:list (string*string*bool)) (ls:list arow) : bool :=
  match xs, ls with [], [] => true | x :: xt, l :: lt => row_eq x l && rows_eq xt lt | _, _ => false end.
Definition attrs_ok (key:string) : bool :=
  match lib_ctype key with
  | Some (ATable rows, _) => rows_eq (xsd_attrs_of key) rows
  | _ => false end.
(* the deviations recorded as known findings (RC11 xlink tables, RC14 lyric-language, RC15 xs:anyURI):
   every other complex type must agree row by row, in declaration order *)
Definition attr_deviations : list string := ["link"; "opus"; "part-link"; "lyric-language"; "image"].
Definition all_attrs_ok := forallb (fun r => let '(key, _, _, _) := r in mem_str key attr_deviations || attrs_ok key) xsd_ctypes.
Definition simple_ok (r:string*bool*option particle*option string) : bool :=
  let '(key, _, _, sb) := r in
  match lib_ctype key with
  | Some (_, ls) => match sb, ls with
                    | Some b, Some c => String.eqb (xsd_simple_class_name b) c
                    | None, None => true
                    (* directive: anonymous type with simple content, hand-maintained *)
                    | _, _ => false end
  | None => false end.
Definition all_simple_ok := forallb simple_ok xsd_ctypes.
Definition ctype_declared (r:string*atable*option string) : bool := let '(k, _, _) := r in existsb (fun x => let '(key, _, _, _) := x in String.eqb (xsd_complex_class_name key) k) xsd_ctypes.
Definition no_extra_ctypes := forallb ctype_declared lib_ctypes.

(* ---- joined tables: every lookup is done on closed terms (by computation), so no theorem mentions a lookup with an
   abstract key and the kernel never has to compare partially unfolded tables ---- *)
Definition cm_rows : list (string * option particle * option particle) :=
  map (fun r => let '(key, _, xp, _) := r in (key, xp, lib_template key)) xsd_ctypes.
Definition cm_row_ok (r:string * option particle * option particle) : bool :=
  let '(_, xp, lt) := r in
  match xp, lt with Some x, Some l => peq 40 x l && wf (re_of x) && wf (re_of l) | None, None => true | _, _ => false end.
Definition attr_cmp_rows : list (string * list (string*string*bool) * option (atable * option string)) :=
  map (fun r => let '(key, _, _, _) := r in (key, xsd_attrs_of key, lib_ctype key)) xsd_ctypes.
Definition attr_row_ok (r:string * list (string*string*bool) * option (atable * option string)) : bool :=
  let '(key, xs, lc) := r in
  mem_str key attr_deviations || match lc with Some (ATable rows, _) => rows_eq xs rows | _ => false end.

Lemma forallb_In {A} (f:A->bool) l x : forallb f l = true -> In x l -> f x = true.
Proof. intros E I. exact (proj1 (forallb_forall f l) E x I). Qed.
Lemma cm_row_sound key x l : cm_row_ok (key, Some x, Some l) = true ->
  (forall w, Lang (re_of x) w <-> Lang (re_of l) w) /\ (forall w, accepts (re_of l) w = true <-> Lang (re_of x) w).
Proof.
  unfold cm_row_ok. intros H.
  apply andb_true_iff in H as [H W2]. apply andb_true_iff in H as [H W1].
  assert (Q: forall w, Lang (re_of x) w <-> Lang (re_of l) w) by (apply (peq_sound 40); auto).
  split; auto. intros w. rewrite accepts_iff by auto. symmetry. apply Q.
Qed.
Lemma cm_row_presence key xp lt : cm_row_ok (key, xp, lt) = true -> (xp = None <-> lt = None).
Proof. unfold cm_row_ok. destruct xp, lt; intros H; split; intros E; try discriminate; auto. Qed.
Lemma attr_row_sound key xs lc : attr_row_ok (key, xs, lc) = true ->
  In key attr_deviations \/ exists rows s, lc = Some (ATable rows, s) /\ rows_eq xs rows = true.
Proof.
  unfold attr_row_ok. intros H. apply orb_true_iff in H as [H|H]; [left; apply mem_str_In; exact H | right].
  destruct lc as [[[rows|e] s]|]; try discriminate. exists rows, s. auto.
Qed.
