(* Interleaving semantics of a lazily initialised class-level table, one instruction per Python line, any number of
   threads, arbitrary schedule (a list of thread ids, unbounded).
     publish-then-fill :  if cache is None: cache = []; cache.append(a1); ...; cache.append(an);   return cache
     compute-then-publish: if cache is None: tmp = []; tmp.append(a1); ...; tmp.append(an); cache = tmp; return cache
   Modelled, not verified: a single attribute store / list.append is atomic under CPython's GIL; pre-emption happens
   between lines only (as the property states). *)
From Coq Require Import List Arith Bool Lia.
Import ListNotations.

Inductive instr := CheckNone (skip_to:nat) | PublishEmpty | Append (x:nat) | LocalNew | LocalAppend (x:nat) | PublishLocal | Return.
Definition prog := list instr.
Record thread := mkT { pc : nat; loc : list nat; result : option (list nat) }.
Record state := mkS { cache : option (list nat); threads : list thread }.
Fixpoint set_nth {A} (i:nat) (x:A) (l:list A) : list A := match l, i with [], _ => [] | _ :: t, 0 => x :: t | h :: t, S j => h :: set_nth j x t end.
Definition step1 (p:prog) (c:option (list nat)) (t:thread) : option (list nat) * thread :=
  match result t with Some _ => (c, t) | None =>
  match nth_error p (pc t) with
  | None => (c, t)
  | Some i =>
    match i with
    | CheckNone k => match c with None => (c, mkT (S (pc t)) (loc t) None) | Some _ => (c, mkT k (loc t) None) end
    | PublishEmpty => (Some [], mkT (S (pc t)) (loc t) None)
    | Append x => (match c with Some l => Some (l ++ [x]) | None => None end, mkT (S (pc t)) (loc t) None)
    | LocalNew => (c, mkT (S (pc t)) [] None)
    | LocalAppend x => (c, mkT (S (pc t)) (loc t ++ [x]) None)
    | PublishLocal => (Some (loc t), mkT (S (pc t)) (loc t) None)
    | Return => (c, mkT (pc t) (loc t) (Some (match c with Some l => l | None => [] end)))
    end end end.
Definition step (p:prog) (s:state) (tid:nat) : state :=
  match nth_error (threads s) tid with None => s | Some t =>
    let '(c', t') := step1 p (cache s) t in mkS c' (set_nth tid t' (threads s)) end.
Definition run (p:prog) (sched:list nat) (s:state) : state := fold_left (step p) sched s.
Definition t0 := mkT 0 [] None.
Definition init (n:nat) : state := mkS None (repeat t0 n).
Definition prog_publish_first (tbl:list nat) : prog := [CheckNone (2 + length tbl); PublishEmpty] ++ map Append tbl ++ [Return].
Definition prog_compute_first (tbl:list nat) : prog := [CheckNone (3 + length tbl); LocalNew] ++ map LocalAppend tbl ++ [PublishLocal; Return].

(* ---- refutation for publish-then-fill: ONE pre-emption right after the publish ---- *)
Example publish_first_refuted : exists sched, let s := run (prog_publish_first [7;8;9]) sched (init 2) in
   nth_error (map result (threads s)) 1 = Some (Some []).
Proof. exists [0;0; 1;1]. vm_compute. reflexivity. Qed.

(* ---- compute-then-publish: every thread that returns, returns the full table, under EVERY schedule ---- *)
Section Safe.
  Variable tbl : list nat.
  Let p := prog_compute_first tbl.
  Let n := length tbl.
  Lemma prog_at k : nth_error p k =
    if Nat.eqb k 0 then Some (CheckNone (3 + n)) else if Nat.eqb k 1 then Some LocalNew
    else if Nat.ltb k (2 + n) then option_map LocalAppend (nth_error tbl (k - 2))
    else if Nat.eqb k (2 + n) then Some PublishLocal else if Nat.eqb k (3 + n) then Some Return else None.
  Proof.
    unfold p, prog_compute_first, n. destruct k as [|[|k]]; simpl; auto.
    replace (k - 0) with k by lia.
    destruct (Nat.ltb_spec (S (S k)) (S (S (length tbl)))).
    - rewrite nth_error_app1 by (rewrite map_length; lia). apply nth_error_map.
    - rewrite nth_error_app2 by (rewrite map_length; lia). rewrite map_length.
      destruct (Nat.eqb_spec k (length tbl)).
      + subst. rewrite Nat.sub_diag. reflexivity.
      + destruct (Nat.eqb_spec k (S (length tbl))).
        * subst. replace (S (length tbl) - length tbl) with 1 by lia. reflexivity.
        * destruct (k - length tbl) as [|[|m]] eqn:E; try lia. simpl. destruct m; auto.
  Qed.
  Definition tinv (c:option (list nat)) (t:thread) : Prop :=
    match result t with
    | Some r => r = tbl
    | None => pc t <= 1 \/ (2 <= pc t <= 2 + n /\ loc t = firstn (pc t - 2) tbl) \/ (pc t = 3 + n /\ c = Some tbl)
    end.
  Definition sinv (s:state) : Prop := (cache s = None \/ cache s = Some tbl) /\ Forall (tinv (cache s)) (threads s).

  Lemma firstn_snoc k x : nth_error tbl k = Some x -> firstn k tbl ++ [x] = firstn (S k) tbl.
  Proof.
    revert k. induction tbl as [|a l IH]; intros k E; destruct k; simpl in *; try discriminate.
    - injection E as <-. reflexivity.
    - f_equal. apply IH. auto.
  Qed.
  Lemma tinv_mono c t : tinv c t -> (c = None \/ c = Some tbl) -> forall c', (c = Some tbl -> c' = Some tbl) -> tinv c' t.
  Proof.
    unfold tinv. destruct (result t); auto. intros [H|[H|[H1 H2]]] _ c' Hc; auto; right; right; auto.
  Qed.
  Lemma Forall_set_nth {A} (P:A -> Prop) x l : forall i, Forall P l -> P x -> Forall P (set_nth i x l).
  Proof.
    induction l as [|h t IH]; intros i F Px.
    - destruct i; simpl; constructor.
    - inversion F as [|? ? Hh Ht]; subst. destruct i as [|j]; simpl.
      + constructor; assumption.
      + constructor; [assumption|]. apply IH; assumption.
  Qed.
  Lemma step_inv s tid : sinv s -> sinv (step p s tid).
  Proof.
    intros [C F]. unfold step. destruct (nth_error (threads s) tid) as [t|] eqn:E; [|split; auto].
    assert (T: tinv (cache s) t) by (rewrite Forall_forall in F; apply F; eapply nth_error_In; eauto).
    unfold step1. destruct (result t) as [r|] eqn:R.
    - simpl. split; auto. apply Forall_set_nth; auto.
    - rewrite prog_at. unfold tinv in T. rewrite R in T.
      destruct (Nat.eqb_spec (pc t) 0) as [P0|P0].
      { (* CheckNone *) destruct (cache s) as [l|] eqn:Cs; unfold sinv; simpl.
        - split; [exact C|]. apply Forall_set_nth; [exact F|].
          unfold tinv. simpl. right; right. split; auto. destruct C as [C|C]; [discriminate|auto].
        - split; [exact C|]. apply Forall_set_nth; [exact F|]. unfold tinv. simpl. left. lia. }
      destruct (Nat.eqb_spec (pc t) 1) as [P1|P1].
      { (* LocalNew *) simpl. split; auto. apply Forall_set_nth; auto. unfold tinv. simpl. right; left. rewrite P1. split; [lia|reflexivity]. }
      destruct (Nat.ltb_spec (pc t) (2 + n)) as [Pl|Pl].
      { (* LocalAppend *) destruct T as [T|[[T1 T2]|[T1 T2]]]; try lia.
        destruct (nth_error tbl (pc t - 2)) as [x|] eqn:Nx; simpl.
        - split; auto. apply Forall_set_nth; auto. unfold tinv. simpl. right; left. split; [lia|].
          rewrite T2. replace (pc t - 1) with (S (pc t - 2)) by lia. apply firstn_snoc; auto.
        - split; auto. apply Forall_set_nth; auto. unfold tinv. rewrite R. auto. }
      destruct (Nat.eqb_spec (pc t) (2 + n)) as [P2|P2].
      { (* PublishLocal *) destruct T as [T|[[T1 T2]|[T1 T2]]]; try lia. simpl.
        assert (L: loc t = tbl) by (rewrite T2, P2; replace (2 + n - 2) with n by lia; apply firstn_all).
        rewrite L. split; [right; auto|].
        apply Forall_set_nth.
        - rewrite Forall_forall in *. intros u Hu. eapply tinv_mono; eauto.
        - unfold tinv. simpl. right; right. split; [lia|reflexivity]. }
      destruct (Nat.eqb_spec (pc t) (3 + n)) as [P3|P3].
      { (* Return *) destruct T as [T|[[T1 T2]|[T1 T2]]]; try lia. simpl. split; auto. apply Forall_set_nth; auto.
        unfold tinv. simpl. rewrite T2. reflexivity. }
      simpl. split; auto. apply Forall_set_nth; auto. unfold tinv. rewrite R. auto.
  Qed.
  Lemma init_inv k : sinv (init k).
  Proof. split; simpl; auto. induction k; simpl; constructor; auto. unfold tinv. simpl. left. lia. Qed.
  Theorem compute_then_publish_safe : forall k sched t r, In t (threads (run p sched (init k))) -> result t = Some r -> r = tbl.
  Proof.
    intros k sched.
    assert (G: forall s, sinv s -> sinv (run p sched s)).
    { unfold run. induction sched as [|a sc IH]; intros s H; simpl; auto. apply IH. apply step_inv; auto. }
    intros t r I R. destruct (G _ (init_inv k)) as [_ F]. rewrite Forall_forall in F. specialize (F t I). unfold tinv in F. rewrite R in F. auto.
  Qed.
  (* and the shared table itself is never seen half-built: it is None or complete in every reachable state *)
  Theorem cache_never_partial : forall k sched, cache (run p sched (init k)) = None \/ cache (run p sched (init k)) = Some tbl.
  Proof.
    intros k sched.
    assert (G: forall s, sinv s -> sinv (run p sched s)).
    { unfold run. induction sched as [|a sc IH]; intros s H; simpl; auto. apply IH. apply step_inv; auto. }
    destruct (G _ (init_inv k)) as [C _]. auto.
  Qed.
End Safe.
(* non-vacuity: a schedule with pre-emptions in which both threads return the full table *)
Example compute_first_example : map result (threads (run (prog_compute_first [7;8;9]) [0;0;1;1;0;1;0;1;0;1;0;1;0;1;1] (init 2))) = [Some [7;8;9]; Some [7;8;9]].
Proof. vm_compute. reflexivity. Qed.

(* ---- a process-wide nesting counter (enter: counter += 1; ...; leave: counter -= 1; "outermost" = the counter is back at 0) is not a cache at all:
        a thread that runs its whole bracket while another one is inside its own never sees 0 where it would alone ---- *)
Inductive cinstr := CEnter | CLeave | CObserve.
Record cthread := mkC { cpc : nat; seen : list nat }.
Definition cprog : list cinstr := [CEnter; CLeave; CObserve].
Definition cstep1 (n:nat) (t:cthread) : nat * cthread :=
  match nth_error cprog (cpc t) with
  | Some CEnter => (S n, mkC (S (cpc t)) (seen t))
  | Some CLeave => (pred n, mkC (S (cpc t)) (seen t))
  | Some CObserve => (n, mkC (S (cpc t)) (seen t ++ [n]))
  | None => (n, t) end.
Definition cstep (s:nat * list cthread) (tid:nat) : nat * list cthread :=
  match nth_error (snd s) tid with None => s | Some t => let '(n', t') := cstep1 (fst s) t in (n', set_nth tid t' (snd s)) end.
Definition crun (sched:list nat) (k:nat) : nat * list cthread := fold_left cstep sched (0, repeat (mkC 0 []) k).
(* alone: the observation after the bracket is 0 *)
Example counter_alone : map seen (snd (crun [0;0;0] 1)) = [[0]].
Proof. vm_compute. reflexivity. Qed.
(* thread 1 runs entirely while thread 0 is inside its bracket: it observes 1 *)
Example global_counter_refuted : exists sched, nth_error (map seen (snd (crun sched 2))) 1 = Some [1].
Proof. exists [0; 1;1;1; 0;0]. vm_compute. reflexivity. Qed.
