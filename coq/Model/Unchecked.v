(* xsd_check=False: the child-handling half of XMLElement when the matcher is switched off (add_child appends,
   remove deletes the first occurrence, replace_child substitutes in place, get_children = insertion list), and the
   per-node gating of _final_checks / to_string over a tree of checked and unchecked elements. *)
From Coq Require Import List Arith Bool.
Import ListNotations.

Inductive uop := UAdd | URemove (k:nat) | UReplace (k:nat) | UFinal.
Inductive uout := UOk | UNoSuchChild.
(* state: insertion list of child ids, id counter *)
Definition ust := (list nat * nat)%type.
Fixpoint remove_at {A} (k:nat) (l:list A) : list A := match k, l with 0, _ :: t => t | S j, h :: t => h :: remove_at j t | _, [] => [] end.
Fixpoint set_at {A} (k:nat) (x:A) (l:list A) : list A := match k, l with 0, _ :: t => x :: t | S j, h :: t => h :: set_at j x t | _, [] => [] end.
Definition ustep (s:ust) (o:uop) : ust * uout :=
  let '(l, n) := s in
  match o with
  | UAdd => ((l ++ [n], S n), UOk)
  | URemove k => if Nat.ltb k (length l) then ((remove_at k l, S n), UOk) else ((l, S n), UNoSuchChild)
  | UReplace k => if Nat.ltb k (length l) then ((set_at k n l, S n), UOk) else ((l, S n), UNoSuchChild)
  | UFinal => ((l, S n), UOk) end.
Fixpoint utrace (s:ust) (ops:list uop) : list (uout * list nat) :=
  match ops with [] => [] | o :: r => let s' := fst (ustep s o) in (snd (ustep s o), fst s') :: utrace s' r end.
(* the only non-success is asking for a child that is not there (ValueError: x not in list) - never a structural rejection *)
Theorem unchecked_never_structural : forall s o, snd (ustep s o) = UNoSuchChild -> exists k, (o = URemove k \/ o = UReplace k) /\ length (fst s) <= k.
Proof.
  intros [l n] o. destruct o as [|k|k|]; simpl; try discriminate.
  - destruct (Nat.ltb_spec k (length l)); simpl; [discriminate|]. intros _. exists k. auto.
  - destruct (Nat.ltb_spec k (length l)); simpl; [discriminate|]. intros _. exists k. auto.
Qed.
(* children are kept in insertion order: an add appends at the end and nothing else ever moves a child *)
Theorem unchecked_add_appends : forall l n, fst (fst (ustep (l, n) UAdd)) = l ++ [n].
Proof. reflexivity. Qed.

(* ---- trees of checked / unchecked elements ---- *)
(* own_ok: the element's own requirements (value, required children, required attributes) are met *)
Inductive etree := ENode (checked own_ok : bool) (kids : list etree).
Fixpoint final_checks (t:etree) : bool :=
  match t with ENode c ok k => (negb c || ok) && forallb final_checks k end.
Definition to_string_ok (t:etree) : bool := match t with ENode c _ _ => negb c || final_checks t end.
Fixpoint nodes (t:etree) : list (bool * bool) := match t with ENode c ok k => (c, ok) :: flat_map nodes k end.

Section etree_ind2.
  Variable P : etree -> Prop.
  Hypothesis H : forall c ok k, Forall P k -> P (ENode c ok k).
  Fixpoint etree_ind2 (t:etree) : P t :=
    match t with ENode c ok k => H c ok k ((fix go (l:list etree) : Forall P l := match l with [] => Forall_nil P | x :: r => Forall_cons x (etree_ind2 x) (go r) end) k) end.
End etree_ind2.
(* the final check of a tree passes exactly when every CHECKED node in it is complete; unchecked nodes are exempt but
   do not shield the checked nodes below them *)
Theorem final_checks_gating t : final_checks t = true <-> (forall c ok, In (c, ok) (nodes t) -> c = true -> ok = true).
Proof.
  induction t using etree_ind2. simpl. rewrite andb_true_iff. split.
  - intros [A B] c0 ok0 [E|I] Hc.
    + injection E as <- <-. subst. simpl in A. auto.
    + apply in_flat_map in I as (x & Hx & I). rewrite forallb_forall in B. rewrite Forall_forall in H.
      apply (proj1 (H x Hx) (B x Hx) c0 ok0 I Hc).
  - intros G. split.
    + destruct c; simpl; auto. apply (G true ok); auto.
    + apply forallb_forall. intros x Hx. rewrite Forall_forall in H. apply (H x Hx). intros c0 ok0 I Hc.
      apply (G c0 ok0); auto. right. apply in_flat_map. exists x; auto.
Qed.
(* to_string of an unchecked element never refuses; of a checked element it refuses iff some checked node of its tree is incomplete *)
Theorem to_string_unchecked : forall ok k, to_string_ok (ENode false ok k) = true.
Proof. reflexivity. Qed.
Theorem to_string_checked : forall ok k, to_string_ok (ENode true ok k) = true <-> (forall c o, In (c, o) (nodes (ENode true ok k)) -> c = true -> o = true).
Proof. intros ok k. unfold to_string_ok. simpl negb. rewrite orb_false_l. apply final_checks_gating. Qed.
