(* C01 — serialised child structure is schema-valid.
   Positive theorems on the two specification machines, instantiated at every template of today's library (joined with
   the schema by C03's cm_rows), for ALL histories; refutations as runs of the faithful model M_py. *)
From MX Require Import Spec.Particle Spec.Deriv Spec.Equiv Gen.Names Gen.Schema Gen.Templates Gen.Lib Model.Tables
  Model.AbsSeq Model.AbsSeqC02 Model.Classes Model.SeqMachine Model.ChoiceSeq Model.ChoiceClass Model.AbsBag Model.PyM Model.PyObs.
From Coq Require Import List String Bool.
Import ListNotations.

Lemma cm_rows_ok : forallb cm_row_ok cm_rows = true.
Proof. vm_compute. reflexivity. Qed.

(* Sequence machine: for every complex type of the schema whose library template l is choice-free and repeat-free,
   for every history of add / remove / same-name replace / final check: if the final check passes, the children in
   schema order form a word of the SCHEMA's content model x. *)
Theorem C01_partial_seq : forall key x l t ops, In (key, Some x, Some l) cm_rows -> stree_of l = Some t ->
  verdict_ok (mrun t ops) = true -> Lang (re_of x) (AbsSeq.names (AbsSeq.ordered (tree (mrun t ops)))).
Proof.
  intros key x l t ops I St V.
  apply (proj1 (cm_row_sound key x l (forallb_In _ _ _ cm_rows_ok I))).
  apply (stree_of_lang l t St). apply C01_machine. exact V.
Qed.
Print Assumptions C01_partial_seq.

(* Bag machine: the nine types whose template is one unbounded choice of [1,1] leaves, add / final check histories. *)
Theorem C01_partial_bag : forall key x l a mn ops, In (key, Some x, Some l) cm_rows -> bag_of 10 l = Some (a, mn) ->
  bverdict mn (brun a ops) = true -> Lang (re_of x) (bnames (brun a ops)).
Proof.
  intros key x l a mn ops I B V.
  apply (proj1 (cm_row_sound key x l (forallb_In _ _ _ cm_rows_ok I))).
  apply (C01_bag l a mn ops B V).
Qed.
Print Assumptions C01_partial_bag.

(* Choice machine: the types whose template is a sequence of slots, a slot being choice-free or ONE exclusive choice between a [1,1] leaf
   or a mandatory sequence per branch (arrow, bend, harmonic, instrument-change, measure-style, percussion, score-instrument, swing):
   for every history of add / remove / same-name replace / final check, a passing final check means a word of the SCHEMA's content model. *)
Theorem C01_partial_choice : forall key x l t ops, In (key, Some x, Some l) cm_rows -> is_cseq l = true -> slots_of l = Some t ->
  cverdict_ok (cmrun t ops) = true -> Lang (re_of x) (AbsSeq.names (cordered (ctree (cmrun t ops)))).
Proof.
  intros key x l t ops I Cs St V. destruct (is_cseq_parts l Cs) as (t' & St' & W). rewrite St in St'. injection St' as <-.
  apply (proj1 (cm_row_sound key x l (forallb_In _ _ _ cm_rows_ok I))).
  apply (slots_of_lang l t St). apply C01_cmachine; auto.
Qed.
Print Assumptions C01_partial_choice.
Definition choice_keys := map (fun r => fst (fst r)) (filter (fun r => match snd r with Some l => is_cseq l | None => false end) cm_rows).
Example C01_choice_domain : List.length choice_keys = 8%nat.
Proof. vm_compute. reflexivity. Qed.
(* bend: release chosen, pre-bend refused, release removed (the optional choice is released and now demanded), pre-bend accepted *)
Example C01_nonvacuous_bend :
  match slots_of tpl_Bend with
  | Some t => let s := cmrun t [MAdd s_bend_alter; MAdd s_release; MAdd s_pre_bend; MFinal; MRemove 1; MFinal; MAdd s_pre_bend; MFinal] in
              cverdict_ok s = true /\ AbsSeq.names (cordered (ctree s)) = [s_bend_alter; s_pre_bend] /\ is_cseq tpl_Bend = true
              /\ cverdict_ok (cmrun t [MAdd s_bend_alter; MAdd s_release; MRemove 1]) = false
  | None => False end.
Proof. vm_compute. auto. Qed.

(* ---- non-vacuity: which of today's templates the premises cover, and a history that exercises the sticky activation ---- *)
Definition seq_keys := map (fun r => fst (fst r)) (filter (fun r => match snd r with Some l => Classes.is_seq l | None => false end) cm_rows).
Definition bag_keys := map (fun r => fst (fst r)) (filter (fun r => match snd r with Some l => is_bag l | None => false end) cm_rows).
Example C01_domain : (Nat.leb 55 (List.length seq_keys) && Nat.leb 8 (List.length bag_keys))%bool = true.
Proof. vm_compute. reflexivity. Qed.
Example C01_nonvacuous_barline :
  match stree_of tpl_Barline with
  | Some t => verdict_ok (mrun t [MAdd s_bar_style; MAdd s_footnote; MRemove 0; MFinal]) = true
              /\ verdict_ok (mrun t [MAdd s_segno; MAdd s_coda; MRemove 1; MFinal]) = true
  | None => False end.
Proof. vm_compute. auto. Qed.

(* ---- refutations (known findings), computed on the faithful model ---- *)
(* RC1: replace_child installs any element in the old child's leaf *)
Example C01_refuted_replace :
  let ls := PyM.run tpl_Pitch [OAdd s_step; OReplace 0 s_octave; OAdd s_octave; OAdd s_step; OFinal false] in
  passes (last_line ls) = true /\ accepts (re_of tpl_Pitch) (ord_names (last_line ls)) = false.
Proof. vm_compute. auto. Qed.
(* RC4: listen requires one child; add two, remove both: the final check still passes *)
Example C01_refuted_listen :
  let ls := PyM.run tpl_Listen [OAdd s_other_listen; OAdd s_other_listen; ORemove 0; ORemove 0; OFinal false] in
  passes (last_line ls) = true /\ ord_names (last_line ls) = [] /\ accepts (re_of tpl_Listen) [] = false.
Proof. vm_compute. auto. Qed.

(* ---- whole documents ---- *)
From MX Require Import Model.SeqIds Model.Doc Model.DocTables.
Definition rows_ok1 : forall r, In r cm_rows -> cm_row_ok r = true := fun r I => forallb_In _ _ _ cm_rows_ok I.
(* an element tree of ANY depth whose nodes are consistent states of the machines of their types (sequence, choice or bag class) and whose identities
   point at the right children: whatever to_string emits from it - i.e. the final check passed at every node - is schema-valid at EVERY node: the
   children of every element, in the order emitted, are a word of the SCHEMA's content model of its type *)
Theorem C01_document_valid : forall e d, doc_elt_ok e -> doc_emit e = Some d -> schema_valid d.
Proof. exact (tables_emitted_valid rows_ok1). Qed.
Print Assumptions C01_document_valid.
