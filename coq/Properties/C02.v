(* C02 — schema-valid child sequences are accepted and kept in document order.
   Theorems: for every template of the sequence class and of the bag class (as joined with the schema by C03), for EVERY
   word of the SCHEMA's content model (unbounded length), feeding the word one child at a time succeeds at every step,
   the final check passes, and the schema-ordered view is the word.  Refutations on M_py for the other types. *)
From MX Require Import Spec.Particle Spec.Deriv Spec.Equiv Gen.Names Gen.Schema Gen.Templates Gen.Lib Model.Tables
  Model.AbsSeq Model.AbsSeqC02 Model.Classes Model.SeqMachine Model.ChoiceSeq Model.ChoiceClass Model.ChoiceC02 Model.AbsBag Model.PyM Model.PyObs.
From Coq Require Import List String Bool.
Import ListNotations.

Lemma cm_rows_ok : forallb cm_row_ok cm_rows = true.
Proof. vm_compute. reflexivity. Qed.

Theorem C02_partial_seq : forall key x l w, In (key, Some x, Some l) cm_rows -> Classes.is_seq l = true -> Lang (re_of x) w ->
  exists t, stree_of l = Some t /\
    Forall (fun o => o = MOk) (mouts (minit t) (map MAdd w)) /\
    verdict_ok (mrun t (map MAdd w)) = true /\
    AbsSeq.names (AbsSeq.ordered (tree (mrun t (map MAdd w)))) = w /\
    map snd (ins (mrun t (map MAdd w))) = w.
Proof.
  intros key x l w I S L.
  destruct (is_seq_parts l S) as (t & St & W & ND). exists t. split; auto.
  apply (proj1 (cm_row_sound key x l (forallb_In _ _ _ cm_rows_ok I))) in L.
  apply (stree_of_lang l t St) in L.
  destruct (C02_seq_gen t W ND w 0 L) as (s' & E & R & N).
  destruct (mrun_adds w (minit t) s' E) as (A & B & D).
  unfold mrun. rewrite A. split; [|split; [|split]]; auto.
  unfold verdict_ok. fold (mrun t (map MAdd w)). unfold mrun. rewrite A. rewrite R. auto.
Qed.
Print Assumptions C02_partial_seq.

Theorem C02_partial_bag : forall key x l a mn w, In (key, Some x, Some l) cm_rows -> bag_of 10 l = Some (a, mn) -> Lang (re_of x) w ->
  bnames (brun a (map BAdd w)) = w /\ Forall (fun o => o = BOk) (bouts a ([], 0) (map BAdd w)) /\ bverdict mn (brun a (map BAdd w)) = true.
Proof.
  intros key x l a mn w I B L.
  apply (proj1 (cm_row_sound key x l (forallb_In _ _ _ cm_rows_ok I))) in L.
  apply (C02_bag l a mn w B L).
Qed.
Print Assumptions C02_partial_bag.

(* choice machine: the eight exclusive-choice types; for EVERY word of the schema's content model *)
Theorem C02_partial_choice : forall key x l t w, In (key, Some x, Some l) cm_rows -> is_cseq l = true -> slots_of l = Some t -> forallb c02_ok t = true ->
  Lang (re_of x) w ->
  Forall (fun o => o = MOk) (couts (cminit t) (map MAdd w)) /\ cverdict_ok (cmrun t (map MAdd w)) = true /\
  AbsSeq.names (cordered (ctree (cmrun t (map MAdd w)))) = w /\ map snd (cins (cmrun t (map MAdd w))) = w.
Proof.
  intros key x l t w I Cs St G L. destruct (is_cseq_nodup l t Cs St) as [W ND].
  apply (proj1 (cm_row_sound key x l (forallb_In _ _ _ cm_rows_ok I))) in L. apply (slots_of_lang l t St) in L.
  apply C02_cmachine; auto.
Qed.
Print Assumptions C02_partial_choice.
(* every is_cseq template of today's library satisfies the side condition (distinct names per slot, no branch that can be empty) *)
Example C02_choice_premises : forallb (fun r => match snd r with Some l => negb (is_cseq l) || match slots_of l with Some t => forallb c02_ok t | None => false end | None => true end) cm_rows = true
  /\ List.length (filter (fun r => match snd r with Some l => is_cseq l | None => false end) cm_rows) = 8%nat.
Proof. vm_compute. auto. Qed.

(* non-vacuity: real templates satisfy the premises, with a non-trivial word *)
Example C02_nonvacuous : Classes.is_seq tpl_Barline = true /\ Classes.is_seq tpl_Pitch = true /\ is_bag tpl_Measure = true /\
  accepts (re_of tpl_Barline) [s_bar_style; s_footnote; s_level; s_segno; s_fermata; s_fermata; s_repeat] = true.
Proof. vm_compute. auto. Qed.

(* ---- refutations on the faithful model: words of the language that are rejected, refused or reordered ---- *)
Definition fed (p:particle) (w:list positive) := PyM.run p (map OAdd w ++ [OFinal false]).
Definition all_ok (ls:list line) := forallb (fun ln => match l_exn ln with None => true | _ => false end) ls.
(* RC5: first-fit regroups the children of repeated groups *)
Example C02_refuted_part_list_order :
  let w := [s_score_part; s_part_group] in
  accepts (re_of tpl_PartList) w = true /\ all_ok (fed tpl_PartList w) = true /\ ord_names (last_line (fed tpl_PartList w)) = [s_part_group; s_score_part].
Proof. vm_compute. auto. Qed.
(* RC6: the empty key (schema-valid) is refused *)
Example C02_refuted_empty_key :
  accepts (re_of tpl_Key) [] = true /\ refuses (last_line (fed tpl_Key [])) = true.
Proof. vm_compute. auto. Qed.
(* RC7: two segno in direction-type: NotImplementedError at the final check *)
Example C02_refuted_direction_type :
  accepts (re_of tpl_DirectionType) [s_segno; s_segno] = true /\ l_exn (last_line (fed tpl_DirectionType [s_segno; s_segno])) = Some ENotImplemented.
Proof. vm_compute. auto. Qed.
