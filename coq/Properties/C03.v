(* C03 — every element class is a faithful translation of its XSD declaration.
   Tables: Gen/Schema.v (independent XSD reader), Gen/Lib.v + Gen/Templates.v (live classes), regenerated on every run. *)
From MX Require Import Spec.Particle Spec.Deriv Spec.Equiv Spec.Naming Gen.Schema Gen.Templates Gen.Lib Model.Tables.
From Coq Require Import List String Bool.
Import ListNotations.
Open Scope string_scope.

(* every partwise element declaration has exactly one class, named by the documented rule, bound to the declared type *)
Theorem C03_classes : forall e, In e xsd_elements -> elem_ok e = true.
Proof. apply forallb_forall. vm_compute. reflexivity. Qed.
Print Assumptions C03_classes.

(* no class without a declaration, one type per element name, and the naming rule is injective on the declared names *)
Theorem C03_names : no_extra_classes = true /\ one_type_per_name = true /\ NoDup (map xml_class_name (dedup_adj element_names)).
Proof. split; [vm_compute; reflexivity|]. split; [vm_compute; reflexivity|]. apply nodup_str_NoDup. vm_compute. reflexivity. Qed.
Print Assumptions C03_names.

(* the Gallina naming rule agrees with the library's convert_to_xml_class_name on every declared element name *)
Theorem C03_naming_rule : forall n c, In (n, c) lib_convert_names -> xml_class_name n = c.
Proof.
  intros n c I. apply String.eqb_eq.
  exact (forallb_In (fun p => String.eqb (xml_class_name (fst p)) (snd p)) lib_convert_names (n, c) ltac:(vm_compute; reflexivity) I).
Qed.
Print Assumptions C03_naming_rule.

Lemma cm_rows_ok : forallb cm_row_ok cm_rows = true.
Proof. vm_compute. reflexivity. Qed.
(* cm_rows joins, for every complex type of the schema, its content particle with the library's container template.
   The template of every complex type with element content has exactly the language of the schema's content model,
   for ALL words (note's hand-reordered choice included), and the verified matcher run on the library template
   decides the schema language. *)
Theorem C03_content_models : forall key x l, In (key, Some x, Some l) cm_rows ->
  (forall w, Lang (re_of x) w <-> Lang (re_of l) w) /\ (forall w, accepts (re_of l) w = true <-> Lang (re_of x) w).
Proof. intros key x l I. exact (cm_row_sound key x l (forallb_In _ _ _ cm_rows_ok I)). Qed.
Print Assumptions C03_content_models.
(* a template exists exactly for the types that have a content particle; cm_rows covers every complex type *)
Theorem C03_template_presence : forall key xp lt, In (key, xp, lt) cm_rows -> (xp = None <-> lt = None).
Proof. intros key xp lt I. exact (cm_row_presence key xp lt (forallb_In _ _ _ cm_rows_ok I)). Qed.
Print Assumptions C03_template_presence.
Theorem C03_no_extra_templates : no_extra_templates = true /\ no_extra_ctypes = true.
Proof. split; vm_compute; reflexivity. Qed.
Print Assumptions C03_no_extra_templates.

(* attribute tables: names (prefix aside, see C04), declared types, the class each type is bound to, required flags,
   row by row in declaration order, for every complex type except the recorded deviations *)
Lemma attr_rows_ok : forallb attr_row_ok attr_cmp_rows = true.
Proof. vm_compute. reflexivity. Qed.
Theorem C03_attrs : forall key xs lc, In (key, xs, lc) attr_cmp_rows ->
  In key attr_deviations \/ exists rows s, lc = Some (ATable rows, s) /\ rows_eq xs rows = true.
Proof. intros key xs lc I. exact (attr_row_sound key xs lc (forallb_In _ _ _ attr_rows_ok I)). Qed.
Print Assumptions C03_attrs.
Theorem C03_simple_content : forall r, In r xsd_ctypes -> simple_ok r = true.
Proof. apply forallb_forall. vm_compute. reflexivity. Qed.
Print Assumptions C03_simple_content.

(* ---- recorded deviations (known findings), as computed facts about today's tables ---- *)
Definition is_exc_row (r:arow) := match r with ARowExc _ => true | _ => false end.
Example C03_refuted_xlink :
  forallb (fun k => match lib_ctype k with Some (ATable rows, _) => existsb is_exc_row rows | _ => false end) ["link"; "opus"; "part-link"] = true.
Proof. vm_compute. reflexivity. Qed.
Example C03_refuted_lyric_language :
  In ("xml:lang", "xs:language", true) (xsd_attrs_of "lyric-language") /\
  match lib_ctype "lyric-language" with Some (ATable rows, _) => existsb (fun r => match r with ARow "lang" _ false _ => true | _ => false end) rows | _ => false end = true.
Proof. split; [vm_compute; auto | vm_compute; reflexivity]. Qed.
Example C03_refuted_anyuri :
  match lib_ctype "image" with Some (ATable rows, _) => existsb (fun r => match r with ARow "source" "xs:anyURI" _ tc => String.prefix "<exc>" tc | _ => false end) rows | _ => false end = true.
Proof. vm_compute. reflexivity. Qed.
(* non-vacuity: the tables are the real ones *)
Example C03_sizes : (Nat.leb 400 (List.length xsd_elements) && Nat.leb 400 (List.length lib_classes) && Nat.leb 90 (List.length lib_templates) && Nat.leb 1400 (List.length xsd_attr_rows) = true)%nat.
Proof. vm_compute. reflexivity. Qed.
