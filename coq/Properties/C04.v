(* C04 — the attribute interface of each element is exactly the schema's.
   Model/Attr.v transliterates __setattr__ / _set_attributes / _check_attribute / _check_required_attributes; the value
   verdict is a parameter (C05).  The theorems below hold for every declaration table, every reserved-name set, every
   state and every sequence of set / overwrite / remove; the finite name facts are computed over the regenerated tables. *)
From MX Require Import Spec.Naming Gen.Schema Gen.Lib Model.Tables Model.Attr Gen.Code Model.EltEffects.
From Coq Require Import List String Bool.
Import ListNotations.
Open Scope string_scope.

Section Generic.
  Variable value : Type.
  Variable valid : string -> value -> bool.
  (* an assignment through a non-reserved dot name succeeds iff the (hyphenated) name is declared and the value valid *)
  Theorem C04_accepts_iff : forall decls props st key x, plain_key props key = true ->
    (snd (set_attr value valid decls props st key (Some x)) = AOk <-> exists d, find_decl decls (hyph key) = Some d /\ valid (d_type d) x = true).
  Proof. exact (set_attr_accepts value valid). Qed.
  (* otherwise nothing is stored *)
  Theorem C04_failure_stores_nothing : forall decls props st key v, snd (set_attr value valid decls props st key v) <> AOk -> fst (set_attr value valid decls props st key v) = st.
  Proof. exact (set_attr_failure_atomic value valid). Qed.
  (* after any assignment every stored attribute is: the new value under the hyphenated name if it succeeded (None removes), unchanged otherwise *)
  Theorem C04_store_spec : forall decls props st key v k', NoDup (map fst st) ->
    let r := set_attr value valid decls props st key v in
    NoDup (map fst (fst r)) /\ lookup value k' (fst r) = if (match snd r with AOk => true | _ => false end) && String.eqb (hyph key) k' then v else lookup value k' st.
  Proof. exact (set_attr_lookup value valid). Qed.
  Theorem C04_keys_unique_forever : forall decls props ops st, NoDup (map fst st) -> NoDup (map fst (run value valid decls props ops st)).
  Proof. exact (run_keys_nodup value valid). Qed.
  (* to_string refuses exactly when a schema-required attribute is not currently set *)
  Theorem C04_required : forall decls st, to_string_attrs_ok value decls st = false <-> exists d, In d decls /\ d_req d = true /\ lookup value (d_name d) st = None.
  Proof. exact (required_refusal value). Qed.
End Generic.
Print Assumptions C04_accepts_iff.
Print Assumptions C04_store_spec.
Print Assumptions C04_required.

(* ---- name facts over the regenerated tables ---- *)
Definition attr_names : list string := map (fun r => let '(_, n, _, _) := r in n) xsd_attr_rows.
Definition unprefixed (n:string) : bool := negb (has_prefix n).
(* dot name -> schema name is the identity on every declared un-prefixed name *)
Lemma hyph_under_all : forallb (fun n => negb (unprefixed n) || String.eqb (hyph (under n)) n) attr_names = true.
Proof. vm_compute. reflexivity. Qed.
Theorem C04_hyph_under : forall n, In n attr_names -> unprefixed n = true -> hyph (under n) = n.
Proof.
  intros n I U. apply String.eqb_eq. pose proof (forallb_In _ _ _ hyph_under_all I) as H. cbv beta in H.
  rewrite U in H. simpl in H. exact H.
Qed.
Print Assumptions C04_hyph_under.
(* no declared un-prefixed attribute is captured by the reserved branches of __setattr__, except `name` (RC12) *)
Definition captured (n:string) : bool := negb (plain_key lib_properties (under n)).
Theorem C04_dispatch : forall n, In n attr_names -> unprefixed n = true -> captured n = true -> n = "name".
Proof.
  intros n I U Cp. apply String.eqb_eq.
  pose proof (forallb_In (fun n => negb (unprefixed n) || negb (captured n) || String.eqb n "name") attr_names n ltac:(vm_compute; reflexivity) I) as H.
  cbv beta in H. rewrite U, Cp in H. simpl in H. exact H.
Qed.
Print Assumptions C04_dispatch.

(* ---- recorded deviations ---- *)
(* RC12: the schema attribute `name` is captured by the read-only Python property of the same name *)
(* the order of checks and stores of a dot / parser assignment in the SOURCE (__setattr__ hands ONE key to _set_attributes; the statement
   shapes of __setattr__, _set_attributes and _check_attribute are matched exactly by the translator, fail-closed): an assignment that
   raises has stored nothing, whether the value is None (removal) or not *)
Theorem C04_assignment_checks_first : tr_attr_set_ok = true /\ checks_first attr_none_path = true /\ checks_first attr_value_path = true.
Proof. repeat split; reflexivity. Qed.
Theorem C04_assignment_atomic : forall effs, In effs [attr_none_path; attr_value_path] ->
  forall fails log, fst (eexec effs fails 0 log) = ERaised -> snd (eexec effs fails 0 log) = log.
Proof.
  intros effs I fails log. apply checks_first_atomic. destruct C04_assignment_checks_first as (_ & A & B). destruct I as [<-|[<-|[]]]; assumption.
Qed.
Print Assumptions C04_assignment_atomic.
(* a constructor call with several keywords, one None and a later one invalid, pops before it checks - but the element under construction is
   discarded by the exception, so nothing observable keeps the partial store *)
Example C04_many_keys_not_checks_first : checks_first attr_many_path = false.
Proof. reflexivity. Qed.
Example C04_refuted_name : mem_str "name" attr_names = true /\ captured "name" = true.
Proof. split; vm_compute; reflexivity. Qed.
(* RC13: the schema's prefixed attributes are declared without prefix in the library *)
Example C04_refuted_prefix : existsb (fun n => String.eqb n "xml:lang") attr_names = true /\
  match lib_ctype "formatted-text" with Some (ATable rows, _) => existsb (fun r => match r with ARow "lang" _ _ _ => true | _ => false end) rows | _ => false end = true.
Proof. split; vm_compute; reflexivity. Qed.
