(* C05 — value validation matches the XSD simple types; emitted text is lexically valid.
   lib side: Model/SimpleType.v run on the class table dumped from the live classes (Gen/SimpleTypes.v: lib_st);
   schema side: xrun on the table produced by the independent XSD reader (xsd_st).  Both are resolved by closed
   computation; the theorems below hold for ALL values of the stated kind. *)
From MX Require Import Spec.CharRe Model.SimpleType Model.SimpleTypeThms Gen.SimpleTypes.
From Coq Require Import List String NArith ZArith QArith Bool Lia.
Import ListNotations.
Open Scope string_scope.

(* every schema simple type with its library class, both resolved *)
Definition rows : list (string * string * option rcls * option xr) :=
  Eval vm_compute in map (fun p => (fst p, snd p, resolve lib_st 6 (snd p), xresolve xsd_st 8 (fst p))) st_pairs.
Theorem C05_all_resolved : forall t c r x, In (t, c, r, x) rows -> r <> None /\ x <> None.
Proof.
  intros t c r x I.
  pose proof (proj1 (forallb_forall (fun row => match row with (_, _, Some _, Some _) => true | _ => false end) rows) ltac:(vm_compute; reflexivity) _ I) as H.
  cbv beta iota in H. destruct r, x; try discriminate. split; discriminate.
Qed.
Print Assumptions C05_all_resolved.

(* ---- enumerations ---- *)
Definition enum_row_ok (row:string * string * option rcls * option xr) : bool :=
  match row with
  | (_, _, Some r, Some (XRestr base pres (e :: es) pat ml mi ma me as x)) =>
      match is_enum_r r with
      | Some lits => (fix eq (a b:list string) := match a, b with [], [] => true | p :: a', q :: b' => String.eqb p q && eq a' b' | _, _ => false end) lits (e :: es)
                     && forallb (fun lit => xrun x (cp lit)) (e :: es)
      | None => false end
  | _ => true end.
Lemma enum_rows_ok : forallb enum_row_ok rows = true.
Proof. vm_compute. reflexivity. Qed.
Lemma str_list_eq : forall a b, (fix eq (a b:list string) := match a, b with [], [] => true | p :: a', q :: b' => String.eqb p q && eq a' b' | _, _ => false end) a b = true -> a = b.
Proof. induction a as [|p a IH]; destruct b as [|q b]; intros H; try discriminate; auto. apply andb_true_iff in H as [H1 H2]. apply String.eqb_eq in H1. subst. f_equal. auto. Qed.
(* for every schema type that is an enumeration, and EVERY Python value: the class accepts it iff it is a str equal to
   one of the schema's literals; hence whatever is accepted is emitted as valid text, and every literal is accepted *)
Theorem C05_enumerations : forall t c r base pres e es pat ml mi ma me,
  In (t, c, Some r, Some (XRestr base pres (e :: es) pat ml mi ma me)) rows ->
  (forall v, fst (run r v) = Ok -> exists lit, In lit (e :: es) /\ v = VStr (cp lit) /\ xrun (XRestr base pres (e :: es) pat ml mi ma me) (render v) = true)
  /\ (forall lit, In lit (e :: es) -> fst (run r (VStr (cp lit))) = Ok).
Proof.
  intros t c r base pres e es pat ml mi ma me I.
  pose proof (proj1 (forallb_forall _ _) enum_rows_ok _ I) as H. unfold enum_row_ok in H. cbv beta iota in H.
  destruct (is_enum_r r) as [lits|] eqn:E; [|discriminate]. apply andb_true_iff in H as [H1 H2]. apply str_list_eq in H1. rewrite H1 in *. clear H1.
  pose proof (enum_r_spec r _ E) as S. split.
  - intros v A. rewrite S in A. unfold enum_spec in A. destruct v; try discriminate.
    destruct (in_strs (VStr s) (e :: es)) eqn:M; [|discriminate].
    apply (proj1 (in_strs_In s (e :: es))) in M as (lit & Il & ->). exists lit. repeat split; auto.
    rewrite forallb_forall in H2. apply (H2 lit Il).
  - intros lit Il. rewrite S. unfold enum_spec. assert (M: in_strs (VStr (cp lit)) (e :: es) = true) by (apply in_strs_In; exists lit; auto). rewrite M. reflexivity.
Qed.
Print Assumptions C05_enumerations.

(* ---- integer values on the numeric types ---- *)
Definition int_row (row:string * string * option rcls * option xr) : bool :=
  match row with (_, _, Some r, Some x) => numeric_xr x | _ => false end.
Definition int_rows := Eval vm_compute in filter int_row rows.
Lemma int_rows_shape : forallb (fun row => match row with (_, _, Some r, Some x) => is_int_r r && numeric_xr x | _ => false end) int_rows = true.
Proof. vm_compute. reflexivity. Qed.
(* on every numeric type the interval the library accepts is the interval the schema allows *)
Lemma int_rows_same_interval : Forall (fun row => match row with
   | (_, _, Some (R _ _ _ _ _ _ _ has_restr restr chain), Some x) => forall z, int_accepts has_restr restr chain z = xint_ok x z
   | _ => True end) int_rows.
Proof.
  unfold int_rows. repeat constructor; intros z; cbv [int_accepts xint_ok zbounds_ok zfacet zsetter forallb fst snd]; simpl;
    apply Bool.eq_true_iff_eq; rewrite ?andb_true_iff, ?negb_true_iff, ?Z.leb_le, ?Z.ltb_lt, ?Z.leb_gt; lia.
Qed.
(* for every numeric schema type and EVERY integer z: the class accepts z iff the text it emits for z is valid for the type *)
Theorem C05_integers : forall t c r x, In (t, c, Some r, Some x) int_rows -> forall z, fst (run r (VInt z)) = Ok <-> xrun x (render (VInt z)) = true.
Proof.
  intros t c r x I z.
  pose proof (proj1 (forallb_forall _ _) int_rows_shape _ I) as Sh. cbv beta iota in Sh. apply andb_true_iff in Sh as [S1 S2].
  pose proof (proj1 (Forall_forall _ _) int_rows_same_interval _ I) as Same. cbv beta iota in Same.
  pose proof (int_r_spec r S1) as Spec. destruct r as [ty fo pe me pa pr su hr re ch]. simpl render.
  rewrite (xrun_render_int x z S2). rewrite <- Same. apply Spec.
Qed.
Print Assumptions C05_integers.
Example C05_integers_nonvacuous : (Nat.leb 25 (List.length int_rows))%bool = true.
Proof. vm_compute. reflexivity. Qed.

(* ---- finite float values on the decimal types ---- *)
Definition dec_row (row:string * string * option rcls * option xr) : bool :=
  match row with (_, _, Some r, Some x) => decimal_xr x | _ => false end.
Definition dec_rows := Eval vm_compute in filter dec_row rows.
Lemma dec_rows_shape : forallb (fun row => match row with (_, _, Some r, Some x) => is_dec_r r && decimal_xr x | _ => false end) dec_rows = true.
Proof. vm_compute. reflexivity. Qed.
(* on every decimal type the set of rationals the library accepts is the set the schema allows *)
Lemma dec_rows_same_set : Forall (fun row => match row with
   | (_, _, Some (R _ _ _ _ _ _ _ has_restr restr chain), Some x) => forall q, float_accepts has_restr restr chain q = xq_ok x q
   | _ => True end) dec_rows.
Proof.
  unfold dec_rows. repeat constructor; intros q; cbv [float_accepts xq_ok qbounds_ok qfacet qsetter forallb fst snd]; simpl;
    repeat match goal with |- context [Qle_bool ?a ?b] => destruct (Qle_bool a b) end; reflexivity.
Qed.
(* for every decimal schema type and EVERY finite float whose repr is a plain decimal numeral (no exponent) of the same value:
   the class accepts it iff the text it emits is valid for the type.  (repr with an exponent, nan and inf: RC17, refuted below.) *)
Theorem C05_decimals : forall t c r x, In (t, c, Some r, Some x) dec_rows -> forall q rp q',
  nows rp = true -> parse_decimal rp = Some q' -> q' == q ->
  (fst (run r (VFloat FPlain q rp)) = Ok <-> xrun x (render (VFloat FPlain q rp)) = true).
Proof.
  intros t c r x I q rp q' NW P E.
  pose proof (proj1 (forallb_forall _ _) dec_rows_shape _ I) as Sh. cbv beta iota in Sh. apply andb_true_iff in Sh as [S1 S2].
  pose proof (proj1 (Forall_forall _ _) dec_rows_same_set _ I) as Same. cbv beta iota in Same.
  pose proof (float_r_spec r S1) as Spec. destruct r as [ty fo pe me pa pr su hr re ch]. simpl render.
  rewrite (xrun_plain_decimal x rp q' S2 NW P). rewrite (xq_ok_compat x q' q E). rewrite <- Same. apply Spec. reflexivity.
Qed.
Print Assumptions C05_decimals.
Example C05_decimals_nonvacuous : (Nat.leb 8 (List.length dec_rows))%bool = true
  /\ nows (cp "12.5") = true /\ parse_decimal (cp "12.5") = Some (125 # 10) /\ (125 # 10) == (25 # 2)
  /\ lib_check lib_st "XSDSimpleTypeTenths" (VFloat FPlain (25 # 2) (cp "12.5")) = Ok.
Proof. vm_compute. repeat split; reflexivity. Qed.
(* the same classes also take ints: C05_integers covers them (int_rows contains every decimal row) *)
Example C05_decimal_rows_are_int_rows : forallb (fun row => existsb (fun r2 => String.eqb (fst (fst (fst row))) (fst (fst (fst r2)))) int_rows) dec_rows = true.
Proof. vm_compute. reflexivity. Qed.

(* ---- union types (font-size, number-or-normal, positive-integer-or-empty, yes-no-number) ---- *)
Definition urows := Eval vm_compute in filter (fun row => match row with (_, _, _, Some (XUnion _ _)) => true | _ => false end) rows.
Definition union_lits (x:xr) : list string :=
  match x with XUnion ms inner => (flat_map (fun m => match m with XRestr _ _ en _ _ _ _ _ => en | _ => [] end) ms ++ inner)%list | _ => [] end.
Lemma render_int_nonempty z : pstr_eqb (render_int z) [] = false.
Proof. destruct (render_int z) eqn:E; auto. pose proof (parse_render_int z) as P. rewrite E in P. vm_compute in P. discriminate. Qed.
Lemma xunion_has m ms inner s : In m ms -> xrun m s = true -> xrun (XUnion ms inner) s = true.
Proof. intros I H. simpl. apply orb_true_iff. left. apply existsb_exists. exists m. auto. Qed.
Lemma xunion_unfold ms inner s : xrun (XUnion ms inner) s = existsb (fun m => xrun m s) ms || existsb (fun e => pstr_eqb (collapse s) (cp e)) inner.
Proof. reflexivity. Qed.
Lemma union_ints : Forall (fun row => match row with (_, _, Some r, Some x) => forall z, fst (run r (VInt z)) = Ok <-> xrun x (render_int z) = true | _ => False end) urows.
Proof.
  unfold urows. repeat apply Forall_cons; try apply Forall_nil; cbv beta iota; intros z.
  - split; intros _; [eapply xunion_has; [left; reflexivity|apply (xrun_render_int XDecimal z eq_refl)]|reflexivity].
  - split; intros _; [eapply xunion_has; [left; reflexivity|apply (xrun_render_int XDecimal z eq_refl)]|reflexivity].
  - rewrite xunion_unfold. cbn [existsb]. rewrite (xrun_render_int XPos z eq_refl). rewrite collapse_nows by apply nows_render_int. change (cp "") with (@nil N). rewrite render_int_nonempty. cbn [xint_ok orb].
    cbv [run fst r_check_type in_strs isinstance existsb facets cmp_fail num_of xle xlt String.eqb Ascii.eqb Bool.eqb z_of_dec orb andb negb]. simpl.
    destruct (Z.leb_spec 1 z), (Z.leb_spec z 0), (Z.ltb_spec 0 z); simpl; split; intros; try reflexivity; try discriminate; lia.
  - split; intros _; [eapply xunion_has; [right; left; reflexivity|apply (xrun_render_int XDecimal z eq_refl)]|reflexivity].
Qed.
Lemma union_strs : Forall (fun row => match row with (_, _, Some r, Some x) => forall s, fst (run r (VStr s)) = Ok <-> in_strs (VStr s) (union_lits x) = true | _ => False end) urows.
Proof.
  unfold urows. repeat apply Forall_cons; try apply Forall_nil; cbv beta iota; intros s.
  all: cbn -[pstr_eqb cp cleaned_token]; unfold r_check_type; cbn -[pstr_eqb cp cleaned_token];
    repeat match goal with |- context [if ?b then _ else _] => destruct b eqn:? end; simpl; split; intros; try reflexivity; try discriminate; try congruence.
Qed.
Lemma union_lits_valid : forallb (fun row => match row with (_, _, Some r, Some x) => forallb (fun l => xrun x (cp l)) (union_lits x) | _ => false end) urows = true.
Proof. vm_compute. reflexivity. Qed.
Lemma union_floats : Forall (fun row => match row with
   | (_, _, Some r, Some (XUnion ms inner)) => In XDecimal ms -> forall q rp, fst (run r (VFloat FPlain q rp)) = Ok | _ => False end) urows.
Proof.
  unfold urows. repeat apply Forall_cons; try apply Forall_nil; cbv beta iota; intros I q rp; try reflexivity.
  exfalso. destruct I as [I|[]]. discriminate.
Qed.
(* for every union type: EVERY int is accepted iff its decimal text is valid; a str is accepted iff it is one of the union's literals,
   each of which is valid text; on the unions with a decimal member every finite float with a plain decimal repr is accepted and valid *)
Theorem C05_unions : forall t c r x, In (t, c, Some r, Some x) urows ->
  (forall z, fst (run r (VInt z)) = Ok <-> xrun x (render (VInt z)) = true)
  /\ (forall s, fst (run r (VStr s)) = Ok <-> exists lit, In lit (union_lits x) /\ s = cp lit)
  /\ (forall lit, In lit (union_lits x) -> xrun x (render (VStr (cp lit))) = true)
  /\ (forall ms inner q rp q', x = XUnion ms inner -> In XDecimal ms -> nows rp = true -> parse_decimal rp = Some q' ->
        fst (run r (VFloat FPlain q rp)) = Ok /\ xrun x (render (VFloat FPlain q rp)) = true).
Proof.
  intros t c r x I.
  pose proof (proj1 (Forall_forall _ _) union_ints _ I) as A. pose proof (proj1 (Forall_forall _ _) union_strs _ I) as B.
  pose proof (proj1 (forallb_forall _ _) union_lits_valid _ I) as V. pose proof (proj1 (Forall_forall _ _) union_floats _ I) as F.
  cbv beta iota in A, B, V, F. repeat split.
  - apply A.
  - apply A.
  - intros H. apply B in H. apply in_strs_In in H. exact H.
  - intros H. apply B. apply in_strs_In. exact H.
  - intros lit L. rewrite forallb_forall in V. apply V; auto.
  - subst x. apply F; auto.
  - subst x. simpl render. eapply xunion_has; [eassumption|]. rewrite (xrun_plain_decimal XDecimal rp q' eq_refl H1 H2). reflexivity.
Qed.
Print Assumptions C05_unions.
Example C05_unions_nonvacuous : List.length urows = 4%nat /\ lib_check lib_st "XSDSimpleTypeFontSize" (VStr (cp "x-large")) = Ok
  /\ lib_check lib_st "XSDSimpleTypePositiveIntegerOrEmpty" (VStr []) = Ok /\ lib_check lib_st "XSDSimpleTypePositiveIntegerOrEmpty" (VInt 0) = ValueErr.
Proof. vm_compute. auto. Qed.

(* ---- patterns: the library's translated pattern is, as an AST, the schema's pattern ---- *)
Definition lib_pattern (r:rcls) : option cre := match r with R _ _ _ _ p _ _ _ _ _ => p end.
Definition pat_row_ok (row:string * string * option rcls * option xr) : bool :=
  match row with
  | (_, _, Some r, Some (XRestr _ _ _ (Some p) _ _ _ _)) => match lib_pattern r with Some q => cre_eqb p q | None => false end
  | _ => true end.
Lemma pat_rows_ok : forallb pat_row_ok rows = true.
Proof. vm_compute. reflexivity. Qed.
Theorem C05_patterns : forall t c r b pr en p ml mi ma me, In (t, c, Some r, Some (XRestr b pr en (Some p) ml mi ma me)) rows ->
  exists q, lib_pattern r = Some q /\ forall s, cmatch p s = cmatch q s.
Proof.
  intros t c r b pr en p ml mi ma me I. pose proof (proj1 (forallb_forall _ _) pat_rows_ok _ I) as H. unfold pat_row_ok in H. cbv beta iota in H.
  destruct (lib_pattern r) as [q|]; [|discriminate]. exists q. split; auto. apply cre_eqb_sound; auto.
Qed.
Print Assumptions C05_patterns.

(* ---- pattern types: a single restriction of xs:token with a pattern; the class cleans the string as a token, then matches ---- *)
Definition pat1_row (row:string * string * option rcls * option xr) : bool :=
  match row with
  | (_, _, Some r, Some (XRestr XToken false [] (Some q) None None None None)) => match is_pat_tok_r r with Some p => cre_eqb q p | None => false end
  | _ => false end.
Definition pat1_rows := Eval vm_compute in filter pat1_row rows.
Lemma pat1_rows_ok : forallb pat1_row pat1_rows = true.
Proof. vm_compute. reflexivity. Qed.
(* for EVERY string in normalised form (for the schema: collapse; for the library: its token cleaner; the two differ on Unicode
   white space, RC29): the class accepts it iff it is in the lexical space of the schema type *)
Theorem C05_pattern_types : forall t c r x, In (t, c, Some r, Some x) pat1_rows -> forall s, collapse s = s -> cleaned_token s = s ->
  (fst (run r (VStr s)) = Ok <-> xrun x (render (VStr s)) = true).
Proof.
  intros t c r x I s N CT. pose proof (proj1 (forallb_forall _ _) pat1_rows_ok _ I) as H. unfold pat1_row in H. cbv beta iota in H.
  destruct x as [| | | | | | |base pres en pat ml mi ma me|]; try discriminate. destruct base; try discriminate. destruct pres; try discriminate.
  destruct en; try discriminate. destruct pat as [q|]; try discriminate. destruct ml; try discriminate. destruct mi; try discriminate.
  destruct ma; try discriminate. destruct me; try discriminate.
  destruct (is_pat_tok_r r) as [p|] eqn:E; [|discriminate]. rewrite (pat_tok_r_spec r p E s CT). simpl. rewrite N.
  rewrite (cre_eqb_sound q p H s). destruct (cmatch p s); split; auto; discriminate.
Qed.
Print Assumptions C05_pattern_types.
Example C05_pattern_types_nonvacuous : Nat.leb 6 (List.length pat1_rows) = true /\ collapse (cp "1, 2") = cp "1, 2" /\ cleaned_token (cp "1, 2") = cp "1, 2"
  /\ lib_check lib_st "XSDSimpleTypeTimeOnly" (VStr (cp "1, 2")) = Ok.
Proof. vm_compute. auto. Qed.
(* RC29 as the reason for the second premise: NBSP is removed by the library's cleaner, not by the schema's collapse *)
Example C05_refuted_foreign_space : let s := (160%N :: cp "1")%list in collapse s = s /\ cleaned_token s <> s /\
  lib_check lib_st "XSDSimpleTypeTimeOnly" (VStr s) = Ok /\ xsd_valid xsd_st 8 "time-only" s = false.
Proof. vm_compute. repeat split; auto. discriminate. Qed.
(* ---- free strings: token / string types without any facet accept every str, and every str is valid text ---- *)
Definition free_row (row:string * string * option rcls * option xr) : bool :=
  match row with
  | (_, _, Some r, Some (XRestr (XToken | XString) _ [] None None None None None)) => is_free_r r
  | _ => false end.
Definition free_rows := Eval vm_compute in filter free_row rows.
Lemma free_rows_ok : forallb free_row free_rows = true.
Proof. vm_compute. reflexivity. Qed.
Theorem C05_free_strings : forall t c r x, In (t, c, Some r, Some x) free_rows -> forall s, fst (run r (VStr s)) = Ok /\ xrun x (render (VStr s)) = true.
Proof.
  intros t c r x I s. pose proof (proj1 (forallb_forall _ _) free_rows_ok _ I) as H. unfold free_row in H. cbv beta iota in H.
  destruct x as [| | | | | | |base pres en pat ml mi ma me|]; try discriminate.
  destruct base; try discriminate; destruct en; try discriminate; destruct pat; try discriminate; destruct ml; try discriminate; destruct mi; try discriminate;
    destruct ma; try discriminate; destruct me; try discriminate; (split; [apply free_r_spec; auto|reflexivity]).
Qed.
Print Assumptions C05_free_strings.
Example C05_free_strings_nonvacuous : Nat.leb 4 (List.length free_rows) = true.
Proof. vm_compute. reflexivity. Qed.

(* ---- recorded deviations, as computed facts ---- *)
(* RC16: bool is an int: accepted by the integer / decimal based types, emitted as "True" *)
Example C05_refuted_bool : lib_check lib_st "XSDSimpleTypeMidi16" (VBool true) = Ok /\ xsd_valid xsd_st 8 "midi-16" (render (VBool true)) = false.
Proof. vm_compute. auto. Qed.
(* RC17: floats whose repr is not a plain decimal: 1e-05 is accepted and emitted as such *)
Example C05_refuted_float_exponent :
  let v := VFloat FExp (1 # 100000) (cp "1e-05") in lib_check lib_st "XSDSimpleTypeTenths" v = Ok /\ xsd_valid xsd_st 8 "tenths" (render v) = false.
Proof. vm_compute. auto. Qed.
(* RC25: a blank string passes measure-text (minLength is applied before white-space collapse) *)
Example C05_refuted_blank : lib_check lib_st "XSDSimpleTypeMeasureText" (VStr (cp " ")) = Ok /\ xsd_valid xsd_st 8 "measure-text" (cp " ") = false.
Proof. vm_compute. auto. Qed.
