(* C06 — no child is ever lost, duplicated or orphaned.
   Positive theorems on the sequence machine (every is_seq template, every history of add / remove / replace / final,
   failed attempts included) and on the bag machine; refutations as runs of the faithful model M_py. *)
From MX Require Import Spec.Particle Spec.Deriv Gen.Names Gen.Templates Model.AbsSeq Model.Classes Model.SeqMachine Model.ChoiceSeq Model.ChoiceClass Model.AbsBag Model.PyM Model.PyObs.
From Coq Require Import List Permutation Bool Arith.
Import ListNotations.

(* in every reachable state the schema-ordered view is a permutation of the insertion-ordered view *)
Theorem C06_partial_seq : forall t ops, Permutation (AbsSeq.ordered (tree (mrun t ops))) (ins (mrun t ops)).
Proof. exact C06_machine. Qed.
Print Assumptions C06_partial_seq.
(* the same on the choice machine (every well-formed slot template, in particular the eight is_cseq types) *)
Theorem C06_partial_choice : forall t ops, wf_ct t = true -> Permutation (cordered (ctree (cmrun t ops))) (cins (cmrun t ops)).
Proof. exact C06_cmachine. Qed.
Print Assumptions C06_partial_choice.
Example C06_choice_nonvacuous : match slots_of tpl_Swing with Some t => wf_ct t = true /\ is_cseq tpl_Swing = true | None => False end.
Proof. vm_compute. auto. Qed.
(* and the insertion-ordered view is the list semantics of the successful operations: adds append, removals delete that
   child, replacements substitute in place, anything that does not succeed changes nothing *)
Theorem C06_partial_spec_list : forall s o, ins (fst (mstep s o)) =
  match o, snd (mstep s o) with
  | MAdd a, MOk => ins s ++ [(next s, a)]
  | MRemove k, MOk => match nth_error (ins s) k with Some (c, _) => filter (keep c) (ins s) | None => ins s end
  | MReplace k _, MOk | MReplaceSame k, MOk => match nth_error (ins s) k with Some (c, _) => map (renum c (next s)) (ins s) | None => ins s end
  | _, _ => ins s end.
Proof. exact C06_spec_list. Qed.
Print Assumptions C06_partial_spec_list.
(* the bag machine has a single list for both views, so C06 is not a theorem there but the content of its correspondence *)

Example C06_nonvacuous :
  match stree_of tpl_Barline with
  | Some t => let s := mrun t [MAdd s_coda; MAdd s_bar_style; MAdd s_coda; MReplaceSame 0; MRemove 1; MAdd s_segno] in
              map fst (ins s) = [3; 5] /\ map fst (AbsSeq.ordered (tree s)) = [5; 3]
  | None => False end.
Proof. vm_compute. auto. Qed.

(* ---- refutations on the faithful model ---- *)
(* RC2: a forward add onto a full leaf attaches the child, then raises: it is in the ordered view only *)
Example C06_refuted_forward :
  let ln := last_line (PyM.run tpl_MeasureLayout [OAdd s_measure_distance; OAddFwd s_measure_distance 0]) in
  l_exn ln = Some EValueError /\ l_ordered ln = [0; 1] /\ map fst (l_unordered ln) = [0].
Proof. vm_compute. auto. Qed.
(* RC3: remove() prunes a duplicated branch that still holds children *)
Example C06_refuted_remove_dup :
  let ln := last_line (PyM.run tpl_ScorePart [OAdd s_midi_device; OAdd s_midi_instrument; OAdd s_midi_device; ORemove 0]) in
  l_exn ln = None /\ l_ordered ln = [2] /\ map fst (l_unordered ln) = [1; 2].
Proof. vm_compute. auto. Qed.
