(* C07 — add_child never accepts a child that makes the element impossible to complete.
   The judges used on the implementation's states are verified: a state is reported DEAD only by Parikh.dead (sound by
   dead_sound: no word of the content model dominates the children), ALIVE only by a checked witness (witness_sound).
   Refutations: states the faithful model accepts although they are provably dead. *)
From MX Require Import Spec.Particle Spec.Deriv Spec.Parikh Gen.Names Gen.Templates Model.Tables Model.PyM Model.PyObs.
From Coq Require Import List Bool Arith.
Import ListNotations.

Theorem C07_judge_dead : forall r m, dead r m = true -> ~ Alive r m.
Proof. exact dead_sound. Qed.
Print Assumptions C07_judge_dead.
Theorem C07_judge_alive : forall r m w, wf r = true -> witness r m w = true -> Alive r m.
Proof. exact witness_sound. Qed.
Print Assumptions C07_judge_alive.
(* every generated template is well-formed, so the alive judge applies to all of them *)
Theorem C07_templates_wf : forall k p, In (k, p) lib_templates -> wf (re_of p) = true.
Proof. intros k p I. exact (forallb_In (fun kp => wf (re_of (snd kp))) lib_templates (k, p) ltac:(vm_compute; reflexivity) I). Qed.
Print Assumptions C07_templates_wf.

(* ---- refutations on the faithful model ---- *)
(* RC1: after replace(step -> octave) the element holds two octaves: accepted, provably dead *)
Example C07_refuted_replace :
  let ls := PyM.run tpl_Pitch [OAdd s_step; OReplace 0 s_octave; OAdd s_octave] in
  all_outcomes_ok ls = true /\ dead (re_of tpl_Pitch) (ord_names (last_line ls)) = true.
Proof. vm_compute. auto. Qed.
