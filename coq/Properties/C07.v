(* C07 — add_child never accepts a child that makes the element impossible to complete.
   The judges used on the implementation's states are verified: a state is reported DEAD only by Parikh.dead (sound by
   dead_sound: no word of the content model dominates the children), ALIVE only by a checked witness (witness_sound).
   Refutations: states the faithful model accepts although they are provably dead. *)
From MX Require Import Spec.Particle Spec.Deriv Spec.Parikh Gen.Names Gen.Templates Gen.Schema Gen.Lib Model.Tables Model.PyM Model.PyObs
  Model.AbsSeq Model.AbsSeqC02 Model.Classes Model.SeqMachine Model.SeqComplete Model.ChoiceSeq Model.ChoiceClass Model.ChoiceC02 Model.ChoiceComplete Model.AbsBag Model.BagMore.
From Coq Require Import List Bool Arith.
Import ListNotations.

Theorem C07_judge_dead : forall r m, dead r m = true -> ~ Alive r m.
Proof. exact dead_sound. Qed.
Print Assumptions C07_judge_dead.
Theorem C07_judge_alive : forall r m w, wf r = true -> witness r m w = true -> Alive r m.
Proof. exact witness_sound. Qed.
Print Assumptions C07_judge_alive.
(* every generated template is well-formed, so the alive judge applies to all of them *)
Theorem C07_templates_wf : forall k p, In (k, p) lib_templates -> wf (re_of p) = true.
Proof. intros k p I. exact (forallb_In (fun kp => wf (re_of (snd kp))) lib_templates (k, p) ltac:(vm_compute; reflexivity) I). Qed.
Print Assumptions C07_templates_wf.

(* the property itself on the sequence machine: for every template of the sequence class (61 of today's 94 types) and EVERY
   history of add / remove / replace / final, the state reached can be completed: there are further adds, all accepted, after
   which the final check passes *)
Theorem C07_partial_seq : forall k l, In (k, l) lib_templates -> Classes.is_seq l = true ->
  exists t, stree_of l = Some t /\ forall ops, exists ext,
    Forall (fun o => o = MOk) (mouts (mrun t ops) (map MAdd ext)) /\ verdict_ok (fold_left (fun s o => fst (mstep s o)) (map MAdd ext) (mrun t ops)) = true.
Proof.
  intros k l _ S. destruct (is_seq_parts l S) as (t & St & W & ND). exists t. split; auto. intros ops. apply C07_machine; auto.
Qed.
Print Assumptions C07_partial_seq.
Example C07_nonvacuous : Nat.leb 55 (List.length (filter (fun kl => Classes.is_seq (snd kl)) lib_templates)) = true.
Proof. vm_compute. reflexivity. Qed.

(* the same on the choice machine, for the eight exclusive-choice types: every reachable state (a released optional choice that is now
   demanded, a sequence branch that stays chosen after its children were removed, ...) has a completion whose adds are all accepted *)
Theorem C07_partial_choice : forall k l t, In (k, l) lib_templates -> is_cseq l = true -> slots_of l = Some t -> forallb c07_ok t = true ->
  forall ops, exists ext,
    Forall (fun o => o = MOk) (couts (cmrun t ops) (map MAdd ext)) /\ cverdict_ok (fold_left (fun s o => fst (cstep s o)) (map MAdd ext) (cmrun t ops)) = true.
Proof.
  intros k l t _ Cs St K ops. destruct (is_cseq_nodup l t Cs St) as [W ND]. apply C07_cmachine; auto.
Qed.
Print Assumptions C07_partial_choice.
Example C07_choice_premises : forallb (fun kl => negb (is_cseq (snd kl)) || match slots_of (snd kl) with Some t => forallb c07_ok t | None => false end) lib_templates = true
  /\ List.length (filter (fun kl => is_cseq (snd kl)) lib_templates) = 8%nat.
Proof. vm_compute. auto. Qed.

(* the bag machine (measure, dynamics, articulations, technical, encoding, play, listen, name-display, notehead-text): every reachable
   state is at most one accepted child away from a passing final check *)
Theorem C07_partial_bag : forall k l a mn, In (k, l) lib_templates -> is_bag l = true -> bag_of 10 l = Some (a, mn) ->
  forall ops, exists w, List.length w <= 1 /\ Forall (fun o => o = BOk) (bouts a (brun a ops) (map BAdd w))
            /\ bverdict mn (fold_left (fun s o => fst (bstep a s o)) (map BAdd w) (brun a ops)) = true.
Proof.
  intros k l a mn _ Ib B ops. apply (C07_bag l a mn ops B). unfold is_bag in Ib. rewrite B in Ib. destruct a; [discriminate|discriminate].
Qed.
Print Assumptions C07_partial_bag.
Example C07_bag_nonvacuous : List.length (filter (fun kl => is_bag (snd kl)) lib_templates) = 9%nat /\ is_bag tpl_Measure = true.
Proof. vm_compute. auto. Qed.

(* ---- refutations on the faithful model ---- *)
(* RC1: after replace(step -> octave) the element holds two octaves: accepted, provably dead *)
Example C07_refuted_replace :
  let ls := PyM.run tpl_Pitch [OAdd s_step; OReplace 0 s_octave; OAdd s_octave] in
  all_outcomes_ok ls = true /\ dead (re_of tpl_Pitch) (ord_names (last_line ls)) = true.
Proof. vm_compute. auto. Qed.
