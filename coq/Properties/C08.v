(* C08 — the library's own output re-parses to the same document.
   Proved: (values) for every enumeration type the text / attribute ladder of the parser returns the literal that was emitted;
   for every integer-only type and EVERY accepted integer the ladders return that integer (whatever float() makes of the text);
   (children) on every template of the sequence class, re-feeding the children that a passing final check serialises reproduces
   exactly that sequence and passes again.  Decimal spelling (4 vs 4.0), union types and the other content models are covered by
   the document-level correspondence. *)
From MX Require Import Spec.CharRe Spec.Particle Spec.Deriv Model.SimpleType Model.SimpleTypeThms Model.Parser Gen.SimpleTypes Gen.Code
  Model.AbsSeq Model.AbsSeqC02 Model.Classes Model.SeqMachine Model.ChoiceSeq Model.ChoiceClass Model.ChoiceC02.
From Coq Require Import List String NArith ZArith Bool.
Import ListNotations.
Open Scope string_scope.
Definition lrows : list (string * option rcls) := Eval vm_compute in map (fun p => (snd p, resolve lib_st 6 (snd p))) st_pairs.

(* the ladders are the ones the translator reads from musicxml/parser/parser.py on every run (fail-closed: any other shape of
   _et_xml_to_music_xml / _parse_node / parse_musicxml, module-level state included, makes tr_parser_ok false) *)
Theorem C08_parser_source : tr_parser_ok = true
  /\ parser_text_ladder = [(CId, [PTypeError]); (CFloat, [PTypeError]); (CInt, [])]
  /\ parser_attr_ladder = [(CId, [PTypeError; PValueError]); (CInt, [PValueError]); (CFloat, [])].
Proof. repeat split; reflexivity. Qed.
Section WithPython.
  Variable py_float : pstr -> option pyval.
  Theorem C08_enum_values : forall c r lits lit, In (c, Some r) lrows -> is_enum_r r = Some lits -> In lit lits -> strip (cp lit) = cp lit ->
    text_ladder py_float py_int_model parser_text_ladder r (cp lit) = LValue (VStr (cp lit)) /\ attr_ladder py_float py_int_model parser_attr_ladder r (cp lit) = LValue (VStr (cp lit)).
  Proof.
    intros c r lits lit _ E I S. destruct C08_parser_source as (_ & -> & ->). split; [apply text_ladder_enum with lits; auto|apply attr_ladder_enum with lits; auto].
  Qed.
  (* hypotheses on float(): it returns a float (or raises ValueError) and does accept the decimal text of an integer *)
  Hypothesis float_returns_float : forall s f, py_float s = Some f -> exists k q r, f = VFloat k q r.
  Hypothesis float_reads_integers : forall z, py_float (strip (render_int z)) <> None.
  Theorem C08_int_values : forall c r z, In (c, Some r) lrows -> is_pure_int_r r = true -> fst (SimpleType.run r (VInt z)) = Ok ->
    text_ladder py_float py_int_model parser_text_ladder r (render_int z) = LValue (VInt z) /\ attr_ladder py_float py_int_model parser_attr_ladder r (render_int z) = LValue (VInt z).
  Proof.
    intros c r z _ P A. destruct (py_int_model_render z) as [S1 S2]. destruct C08_parser_source as (_ & -> & ->). split.
    - apply text_ladder_int; auto. intros f E. eapply float_returns_float; eauto.
    - apply attr_ladder_int; auto.
  Qed.
End WithPython.
Print Assumptions C08_parser_source.
Print Assumptions C08_enum_values.
Print Assumptions C08_int_values.
(* the literals of every enumeration class carry no outer white space (so strip leaves them alone), and there are pure-int classes *)
Example C08_premises_hold :
  forallb (fun row => match snd row with Some r => match is_enum_r r with Some lits => forallb (fun l => pstr_eqb (strip (cp l)) (cp l)) lits | None => true end | None => true end) lrows = true
  /\ Nat.leb 10 (List.length (filter (fun row => match snd row with Some r => is_pure_int_r r | None => false end) lrows)) = true.
Proof. split; vm_compute; reflexivity. Qed.
Theorem C08_children_stable : forall l t ops, Classes.is_seq l = true -> stree_of l = Some t -> verdict_ok (mrun t ops) = true ->
  let w := AbsSeq.names (AbsSeq.ordered (tree (mrun t ops))) in
  AbsSeq.names (AbsSeq.ordered (tree (mrun t (map MAdd w)))) = w /\ verdict_ok (mrun t (map MAdd w)) = true.
Proof.
  intros l t ops S St V. destruct (is_seq_parts l S) as (t' & St' & W & ND). rewrite St in St'. injection St' as <-.
  destruct (refeed_stable t ops W ND V) as (A & B & _). split; auto.
Qed.
Print Assumptions C08_children_stable.
Theorem C08_children_stable_choice : forall l t ops, is_cseq l = true -> slots_of l = Some t -> forallb c02_ok t = true -> cverdict_ok (cmrun t ops) = true ->
  let w := AbsSeq.names (cordered (ctree (cmrun t ops))) in
  AbsSeq.names (cordered (ctree (cmrun t (map MAdd w)))) = w /\ cverdict_ok (cmrun t (map MAdd w)) = true.
Proof.
  intros l t ops Cs St G V. destruct (is_cseq_nodup l t Cs St) as [W ND]. destruct (crefeed_stable t ops W G ND V) as (A & B & _). split; auto.
Qed.
Print Assumptions C08_children_stable_choice.
(* RC16: "True" is emitted for a bool and does not read back *)
Example C08_refuted_bool :
  match resolve lib_st 6 "XSDSimpleTypeMidi16" with Some r => fst (SimpleType.run r (VBool true)) = Ok /\ fst (SimpleType.run r (VStr (cp "True"))) = TypeErr /\ py_int_model (cp "True") = None | None => False end.
Proof. vm_compute. auto. Qed.

(* ---- whole documents: what the library emits from a consistent element tree (every node in a reachable state of its type's machine, the
   ids of the schema-ordered view pointing at children with the recorded tags) is a schema-shaped document, the parser reads it, and the
   element it builds emits the same document again (Model/Doc.v, any depth; element types of the sequence, choice and bag classes) ---- *)
From MX Require Import Gen.Names Gen.Schema Gen.Templates Gen.Lib Spec.Equiv Model.Tables Model.SeqIds Model.Doc Model.DocTables.
Lemma cm_rows_ok8 : forallb cm_row_ok cm_rows = true.
Proof. vm_compute. reflexivity. Qed.
Definition rows_ok8 : forall r, In r cm_rows -> cm_row_ok r = true := fun r I => forallb_In _ _ _ cm_rows_ok8 I.
Theorem C08_document_roundtrip : forall e d, doc_elt_ok e -> doc_emit e = Some d -> exists e', doc_parse d = Some e' /\ doc_emit e' = Some d.
Proof. exact (tables_emitted_roundtrips rows_ok8). Qed.
Print Assumptions C08_document_roundtrip.
(* and a second round trip is the identity on the document *)
Theorem C08_second_roundtrip_identical : forall d e, doc_parse d = Some e -> forall d', doc_emit e = Some d' -> schema_valid d -> d' = d.
Proof.
  intros d e P d' E V. destruct (tables_doc_roundtrip rows_ok8 d V) as (e0 & P0 & E0). rewrite P in P0. injection P0 as <-. rewrite E in E0. injection E0 as <-. reflexivity.
Qed.
Print Assumptions C08_second_roundtrip_identical.

(* ---- the same with text and attributes (Model/PDoc.v, DocVal.v, DocValTables.v) ---- *)
From MX Require Import Model.PDoc Model.DocVal Model.DocValTables.
(* an element tree of any depth - built through the API or by the parser - that is structurally consistent (as above) and in which the str() of every
   stored text value and attribute value is read back by its own ladder to a value with the same str() (velt_ok): whatever to_string emits from it is
   parsed to an element tree that emits the SAME document: elements, order, nesting, every text, every attribute in order with its value.
   (Which stored values meet the condition: C08_enum_values, C08_int_values, free strings; which do not: C08_refuted_bool.)  float() is a parameter. *)
Theorem C08_document_values_roundtrip : forall py_float e d, velt_ok py_float e -> vemit e = Some d -> exists e', vparse py_float d = Some e' /\ vemit e' = Some d.
Proof. intros py_float. exact (tables_emitted_values_roundtrip py_float rows_ok8). Qed.
Print Assumptions C08_document_values_roundtrip.
(* and a second round trip of such a document changes nothing *)
Theorem C08_values_second_roundtrip_identical : forall py_float d e, vparse py_float d = Some e -> forall d', vemit e = Some d' -> gvalid py_float d -> d' = d.
Proof.
  intros py_float d e P d' E V. destruct (tables_gdoc_roundtrip py_float rows_ok8 d V) as (e0 & P0 & E0). rewrite P in P0. injection P0 as <-. rewrite E in E0. injection E0 as <-. reflexivity.
Qed.
Print Assumptions C08_values_second_roundtrip_identical.
