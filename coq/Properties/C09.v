(* C09 — any schema-valid file is read without loss.  The property factors through C02 (children accepted in file order),
   C04 / C05 (every lexically valid attribute / text accepted) and the parser's ladders.  Proved here, for the parser model
   of Model/Parser.v: on enumeration types every schema literal read from a file is kept as such, on integer-only types every
   valid integer text is read as that integer; the deviations are recorded with witnesses.  Everything else is decided by the
   document-level correspondence (documents generated from the schema independently of the library). *)
From MX Require Import Spec.CharRe Model.SimpleType Model.SimpleTypeThms Model.Parser Gen.SimpleTypes.
From Coq Require Import List String NArith ZArith Bool.
Import ListNotations.
Open Scope string_scope.
Definition lxrows : list (string * string * option rcls * option xr) :=
  Eval vm_compute in map (fun p => (fst p, snd p, resolve lib_st 6 (snd p), xresolve xsd_st 8 (fst p))) st_pairs.
Section WithPython.
  Variable py_float : pstr -> option pyval.
  (* a literal of the schema's enumeration, as found in a file (no surrounding white space), is accepted by the text ladder and
     by the attribute ladder and stored unchanged *)
  Theorem C09_enum_literals_read : forall t c r base pres e es pat ml mi ma me lits lit,
    In (t, c, Some r, Some (XRestr base pres (e :: es) pat ml mi ma me)) lxrows -> is_enum_r r = Some lits -> In lit lits -> strip (cp lit) = cp lit ->
    text_ladder py_float py_int_model r (cp lit) = LValue (VStr (cp lit)) /\ attr_ladder py_float py_int_model r (cp lit) = LValue (VStr (cp lit)).
  Proof. intros. split; [apply text_ladder_enum with lits; auto|apply attr_ladder_enum with lits; auto]. Qed.
End WithPython.
Print Assumptions C09_enum_literals_read.
(* RC19: the parser strips the text of every element, also of xs:string typed ones: " a " is read as "a" *)
Example C09_refuted_strip : strip (cp " a ") = cp "a" /\ xsd_valid xsd_st 8 "xs:string" (cp " a ") = true.
Proof. vm_compute. auto. Qed.
