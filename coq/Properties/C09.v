(* C09 — any schema-valid file is read without loss.  The property factors through C02 (children accepted in file order),
   C04 / C05 (every lexically valid attribute / text accepted) and the parser's ladders.  Proved here, for the parser model
   of Model/Parser.v: on enumeration types every schema literal read from a file is kept as such, on integer-only types every
   valid integer text is read as that integer; the deviations are recorded with witnesses.  Everything else is decided by the
   document-level correspondence (documents generated from the schema independently of the library). *)
From MX Require Import Spec.CharRe Model.SimpleType Model.SimpleTypeThms Model.Parser Gen.SimpleTypes Gen.Code
  Spec.Particle Spec.Deriv Spec.Equiv Gen.Names Gen.Schema Gen.Templates Gen.Lib Model.Tables Model.AbsSeq Model.AbsSeqC02 Model.Classes Model.SeqMachine Model.ChoiceSeq Model.ChoiceClass Model.ChoiceC02 Model.AbsBag.
From Coq Require Import List String NArith ZArith Bool Sorting.Permutation.
Import ListNotations.
Open Scope string_scope.
Definition lxrows : list (string * string * option rcls * option xr) :=
  Eval vm_compute in map (fun p => (fst p, snd p, resolve lib_st 6 (snd p), xresolve xsd_st 8 (fst p))) st_pairs.
Section WithPython.
  Variable py_float : pstr -> option pyval.
  (* a literal of the schema's enumeration, as found in a file (no surrounding white space), is accepted by the text ladder and
     by the attribute ladder and stored unchanged *)
  Theorem C09_enum_literals_read : forall t c r base pres e es pat ml mi ma me lits lit,
    In (t, c, Some r, Some (XRestr base pres (e :: es) pat ml mi ma me)) lxrows -> is_enum_r r = Some lits -> In lit lits -> strip (cp lit) = cp lit ->
    text_ladder py_float py_int_model parser_text_ladder r (cp lit) = LValue (VStr (cp lit)) /\ attr_ladder py_float py_int_model parser_attr_ladder r (cp lit) = LValue (VStr (cp lit)).
  Proof.
    intros. assert (T: parser_text_ladder = [(CId, [PTypeError]); (CFloat, [PTypeError]); (CInt, [])]) by reflexivity.
    assert (A: parser_attr_ladder = [(CId, [PTypeError; PValueError]); (CInt, [PValueError]); (CFloat, [])]) by reflexivity. rewrite T, A.
    split; [apply text_ladder_enum with lits; auto|apply attr_ladder_enum with lits; auto].
  Qed.
  (* the parser keeps no state between documents and attaches children in file order: read from the source by the translator *)
  Theorem C09_parser_source : tr_parser_ok = true.
  Proof. reflexivity. Qed.
End WithPython.
Print Assumptions C09_enum_literals_read.
(* ---- children: the parser attaches the children of a node with add_child, in file order ---- *)
Definition parse_children (t:stree) (w:list positive) : mst := mrun t (map MAdd w).
Lemma cm_rows_ok9 : forallb cm_row_ok cm_rows = true.
Proof. vm_compute. reflexivity. Qed.
(* valid files: for every element type of the sequence class and EVERY child sequence the SCHEMA allows, every add succeeds,
   the final check passes and the children are emitted in the order of the file *)
Theorem C09_valid_children_read_seq : forall key x l w, In (key, Some x, Some l) cm_rows -> Classes.is_seq l = true -> Lang (re_of x) w ->
  exists t, stree_of l = Some t /\ Forall (fun o => o = MOk) (mouts (minit t) (map MAdd w)) /\ verdict_ok (parse_children t w) = true /\ AbsSeq.names (AbsSeq.ordered (tree (parse_children t w))) = w.
Proof.
  intros key x l w I S L. destruct (is_seq_parts l S) as (t & St & W & ND). exists t. split; auto.
  apply (proj1 (cm_row_sound key x l (forallb_In _ _ _ cm_rows_ok9 I))) in L. apply (stree_of_lang l t St) in L.
  destruct (C02_seq_gen t W ND w 0 L) as (s' & E & R & N). destruct (mrun_adds w (minit t) s' E) as (A & B & D).
  unfold parse_children, mrun. rewrite A. split; [|split]; auto. unfold verdict_ok. fold (mrun t (map MAdd w)). unfold mrun. rewrite A, R. auto.
Qed.
Print Assumptions C09_valid_children_read_seq.
Theorem C09_valid_children_read_bag : forall key x l a mn w, In (key, Some x, Some l) cm_rows -> bag_of 10 l = Some (a, mn) -> Lang (re_of x) w ->
  bnames (brun a (map BAdd w)) = w /\ Forall (fun o => o = BOk) (bouts a ([], 0) (map BAdd w)) /\ bverdict mn (brun a (map BAdd w)) = true.
Proof.
  intros key x l a mn w I B L. apply (proj1 (cm_row_sound key x l (forallb_In _ _ _ cm_rows_ok9 I))) in L. apply (C02_bag l a mn w B L).
Qed.
Print Assumptions C09_valid_children_read_bag.
Theorem C09_valid_children_read_choice : forall key x l t w, In (key, Some x, Some l) cm_rows -> is_cseq l = true -> slots_of l = Some t -> forallb c02_ok t = true ->
  Lang (re_of x) w ->
  Forall (fun o => o = MOk) (couts (cminit t) (map MAdd w)) /\ cverdict_ok (cmrun t (map MAdd w)) = true /\ AbsSeq.names (cordered (ctree (cmrun t (map MAdd w)))) = w.
Proof.
  intros key x l t w I Cs St G L. destruct (is_cseq_nodup l t Cs St) as [W ND].
  apply (proj1 (cm_row_sound key x l (forallb_In _ _ _ cm_rows_ok9 I))) in L. apply (slots_of_lang l t St) in L.
  destruct (C02_cmachine t w W G ND L) as (A & B & C & _). auto.
Qed.
Print Assumptions C09_valid_children_read_choice.
(* any file: on the sequence machine, whatever children are offered - valid or not - if every add returns normally then the
   children emitted are a permutation of the children of the file: none is dropped, none invented (an add that raises aborts the parse) *)
Local Opaque mstep.
Lemma ins_adds w : forall s, Forall (fun o => o = MOk) (mouts s (map MAdd w)) ->
  map snd (ins (fold_left (fun s o => fst (mstep s o)) (map MAdd w) s)) = (map snd (ins s) ++ w)%list.
Proof.
  induction w as [|a w IH]; intros s F; cbn [map mouts fold_left] in *.
  - rewrite app_nil_r. reflexivity.
  - apply Forall_cons_iff in F as [Ha Hw]. cbv beta in Ha. rewrite (IH _ Hw). pose proof (C06_spec_list s (MAdd a)) as Sp. cbv beta iota in Sp. rewrite Ha in Sp.
    rewrite Sp. rewrite map_app. simpl. rewrite <- app_assoc. reflexivity.
Qed.
Local Transparent mstep.
Theorem C09_no_child_silently_lost_seq : forall t w, Forall (fun o => o = MOk) (mouts (minit t) (map MAdd w)) ->
  Permutation (AbsSeq.names (AbsSeq.ordered (tree (parse_children t w)))) w.
Proof.
  intros t w F. unfold parse_children. pose proof (C06_machine t (map MAdd w)) as P. apply (Permutation_map snd) in P.
  unfold AbsSeq.names. eapply Permutation_trans; [exact P|]. unfold mrun. rewrite (ins_adds w (minit t) F). simpl. apply Permutation_refl.
Qed.
Print Assumptions C09_no_child_silently_lost_seq.

(* RC19: the parser strips the text of every element, also of xs:string typed ones: " a " is read as "a" *)
Example C09_refuted_strip : strip (cp " a ") = cp "a" /\ xsd_valid xsd_st 8 "xs:string" (cp " a ") = true.
Proof. vm_compute. auto. Qed.

(* ---- whole documents (element structure, any depth): Model/Doc.v instantiated with today's tables (Model/DocTables.v) ---- *)
From MX Require Import Model.SeqIds Model.Doc Model.DocTables.
Definition rows_ok9 : forall r, In r cm_rows -> cm_row_ok r = true := fun r I => forallb_In _ _ _ cm_rows_ok9 I.
(* every document, of any depth, whose every element has a type of the sequence, choice or bag class (or no element content) and whose
   children at every node form a word of the SCHEMA's content model, is read by the parser, and serialising what was read gives back exactly
   that document: same elements, same order, same nesting *)
Theorem C09_document_structure : forall d, schema_valid d -> exists e, doc_parse d = Some e /\ doc_emit e = Some d.
Proof. exact (tables_doc_roundtrip rows_ok9). Qed.
Print Assumptions C09_document_structure.
(* and for ANY document, valid or not: if the parser returns and the result serialises, then at every node the emitted children are the
   children that were read, up to order (each related recursively): nothing is dropped, invented or moved to another parent *)
Theorem C09_document_no_silent_loss : forall d e d', doc_parse d = Some e -> doc_emit e = Some d' -> same_content d d'.
Proof. exact (tables_no_silent_loss rows_ok9). Qed.
Print Assumptions C09_document_no_silent_loss.
Example C09_document_example :
  let d := XNode s_defaults [XNode s_scaling [XNode s_millimeters []; XNode s_tenths []];
                             XNode s_page_layout [XNode s_page_height []; XNode s_page_width []; XNode s_page_margins [XNode s_left_margin []; XNode s_right_margin []; XNode s_top_margin []; XNode s_bottom_margin []]]] in
  schema_validb d = true /\ exists e, doc_parse d = Some e /\ doc_emit e = Some d.
Proof. split; [vm_compute; reflexivity|]. apply C09_document_structure. apply (schema_validb_sound rows_ok9). vm_compute. reflexivity. Qed.
(* a bag-class element (articulations: any number of marks in any order) inside a sequence-class one (notations) *)
Example C09_document_example_bag :
  let d := XNode s_articulations [XNode s_staccato []; XNode s_accent []; XNode s_staccato []; XNode s_tenuto []] in
  schema_validb d = true /\ exists e, doc_parse d = Some e /\ doc_emit e = Some d.
Proof. split; [vm_compute; reflexivity|]. apply C09_document_structure. apply (schema_validb_sound rows_ok9). vm_compute. reflexivity. Qed.
(* a choice-class element: bend (bend-alter, (pre-bend | release)?, with-bar?) *)
Example C09_document_example_choice :
  let d := XNode s_bend [XNode s_bend_alter []; XNode s_release []; XNode s_with_bar []] in
  schema_validb d = true /\ exists e, doc_parse d = Some e /\ doc_emit e = Some d.
Proof. split; [vm_compute; reflexivity|]. apply C09_document_structure. apply (schema_validb_sound rows_ok9). vm_compute. reflexivity. Qed.
(* how many element names get a machine today *)
Example C09_document_domain : Nat.leb 380 (List.length (filter (fun p => match elem_tpl (fst p) with Some _ => true | None => false end) sym_table)) = true.
Proof. vm_compute. reflexivity. Qed.

(* ---- whole documents WITH text and attributes (Model/PDoc.v, DocVal.v, DocValTables.v) ---- *)
From MX Require Import Model.PDoc Model.DocVal Model.DocValTables.
Section WithPythonFloat.
  (* Python's float() is a parameter; what is assumed of it: it returns a float or raises ValueError, and it reads the decimal text of an integer *)
  Variable py_float : pstr -> option pyval.
  Hypothesis float_returns_float : forall s f, py_float s = Some f -> exists k q r, f = VFloat k q r.
  Hypothesis float_reads_integers : forall z, py_float (strip (render_int z)) <> None.
  (* every document of any depth that is schema-valid in structure (as above) and whose texts and attribute values are enumeration literals,
     accepted integers of integer-only types or free strings (text without outer white space), with declared attributes of pairwise distinct names
     and all required attributes present: the parser reads it without an exception and serialising what was read gives back EXACTLY that document -
     elements, order, nesting, every text, every attribute in file order with its value *)
  Theorem C09_document_values : forall d, vvalid d -> exists e, vparse py_float d = Some e /\ vemit e = Some d.
  Proof. exact (tables_vdoc_roundtrip py_float float_returns_float float_reads_integers (conj eq_refl eq_refl) rows_ok9). Qed.
  (* the general form: instead of the three value families, every text / attribute value is individually a fixed point of "read through its ladder,
     write with str()" (that covers decimals whose repr is their text, union values, pattern types ...; the three families above are instances:
     DocValTables.families_text / families_attr).  Then the whole document is given back exactly. *)
  Theorem C09_document_values_general : forall d, gvalid py_float d -> exists e, vparse py_float d = Some e /\ vemit e = Some d.
  Proof. exact (tables_gdoc_roundtrip py_float rows_ok9). Qed.
  (* ANY document, valid or not: if the parser returns and the result serialises, then at every node the children emitted are the children read, up to
     order, and the text and attributes emitted are what serialisation makes of what the constructor and setattr accepted (vsame) ... *)
  Theorem C09_document_values_no_silent_loss : forall d e d', vparse py_float d = Some e -> vemit e = Some d' -> vsame py_float d d'.
  Proof. exact (tables_v_no_silent_loss py_float rows_ok9). Qed.
  (* ... which for a node with pairwise distinct attribute names means: the text emitted is str() of the value accepted for the file's text; the
     attributes emitted are exactly the file's, in file order, each with str() of the value accepted for it - none dropped, none invented *)
  Theorem C09_node_payload_kept : forall tag x attrs q x' attrs', NoDup (map fst attrs) -> vrdp py_float tag (x, attrs) = Some q -> vwrp tag q = Some (x', attrs') ->
    (exists pv, vrd_text py_float tag x = Some pv /\ x' = render pv)
    /\ Forall2 (fun ax ax' => fst ax' = fst ax /\ exists pv, vrd_attr py_float tag (fst ax) (snd ax) = Some pv /\ snd ax' = render pv) attrs attrs'.
  Proof. exact (node_payload_kept py_float). Qed.
End WithPythonFloat.
Print Assumptions C09_document_values.
Print Assumptions C09_document_values_general.
Print Assumptions C09_document_values_no_silent_loss.
Print Assumptions C09_node_payload_kept.
(* non-vacuity: <measure number="1"><barline location="right"><bar-style>light-heavy</bar-style></barline></measure> and
   <pitch><step>C</step><octave>4</octave></pitch> meet the premise (decided by computation, lifted by vvalidb_sound) *)
Example C09_document_values_example :
  let m := PNode vP s_measure ([], [("number", cp "1")]) [PNode vP s_barline ([], [("location", cp "right")]) [PNode vP s_bar_style (cp "light-heavy", []) []]] in
  let p := PNode vP s_pitch ([], []) [PNode vP s_step (cp "C", []) []; PNode vP s_octave (cp "4", []) []] in
  vvalidb m = true /\ vvalidb p = true /\ vvalid m /\ vvalid p.
Proof.
  assert (A: vvalidb (PNode vP s_measure ([], [("number", cp "1")]) [PNode vP s_barline ([], [("location", cp "right")]) [PNode vP s_bar_style (cp "light-heavy", []) []]]) = true) by (vm_compute; reflexivity).
  assert (B: vvalidb (PNode vP s_pitch ([], []) [PNode vP s_step (cp "C", []) []; PNode vP s_octave (cp "4", []) []]) = true) by (vm_compute; reflexivity).
  split; [exact A|split; [exact B|split; apply (vvalidb_sound rows_ok9); assumption]].
Qed.
(* and a document outside the premise that the model refuses exactly like the library: an undeclared attribute aborts the parse *)
Example C09_document_values_undeclared : vrun [] (PNode vP s_pitch ([], [("no-such", cp "x")]) []) = VNoParse.
Proof. vm_compute. reflexivity. Qed.
(* a decimal text and a decimal attribute meet the general premise when float() reads them as the float with that repr:
   <measure number="1" width="92.5"><forward><duration>1.5</duration></forward></measure> (float() given as the table Python fills in) *)
Example C09_document_values_general_example :
  let ft := [(cp "92.5", Some (VFloat FPlain (QArith_base.Qmake 185 2) (cp "92.5"))); (cp "1.5", Some (VFloat FPlain (QArith_base.Qmake 3 2) (cp "1.5")))] in
  gvalidb (float_table ft) (PNode vP s_measure ([], [("number", cp "1"); ("width", cp "92.5")]) [PNode vP s_forward ([], []) [PNode vP s_duration (cp "1.5", []) []]]) = true.
Proof. vm_compute. reflexivity. Qed.
