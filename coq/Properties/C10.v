(* C10 — a failed operation changes nothing.
   On the specification machines this holds for every state and operation (theorems below): their force is the
   correspondence with the implementation on histories that contain failing operations.  On the faithful model the
   property is false today: refutations pinned as runs of M_py. *)
From MX Require Import Spec.Particle Gen.Names Gen.Templates Model.AbsSeq Model.Classes Model.SeqMachine Model.ChoiceSeq Model.AbsBag Model.PyM Model.PyObs Gen.Code Model.EltEffects.
From Coq Require Import List Bool Arith.
Import ListNotations.

Theorem C10_partial_seq : forall s o, snd (mstep s o) <> MOk -> tree (fst (mstep s o)) = tree s /\ ins (fst (mstep s o)) = ins s.
Proof. exact C10_machine. Qed.
Print Assumptions C10_partial_seq.
(* consequently every continuation behaves the same with and without the failed call, up to the id counter *)
Theorem C10_partial_seq_future : forall s o a, snd (mstep s o) <> MOk ->
  option_map shape (add (next (fst (mstep s o))) a (tree (fst (mstep s o)))) = option_map shape (add (next s) a (tree s)) /\
  required true (tree (fst (mstep s o))) = required true (tree s).
Proof.
  intros s o a H. destruct (C10_machine s o H) as [E _]. rewrite E. split; auto.
  assert (G: forall n1 n2 t, option_map shape (add n1 a t) = option_map shape (add n2 a t)).
  { intros n1 n2 t. induction t using sst_ind2.
    - simpl. destruct (Pos.eqb a s0 && negb (full mx (length it)))%bool; auto.
    - rewrite !add_node.
      assert (L: option_map (map shape) (add_list n1 a k) = option_map (map shape) (add_list n2 a k)).
      { induction H0 as [|x k Hx Hk IH]; simpl; auto.
        destruct (add n1 a x) eqn:E1, (add n2 a x) eqn:E2; simpl in *; try discriminate.
        - injection Hx as Hx. rewrite Hx. auto.
        - destruct (add_list n1 a k), (add_list n2 a k); simpl in *; try discriminate; auto. injection IH as IH. rewrite IH. auto. }
      destruct (add_list n1 a k), (add_list n2 a k); simpl in *; try discriminate; auto. injection L as L. rewrite L. auto. }
  apply G.
Qed.
Print Assumptions C10_partial_seq_future.
Theorem C10_partial_bag : forall alpha s o, snd (bstep alpha s o) <> BOk -> fst (fst (bstep alpha s o)) = fst s.
Proof. intros alpha s [a|]; simpl; [|intros H; exfalso; apply H; auto]. destruct (mem_pos a alpha); simpl; auto. intros H; exfalso; apply H; auto. Qed.
Print Assumptions C10_partial_bag.

Theorem C10_partial_choice : forall s o, snd (cstep s o) <> MOk -> ctree (fst (cstep s o)) = ctree s /\ cins (fst (cstep s o)) = cins s.
Proof. exact C10_cmachine. Qed.
Print Assumptions C10_partial_choice.

(* ---- the element-level half: order of checks and stores in XMLElement.add_child / remove / replace_child / value_ setter, read from the source ---- *)
Theorem C10_element_checks_first : tr_element_ok = true /\ checks_first elt_add_child = true /\ checks_first elt_remove = true /\ checks_first elt_value_set = true
  /\ checks_first elt_replace_child = true.
Proof. repeat split; reflexivity. Qed.
(* hence a call of one of the three that raises - at whatever check, for whatever reason - has stored nothing in the element *)
Theorem C10_element_atomic : forall effs, In effs [elt_add_child; elt_remove; elt_value_set; elt_replace_child] ->
  forall fails log, fst (eexec effs fails 0 log) = ERaised -> snd (eexec effs fails 0 log) = log.
Proof.
  intros effs I fails log. apply checks_first_atomic. destruct C10_element_checks_first as (_ & A & B & C & D).
  destruct I as [<-|[<-|[<-|[<-|[]]]]]; assumption.
Qed.
Print Assumptions C10_element_atomic.
Example C10_element_nonvacuous : (Nat.leb 2 (length elt_add_child) && Nat.leb 3 (length elt_remove) && Nat.leb 2 (length elt_value_set))%bool = true
  /\ fst (eexec elt_remove (fun i => Nat.eqb i 0) 0 []) = ERaised /\ fst (eexec elt_add_child (fun i => Nat.eqb i 1) 0 []) = ERaised.
Proof. vm_compute. auto. Qed.
(* a store before a check is what the theorem excludes: remove() with the container bookkeeping ahead of the membership check *)
Example C10_element_bad_order_refuted : snd (eexec [XRead; XContainer; XListRemove; XSetParent] (fun i => Nat.eqb i 2) 0 []) <> [].
Proof. vm_compute. discriminate. Qed.

(* ---- refutations on the faithful model ---- *)
(* RC2: the rejected forward add stays attached *)
Example C10_refuted_forward :
  let ls := PyM.run tpl_MeasureLayout [OAdd s_measure_distance; OAddFwd s_measure_distance 0] in
  l_exn (last_line ls) = Some EValueError /\ l_ordered (last_line ls) <> l_ordered (nth 0 ls dline).
Proof. vm_compute. split; [reflexivity|discriminate]. Qed.
