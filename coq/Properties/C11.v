(* C11 — removing a child restores the behaviour the element had without it.
   Proved on the sequence machine: a removal deletes exactly that child from both views and keeps the relative order of
   the others.  The "behaves like a fresh element" half is FALSE on the machine (and on the code) whenever an optional
   nested sequence was activated: pinned below.  *)
From MX Require Import Spec.Particle Gen.Names Gen.Templates Model.AbsSeq Model.Classes Model.SeqMachine Model.PyM Model.PyObs.
From Coq Require Import List Bool Arith.
Import ListNotations.

Theorem C11_partial_views : forall s k c b, nth_error (ins s) k = Some (c, b) ->
  let s' := fst (mstep s (MRemove k)) in
  AbsSeq.ordered (tree s') = filter (keep c) (AbsSeq.ordered (tree s)) /\ ins s' = filter (keep c) (ins s) /\ snd (mstep s (MRemove k)) = MOk.
Proof. intros s k c b E. simpl. rewrite E. simpl. split; [apply ordered_remove|split; reflexivity]. Qed.
Print Assumptions C11_partial_views.

(* the sticky activation: [add an optional group's member; remove it] leaves the group's required member "required" *)
Example C11_refuted_sticky_machine :
  match stree_of tpl_Barline with
  | Some t => required true (tree (mrun t [MAdd s_level; MRemove 0])) = [s_level] /\ required true (tree (mrun t [])) = []
              /\ ins (mrun t [MAdd s_level; MRemove 0]) = []
  | None => False end.
Proof. vm_compute. auto. Qed.
Example C11_refuted_sticky_model :
  l_req (last_line (PyM.run tpl_Barline [OAdd s_level; ORemove 0; OFinal false])) = Some [s_level]
  /\ l_req (last_line (PyM.run tpl_Barline [OFinal false])) = Some [].
Proof. vm_compute. auto. Qed.
(* RC4: an exclusive alternative is not available again after its rival was removed *)
Example C11_refuted_choice_model :
  map l_exn (PyM.run tpl_Note [OAdd s_pitch; ORemove 0; OAdd s_cue]) = [None; None; Some AnotherChosen]
  /\ map l_exn (PyM.run tpl_Note [OAdd s_cue]) = [None].
Proof. vm_compute. auto. Qed.
