(* C11 — removing a child restores the behaviour the element had without it.
   Proved on the sequence machine: a removal deletes exactly that child from both views and keeps the relative order of
   the others.  The "behaves like a fresh element" half is FALSE on the machine (and on the code) whenever an optional
   nested sequence was activated: pinned below.  *)
From MX Require Import Spec.Particle Gen.Names Gen.Templates Model.AbsSeq Model.AbsSeqC02 Model.Classes Model.SeqMachine Model.SeqRemove Model.PyM Model.PyObs.
From Coq Require Import List Bool Arith.
Import ListNotations.

Theorem C11_partial_views : forall s k c b, nth_error (ins s) k = Some (c, b) ->
  let s' := fst (mstep s (MRemove k)) in
  AbsSeq.ordered (tree s') = filter (keep c) (AbsSeq.ordered (tree s)) /\ ins s' = filter (keep c) (ins s) /\ snd (mstep s (MRemove k)) = MOk.
Proof. intros s k c b E. simpl. rewrite E. simpl. split; [apply ordered_remove|split; reflexivity]. Qed.
Print Assumptions C11_partial_views.

(* the property itself, where it holds: for every template WITHOUT optional nested sequence (46 of today's 94 types), every
   history and every removed child, the element then is - up to child ids - in the state of a fresh element to which the
   remaining children were added in their insertion order: same children view, same verdict, same acceptance of every child *)
Theorem C11_partial_noopt : forall k l t, In (k, l) lib_templates -> Classes.is_seq l = true -> stree_of l = Some t -> has_opt_t t = false ->
  forall ops i c b, nth_error (ins (mrun t ops)) i = Some (c, b) ->
  let s1 := fst (mstep (mrun t ops) (MRemove i)) in
  exists s2, addw (map snd (ins s1)) 0 (AbsSeq.init t) = Some s2 /\ erase s2 = erase (tree s1)
    /\ AbsSeq.names (AbsSeq.ordered s2) = AbsSeq.names (AbsSeq.ordered (tree s1))
    /\ (forall a n n', option_map erase (AbsSeq.add n a s2) = option_map erase (AbsSeq.add n' a (tree s1))).
Proof.
  intros k l t _ S St NO ops i c b E. destruct (is_seq_parts l S) as (t' & St' & W & ND). rewrite St in St'. injection St' as <-.
  apply (C11_machine t ops i c b (no_opt_init t NO) ND E).
Qed.
Print Assumptions C11_partial_noopt.
(* for ALL 61 types of the sequence class - optional nested sequences included - the children view and the acceptance of every further child
   are those of a fresh element given the remaining children; only the final-check verdict can differ (sticky activation, refuted below) *)
Theorem C11_partial_seq_views_and_acceptance : forall k l t, In (k, l) lib_templates -> Classes.is_seq l = true -> stree_of l = Some t ->
  forall ops i c b, nth_error (ins (mrun t ops)) i = Some (c, b) ->
  let s1 := fst (mstep (mrun t ops) (MRemove i)) in
  exists s2, addw (map snd (ins s1)) 0 (AbsSeq.init t) = Some s2 /\ erase s2 = erase (tree s1)
    /\ AbsSeq.names (AbsSeq.ordered s2) = AbsSeq.names (AbsSeq.ordered (tree s1))
    /\ (forall a n n', option_map erase (AbsSeq.add n a s2) = option_map erase (AbsSeq.add n' a (tree s1))).
Proof.
  intros k l t _ S St ops i c b E. destruct (is_seq_parts l S) as (t' & St' & W & ND). rewrite St in St'. injection St' as <-.
  apply (C11_machine_all t ops i c b ND E).
Qed.
Print Assumptions C11_partial_seq_views_and_acceptance.
(* and the verdict differs in ONE direction only: whenever the final check passes after a removal, it passes on the fresh element given the
   remaining children (the sticky activation makes the element stricter, never more permissive) - again for all 61 types *)
Theorem C11_partial_seq_verdict_one_sided : forall k l t, In (k, l) lib_templates -> Classes.is_seq l = true -> stree_of l = Some t ->
  forall ops i c b, nth_error (ins (mrun t ops)) i = Some (c, b) ->
  let s1 := fst (mstep (mrun t ops) (MRemove i)) in
  forall s2, addw (map snd (ins s1)) 0 (AbsSeq.init t) = Some s2 -> erase s2 = erase (tree s1) -> verdict_ok s1 = true -> AbsSeq.required true s2 = [].
Proof.
  intros k l t _ S St ops i c b E. destruct (is_seq_parts l S) as (t' & St' & W & ND). rewrite St in St'. injection St' as <-.
  apply (C11_verdict_one_sided t ops i c b ND E).
Qed.
Print Assumptions C11_partial_seq_verdict_one_sided.
Example C11_nonvacuous : Nat.leb 40 (List.length (filter (fun kl => match stree_of (snd kl) with Some t => Classes.is_seq (snd kl) && negb (has_opt_t t) | None => false end) lib_templates)) = true.
Proof. vm_compute. reflexivity. Qed.

(* the sticky activation: [add an optional group's member; remove it] leaves the group's required member "required" *)
Example C11_refuted_sticky_machine :
  match stree_of tpl_Barline with
  | Some t => required true (tree (mrun t [MAdd s_level; MRemove 0])) = [s_level] /\ required true (tree (mrun t [])) = []
              /\ ins (mrun t [MAdd s_level; MRemove 0]) = []
  | None => False end.
Proof. vm_compute. auto. Qed.
Example C11_refuted_sticky_model :
  l_req (last_line (PyM.run tpl_Barline [OAdd s_level; ORemove 0; OFinal false])) = Some [s_level]
  /\ l_req (last_line (PyM.run tpl_Barline [OFinal false])) = Some [].
Proof. vm_compute. auto. Qed.
(* RC4: an exclusive alternative is not available again after its rival was removed *)
Example C11_refuted_choice_model :
  map l_exn (PyM.run tpl_Note [OAdd s_pitch; ORemove 0; OAdd s_cue]) = [None; None; Some AnotherChosen]
  /\ map l_exn (PyM.run tpl_Note [OAdd s_cue]) = [None].
Proof. vm_compute. auto. Qed.

(* ---- the choice class (arrow, bend, harmonic, instrument-change, measure-style, percussion, score-instrument, swing) ---- *)
From MX Require Import Model.ChoiceSeq Model.ChoiceClass.
(* proved: after ANY removal both views are those of the history without the removed child (in every reachable state of every template) *)
Theorem C11_partial_choice_views : forall s k c b, CInv (ctree s) -> nth_error (cins s) k = Some (c, b) ->
  let s' := fst (cstep s (MRemove k)) in
  cordered (ctree s') = filter (keep c) (cordered (ctree s)) /\ cins s' = filter (keep c) (cins s) /\ cshape (ctree s') = cshape (ctree s).
Proof.
  intros s k c b I E. simpl. rewrite E. simpl. destruct (cremove_ok c (ctree s) I) as (_ & Sh & O). repeat split; auto.
Qed.
Print Assumptions C11_partial_choice_views.
(* refuted for the rest of the statement, on the machine and on the faithful model alike:
   (1) an OPTIONAL choice whose leaf was removed demands a child from then on (harmonic: add natural; remove it: the final check refuses, a fresh
       harmonic passes);
   (2) a SEQUENCE branch that was emptied stays chosen (arrow: add arrow-direction; remove it; circular-arrow is rejected, a fresh arrow accepts it) *)
Example C11_refuted_choice_class :
  match slots_of tpl_Harmonic, slots_of tpl_Arrow with
  | Some th, Some ta =>
      cverdict_ok (cmrun th [MAdd s_natural; MRemove 0]) = false /\ cverdict_ok (cmrun th []) = true /\ cins (cmrun th [MAdd s_natural; MRemove 0]) = []
      /\ snd (cstep (cmrun ta [MAdd s_arrow_direction; MRemove 0]) (MAdd s_circular_arrow)) <> MOk /\ snd (cstep (cmrun ta []) (MAdd s_circular_arrow)) = MOk
  | _, _ => False end
  /\ (let a := PyM.run tpl_Harmonic [OAdd s_natural; ORemove 0; OFinal false] in let b := PyM.run tpl_Harmonic [OFinal false] in
      l_req (last_line a) <> Some [] /\ l_req (last_line b) = Some [])
  /\ map l_exn (PyM.run tpl_Arrow [OAdd s_arrow_direction; ORemove 0; OAdd s_circular_arrow]) = [None; None; Some AnotherChosen].
Proof. vm_compute. repeat split; auto; discriminate. Qed.
