(* C12 — where the schema fixes the order, insertion order does not matter; a child is never rejected while it can still be
   arranged with those present.  The "still compatible" verdict comes only from a checked witness (witness_sound);
   "unique arrangement" is established by exhaustive search on the multiset and each arrangement is confirmed by the
   verified matcher.  Refutations on the faithful model. *)
From MX Require Import Spec.Particle Spec.Deriv Spec.Equiv Spec.Parikh Gen.Names Gen.Templates Gen.Schema Gen.Lib Model.Tables Model.PyM Model.PyObs
  Model.AbsSeq Model.AbsSeqC02 Model.Classes Model.SeqMachine Model.SeqReject Model.SeqRemove Model.SeqPermute
  Model.ChoiceSeq Model.ChoiceClass Model.ChoiceC02 Model.ChoicePermute Model.ChoiceReject Model.AbsBag Model.BagMore.
From Coq Require Import Permutation.
From Coq Require Import List Bool Arith.
Import ListNotations.

Theorem C12_judge_compatible : forall r m w, wf r = true -> witness r m w = true -> Alive r m.
Proof. exact witness_sound. Qed.
Print Assumptions C12_judge_compatible.

Lemma cm_rows_ok : forallb cm_row_ok cm_rows = true.
Proof. vm_compute. reflexivity. Qed.
(* (b) on the sequence machine, against the SCHEMA's content model: for every type of the sequence class and EVERY history, a
   child is rejected only if no word of the schema's content model contains the children present together with it *)
Theorem C12b_partial_seq : forall key x l t ops a, In (key, Some x, Some l) cm_rows -> stree_of l = Some t ->
  snd (mstep (mrun t ops) (MAdd a)) <> MOk -> ~ Alive (re_of x) (AbsSeq.names (AbsSeq.ordered (tree (mrun t ops))) ++ [a]).
Proof.
  intros key x l t ops a I St R (w & L & Dom).
  apply (C12b_reachable t ops a R). exists w. split; auto.
  apply (stree_of_lang l t St). apply (proj1 (cm_row_sound key x l (forallb_In _ _ _ cm_rows_ok I))). exact L.
Qed.
Print Assumptions C12b_partial_seq.

(* (a) on the sequence machine, against the SCHEMA's content model: for every type of the sequence class, every word w of the
   schema language and EVERY permutation p of w: all children of p are accepted, the final check passes, and they are serialised
   as w (the one arrangement the schema allows for this collection, since leaf names are distinct) *)
Theorem C12a_partial_seq : forall key x l w p, In (key, Some x, Some l) cm_rows -> Classes.is_seq l = true -> Lang (re_of x) w -> Permutation w p ->
  exists t s, stree_of l = Some t /\ addw p 0 (AbsSeq.init t) = Some s /\ AbsSeq.names (AbsSeq.ordered s) = w /\ required true s = [].
Proof.
  intros key x l w p I S L P. destruct (is_seq_parts l S) as (t & St & W & ND).
  apply (proj1 (cm_row_sound key x l (forallb_In _ _ _ cm_rows_ok I))) in L. apply (stree_of_lang l t St) in L.
  destruct (C02_seq_gen t W ND w 0 L) as (s1 & E1 & R1 & N1).
  destruct (C12a_machine t w p s1 ND P E1) as (s2 & E2 & _ & N2 & R2).
  exists t, s2. repeat split; auto; congruence.
Qed.
Print Assumptions C12a_partial_seq.

(* (a) on the choice machine (arrow, bend, harmonic, instrument-change, measure-style, percussion, score-instrument, swing), against the
   SCHEMA's content model: every word w of the schema language, in EVERY insertion order p: all children accepted, the final check
   passes, serialised as w, insertion view p *)
Theorem C12a_partial_choice : forall key x l t w p, In (key, Some x, Some l) cm_rows -> is_cseq l = true -> slots_of l = Some t -> forallb c02_ok t = true ->
  Lang (re_of x) w -> Permutation w p ->
  Forall (fun o => o = MOk) (couts (cminit t) (map MAdd p)) /\ cverdict_ok (cmrun t (map MAdd p)) = true /\
  AbsSeq.names (cordered (ctree (cmrun t (map MAdd p)))) = w /\ map snd (cins (cmrun t (map MAdd p))) = p.
Proof.
  intros key x l t w p I Cs St G L P. destruct (is_cseq_nodup l t Cs St) as [W ND].
  apply (proj1 (cm_row_sound key x l (forallb_In _ _ _ cm_rows_ok I))) in L. apply (slots_of_lang l t St) in L.
  apply C12a_cmachine; auto.
Qed.
Print Assumptions C12a_partial_choice.
(* (b) on the choice machine, against the SCHEMA's content model, for EVERY history without a removal (adds accepted or not,
   same-name replacements, final checks): a child is rejected only if no word of the schema's content model contains the children
   present together with it.  With a removal the statement is false: C12b_refuted_choice_after_removal. *)
Theorem C12b_partial_choice : forall key x l t ops a, In (key, Some x, Some l) cm_rows -> is_cseq l = true -> slots_of l = Some t -> no_remove ops = true ->
  snd (cstep (cmrun t ops) (MAdd a)) <> MOk -> ~ Alive (re_of x) (AbsSeq.names (cordered (ctree (cmrun t ops))) ++ [a]).
Proof.
  intros key x l t ops a I Cs St NR R (w & L & Dom). destruct (is_cseq_nodup l t Cs St) as [W ND].
  apply (C12b_cmachine t ops a W ND NR R). exists w. split; auto.
  apply (slots_of_lang l t St). apply (proj1 (cm_row_sound key x l (forallb_In _ _ _ cm_rows_ok I))). exact L.
Qed.
Print Assumptions C12b_partial_choice.
(* non-vacuity: arrow is such a type; a rejected child in a removal-free history *)
Example C12_choice_nonvacuous : is_cseq tpl_Arrow = true /\ match slots_of tpl_Arrow with Some t =>
    forallb c02_ok t && negb (match snd (cstep (cmrun t [MAdd s_arrow_direction]) (MAdd s_circular_arrow)) with MOk => true | _ => false end) | None => false end = true.
Proof. vm_compute. auto. Qed.
(* after a removal the emptied sequence branch of arrow stays chosen: circular-arrow (a word on its own) is rejected - on the
   specification machine and on the faithful model of the library alike (RC4) *)
Example C12b_refuted_choice_after_removal :
  match slots_of tpl_Arrow with Some t =>
    match snd (cstep (cmrun t [MAdd s_arrow_direction; MRemove 0]) (MAdd s_circular_arrow)) with MOk => false | _ => true end
    && Nat.eqb (List.length (cins (cmrun t [MAdd s_arrow_direction; MRemove 0]))) 0 | None => false end = true
  /\ witness (re_of tpl_Arrow) [s_circular_arrow] [s_circular_arrow] = true
  /\ (let ls := PyM.run tpl_Arrow [OAdd s_arrow_direction; ORemove 0; OAdd s_circular_arrow] in
      match l_exn (last_line ls) with Some _ => true | None => false end = true /\ l_unordered (nth 1 ls dline) = []).
Proof. vm_compute. auto. Qed.

(* (b) on the bag machine (measure, dynamics, articulations, technical, ...), against the SCHEMA's content model: in every state a
   rejected child occurs in no word of the content model.  ((a) is void for these types: every arrangement of a bag is valid.) *)
Theorem C12b_partial_bag : forall key x l a mn s c, In (key, Some x, Some l) cm_rows -> bag_of 10 l = Some (a, mn) ->
  snd (bstep a s (BAdd c)) <> BOk -> ~ Alive (re_of x) (bnames s ++ [c]).
Proof.
  intros key x l a mn s c I B R (w & L & Dom). apply (C12b_bag l a mn s c B R). exists w. split; auto.
  apply (proj1 (cm_row_sound key x l (forallb_In _ _ _ cm_rows_ok I))). exact L.
Qed.
Print Assumptions C12b_partial_bag.

(* RC4: after pitch was removed, cue (an exclusive alternative that is now compatible) is rejected *)
Example C12_refuted_note :
  let ls := PyM.run tpl_Note [OAdd s_pitch; ORemove 0; OAdd s_cue] in
  l_exn (last_line ls) = Some AnotherChosen /\ l_unordered (nth 1 ls dline) = [] /\ witness (re_of tpl_Note) [s_cue] [s_cue; s_pitch; s_duration] = true.
Proof. vm_compute. auto. Qed.
(* insertion order matters: credit-image then bookmark *)
Example C12_refuted_credit :
  existsb (fun e => match e with Some _ => true | None => false end) (outcomes (PyM.run tpl_Credit [OAdd s_credit_image; OAdd s_bookmark])) = true
  /\ witness (re_of tpl_Credit) [s_credit_image; s_bookmark] [s_bookmark; s_credit_image] = true.
Proof. vm_compute. auto. Qed.
