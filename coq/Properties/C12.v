(* C12 — where the schema fixes the order, insertion order does not matter; a child is never rejected while it can still be
   arranged with those present.  The "still compatible" verdict comes only from a checked witness (witness_sound);
   "unique arrangement" is established by exhaustive search on the multiset and each arrangement is confirmed by the
   verified matcher.  Refutations on the faithful model. *)
From MX Require Import Spec.Particle Spec.Deriv Spec.Parikh Gen.Names Gen.Templates Model.PyM Model.PyObs.
From Coq Require Import List Bool Arith.
Import ListNotations.

Theorem C12_judge_compatible : forall r m w, wf r = true -> witness r m w = true -> Alive r m.
Proof. exact witness_sound. Qed.
Print Assumptions C12_judge_compatible.

(* RC4: after pitch was removed, cue (an exclusive alternative that is now compatible) is rejected *)
Example C12_refuted_note :
  let ls := PyM.run tpl_Note [OAdd s_pitch; ORemove 0; OAdd s_cue] in
  l_exn (last_line ls) = Some AnotherChosen /\ l_unordered (nth 1 ls dline) = [] /\ witness (re_of tpl_Note) [s_cue] [s_cue; s_pitch; s_duration] = true.
Proof. vm_compute. auto. Qed.
(* insertion order matters: credit-image then bookmark *)
Example C12_refuted_credit :
  existsb (fun e => match e with Some _ => true | None => false end) (outcomes (PyM.run tpl_Credit [OAdd s_credit_image; OAdd s_bookmark])) = true
  /\ witness (re_of tpl_Credit) [s_credit_image; s_bookmark] [s_bookmark; s_credit_image] = true.
Proof. vm_compute. auto. Qed.
