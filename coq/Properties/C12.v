(* C12 — where the schema fixes the order, insertion order does not matter; a child is never rejected while it can still be
   arranged with those present.  The "still compatible" verdict comes only from a checked witness (witness_sound);
   "unique arrangement" is established by exhaustive search on the multiset and each arrangement is confirmed by the
   verified matcher.  Refutations on the faithful model. *)
From MX Require Import Spec.Particle Spec.Deriv Spec.Equiv Spec.Parikh Gen.Names Gen.Templates Gen.Schema Gen.Lib Model.Tables Model.PyM Model.PyObs
  Model.AbsSeq Model.AbsSeqC02 Model.Classes Model.SeqMachine Model.SeqReject Model.SeqRemove Model.SeqPermute.
From Coq Require Import Permutation.
From Coq Require Import List Bool Arith.
Import ListNotations.

Theorem C12_judge_compatible : forall r m w, wf r = true -> witness r m w = true -> Alive r m.
Proof. exact witness_sound. Qed.
Print Assumptions C12_judge_compatible.

Lemma cm_rows_ok : forallb cm_row_ok cm_rows = true.
Proof. vm_compute. reflexivity. Qed.
(* (b) on the sequence machine, against the SCHEMA's content model: for every type of the sequence class and EVERY history, a
   child is rejected only if no word of the schema's content model contains the children present together with it *)
Theorem C12b_partial_seq : forall key x l t ops a, In (key, Some x, Some l) cm_rows -> stree_of l = Some t ->
  snd (mstep (mrun t ops) (MAdd a)) <> MOk -> ~ Alive (re_of x) (AbsSeq.names (AbsSeq.ordered (tree (mrun t ops))) ++ [a]).
Proof.
  intros key x l t ops a I St R (w & L & Dom).
  apply (C12b_reachable t ops a R). exists w. split; auto.
  apply (stree_of_lang l t St). apply (proj1 (cm_row_sound key x l (forallb_In _ _ _ cm_rows_ok I))). exact L.
Qed.
Print Assumptions C12b_partial_seq.

(* (a) on the sequence machine, against the SCHEMA's content model: for every type of the sequence class, every word w of the
   schema language and EVERY permutation p of w: all children of p are accepted, the final check passes, and they are serialised
   as w (the one arrangement the schema allows for this collection, since leaf names are distinct) *)
Theorem C12a_partial_seq : forall key x l w p, In (key, Some x, Some l) cm_rows -> Classes.is_seq l = true -> Lang (re_of x) w -> Permutation w p ->
  exists t s, stree_of l = Some t /\ addw p 0 (AbsSeq.init t) = Some s /\ AbsSeq.names (AbsSeq.ordered s) = w /\ required true s = [].
Proof.
  intros key x l w p I S L P. destruct (is_seq_parts l S) as (t & St & W & ND).
  apply (proj1 (cm_row_sound key x l (forallb_In _ _ _ cm_rows_ok I))) in L. apply (stree_of_lang l t St) in L.
  destruct (C02_seq_gen t W ND w 0 L) as (s1 & E1 & R1 & N1).
  destruct (C12a_machine t w p s1 ND P E1) as (s2 & E2 & _ & N2 & R2).
  exists t, s2. repeat split; auto; congruence.
Qed.
Print Assumptions C12a_partial_seq.

(* RC4: after pitch was removed, cue (an exclusive alternative that is now compatible) is rejected *)
Example C12_refuted_note :
  let ls := PyM.run tpl_Note [OAdd s_pitch; ORemove 0; OAdd s_cue] in
  l_exn (last_line ls) = Some AnotherChosen /\ l_unordered (nth 1 ls dline) = [] /\ witness (re_of tpl_Note) [s_cue] [s_cue; s_pitch; s_duration] = true.
Proof. vm_compute. auto. Qed.
(* insertion order matters: credit-image then bookmark *)
Example C12_refuted_credit :
  existsb (fun e => match e with Some _ => true | None => false end) (outcomes (PyM.run tpl_Credit [OAdd s_credit_image; OAdd s_bookmark])) = true
  /\ witness (re_of tpl_Credit) [s_credit_image; s_bookmark] [s_bookmark; s_credit_image] = true.
Proof. vm_compute. auto. Qed.
