(* C13 — element instances are isolated from one another.
   In the faithful model every element owns its store by construction; that this is what the code does is the content of
   the sharing facts below, read off the code by tr/code.py (fail-closed), and of the interleaving correspondence. *)
From MX Require Import Gen.Code.
From Coq Require Import List String Bool.
Import ListNotations.
Open Scope string_scope.
(* P1 the per-type container template is copied for every new element; P2 copying a container node makes a new node with a
   copied content and copied children; P3/P4 a copied leaf is a new XSDElement whose list of attached children is a fresh
   list; P5 an element's attribute dictionary and insertion list are created afresh by __init__ *)
Theorem C13_sharing : tr_sharing_ok = true /\ forall f, In f sharing_facts -> snd f = true.
Proof. split; [reflexivity|]. intros f I. exact (proj1 (forallb_forall (fun f => snd f) sharing_facts) ltac:(vm_compute; reflexivity) f I). Qed.
Print Assumptions C13_sharing.
Theorem C13_five_facts : List.length sharing_facts = 5.
Proof. reflexivity. Qed.
(* the only process-wide mutable state are the class-level tables, each written once with a complete value (C20) *)
Theorem C13_class_level_state : forall s, In s class_level_stores -> (let '(_, _, _, _, sh) := s in match sh with SSingleStore => true | _ => false end) = true.
Proof. apply forallb_forall. vm_compute. reflexivity. Qed.
Print Assumptions C13_class_level_state.
(* the class-level tables are shared by every instance: no function of the library changes in place what a table getter (or the attribute
   dictionary of a shared schema node) hands out - read from the source on every run (the same list as C20_tables_read_only) *)
Theorem C13_tables_read_only : shared_table_mutations = [].
Proof. reflexivity. Qed.
