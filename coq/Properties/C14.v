(* C14 — deep copies are faithful.  The source the copy is rebuilt from is read off __deepcopy__ by tr/code.py. *)
From MX Require Import Gen.Code Model.Copy.
From Coq Require Import List String Bool.
Import ListNotations.
Open Scope string_scope.
Definition source : copy_source :=
  if String.eqb deepcopy_source_name "FromAttributes" then FromAttributes
  else if String.eqb deepcopy_source_name "FromKwargs" then FromKwargs else UnknownSource.
(* today's __deepcopy__ passes a copy of the CURRENT attribute dictionary to the new element *)
Theorem C14_source : tr_deepcopy_ok = true /\ source = FromAttributes.
Proof. split; reflexivity. Qed.
Print Assumptions C14_source.
(* hence, for EVERY element tree (attributes set, changed or removed at any time, any nesting), the copy serialises as the original *)
Theorem C14_faithful : forall e, emit (deepcopy source e) = emit e.
Proof. rewrite (proj2 C14_source). exact deepcopy_attrs_faithful. Qed.
Print Assumptions C14_faithful.
Theorem C14_xsd_check_kept : forall e, checks (deepcopy source e) = checks e.
Proof. exact (deepcopy_keeps_xsd_check source). Qed.
Print Assumptions C14_xsd_check_kept.
(* what the defect repaired by the fix: commit looked like: rebuilding from the constructor arguments loses later changes *)
Example C14_kwargs_was_refuted : let e := Elt "hello" true [] [("font-family", "Arial")] [] in emit (deepcopy FromKwargs e) <> emit e.
Proof. exact deepcopy_kwargs_refuted. Qed.
Theorem C14_kwargs_partial : forall e, untouched e -> emit (deepcopy FromKwargs e) = emit e.
Proof. exact deepcopy_kwargs_partial. Qed.
