(* C15 — shortcut syntax is equivalent to the explicit API.  The dispatch of __setattr__ / _convert_attribute_to_child /
   __getattr__ is by name only; the facts that make it land on the right child class and attribute are finite and are
   computed here over ALL element names and attribute names of the regenerated tables. *)
From MX Require Import Spec.Naming Gen.Schema Gen.Lib Gen.Names Model.Tables Model.Attr Gen.Code.
From Coq Require Import List String Bool Ascii.
Import ListNotations.
Open Scope string_scope.

Definition elem_names : list string := map snd sym_table.
(* _convert_attribute_to_child: 'XML' + ''.join(cap_first(p) for p in child_name.split('_')) *)
Definition class_from_dot (dot:string) : string := "XML" ++ concat "" (map cap_first (split_on "_" dot)).
Definition dot_of (n:string) : string := under n.
(* name.replace('xml_', '') removes EVERY occurrence: harmless iff no element name contains "xml_" after conversion *)
Fixpoint contains (p s:string) : bool := String.prefix p s || match s with EmptyString => false | String _ t => contains p t end.

Lemma name_algebra_all : forallb (fun n =>
    String.eqb (class_from_dot (dot_of n)) (xml_class_name n)       (* dot name -> the element's own class *)
    && String.eqb (hyph (dot_of n)) n                              (* dot name -> schema name *)
    && negb (contains "xml_" (dot_of n))                           (* replace('xml_','') is harmless *)
    && plain_key lib_properties ("x" ++ dot_of n)                  (* never a reserved / private name *)
  ) elem_names = true.
Proof. vm_compute. reflexivity. Qed.
Theorem C15_child_names : forall n, In n elem_names ->
  class_from_dot (dot_of n) = xml_class_name n /\ hyph (dot_of n) = n /\ contains "xml_" (dot_of n) = false.
Proof.
  intros n I. pose proof (forallb_In _ _ _ name_algebra_all I) as H. cbv beta in H.
  apply andb_true_iff in H as [H _]. apply andb_true_iff in H as [H C]. apply andb_true_iff in H as [A B].
  apply String.eqb_eq in A. apply String.eqb_eq in B. apply negb_true_iff in C. auto.
Qed.
Print Assumptions C15_child_names.
(* the class names are pairwise distinct, so the class found from a dot name is the only class of that element *)
Theorem C15_class_names_injective : NoDup (map xml_class_name elem_names).
Proof. apply nodup_str_NoDup. vm_compute. reflexivity. Qed.
Print Assumptions C15_class_names_injective.
(* an xml_* dot name is never taken for an attribute and an attribute dot name never for a child: the prefixes differ,
   and no declared attribute name starts with xml_ once converted *)
Definition attr_names : list string := map (fun r => let '(_, n, _, _) := r in n) xsd_attr_rows.
Theorem C15_no_attr_is_child_syntax : forall n, In n attr_names -> String.prefix "xml_" (under (strip_prefix n)) = false.
Proof.
  intros n I. apply negb_true_iff.
  exact (forallb_In (fun n => negb (String.prefix "xml_" (under (strip_prefix n)))) attr_names n ltac:(vm_compute; reflexivity) I).
Qed.
Print Assumptions C15_no_attr_is_child_syntax.
(* what  e.xml_x = value  does, as the SOURCE has it (decision table of _convert_attribute_to_child read by the translator on every run,
   fail-closed), is the explicit call the property names - the one the twin runs of the correspondence use as the explicit side *)
Definition explicit_equivalent (k:sc_kind) (child_present:bool) : sc_action :=
  match k, child_present with
  | ScInstance, true => ScReplace      (* replace_child(found, value) *)
  | ScInstance, false => ScAddGiven    (* add_child(value) *)
  | ScIsNone, true => ScRemove         (* remove(found) *)
  | ScIsNone, false => ScNothing
  | ScOther, true => ScSetValue        (* found.value_ = value *)
  | ScOther, false => ScAddNew end.    (* add_child(cls(value)) *)
Definition table_action (k:sc_kind) (child_present:bool) : option sc_action :=
  match find (fun r => match fst r, k with ScInstance, ScInstance | ScIsNone, ScIsNone | ScOther, ScOther => true | _, _ => false end) shortcut_table with
  | Some (_, (a, b)) => Some (if child_present then a else b) | None => None end.
Theorem C15_shortcut_source : tr_shortcut_ok = true /\ forall k p, table_action k p = Some (explicit_equivalent k p).
Proof. split; [reflexivity|]. intros [] []; reflexivity. Qed.
Print Assumptions C15_shortcut_source.
(* recorded deviation RC12: `name` is the one attribute whose dot name is a reserved property *)
Example C15_refuted_name : plain_key lib_properties "name" = false.
Proof. vm_compute. reflexivity. Qed.
