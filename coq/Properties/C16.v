(* C16 — serialisation is well-formed, escaping-safe, deterministic and side-effect free. *)
From MX Require Import Model.Ser Model.AbsSeq Model.SeqMachine Gen.Code Model.EltEffects.
From Coq Require Import List NArith Bool.
Import ListNotations.
(* text and attribute values: the reader recovers exactly the string that was written, for EVERY string of code points
   (markup characters, quotes, non-BMP, white-space runs; a carriage return survives in attributes as &#13;) *)
Theorem C16_text_roundtrip : forall s, unescape (S (length (escape_text s))) (escape_text s) = Some s.
Proof. exact unescape_escape_text. Qed.
Print Assumptions C16_text_roundtrip.
Theorem C16_attr_roundtrip : forall s, unescape (S (length (escape_attr s))) (escape_attr s) = Some s.
Proof. exact unescape_escape_attr. Qed.
Print Assumptions C16_attr_roundtrip.
(* no raw markup character is ever emitted inside text or inside a quoted attribute value *)
Theorem C16_text_wellformed : forall s, ~ In LT (escape_text s) /\ ~ In GT (escape_text s).
Proof. exact escape_text_no_markup. Qed.
Print Assumptions C16_text_wellformed.
Theorem C16_attr_wellformed : forall s, ~ In QUOT (escape_attr s) /\ ~ In LT (escape_attr s).
Proof. exact escape_attr_no_quote. Qed.
Print Assumptions C16_attr_wellformed.
(* structure: reading the token stream of ANY tree gives back that tree *)
Theorem C16_structure_roundtrip : forall x, exists f, parse_seq f (write x) = Some ([x], []).
Proof. exact read_write. Qed.
Print Assumptions C16_structure_roundtrip.
(* side-effect freedom on the specification machine: a final check / serialisation step changes neither view *)
Theorem C16_final_pure : forall s, tree (fst (mstep s MFinal)) = tree s /\ ins (fst (mstep s MFinal)) = ins s.
Proof. intros s. split; reflexivity. Qed.
Print Assumptions C16_final_pure.
(* and in the source: building the ElementTree element (XMLElement._create_et_xml_element / et_xml_element, read by the translator on every
   run, fail-closed on any other statement) stores into the element's cache field _et_xml_element and nowhere else; it takes the tag from
   name, every entry of attributes as str(v), the text as str(value_) unless None, the children in get_children() order *)
Theorem C16_serialise_source : tr_serialise_ok = true /\ ser_only_cache = true.
Proof. split; reflexivity. Qed.
Example C16_example : escape_attr [60; 34; 10; 38; 128512]%N = [38;108;116;59; 38;113;117;111;116;59; 38;35;49;48;59; 38;97;109;112;59; 128512]%N.
Proof. reflexivity. Qed.
