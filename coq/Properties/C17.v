(* C17 — write() is all-or-nothing and file I/O does not depend on the process locale.
   write_effects / open_sites are regenerated from the ast of the code on every run (tr/code.py, fail-closed). *)
From MX Require Import Gen.Code Model.Effects.
From Coq Require Import List String Bool.
Import ListNotations.
Open Scope string_scope.

(* for EVERY prior state of the destination: if validation fails, write() raises and the file is exactly what it was *)
Theorem C17_atomic : tr_write_ok = true /\ forall f, exec write_effects true false f = (Raised, f).
Proof. split; [reflexivity|]. intros f. apply validate_first_atomic; reflexivity. Qed.
Print Assumptions C17_atomic.
(* for EVERY prior state: when write() returns, the file holds the declaration followed by the document, nothing else *)
Theorem C17_content : forall f, exec write_effects false false f = (Returned, Some [Decl; Document]).
Proof. intros f. reflexivity. Qed.
Print Assumptions C17_content.
(* every open() of the library is binary, or reads through ET.parse from a binary file, or names utf-8 explicitly:
   no default text encoding is ever consulted, so import, write and parse behave identically under any locale *)
Theorem C17_locale_free : tr_io_ok = true /\ forall s, In s open_sites -> site_locale_free s = true.
Proof. split; [reflexivity|]. apply forallb_forall. vm_compute. reflexivity. Qed.
Print Assumptions C17_locale_free.
Theorem C17_write_encoding : existsb (fun e => match e with EOpen "w" (Some enc) => lower_utf8 enc | _ => false end) write_effects = true.
Proof. vm_compute. reflexivity. Qed.
(* the shapes repaired by the two fix: commits, pinned as facts about the model *)
Example C17_truncate_first_was_refuted :
  exec [EOpen "w" None; EWrite "const"; EValidate; EWrite "doc"; EClose] true false (Some [Decl; Document]) = (Raised, Some [Decl]).
Proof. reflexivity. Qed.
Example C17_locale_was_refuted : used_encoding None "ascii" <> used_encoding None "utf-8".
Proof. discriminate. Qed.
