(* C18 — xsd_check=False switches off structural checking and nothing else. *)
From MX Require Import Model.Unchecked Gen.Code Model.Gating.
From Coq Require Import List Bool Arith.
Import ListNotations.
Theorem C18_never_structural : forall s o, snd (ustep s o) = UNoSuchChild -> exists k, (o = URemove k \/ o = UReplace k) /\ length (fst s) <= k.
Proof. exact unchecked_never_structural. Qed.
Print Assumptions C18_never_structural.
Theorem C18_insertion_order : forall l n, fst (fst (ustep (l, n) UAdd)) = l ++ [n].
Proof. exact unchecked_add_appends. Qed.
Print Assumptions C18_insertion_order.
Theorem C18_gating : forall t, final_checks t = true <-> (forall c ok, In (c, ok) (nodes t) -> c = true -> ok = true).
Proof. exact final_checks_gating. Qed.
Print Assumptions C18_gating.
Theorem C18_unchecked_root : forall ok k, to_string_ok (ENode false ok k) = true.
Proof. exact to_string_unchecked. Qed.
Print Assumptions C18_unchecked_root.
Theorem C18_checked_root : forall ok k, to_string_ok (ENode true ok k) = true <-> (forall c o, In (c, o) (nodes (ENode true ok k)) -> c = true -> o = true).
Proof. exact to_string_checked. Qed.
Print Assumptions C18_checked_root.
(* the gating as the SOURCE has it (shape of _final_checks and to_string read by the translator on every run) is the specification:
   so the three theorems above are statements about the code's own gating function *)
Theorem C18_gating_source : tr_gating_ok = true /\ final_checks_shape = GuardOwnThenRecurse /\ to_string_guarded = true.
Proof. repeat split; reflexivity. Qed.
Theorem C18_gating_of_source : forall t, final_checks_of final_checks_shape t = final_checks t /\ to_string_of final_checks_shape to_string_guarded t = to_string_ok t.
Proof. intros t. destruct C18_gating_source as (_ & -> & ->). split; [apply guard_own_then_recurse_is_spec|apply to_string_guarded_is_spec]. Qed.
Print Assumptions C18_gating_of_source.
Theorem C18_checked_root_source : forall ok k, to_string_of final_checks_shape to_string_guarded (ENode true ok k) = true <->
  (forall c o, In (c, o) (nodes (ENode true ok k)) -> c = true -> o = true).
Proof. intros ok k. rewrite (proj2 (C18_gating_of_source _)). apply to_string_checked. Qed.
Print Assumptions C18_checked_root_source.
(* non-vacuity: a checked incomplete node below an unchecked one makes the checked root refuse, the unchecked root not *)
Example C18_example :
  to_string_ok (ENode true true [ENode false false [ENode true false []]]) = false /\
  to_string_ok (ENode false false [ENode true false []]) = true /\
  to_string_ok (ENode true true [ENode false false [ENode true true []]]) = true.
Proof. vm_compute. auto. Qed.
