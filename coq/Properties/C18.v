(* C18 — xsd_check=False switches off structural checking and nothing else. *)
From MX Require Import Model.Unchecked.
From Coq Require Import List Bool Arith.
Import ListNotations.
Theorem C18_never_structural : forall s o, snd (ustep s o) = UNoSuchChild -> exists k, (o = URemove k \/ o = UReplace k) /\ length (fst s) <= k.
Proof. exact unchecked_never_structural. Qed.
Print Assumptions C18_never_structural.
Theorem C18_insertion_order : forall l n, fst (fst (ustep (l, n) UAdd)) = l ++ [n].
Proof. exact unchecked_add_appends. Qed.
Print Assumptions C18_insertion_order.
Theorem C18_gating : forall t, final_checks t = true <-> (forall c ok, In (c, ok) (nodes t) -> c = true -> ok = true).
Proof. exact final_checks_gating. Qed.
Print Assumptions C18_gating.
Theorem C18_unchecked_root : forall ok k, to_string_ok (ENode false ok k) = true.
Proof. exact to_string_unchecked. Qed.
Print Assumptions C18_unchecked_root.
Theorem C18_checked_root : forall ok k, to_string_ok (ENode true ok k) = true <-> (forall c o, In (c, o) (nodes (ENode true ok k)) -> c = true -> o = true).
Proof. exact to_string_checked. Qed.
Print Assumptions C18_checked_root.
(* non-vacuity: a checked incomplete node below an unchecked one makes the checked root refuse, the unchecked root not *)
Example C18_example :
  to_string_ok (ENode true true [ENode false false [ENode true false []]]) = false /\
  to_string_ok (ENode false false [ENode true false []]) = true /\
  to_string_ok (ENode true true [ENode false false [ENode true true []]]) = true.
Proof. vm_compute. auto. Qed.
