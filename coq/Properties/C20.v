(* C20 — independent documents can be built concurrently.  The only state shared between threads that build their own
   trees is the set of class-level lazily initialised tables; tr/code.py lists EVERY store to a class-level attribute in
   the library and its shape.  Model/Threads.v proves the compute-then-publish shape safe under every schedule. *)
From MX Require Import Gen.Code Model.Threads Model.ClassSlots.
From Coq Require Import List String Bool.
Import ListNotations.
Open Scope string_scope.

(* no function of the library publishes an empty class-level container and fills it afterwards *)
Theorem C20_sites : forall s, In s class_level_stores -> (let '(_, _, _, _, sh) := s in match sh with SSingleStore => true | _ => false end) = true.
Proof. apply forallb_forall. vm_compute. reflexivity. Qed.
Print Assumptions C20_sites.
(* the objects held in those tables (XSDAttribute, XSDTree, XSDElement, XSDGroup instances) fill some of their own fields lazily: EVERY
   `if self.a is None: ...` of the library that stores self.a does so with ONE store of the final value on every path (or, in a loop,
   one store of a complete value per iteration): no default-then-overwrite, no fill after publication *)
(* consumers only READ the shared class-level tables: no function of the library mutates in place (sort, append, item assignment, ...) a value it
   obtained from a table getter (get_xsd_attributes, ...) - read from the source on every run *)
(* a class-level attribute that is read, changed and written back while the library works (a counter, a depth) is not a cache: C20_sites refuses
   the shape (SReadModifyWrite), and this is why - one thread inside its bracket, the other sees a depth it never sees alone *)
Example C20_global_counter_refuted : exists sched, nth_error (map seen (snd (crun sched 2))) 1 = Some [1].
Proof. exact global_counter_refuted. Qed.
Theorem C20_tables_read_only : shared_table_mutations = [].
Proof. reflexivity. Qed.
(* class-level slots are READ through the method resolution order and WRITTEN on the class in use.  Read from the class statements and the store
   sites on every run: no instantiable class would find, unshadowed, the lazily filled slot of another instantiable class on its lookup path *)
Theorem C20_class_slots_read : tr_class_slots_ok = true.
Proof. reflexivity. Qed.
Theorem C20_no_inherited_lazy_slot : inherited_class_slots = [].
Proof. reflexivity. Qed.
(* and under exactly that condition every thread obtains, for every schedule of guards and stores and every mix of classes, what it obtains alone *)
Theorem C20_class_slots_order_independent : forall (T:Type) (mro:nat -> list nat) (body:nat -> option (option T)) (compute:nat -> option T) (U:nat -> Prop),
  (forall d, U d -> NoDup (d :: mro d)) ->
  (forall d c, U d -> U c -> In c (mro d) -> ~ accepted_body T body c -> shadowed_before T mro body d c) ->
  forall sched ds t d v, Forall U ds -> In t (snd (srun T mro body compute sched (empty T, map (Start T) ds))) -> t = Done T d v -> v = expected T mro body compute d.
Proof. exact slots_order_independent. Qed.
Print Assumptions C20_class_slots_order_independent.
(* the premise DECIDED on the library's own class tables (regenerated from the class statements on every run: one table per class-level store
   site, ≈ 1200 rows in all), and the theorem on them: whatever is computed, however many threads use whichever instantiable classes, under every
   interleaving of guards and stores, each use returns what it returns alone in a fresh process *)
Theorem C20_slot_tables_read : tr_slot_tables_ok = true /\ Nat.leb 4 (List.length slot_tables) = true.
Proof. split; reflexivity. Qed.
Theorem C20_slot_tables_ok : forallb (fun x => table_ok (snd x)) slot_tables = true.
Proof. vm_compute. reflexivity. Qed.
Theorem C20_library_class_slots : forall a k tbl, In (a, k, tbl) slot_tables -> forall (T:Type) (v:T) (compute:nat -> option T) sched ds t d w,
  Forall (fun c => r_used tbl c = true) ds ->
  In t (snd (srun T (r_mro tbl) (r_body v tbl) compute sched (empty T, map (Start T) ds))) -> t = Done T d w -> w = expected T (r_mro tbl) (r_body v tbl) compute d.
Proof.
  intros a k tbl I T v compute. apply table_slots_order_independent.
  assert (H := C20_slot_tables_ok). rewrite forallb_forall in H. exact (H _ I).
Qed.
Print Assumptions C20_library_class_slots.
Example C20_slot_tables_nonvacuous : Nat.leb 800 (fold_right (fun x n => List.length (filter (fun r => snd r) (snd x)) + n) 0 slot_tables) = true.
Proof. vm_compute. reflexivity. Qed.
(* without it: a class derived from a lazily filled class, used after it, obtains the base's table *)
Example C20_inherited_slot_refuted : exists sched,
  nth_error (snd (srun (list nat) ex_mro ex_body ex_compute sched (empty (list nat), [Start (list nat) 0; Start (list nat) 1]))) 1 = Some (Done (list nat) 1 (Some [1;2;3;4;5]))
  /\ expected (list nat) ex_mro ex_body ex_compute 1 = Some [1;3;5].
Proof. exact inherited_slot_refuted. Qed.
Theorem C20_instance_caches : forall s, In s lazy_instance_stores -> (let '(_, _, _, _, sh) := s in match sh with LUnsafe => false | _ => true end) = true.
Proof. apply forallb_forall. vm_compute. reflexivity. Qed.
Print Assumptions C20_instance_caches.
Example C20_instance_caches_nonvacuous : Nat.leb 6 (List.length (filter (fun s => let '(_, _, _, _, sh) := s in match sh with LSingleStore => true | _ => false end) lazy_instance_stores)) = true.
Proof. vm_compute. reflexivity. Qed.
Theorem C20_attribute_tables : forall c, In c cache_sites -> snd c = ComputeThenPublish.
Proof.
  intros c I. assert (E: forallb (fun c => match snd c with ComputeThenPublish => true | _ => false end) cache_sites = true) by (vm_compute; reflexivity).
  rewrite forallb_forall in E. specialize (E c I). destruct (snd c); try discriminate; reflexivity.
Qed.
Print Assumptions C20_attribute_tables.
(* for every table, every number of threads and EVERY schedule: a thread that returns gets the complete table, and the
   shared table is never visible half-built *)
Theorem C20_safe : forall tbl k sched t r, In t (threads (run (prog_compute_first tbl) sched (init k))) -> result t = Some r -> r = tbl.
Proof. exact compute_then_publish_safe. Qed.
Print Assumptions C20_safe.
Theorem C20_never_partial : forall tbl k sched, cache (run (prog_compute_first tbl) sched (init k)) = None \/ cache (run (prog_compute_first tbl) sched (init k)) = Some tbl.
Proof. exact cache_never_partial. Qed.
Print Assumptions C20_never_partial.
(* the shape repaired by the fix: commit: one pre-emption after the publish and the second thread sees an empty table *)
Example C20_publish_first_was_refuted : exists sched, nth_error (map result (threads (run (prog_publish_first [7;8;9]) sched (init 2)))) 1 = Some (Some []).
Proof. exact publish_first_refuted. Qed.
