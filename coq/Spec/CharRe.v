(* Regular expressions over code points with range classes, matched by derivatives.  The matcher IS the semantics used for the
   15 schema patterns; tr/regex.py reads both the XSD-syntax pattern and the library's Python-syntax translation into this AST. *)
From Coq Require Import List NArith Bool Arith.
Import ListNotations.
Inductive cre := CVoid | CEps | CSet (neg:bool) (ranges:list (N*N)) | CCat (a b:cre) | CAlt (a b:cre) | CRep (r:cre) (mn:nat) (mx:option nat).
Definition in_ranges (c:N) (rs:list (N*N)) : bool := existsb (fun r => N.leb (fst r) c && N.leb c (snd r)) rs.
Definition in_set (neg:bool) (rs:list (N*N)) (c:N) : bool := xorb neg (in_ranges c rs).
Fixpoint cnullable (r:cre) : bool :=
  match r with CVoid => false | CEps => true | CSet _ _ => false | CCat a b => cnullable a && cnullable b | CAlt a b => cnullable a || cnullable b
             | CRep x mn _ => Nat.eqb mn 0 || cnullable x end.
Definition ccat a b := match a, b with CVoid, _ => CVoid | _, CVoid => CVoid | CEps, _ => b | _, CEps => a | _, _ => CCat a b end.
Definition calt a b := match a, b with CVoid, _ => b | _, CVoid => a | _, _ => CAlt a b end.
Fixpoint cderiv (c:N) (r:cre) : cre :=
  match r with
  | CVoid | CEps => CVoid
  | CSet neg rs => if in_set neg rs c then CEps else CVoid
  | CCat a b => if cnullable a then calt (ccat (cderiv c a) b) (cderiv c b) else ccat (cderiv c a) b
  | CAlt a b => calt (cderiv c a) (cderiv c b)
  | CRep x mn mx => match mx with
                    | Some 0 => CVoid
                    | _ => ccat (cderiv c x) (match mx with Some 1 => CEps | Some (S m) => CRep x (pred mn) (Some m) | Some 0 => CEps | None => CRep x (pred mn) None end) end
  end.
Fixpoint cmatch (r:cre) (s:list N) : bool := match s with [] => cnullable r | c :: t => cmatch (cderiv c r) t end.
Fixpoint cre_eqb (a b:cre) : bool :=
  match a, b with
  | CVoid, CVoid | CEps, CEps => true
  | CSet n1 r1, CSet n2 r2 => Bool.eqb n1 n2 && (fix eq (x y:list (N*N)) := match x, y with [] , [] => true | (a1,b1)::t1, (a2,b2)::t2 => N.eqb a1 a2 && N.eqb b1 b2 && eq t1 t2 | _, _ => false end) r1 r2
  | CCat a1 b1, CCat a2 b2 | CAlt a1 b1, CAlt a2 b2 => cre_eqb a1 a2 && cre_eqb b1 b2
  | CRep x1 m1 k1, CRep x2 m2 k2 => cre_eqb x1 x2 && Nat.eqb m1 m2 && match k1, k2 with None, None => true | Some p, Some q => Nat.eqb p q | _, _ => false end
  | _, _ => false end.
Lemma cre_eqb_eq a : forall b, cre_eqb a b = true -> a = b.
Proof.
  induction a; destruct b; simpl; intros H; try discriminate; auto.
  - apply andb_true_iff in H as [H1 H2]. apply Bool.eqb_prop in H1. subst. f_equal.
    revert ranges0 H2. induction ranges as [|[a1 b1] t IH]; destruct ranges0 as [|[a2 b2] t2]; intros H; try discriminate; auto.
    apply andb_true_iff in H as [H H3]. apply andb_true_iff in H as [H1 H2]. apply N.eqb_eq in H1, H2. subst. f_equal. auto.
  - apply andb_true_iff in H as [H1 H2]. f_equal; auto.
  - apply andb_true_iff in H as [H1 H2]. f_equal; auto.
  - apply andb_true_iff in H as [H H3]. apply andb_true_iff in H as [H1 H2]. apply Nat.eqb_eq in H2. subst. f_equal; auto.
    destruct mx, mx0; try discriminate; auto. apply Nat.eqb_eq in H3. subst; auto.
Qed.
(* equal ASTs denote the same matcher on every string *)
Theorem cre_eqb_sound a b : cre_eqb a b = true -> forall s, cmatch a s = cmatch b s.
Proof. intros H s. apply cre_eqb_eq in H. subst. reflexivity. Qed.
