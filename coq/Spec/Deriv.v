From MX Require Import Spec.Particle.
Definition lang := list positive -> Prop.
Fixpoint pow (L: lang) (n:nat) (w:list positive) : Prop :=
  match n with 0 => w = [] | S k => exists u v, w = u ++ v /\ L u /\ pow L k v end.
Definition le_mx (k:nat) (mx:option nat) := match mx with None => True | Some m => k <= m end.
Fixpoint Lang (r:re) (w:list positive) : Prop :=
  match r with
  | Void => False | Eps => w = [] | Sym s => w = [s]
  | Cat a b => exists u v, w = u ++ v /\ Lang a u /\ Lang b v
  | Alt a b => Lang a w \/ Lang b w
  | Rep x mn mx => exists k, mn <= k /\ le_mx k mx /\ pow (Lang x) k w
  end.
Fixpoint wf (r:re) : bool :=
  match r with
  | Cat a b | Alt a b => wf a && wf b
  | Rep x mn mx => wf x && match mx with None => true | Some m => Nat.leb mn m end
  | _ => true end.

Lemma pow_nil (L:lang) n : L [] -> pow L n [].
Proof. intros H; induction n; simpl; auto. exists [],[]; auto. Qed.
Lemma pow_pad (L:lang) n m w : L [] -> pow L n w -> pow L (m + n) w.
Proof. intros H P; induction m; simpl; auto. exists [], w; auto. Qed.

Lemma nullable_ok r : wf r = true -> (nullable r = true <-> Lang r []).
Proof.
  induction r; simpl; intros W.
  - split; [discriminate|tauto].
  - split; auto.
  - split; [discriminate|intros H; discriminate].
  - apply andb_true_iff in W as [W1 W2]. rewrite andb_true_iff, IHr1, IHr2 by auto. split.
    + intros [A B]; exists [],[]; auto.
    + intros (u&v&E&A&B). symmetry in E; apply app_eq_nil in E as [-> ->]; auto.
  - apply andb_true_iff in W as [W1 W2]. rewrite orb_true_iff, IHr1, IHr2 by auto; tauto.
  - apply andb_true_iff in W as [W1 W2]. rewrite orb_true_iff, IHr, Nat.eqb_eq by auto. split.
    + intros [->|H].
      * exists 0; simpl; repeat split; auto. destruct mx; simpl; lia.
      * exists mn; repeat split; auto.
        -- destruct mx; simpl; auto. apply Nat.leb_le; auto.
        -- apply pow_nil; auto.
    + intros (k&Hk&Hm&P). destruct k.
      * left; lia.
      * right. simpl in P. destruct P as (u&v&E&A&B). symmetry in E; apply app_eq_nil in E as [-> ->]; auto.
Qed.

Lemma mkcat_ok a b w : Lang (mkcat a b) w <-> Lang (Cat a b) w.
Proof.
  assert (R: forall a b, (Lang (Cat a b) w <-> exists u v, w = u ++ v /\ Lang a u /\ Lang b v)) by (intros; simpl; tauto).
  assert (VL: forall b, ~ Lang (Cat Void b) w) by (intros b0 (u&v&_&F&_); exact F).
  assert (VR: forall a, ~ Lang (Cat a Void) w) by (intros a0 (u&v&_&_&F); exact F).
  assert (EL: forall b, Lang (Cat Eps b) w <-> Lang b w).
  { intros b0; simpl; split. intros (u&v&->&->&B); auto. intros B; exists [], w; auto. }
  assert (ER: forall a, Lang (Cat a Eps) w <-> Lang a w).
  { intros a0; simpl; split. intros (u&v&->&A&->); rewrite app_nil_r; auto. intros A; exists w, []; rewrite app_nil_r; auto. }
  unfold mkcat; destruct a; destruct b;
    try (rewrite EL; reflexivity); try (rewrite ER; reflexivity); try reflexivity;
    try (split; [intros F; simpl in F; contradiction | intros F; exfalso; first [apply (VL _ F) | apply (VR _ F)]]).
Qed.
Lemma mkalt_ok a b w : Lang (mkalt a b) w <-> Lang (Alt a b) w.
Proof. unfold mkalt; destruct a, b; simpl; tauto. Qed.
Lemma mkrep_ok x mn mx w : wf (Rep x mn mx) = true -> (Lang (mkrep x mn mx) w <-> Lang (Rep x mn mx) w).
Proof.
  unfold mkrep. intros W. destruct mx as [[|m]|]; try tauto. simpl in *.
  apply andb_true_iff in W as [_ W]. apply Nat.leb_le in W. assert (mn = 0) by lia; subst. split.
  - intros ->. exists 0; simpl; auto.
  - intros (k&_&Hk&P). assert (k=0) by lia; subst; auto.
Qed.
Lemma wf_mkcat a b : wf a = true -> wf b = true -> wf (mkcat a b) = true.
Proof. intros; unfold mkcat; destruct a, b; simpl in *; auto; rewrite ?H, ?H0; auto. Qed.
Lemma wf_mkalt a b : wf a = true -> wf b = true -> wf (mkalt a b) = true.
Proof. intros; unfold mkalt; destruct a, b; simpl in *; auto; rewrite ?H, ?H0; auto. Qed.
Lemma wf_deriv a r : wf r = true -> wf (deriv a r) = true.
Proof.
  induction r; simpl; intros W; auto.
  - destruct (Pos.eqb s a); auto.
  - apply andb_true_iff in W as [W1 W2]. destruct (nullable r1).
    + apply wf_mkalt; auto. apply wf_mkcat; auto.
    + apply wf_mkcat; auto.
  - apply andb_true_iff in W as [W1 W2]. apply wf_mkalt; auto.
  - apply andb_true_iff in W as [W1 W2]. destruct mx as [[|m]|]; auto.
    + apply wf_mkcat; auto. unfold mkrep; simpl. destruct m; simpl; auto. rewrite W1. simpl.
      apply Nat.leb_le in W2. apply Nat.leb_le. lia.
    + apply wf_mkcat; auto. unfold mkrep; simpl. rewrite W1; auto.
Qed.

Lemma pow_cons (L:lang) k a w :
  pow L k (a::w) -> exists u v, w = u ++ v /\ L (a::u) /\ pow L (pred k) v /\ k >= 1.
Proof.
  revert w; induction k; cbn [pow pred]; intros w P; [discriminate|].
  destruct P as (u0&v0&E&Lu&Pv). destruct u0 as [|b u0].
  - cbn in E; subst v0. destruct (IHk _ Pv) as (u&v&->&Lau&Pk&Hk).
    exists u, v; repeat split; auto; try lia.
    replace k with (1 + pred k) by lia. apply pow_pad; auto.
  - cbn in E. injection E as -> ->. exists u0, v0; repeat split; auto; try lia.
Qed.

Lemma deriv_ok a r : wf r = true -> forall w, Lang (deriv a r) w <-> Lang r (a :: w).
Proof.
  induction r; intros W w; simpl deriv.
  - simpl; tauto.
  - simpl; split; [tauto|discriminate].
  - destruct (Pos.eqb_spec s a); simpl.
    + subst; split; [intros ->; auto|intros E; injection E; auto].
    + split; [tauto|intros E; injection E; congruence].
  - simpl in W; apply andb_true_iff in W as [W1 W2].
    assert (C: Lang (Cat r1 r2) (a::w) <->
               (exists u v, w = u ++ v /\ Lang r1 (a::u) /\ Lang r2 v) \/ (Lang r1 [] /\ Lang r2 (a::w))).
    { simpl; split.
      - intros (u&v&E&A&B). destruct u as [|b u]; simpl in E.
        + subst v; right; auto.
        + injection E as -> ->. left; exists u, v; auto.
      - intros [(u&v&->&A&B)|[A B]].
        + exists (a::u), v; auto.
        + exists [], (a::w); auto. }
    rewrite C. destruct (nullable r1) eqn:N.
    + rewrite mkalt_ok; simpl. rewrite mkcat_ok; simpl. rewrite <- IHr2 by auto.
      apply nullable_ok in N; auto. split.
      * intros [(u&v&->&A&B)|B]; [left; exists u, v; rewrite <- IHr1; auto | right; auto].
      * intros [(u&v&->&A&B)|[_ B]]; [left; exists u, v; rewrite IHr1; auto | right; auto].
    + rewrite mkcat_ok; simpl. split.
      * intros (u&v&->&A&B); left; exists u, v; rewrite <- IHr1; auto.
      * intros [(u&v&->&A&B)|[A _]]; [exists u, v; rewrite IHr1; auto|].
        apply nullable_ok in A; auto; congruence.
  - simpl in W; apply andb_true_iff in W as [W1 W2]. rewrite mkalt_ok; simpl. rewrite IHr1, IHr2 by auto; tauto.
  - pose proof W as W0. simpl in W; apply andb_true_iff in W as [W1 W2].
    destruct mx as [[|m]|].
    + (* max 0 *) simpl; split; [tauto|]. intros (k&_&Hk&P). assert (k=0) by (simpl in Hk; lia); subst; discriminate.
    + (* Some (S m) *)
      assert (Wr: wf (Rep r (pred mn) (Some m)) = true) by (simpl; rewrite W1; simpl; apply Nat.leb_le in W2; apply Nat.leb_le; lia).
      rewrite mkcat_ok. simpl Lang at 1. split.
      * intros (u&v&->&A&B). apply (mkrep_ok r (pred mn) (Some m)) in B; auto. destruct B as (k&K1&K2&P).
        exists (S k); simpl in *; repeat split; try lia. exists (a::u), v; repeat split; auto. apply IHr; auto.
      * intros (k&K1&K2&P). apply pow_cons in P as (u&v&->&A&P&K3).
        exists u, v; repeat split; auto. apply IHr; auto.
        apply (mkrep_ok r (pred mn) (Some m)); auto. exists (pred k); simpl in *; repeat split; auto; lia.
    + (* unbounded *)
      assert (Wr: wf (Rep r (pred mn) None) = true) by (simpl; rewrite W1; auto).
      rewrite mkcat_ok. simpl Lang at 1. split.
      * intros (u&v&->&A&B). apply (mkrep_ok r (pred mn) None) in B; auto. destruct B as (k&K1&K2&P).
        exists (S k); simpl in *; repeat split; try lia. exists (a::u), v; repeat split; auto. apply IHr; auto.
      * intros (k&K1&K2&P). apply pow_cons in P as (u&v&->&A&P&K3).
        exists u, v; repeat split; auto. apply IHr; auto.
        apply (mkrep_ok r (pred mn) None); auto. exists (pred k); simpl in *; repeat split; auto; lia.
Qed.

Theorem accepts_iff r w : wf r = true -> (accepts r w = true <-> Lang r w).
Proof.
  revert r; induction w as [|a w IH]; intros r W; simpl.
  - apply nullable_ok; auto.
  - rewrite IH by (apply wf_deriv; auto). apply deriv_ok; auto.
Qed.
Print Assumptions accepts_iff.
