From MX Require Import Spec.Particle Spec.Deriv.
From Coq Require Import Arith.
(* language of a particle = language of its regex *)
Definition PLang (p:particle) := Lang (re_of p).
Definition lequiv (a b:re) := forall w, Lang a w <-> Lang b w.
Lemma pow_congr (L1 L2:lang) k : (forall w, L1 w <-> L2 w) -> forall w, pow L1 k w <-> pow L2 k w.
Proof. intros H; induction k; simpl; intros w; [tauto|]. split; intros (u&v&E&A&B); exists u, v; repeat split; auto; try apply H; try apply IHk; auto. Qed.
Lemma wrap_congr a b mn mx : lequiv a b -> lequiv (wrap a mn mx) (wrap b mn mx).
Proof.
  intros H w. unfold wrap. destruct mn as [|[|mn]]; try destruct mx as [[|[|m]]|]; simpl; try (apply H);
  split; intros (k&A&B&C); exists k; repeat split; auto; eapply pow_congr; eauto; intros; symmetry; apply H.
Qed.
Lemma cats_congr l1 l2 : Forall2 lequiv l1 l2 -> lequiv (cats l1) (cats l2).
Proof.
  induction 1 as [|a b l1 l2 Hab Hl IH]; intros w; simpl; [tauto|].
  destruct l1 as [|a1 l1]; inversion Hl; subst; [apply Hab|].
  change (Lang (Cat a (cats (a1::l1))) w <-> Lang (Cat b (cats (y::l'))) w). simpl Lang.
  split; intros (u&v&E&A&B); exists u, v; repeat split; auto; try apply Hab; try apply IH; auto.
Qed.
Lemma alts_in l w : Lang (alts l) w <-> exists r, In r l /\ Lang r w.
Proof.
  induction l as [|a l IH]; simpl; [split; [tauto|intros (r&[]&_)]|].
  destruct l as [|b l]; [split; [intros H; exists a; auto|intros (r&[<-|[]]&H); auto]|].
  change (Lang (Alt a (alts (b::l))) w <-> exists r, (a = r \/ In r (b::l)) /\ Lang r w). simpl Lang. rewrite IH. split.
  - intros [H|(r&I&H)]; [exists a; auto|exists r; auto].
  - intros (r&[<-|I]&H); [left; auto|right; exists r; auto].
Qed.
(* structural comparison: same shape; children of a Choice may be permuted; a Group is its body *)
Fixpoint peq (fuel:nat) (a b:particle) : bool :=
  match fuel with 0 => false | S f =>
  let occ_eq (mn1:nat) (mx1:option nat) (mn2:nat) (mx2:option nat) :=
      Nat.eqb mn1 mn2 && match mx1, mx2 with None, None => true | Some x, Some y => Nat.eqb x y | _, _ => false end in
  let seq_eq := fix seq_eq (l1 l2:list particle) : bool :=
      match l1, l2 with [], [] => true | x::t1, y::t2 => peq f x y && seq_eq t1 t2 | _, _ => false end in
  match a, b with
  | PElem s1 mn1 mx1, PElem s2 mn2 mx2 => Pos.eqb s1 s2 && occ_eq mn1 mx1 mn2 mx2
  | PSeq mn1 mx1 l1, PSeq mn2 mx2 l2 | PGroup _ mn1 mx1 l1, PGroup _ mn2 mx2 l2
  | PSeq mn1 mx1 l1, PGroup _ mn2 mx2 l2 | PGroup _ mn1 mx1 l1, PSeq mn2 mx2 l2 => occ_eq mn1 mx1 mn2 mx2 && seq_eq l1 l2
  | PChoice mn1 mx1 l1, PChoice mn2 mx2 l2 =>
      occ_eq mn1 mx1 mn2 mx2 && forallb (fun x => existsb (peq f x) l2) l1 && forallb (fun y => existsb (fun x => peq f x y) l1) l2
  | _, _ => false end end.

Lemma occ_eq_true mn1 mx1 mn2 mx2 :
  (Nat.eqb mn1 mn2 && match mx1, mx2 with None, None => true | Some x, Some y => Nat.eqb x y | _, _ => false end) = true -> mn1 = mn2 /\ mx1 = mx2.
Proof. intros H. apply andb_true_iff in H as [A B]. apply Nat.eqb_eq in A. destruct mx1, mx2; try discriminate; auto. apply Nat.eqb_eq in B; subst; auto. Qed.
Theorem peq_sound fuel : forall a b, peq fuel a b = true -> lequiv (re_of a) (re_of b).
Proof.
  induction fuel as [|f IH]; intros a b H; [discriminate|].
  assert (SEQ: forall l1 l2,
     (fix seq_eq (l1 l2:list particle) : bool := match l1, l2 with [], [] => true | x::t1, y::t2 => peq f x y && seq_eq t1 t2 | _, _ => false end) l1 l2 = true ->
     Forall2 lequiv (map re_of l1) (map re_of l2)).
  { induction l1 as [|x t1 IHl]; destruct l2 as [|y t2]; simpl; intros E; try discriminate; constructor.
    - apply andb_true_iff in E as [E _]; auto. - apply andb_true_iff in E as [_ E]; auto. }
  assert (SEQW: forall mn1 mx1 l1 mn2 mx2 l2,
     (Nat.eqb mn1 mn2 && match mx1, mx2 with None, None => true | Some x, Some y => Nat.eqb x y | _, _ => false end) &&
     (fix seq_eq (l1 l2:list particle) : bool := match l1, l2 with [], [] => true | x::t1, y::t2 => peq f x y && seq_eq t1 t2 | _, _ => false end) l1 l2 = true ->
     lequiv (wrap (cats (map re_of l1)) mn1 mx1) (wrap (cats (map re_of l2)) mn2 mx2)).
  { intros. apply andb_true_iff in H0 as [O S]. apply occ_eq_true in O as [-> ->]. apply wrap_congr, cats_congr, SEQ; auto. }
  destruct a, b; simpl in H; try discriminate; cbn [re_of].
  - apply andb_true_iff in H as [N O]. apply Pos.eqb_eq in N. apply occ_eq_true in O as [-> ->]. subst. intros w; tauto.
  - apply SEQW; auto.
  - apply SEQW; auto.
  - (* choice *)
    apply andb_true_iff in H as [H I2]. apply andb_true_iff in H as [O I1]. apply occ_eq_true in O as [-> ->].
    apply wrap_congr. intros w. rewrite !alts_in. rewrite forallb_forall in I1, I2. split.
    + intros (r&Hr&Lr). apply in_map_iff in Hr as (x&<-&Hx). specialize (I1 _ Hx). apply existsb_exists in I1 as (y&Hy&E).
      exists (re_of y). split; [apply in_map; auto|]. apply (IH _ _ E); auto.
    + intros (r&Hr&Lr). apply in_map_iff in Hr as (y&<-&Hy). specialize (I2 _ Hy). apply existsb_exists in I2 as (x&Hx&E).
      exists (re_of x). split; [apply in_map; auto|]. apply (IH _ _ E); auto.
  - apply SEQW; auto.
  - apply SEQW; auto.
Qed.
Print Assumptions peq_sound.
