(* Gallina transliteration of musicxml/util/core.py naming rules:
   cap_first, convert_to_xml_class_name, convert_to_xsd_class_name, and the '-'/'_' conversions of __setattr__/__getattr__. *)
From Coq Require Import List String Ascii Bool Arith.
Import ListNotations.
Open Scope string_scope.

Definition is_lower (c:ascii) : bool := let n := nat_of_ascii c in (Nat.leb 97 n && Nat.leb n 122)%bool.
Definition upper (c:ascii) : ascii := if is_lower c then ascii_of_nat (nat_of_ascii c - 32) else c.
(* s[0].upper() + s[1:]  -- Python raises IndexError on the empty string; never reached for declared names *)
Definition cap_first (s:string) : string := match s with EmptyString => EmptyString | String c t => String (upper c) t end.
(* s.split(sep) *)
Fixpoint split_on (sep:ascii) (s:string) : list string :=
  match s with
  | EmptyString => [EmptyString]
  | String c t => if Ascii.eqb c sep then EmptyString :: split_on sep t
                  else match split_on sep t with [] => [String c EmptyString] | h :: r => String c h :: r end
  end.
Definition join (sep:string) (l:list string) : string :=
  match l with [] => "" | h :: t => fold_left (fun acc x => acc ++ sep ++ x) t h end.
Definition camel (name:string) : string := concat "" (map cap_first (split_on "-" name)).
Definition xml_class_name (name:string) : string := "XML" ++ camel name.
(* part after the first ':' if any (xs:token -> token) *)
Definition strip_prefix (name:string) : string := match split_on ":" name with _ :: b :: _ => b | _ => name end.
Definition has_prefix (name:string) : bool := match split_on ":" name with _ :: _ :: _ => true | _ => false end.
Definition xsd_complex_class_name (name:string) : string := "XSDComplexType" ++ camel name.
Definition xsd_simple_class_name (name:string) : string := "XSDSimpleType" ++ camel (strip_prefix name).
(* '-'.join(k.split('_')) and '_'.join(k.split('-')) *)
Definition hyph (k:string) : string := join "-" (split_on "_" k).
Definition under (k:string) : string := join "_" (split_on "-" k).
Definition starts_with (p s:string) : bool := String.prefix p s.

Fixpoint assoc_str {A} (k:string) (l:list (string * A)) : option A :=
  match l with [] => None | (x, v) :: t => if String.eqb x k then Some v else assoc_str k t end.
Definition mem_str (k:string) (l:list string) : bool := existsb (String.eqb k) l.
Fixpoint nodup_str (l:list string) : bool := match l with [] => true | h :: t => negb (mem_str h t) && nodup_str t end.

Lemma mem_str_In k l : mem_str k l = true <-> In k l.
Proof.
  unfold mem_str. rewrite existsb_exists. split.
  - intros (x & Hx & E). apply String.eqb_eq in E. subst; auto.
  - intros H. exists k. split; auto. apply String.eqb_refl.
Qed.
Lemma nodup_str_NoDup l : nodup_str l = true -> NoDup l.
Proof.
  induction l as [|h t IH]; simpl; intros H; constructor.
  - apply andb_true_iff in H as [H _]. intros I. apply mem_str_In in I. rewrite I in H. discriminate.
  - apply andb_true_iff in H as [_ H]. auto.
Qed.

Example camel_ex : xml_class_name "score-partwise" = "XMLScorePartwise" /\ xsd_simple_class_name "xs:token" = "XSDSimpleTypeToken"
                   /\ hyph "font_family" = "font-family" /\ under "default-x" = "default_x".
Proof. repeat split. Qed.
