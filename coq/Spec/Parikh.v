(* Verified judges for C07 / C12, each sound in the direction that prevents false alarms:
   - maxcount r a : an upper bound of the number of a's in any word of r            (proves a state DEAD)
   - excl r a b   : a and b never occur together in a word of r                     (proves a state DEAD)
   - witness r m w: w is a word of r whose letter counts dominate the multiset m    (proves a state ALIVE) *)
From MX Require Import Spec.Particle Spec.Deriv.
From Coq Require Import Arith.

Fixpoint count (a:positive) (w:list positive) : nat := match w with [] => 0 | b :: t => (if Pos.eqb a b then 1 else 0) + count a t end.
Lemma count_app a u v : count a (u ++ v) = count a u + count a v.
Proof. induction u; simpl; auto. rewrite IHu. lia. Qed.
Lemma count_In a w : In a w <-> 1 <= count a w.
Proof.
  induction w as [|b w IH]; simpl; [split; [tauto|lia]|].
  destruct (Pos.eqb_spec a b).
  - subst. split; [lia|auto].
  - rewrite IH. simpl. split; [intros [E|H]; [congruence|auto] | auto].
Qed.

(* option nat with None = unbounded *)
Definition oadd (x y:option nat) := match x, y with Some a, Some b => Some (a + b) | _, _ => None end.
Definition omax (x y:option nat) := match x, y with Some a, Some b => Some (Nat.max a b) | _, _ => None end.
Definition omul (mx:option nat) (x:option nat) : option nat :=
  match x with
  | Some 0 => Some 0
  | Some c => match mx with Some m => Some (m * c) | None => None end
  | None => match mx with Some 0 => Some 0 | _ => None end end.
Definition ole (n:nat) (x:option nat) := match x with Some m => n <= m | None => True end.
Fixpoint maxcount (r:re) (a:positive) : option nat :=
  match r with
  | Void | Eps => Some 0
  | Sym b => Some (if Pos.eqb a b then 1 else 0)
  | Cat x y => oadd (maxcount x a) (maxcount y a)
  | Alt x y => omax (maxcount x a) (maxcount y a)
  | Rep x _ mx => omul mx (maxcount x a) end.

Lemma pow_count (L:lang) a c k : (forall w, L w -> count a w <= c) -> forall w, pow L k w -> count a w <= k * c.
Proof.
  intros H. induction k; simpl; intros w P.
  - subst. simpl. lia.
  - destruct P as (u & v & -> & Lu & Pv). rewrite count_app. specialize (H _ Lu). specialize (IHk _ Pv). lia.
Qed.
Theorem maxcount_sound r a : forall w, Lang r w -> ole (count a w) (maxcount r a).
Proof.
  induction r; intros w L; simpl in *.
  - contradiction.
  - subst. simpl. lia.
  - subst. simpl. destruct (Pos.eqb a s); simpl; lia.
  - destruct L as (u & v & -> & Lu & Lv). specialize (IHr1 _ Lu). specialize (IHr2 _ Lv). rewrite count_app.
    destruct (maxcount r1 a), (maxcount r2 a); simpl in *; auto. lia.
  - destruct L as [L|L]; [specialize (IHr1 _ L)|specialize (IHr2 _ L)];
      destruct (maxcount r1 a), (maxcount r2 a); simpl in *; auto; lia.
  - destruct L as (k & K1 & K2 & P).
    destruct (maxcount r a) as [c|] eqn:E.
    + assert (B: count a w <= k * c) by (apply (pow_count (Lang r) a c k); auto; intros u Lu; apply (IHr u Lu)).
      destruct c; simpl.
      * lia.
      * destruct mx as [m|]; simpl in *; auto. nia.
    + simpl. destruct mx as [[|m]|]; simpl; auto. assert (k = 0) by (simpl in K2; lia). subst. simpl in P. subst. simpl. lia.
Qed.

(* may a occur in some word (over-approximation) *)
Definition occ (r:re) (a:positive) : bool := match maxcount r a with Some 0 => false | _ => true end.
Lemma occ_false r a w : occ r a = false -> Lang r w -> ~ In a w.
Proof.
  unfold occ. intros H L I. apply count_In in I. pose proof (maxcount_sound r a w L) as B.
  destruct (maxcount r a) as [[|c]|]; try discriminate. simpl in B. lia.
Qed.
Fixpoint excl (r:re) (a b:positive) : bool :=
  match r with
  | Void | Eps | Sym _ => negb (Pos.eqb a b)
  | Cat x y => excl x a b && excl y a b && negb (occ x a && occ y b) && negb (occ x b && occ y a)
  | Alt x y => excl x a b && excl y a b
  | Rep x _ mx => match mx with
                  | Some 0 => negb (Pos.eqb a b)
                  | Some 1 => excl x a b
                  | _ => excl x a b && negb (occ x a && occ x b) end
  end.
Lemma pow_notin (L:lang) a k : (forall w, L w -> ~ In a w) -> forall w, pow L k w -> ~ In a w.
Proof.
  intros H. induction k; simpl; intros w P.
  - subst. auto.
  - destruct P as (u & v & -> & Lu & Pv). intros I. apply in_app_or in I as [I|I]; [apply (H _ Lu I)|apply (IHk _ Pv I)].
Qed.
Lemma pow_excl (L:lang) a b k : (forall w, L w -> ~ (In a w /\ In b w)) -> ((forall w, L w -> ~ In a w) \/ (forall w, L w -> ~ In b w)) ->
  forall w, pow L k w -> ~ (In a w /\ In b w).
Proof.
  intros H [Na|Nb] w P [Ia Ib].
  - apply (pow_notin L a k Na w P Ia).
  - apply (pow_notin L b k Nb w P Ib).
Qed.
Theorem excl_sound r a b : excl r a b = true -> forall w, Lang r w -> ~ (In a w /\ In b w).
Proof.
  induction r; simpl; intros E w L [Ia Ib].
  - contradiction.
  - subst. destruct Ia.
  - subst. destruct Ia as [<-|[]]. destruct Ib as [<-|[]]. rewrite Pos.eqb_refl in E. discriminate.
  - apply andb_true_iff in E as [E N2]. apply andb_true_iff in E as [E N1]. apply andb_true_iff in E as [E1 E2].
    destruct L as (u & v & -> & Lu & Lv).
    apply in_app_or in Ia. apply in_app_or in Ib.
    destruct Ia as [Ia|Ia], Ib as [Ib|Ib].
    + apply (IHr1 E1 u Lu); auto.
    + apply negb_true_iff in N1. apply andb_false_iff in N1 as [N|N]; [apply (occ_false _ _ _ N Lu Ia)|apply (occ_false _ _ _ N Lv Ib)].
    + apply negb_true_iff in N2. apply andb_false_iff in N2 as [N|N]; [apply (occ_false _ _ _ N Lu Ib)|apply (occ_false _ _ _ N Lv Ia)].
    + apply (IHr2 E2 v Lv); auto.
  - apply andb_true_iff in E as [E1 E2]. destruct L as [L|L]; [apply (IHr1 E1 w L)|apply (IHr2 E2 w L)]; auto.
  - destruct L as (k & K1 & K2 & P).
    destruct mx as [[|[|m]]|].
    + assert (k = 0) by (simpl in K2; lia). subst. simpl in P. subst. destruct Ia.
    + assert (k = 0 \/ k = 1) as [->| ->] by (simpl in K2; lia); simpl in P.
      * subst. destruct Ia.
      * destruct P as (u & v & -> & Lu & ->). rewrite app_nil_r in *. apply (IHr E u Lu); auto.
    + apply andb_true_iff in E as [E N]. apply negb_true_iff in N. apply andb_false_iff in N.
      refine (pow_excl (Lang r) a b k (IHr E) _ w P (conj Ia Ib)).
      destruct N as [N|N]; [left|right]; intros u Lu; apply (occ_false _ _ _ N Lu).
    + apply andb_true_iff in E as [E N]. apply negb_true_iff in N. apply andb_false_iff in N.
      refine (pow_excl (Lang r) a b k (IHr E) _ w P (conj Ia Ib)).
      destruct N as [N|N]; [left|right]; intros u Lu; apply (occ_false _ _ _ N Lu).
Qed.

(* ---- the judges on multisets of children (lists of names, order irrelevant) ---- *)
Definition over_max (r:re) (m:list positive) : bool :=
  existsb (fun a => match maxcount r a with Some c => Nat.ltb c (count a m) | None => false end) m.
Definition has_excl_pair (r:re) (m:list positive) : bool := existsb (fun a => existsb (fun b => excl r a b) m) m.
Definition dead (r:re) (m:list positive) : bool := over_max r m || has_excl_pair r m.
Definition dominates (m w:list positive) : bool := forallb (fun a => Nat.leb (count a m) (count a w)) m.
Definition witness (r:re) (m w:list positive) : bool := accepts r w && dominates m w.
Definition Alive (r:re) (m:list positive) : Prop := exists w, Lang r w /\ forall a, count a m <= count a w.

Lemma dominates_ok m w : dominates m w = true -> forall a, count a m <= count a w.
Proof.
  intros D a. unfold dominates in D. rewrite forallb_forall in D.
  destruct (count a m) eqn:E; [lia|]. assert (I: In a m) by (apply count_In; lia).
  specialize (D a I). apply Nat.leb_le in D. lia.
Qed.
Theorem witness_sound r m w : wf r = true -> witness r m w = true -> Alive r m.
Proof.
  intros W H. apply andb_true_iff in H as [A D]. exists w. split; [apply accepts_iff; auto|apply dominates_ok; auto].
Qed.
Theorem dead_sound r m : dead r m = true -> ~ Alive r m.
Proof.
  intros D (w & L & Dom). apply orb_true_iff in D as [D|D].
  - apply existsb_exists in D as (a & Ia & H). pose proof (maxcount_sound r a w L) as B.
    destruct (maxcount r a) as [c|]; [|discriminate]. apply Nat.ltb_lt in H. simpl in B. specialize (Dom a). lia.
  - apply existsb_exists in D as (a & Ia & D). apply existsb_exists in D as (b & Ib & E).
    apply (excl_sound r a b E w L). split; apply count_In.
    + apply count_In in Ia. specialize (Dom a). lia.
    + apply count_In in Ib. specialize (Dom b). lia.
Qed.
