From Coq Require Export List PArith NArith Arith Bool Lia.
Export ListNotations.
Inductive particle :=
| PElem (s:positive) (mn:nat) (mx:option nat)
| PSeq (mn:nat) (mx:option nat) (l:list particle)
| PChoice (mn:nat) (mx:option nat) (l:list particle)
| PGroup (g:positive) (mn:nat) (mx:option nat) (l:list particle).
(* plain regex core *)
Inductive re := Void | Eps | Sym (s:positive) | Cat (a b:re) | Alt (a b:re) | Rep (r:re) (mn:nat) (mx:option nat).
Fixpoint cats (l:list re) := match l with [] => Eps | [x] => x | x::t => Cat x (cats t) end.
Fixpoint alts (l:list re) := match l with [] => Void | [x] => x | x::t => Alt x (alts t) end.
Definition wrap r (mn:nat) (mx:option nat) := match mn, mx with 1, Some 1 => r | _,_ => Rep r mn mx end.
Fixpoint re_of (p:particle) : re :=
  match p with
  | PElem s mn mx => wrap (Sym s) mn mx
  | PSeq mn mx l => wrap (cats (map re_of l)) mn mx
  | PChoice mn mx l => wrap (alts (map re_of l)) mn mx
  | PGroup _ mn mx l => wrap (cats (map re_of l)) mn mx
  end.
Fixpoint nullable r := match r with Void => false | Eps => true | Sym _ => false | Cat a b => nullable a && nullable b | Alt a b => nullable a || nullable b | Rep r mn _ => Nat.eqb mn 0 || nullable r end.
Definition mkcat a b := match a,b with Void,_ => Void | _,Void => Void | Eps,_ => b | _,Eps => a | _,_ => Cat a b end.
Definition mkalt a b := match a,b with Void,_ => b | _,Void => a | _,_ => Alt a b end.
Definition dec_mx (mx:option nat) := match mx with None => None | Some n => Some (pred n) end.
Definition mkrep r mn mx := match mx with Some 0 => Eps | _ => Rep r mn mx end.
Fixpoint deriv (a:positive) r := match r with
 | Void | Eps => Void
 | Sym s => if Pos.eqb s a then Eps else Void
 | Cat x y => if nullable x then mkalt (mkcat (deriv a x) y) (deriv a y) else mkcat (deriv a x) y
 | Alt x y => mkalt (deriv a x) (deriv a y)
 | Rep x mn mx => match mx with Some 0 => Void | _ => mkcat (deriv a x) (mkrep x (pred mn) (dec_mx mx)) end
 end.
Fixpoint accepts r (w:list positive) := match w with [] => nullable r | a::t => accepts (deriv a r) t end.
