"""C01 on nested documents (implementation side).  stdin JSON {"seed": n, "docs": [node, ...]}.
Every document is built through the API; then a short random history is applied at random depths - remove a child, add a child the content model
admits, add a child it does not admit (rejected: swallowed), replace a child by a fresh one of the same name - and the ROOT is serialised with
intelligent_choice off and on.  stdout JSON: per document the history and, when to_string() returned, its text; the harness judges EVERY node of
that text with the verified matcher."""
import sys, io, json, contextlib, warnings, random
warnings.simplefilter('ignore')
with contextlib.redirect_stdout(io.StringIO()):
    from musicxml.xmlelement import xmlelement as XE
sys.path.insert(0, __file__.rsplit('/', 1)[0])
import impl_runner as R
R.init()
job = json.load(sys.stdin)
rng = random.Random(job.get('seed', 0))
nan, inf = float('nan'), float('inf')
ALL = job['names']


def build(node):
    cls = R.class_of(node['tag'])
    kw = {}
    for n, txt, py in node['attrs']:
        kw[n.split(':')[-1].replace('-', '_')] = eval(py)
    e = cls(eval(node['py']), **kw) if node['py'] is not None else cls(**kw)
    for k in node['kids']:
        e.add_child(build(k))
    return e


def quiet(f):
    with contextlib.redirect_stdout(io.StringIO()), contextlib.redirect_stderr(io.StringIO()):
        return f()


def nodes_of(e, acc=None):
    acc = [] if acc is None else acc
    acc.append(e)
    for c in e.get_children(ordered=False):
        nodes_of(c, acc)
    return acc


out = []
for node in job['docs']:
    rec = {'ops': []}
    try:
        root = quiet(lambda: build(node))
    except Exception as ex:
        rec['build'] = type(ex).__name__
        out.append(rec)
        continue
    detached = []
    early = rng.random() < 0.5
    if early:
        # serialise first (whatever a successful check remembers must not outlive the changes that follow)
        try:
            quiet(lambda: root.to_string(intelligent_choice=rng.random() < 0.3))
            rec['ops'].append(['to_string'])
        except Exception as ex:
            rec['ops'].append(['to_string', 'raised ' + type(ex).__name__])
    if rng.random() < 0.4:
        # scripted: an admissible-by-name child that is REJECTED in the current state (the matcher tries its re-arrangements and gives up), then a
        # child with children of its own is removed and taken apart, then the document is serialised
        live = nodes_of(root)
        cand = [(p, c) for p in live for c in p.get_children(ordered=False) if c.get_children(ordered=False)]
        if cand:
            p, c = rng.choice(cand)
            names = sorted(getattr(p, 'possible_children_names', None) or [])
            rng.shuffle(names)
            for n in names[:6]:
                try:
                    quiet(lambda: p.add_child(R.make(n)))
                    rec['ops'].append(['add', p.name, n])
                except Exception as ex:
                    rec['ops'].append(['add', p.name, n, 'raised ' + type(ex).__name__])
                    break
            try:
                rec['ops'].append(['remove', p.name, c.name])
                quiet(lambda: p.remove(c))
                detached.append(c)
                k_ = rng.choice(c.get_children(ordered=False))
                rec['ops'].append(['remove-from-detached', c.name, k_.name])
                quiet(lambda: c.remove(k_))
            except Exception as ex:
                rec['ops'][-1].append('raised ' + type(ex).__name__)
    for _ in range(rng.randrange(0, 5)):
        live = nodes_of(root)
        holders = [x for x in live if x.get_children(ordered=False)]
        k = rng.random()
        try:
            if k < 0.35 and holders:
                p = rng.choice(holders)
                c = rng.choice(p.get_children(ordered=False))
                rec['ops'].append(['remove', p.name, c.name])
                quiet(lambda: p.remove(c))
                detached.append(c)
            elif k < 0.55:
                p = rng.choice(live)
                names = sorted(getattr(p, 'possible_children_names', None) or [])
                if not names:
                    continue
                n = rng.choice(names)
                rec['ops'].append(['add', p.name, n])
                quiet(lambda: p.add_child(R.make(n)))
            elif k < 0.75:
                p = rng.choice(live)
                n = rng.choice(ALL)
                rec['ops'].append(['add-any', p.name, n])
                quiet(lambda: p.add_child(R.make(n)))
            elif k < 0.9 and holders:
                p = rng.choice(holders)
                c = rng.choice(p.get_children(ordered=False))
                rec['ops'].append(['replace', p.name, c.name])
                quiet(lambda: p.replace_child(c, R.make(c.name)))
                detached.append(c)
            elif detached:
                # take a detached subtree apart: it must not matter to the document any more
                d = rng.choice(detached)
                kids = d.get_children(ordered=False)
                if kids:
                    c = rng.choice(kids)
                    rec['ops'].append(['remove-from-detached', d.name, c.name])
                    quiet(lambda: d.remove(c))
        except Exception as ex:
            rec['ops'][-1].append('raised ' + type(ex).__name__)
        if early and rng.random() < 0.3:
            try:
                quiet(root.to_string)
                rec['ops'].append(['to_string'])
            except Exception as ex:
                rec['ops'].append(['to_string', 'raised ' + type(ex).__name__])
    for ic in (False, True):
        try:
            rec['ic%d' % ic] = quiet(lambda: root.to_string(intelligent_choice=ic))
        except Exception as ex:
            rec['ic%d_exc' % ic] = type(ex).__name__
    out.append(rec)
json.dump(out, sys.stdout)
