"""C04 runner (implementation side): attribute assignment sequences through dot syntax, constructor keywords and the parser.
stdout: JSON list, one record per element class."""
import sys, io, json, contextlib, warnings, random
from fractions import Fraction
warnings.simplefilter('ignore')
with contextlib.redirect_stdout(io.StringIO()):
    from musicxml.xmlelement import xmlelement as XE
    from musicxml.parser.parser import _et_xml_to_music_xml
import xml.etree.ElementTree as ET
sys.path.insert(0, __file__.rsplit('/', 1)[0])
import impl_runner as R
R.init()
seed = int(sys.argv[1]) if len(sys.argv) > 1 else 1
rng = random.Random(seed)
CANDS = ['yes', 'no', 1, 0, -1, 2, 1.5, 100, 'a', 'A', 'above', 'start', 'up', 'left', '#FF0000', 'en', 'x1', 'P1', 'normal', 'Arial', '1,2',
         'solid', 'top', 'middle', 'bold', 'italic', 'begin', 'full', 'continue', 'whole', 'major', 'regular', 'none', 'single', 'double',
         '2000-01-01', 'id1', 'text', '', ' ', True, 3, 7, 1e-05, float('inf'), 'xx-bad-value', -5, 1000000, 'medium', 'sharp', 'C', 4, 'preserve']


def verdict(attr, v):
    try:
        attr.type_(v)
        return 'ok'
    except TypeError:
        return 'TypeError'
    except ValueError:
        return 'ValueError'
    except Exception as e:
        return 'EXC:' + type(e).__name__


def outcome(f):
    buf = io.StringIO()
    try:
        with contextlib.redirect_stdout(buf), contextlib.redirect_stderr(buf):
            f()
        return 'ok'
    except Exception as e:
        return type(e).__name__


OTHER = ['color', 'default-x', 'number', 'type', 'id', 'placement', 'font-family', 'no-such-attribute', 'print-object', 'bezier-x', 'NAME', 'x']
out = []


def cross_offers():
    """The same attribute name is declared with DIFFERENT enumerated types on different elements (system on measure-numbering and on direction,
    type on dozens).  In a fresh forked child per ordered pair of such types: one element takes every value of its own type, then an element
    whose type for that name differs is offered the values only the first type allows.  Verdicts are judged by the schema (xv) in c04.py."""
    import os, pickle
    XS = '{http://www.w3.org/2001/XMLSchema}'
    import musicxml
    root = ET.parse(os.path.join(os.path.dirname(musicxml.__file__), 'generate_classes', 'musicxml_4_0.xsd')).getroot()
    enum = {}
    for st in root.findall(XS + 'simpleType'):
        r = st.find(XS + 'restriction')
        vals = [x.get('value') for x in r.findall(XS + 'enumeration')] if r is not None else []
        if vals:
            enum[st.get('name')] = vals
    by = {}
    for n in XE.__all__:
        c = getattr(XE, n)
        if not (isinstance(c, type) and issubclass(c, XE.XMLElement)) or c is XE.XMLElement:
            continue
        try:
            if not c.TYPE.get_xsd_tree().is_complex_type:
                continue
            for a in c.TYPE.get_xsd_attributes():
                t = a.xsd_tree.get_attributes().get('type') if a.name else None
                if t in enum and a.name != 'name':
                    by.setdefault(a.name, {}).setdefault(t, n)
        except Exception:
            continue
    pairs = [(an, tx, cx, ty, cy) for an, d in sorted(by.items()) for tx, cx in sorted(d.items()) for ty, cy in sorted(d.items())
             if tx != ty and set(enum[tx]) - set(enum[ty])]
    rng.shuffle(pairs)
    pairs = [x for x in pairs if x[0] != 'type'] + [x for x in pairs if x[0] == 'type'][:60]       # `type` alone makes 330 of the ~350 pairs
    res = []

    def parse_one(cn, an, text):
        c = getattr(XE, cn)
        node = ET.Element(c.XSD_TREE.name, {an: text})
        try:
            R.make(c.XSD_TREE.name)
            v0 = R._cache.get(c.XSD_TREE.name)
        except Exception:
            v0 = None
        if v0 is not None:
            node.text = str(v0)
        holder = {}
        def p():
            holder['e'] = _et_xml_to_music_xml(node)
        o = outcome(p)
        return o, (str(holder['e'].attributes.get(an)) if 'e' in holder else None)
    for an, tx, cx, ty, cy in pairs:
        r, w = os.pipe()
        pid = os.fork()
        if pid == 0:
            os.close(r)
            got = []
            try:
                for v in enum[tx]:
                    parse_one(cx, an, v)
                for v in sorted(set(enum[tx]) - set(enum[ty]))[:4] + enum[ty][:2]:
                    o, stored = parse_one(cy, an, v)
                    got.append(['%s (on %s after %s took the values of %s)' % (an, cy, cx, tx), ty, v, o, stored])
            except BaseException as ex:
                got.append(['%s (on %s after %s)' % (an, cy, cx), ty, '', 'EXC:' + type(ex).__name__, None])
            with os.fdopen(w, 'wb') as fw:
                pickle.dump(got, fw)
            os._exit(0)
        os.close(w)
        with os.fdopen(r, 'rb') as fr:
            data = fr.read()
        os.waitpid(pid, 0)
        res += pickle.loads(data) if data else []
    return res


# before anything else has used any table: what one element's use of a type leaves behind for another element's different type
out.append({'cls': '<cross offers>', 'complex': False, 'simple_attr': 'XSDWrongAttribute', 'parser_texts': cross_offers()})
# first touch every class's lazily built table, so that what is exercised below is the behaviour after ordinary use of the others
for n in XE.__all__:
    c = getattr(XE, n)
    if isinstance(c, type) and issubclass(c, XE.XMLElement) and c is not XE.XMLElement:
        try:
            c.TYPE.get_xsd_attributes()
        except Exception:
            pass
for n in XE.__all__:
    c = getattr(XE, n)
    if not (isinstance(c, type) and issubclass(c, XE.XMLElement)) or c is XE.XMLElement:
        continue
    rec = {'cls': n, 'complex': bool(c.TYPE.get_xsd_tree().is_complex_type)}
    if not rec['complex']:
        # simple-typed element: any attribute keyword must be refused
        rec['simple_attr'] = outcome(lambda: c(R._cache.get(c.XSD_TREE.name) if R.make(c.XSD_TREE.name) is not None else None, color='#FF0000'))
        out.append(rec)
        continue
    try:
        attrs = c.TYPE.get_xsd_attributes()
        table = [(a.name, bool(a.is_required)) for a in attrs]
    except Exception as e:
        rec['table_exc'] = type(e).__name__
        rec['ctor'] = outcome(lambda: c())
        out.append(rec)
        continue
    rec['table'] = table
    try:
        R.make(c.XSD_TREE.name)
        v0 = R._cache.get(c.XSD_TREE.name)
        mk = (lambda: c(v0)) if v0 is not None else (lambda: c())
        e = mk()
    except Exception as ex:
        rec['ctor_exc'] = type(ex).__name__
        out.append(rec)
        continue
    # values: per attribute one accepted and one refused candidate (verdict of the attribute's own type class)
    ops = []
    tok = 0
    vals = {}
    for a in attrs:
        good = [v for v in CANDS if verdict(a, v) == 'ok']
        bad = [v for v in CANDS if verdict(a, v) in ('TypeError', 'ValueError')]
        exc = [v for v in CANDS if verdict(a, v).startswith('EXC:')]
        seqv = []
        if good:
            seqv.append(rng.choice(good))
        if bad:
            seqv.append(rng.choice(bad))
        if len(good) > 1:
            seqv.append(rng.choice(good))
        seqv.append(None)
        if good:
            seqv.append(good[0])
        # a refused value that compares (and hashes) equal to an accepted one: 1 then 1.0 on an integer type, 1.5 then Fraction(3, 2)
        ints = [v for v in good if type(v) is int]
        if ints:
            k = rng.choice(ints)
            if verdict(a, float(k)) in ('TypeError', 'ValueError'):
                seqv += [k, float(k)]
        flts = [v for v in good if type(v) is float and v == v and abs(v) != float('inf')]
        if flts and verdict(a, Fraction(flts[0])) in ('TypeError', 'ValueError'):
            seqv += [flts[0], Fraction(flts[0])]
        if exc and not good and not bad:
            seqv = [exc[0]]
        for v in seqv:
            ops.append((a.name.replace('-', '_') if a.name else 'None', v, a))
    declared = {a.name for a in attrs}
    for k in OTHER:
        if k not in declared:
            ops.append((k.replace('-', '_'), rng.choice(['yes', 1, '#FF0000']), None))
    rng.shuffle(ops)
    trace = []
    for key, v, a in ops:
        tok += 1
        vd = None if v is None else (verdict(a, v) if a is not None else 'ok')
        st = outcome(lambda: setattr(e, key, v))
        trace.append({'key': key, 'val': repr(v), 'tok': tok, 'none': v is None, 'verdict': vd, 'st': st,
                      'dict': [[k, repr(x)] for k, x in e.attributes.items()]})
        vals[tok] = v
    rec['trace'] = trace
    # final: to_string refuses iff a required attribute is missing; serialised attributes = current dict
    e.xsd_check = True
    try:
        buf = io.StringIO()
        with contextlib.redirect_stdout(buf):
            e._check_required_attributes()
        rec['required'] = 'ok'
    except Exception as ex:
        rec['required'] = type(ex).__name__
    try:
        el = e.et_xml_element
        rec['ser'] = [[k, v] for k, v in el.attrib.items()]
        rec['cur'] = [[k, str(v)] for k, v in e.attributes.items()]
    except Exception as ex:
        rec['ser'] = 'EXC:' + type(ex).__name__
    try:
        f = mk()
        f._check_required_attributes()
        rec['required_fresh'] = 'ok'
    except Exception as ex:
        rec['required_fresh'] = type(ex).__name__
    # constructor keyword and parser paths on single assignments
    single = []
    for key, v, a in ops[:12]:
        if v is None:
            continue
        vd = verdict(a, v) if a is not None else 'ok'
        s1 = outcome(lambda: (c(v0, **{key: v}) if v0 is not None else c(**{key: v})))
        rec2 = {'key': key, 'val': repr(v), 'verdict': vd, 'declared': a is not None, 'ctor': s1}
        # the attribute interface is the same on an element whose STRUCTURAL checking is switched off (constructor keyword and dot assignment)
        rec2['ctor_unchecked'] = outcome(lambda: (c(v0, xsd_check=False, **{key: v}) if v0 is not None else c(xsd_check=False, **{key: v})))
        def dot_unchecked():
            eu = c(v0, xsd_check=False) if v0 is not None else c(xsd_check=False)
            setattr(eu, key, v)
        rec2['dot_unchecked'] = outcome(dot_unchecked)
        def dot_checked():
            ec = c(v0) if v0 is not None else c()
            setattr(ec, key, v)
        rec2['dot_checked'] = outcome(dot_checked)
        if isinstance(v, (str, int, float)) and not isinstance(v, bool) and a is not None and a.name:
            node = ET.Element(c.XSD_TREE.name, {a.name: str(v)})
            if v0 is not None:
                node.text = str(v0)
            holder = {}
            def p():
                holder['e'] = _et_xml_to_music_xml(node)
            rec2['parser'] = outcome(p)
            if 'e' in holder:
                rec2['parser_stored'] = str(holder['e'].attributes.get(a.name))
        single.append(rec2)
    rec['single'] = single
    # the parser route with numeric spellings: what is accepted must be what the schema's lexical space of the attribute's type allows
    ptexts = []
    try:
        decl = [a for a in c.TYPE.get_xsd_attributes() if a.name] if c.TYPE.get_xsd_tree().is_complex_type else []
    except Exception:
        decl = []
    for a in [x for x in decl if x.name != 'name'][:8]:          # name= is captured by a Python property (recorded finding C04-name)
        try:
            tname = a.xsd_tree.get_attributes().get('type')
        except Exception:
            tname = None
        if not tname:
            continue
        for text in ('2', '2.0', '2.', '02', '+2', '1.50', '-1'):
            node = ET.Element(c.XSD_TREE.name, {a.name: text})
            if v0 is not None:
                node.text = str(v0)
            holder = {}
            def p2():
                holder['e'] = _et_xml_to_music_xml(node)
            o = outcome(p2)
            ptexts.append([a.name, tname, text, o, str(holder['e'].attributes.get(a.name)) if 'e' in holder else None])
    rec['parser_texts'] = ptexts
    out.append(rec)
json.dump(out, sys.stdout)
