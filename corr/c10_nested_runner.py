"""C10 on nested documents (implementation side).  stdin JSON {"seed": n, "cases": [{"doc": node, "extra": node}]}.
Every case is built through the API; then, one at a time and each on a freshly built copy, operations that must fail are called on
a RECEIVER element: removing / replacing an element that is not its child (a grandchild, a sibling's child, an unattached element),
adding a child its type does not admit.  The receiver is snapshotted (recursively: class, attributes, value, both child views,
serialisation or the exception it raises) before and after; stdout JSON lists every call with whether it raised and whether the
snapshot changed."""
import sys, io, json, contextlib, warnings, random
warnings.simplefilter('ignore')
with contextlib.redirect_stdout(io.StringIO()):
    from musicxml.xmlelement import xmlelement as XE
sys.path.insert(0, __file__.rsplit('/', 1)[0])
import impl_runner as R
R.init()
job = json.load(sys.stdin)
rng = random.Random(job.get('seed', 0))
nan, inf = float('nan'), float('inf')


def build(node):
    cls = R.class_of(node['tag'])
    kw = {}
    for n, txt, py in node['attrs']:
        kw[n.split(':')[-1].replace('-', '_')] = eval(py)
    e = cls(eval(node['py']), **kw) if node['py'] is not None else cls(**kw)
    for k in node['kids']:
        e.add_child(build(k))
    return e


def quiet(f):
    with contextlib.redirect_stdout(io.StringIO()), contextlib.redirect_stderr(io.StringIO()):
        return f()


def snap(e, ids):
    def i(x):
        return ids.setdefault(id(x), len(ids))
    try:
        ordered = [i(c) for c in e.get_children()]
    except Exception as ex:
        ordered = 'exc:' + type(ex).__name__
    un = e.get_children(ordered=False)
    try:
        s = quiet(e.to_string)
    except Exception as ex:
        s = 'exc:%s:%s' % (type(ex).__name__, str(ex)[:120])
    try:
        val = repr(e.value_)
    except Exception as ex:
        val = 'exc:' + type(ex).__name__
    return [type(e).__name__, sorted((k, repr(v)) for k, v in e.attributes.items()), val, ordered, [i(c) for c in un],
            i(e.up) if e.up is not None else None, s, [snap(c, ids) for c in un]]


def descendants(e, depth=0, parent=None, acc=None):
    acc = [] if acc is None else acc
    for c in e.get_children(ordered=False):
        acc.append((c, depth + 1, e))
        descendants(c, depth + 1, e, acc)
    return acc


def doc_invariant(root):
    """C06 over the whole document: at every node the schema-ordered view holds exactly the children of the insertion-ordered view (by identity, no
    duplicates) and every child's parent pointer is the node.  Returns the list of nodes where that fails."""
    bad = []
    stack = [root]
    seen = set()
    while stack:
        x = stack.pop()
        if id(x) in seen:
            bad.append('%s reachable twice' % x.name)
            continue
        seen.add(id(x))
        un = x.get_children(ordered=False)
        try:
            od = x.get_children()
        except Exception as ex:
            bad.append('%s: ordered view raises %s' % (x.name, type(ex).__name__))
            od = un
        if sorted(map(id, od)) != sorted(map(id, un)) or len(set(map(id, un))) != len(un):
            bad.append('%s: ordered view %s, insertion view %s' % (x.name, [c.name for c in od], [c.name for c in un]))
        for c in un:
            if c.up is not x:
                bad.append('%s: child %s has another parent pointer' % (x.name, c.name))
            stack.append(c)
    return bad[:4]


def first_diff(a, b, path='receiver'):
    names = ['class', 'attributes', 'value', 'ordered children', 'unordered children', 'parent', 'serialisation']
    for k in range(7):
        if a[k] != b[k]:
            return '%s: %s %r -> %r' % (path, names[k], a[k] if k != 6 else str(a[k])[:160], b[k] if k != 6 else str(b[k])[:160])
    for x, y in zip(a[7], b[7]):
        d = first_diff(x, y, path + '/' + x[0])
        if d:
            return d
    return None


out = []
for ci, case in enumerate(job['cases']):
    try:
        probe = quiet(lambda: build(case['doc']))
    except Exception as ex:
        out.append({'case': ci, 'skip': type(ex).__name__})
        continue
    desc = descendants(probe)
    idx = list(range(len(desc)))
    deep = [k for k in idx if desc[k][1] >= 2]
    kids = [k for k in idx if desc[k][1] == 1]
    plans = []
    for k in rng.sample(deep, min(3, len(deep))):
        plans.append(('remove-grandchild', None, k))
        plans.append(('replace-grandchild', None, k))
        plans.append(('add-grandchild', None, k))          # an element that lives elsewhere in the document offered to the root
    plans.append(('remove-unattached', None, None))
    plans.append(('replace-unattached', None, None))
    plans.append(('add-inadmissible', None, None))
    # a child as receiver, a sibling (or a sibling's child) as target
    if len(kids) >= 2:
        for _ in range(2):
            a, b = rng.sample(kids, 2)
            plans.append(('remove-sibling', a, b))
            under_b = [k for k in idx if desc[k][2] is desc[b][0]]
            if under_b:
                plans.append(('remove-nephew', a, rng.choice(under_b)))
                plans.append(('add-nephew', a, rng.choice(under_b)))
    for kind, recv_k, tgt_k in plans:
        rec = {'case': ci, 'kind': kind}
        try:
            root = quiet(lambda: build(case['doc']))
            d2 = descendants(root)
            recv = root if recv_k is None else d2[recv_k][0]
            tgt = d2[tgt_k][0] if tgt_k is not None else None
            extra = quiet(lambda: build(case['extra']))
            rec['receiver'] = type(recv).__name__
            rec['target'] = type(tgt).__name__ if tgt is not None else type(extra).__name__
            ids = {}
            rec['inv_before'] = doc_invariant(root)
            before = snap(recv, ids)
            try:
                if kind.startswith('remove'):
                    quiet(lambda: recv.remove(tgt if tgt is not None else extra))
                elif kind.startswith('replace'):
                    quiet(lambda: recv.replace_child(tgt if tgt is not None else XE.XMLFootnote('x'), extra))
                elif kind == 'add-grandchild' or kind == 'add-nephew':
                    quiet(lambda: recv.add_child(tgt))
                else:
                    quiet(lambda: recv.add_child(extra))
                rec['raised'] = None
            except Exception as ex:
                rec['raised'] = type(ex).__name__
            after = snap(recv, ids)
            rec['inv_after'] = doc_invariant(root)
            rec['same'] = before == after
            if not rec['same']:
                rec['diff'] = first_diff(before, after)
        except Exception as ex:
            rec['skip'] = type(ex).__name__ + ':' + str(ex)[:100]
        out.append(rec)
json.dump(out, sys.stdout)
