"""C13 (implementation side): does a FRESH element's reaction to an attribute value depend on what other instances did before?
argv[1] = 'pristine' | 'after'.  Probes: on a fresh element of every class, for every declared attribute that accepts a number v, assign a
value that compares equal to v but has another type (float(v) for an int, Fraction(v) for a float), and an unrelated invalid value.
In mode 'after' every (class, attribute) first sees the valid v on ANOTHER fresh instance - the unrelated history.  The harness compares the
probe outcomes of the two modes (two processes)."""
import sys, io, json, contextlib, warnings
from fractions import Fraction
warnings.simplefilter('ignore')
with contextlib.redirect_stdout(io.StringIO()):
    from musicxml.xmlelement import xmlelement as XE
sys.path.insert(0, __file__.rsplit('/', 1)[0])
import impl_runner as R
R.init()
mode = sys.argv[1]
NUMS = [1, 2, 3, 10, 1.5, 10.5, -3.0, 0.5]


def outcome(f):
    try:
        with contextlib.redirect_stdout(io.StringIO()), contextlib.redirect_stderr(io.StringIO()):
            r = f()
        return 'ok' if r is None else 'ok:' + (str(r) if len(str(r)) < 124 else str(r)[:100] + '...' + str(len(str(r))) + ':' + str(sum(map(ord, str(r)))))
    except Exception as e:
        return type(e).__name__


def fresh(c):
    R.make(c.XSD_TREE.name)
    v0 = R._cache.get(c.XSD_TREE.name)
    return c(v0) if v0 is not None else c()


plan = []
for n in XE.__all__:
    c = getattr(XE, n)
    if not (isinstance(c, type) and issubclass(c, XE.XMLElement)) or c is XE.XMLElement or not c.TYPE.get_xsd_tree().is_complex_type:
        continue
    try:
        attrs = c.TYPE.get_xsd_attributes()
        fresh(c)
    except Exception:
        continue
    for a in attrs:
        try:
            if not a.name:
                continue
        except Exception:
            continue              # an unresolved reference (xlink): C03's finding, not this check's
        key = a.name.replace('-', '_')
        for v in NUMS:
            try:
                a.type_(v)
            except Exception:
                continue
            alt = float(v) if isinstance(v, int) else Fraction(v)
            try:
                a.type_(alt)
                continue            # the equal value of the other type is valid too: nothing to distinguish
            except Exception:
                pass
            plan.append((n, key, v, alt))
            break
plan = plan[:: max(1, len(plan) // 1500)]
if mode == 'after':
    for n, key, v, alt in plan:
        e = fresh(getattr(XE, n))
        outcome(lambda: setattr(e, key, v))
    # ... and operations on OTHER instances that fail half-way and are survived by the caller (as a batch exporter would):
    class NotAnElement:
        pass
    class BadStr:
        def __str__(self):
            raise RuntimeError('str() of a value fails')
    def failing_history():
        m = XE.XMLMeasure(number='1', xsd_check=False)
        m.add_child(XE.XMLNote(xsd_check=False))
        m.add_child(NotAnElement())                      # unchecked elements accept anything; serialisation fails in the middle of the children
        outcome(m.to_string)
        w = XE.XMLWords('x', xsd_check=False)
        w._attributes['color'] = BadStr()
        p = XE.XMLDirectionType(xsd_check=False)
        p.add_child(XE.XMLWords('a')); p.add_child(w)
        outcome(p.to_string)
        outcome(XE.XMLPitch().to_string)                 # a refused final check
        n_ = XE.XMLNote()
        outcome(lambda: n_.add_child(XE.XMLPartName('x')))   # a rejected child
        outcome(lambda: XE.XMLStaff('not a number'))         # a refused value
        import copy
        outcome(lambda: copy.deepcopy(m))
    for _ in range(3):
        failing_history()
    # ... and the error paths of OTHER instances of every class: a misspelt name read, assigned and given as a keyword
    for n in XE.__all__:
        c = getattr(XE, n)
        if not (isinstance(c, type) and issubclass(c, XE.XMLElement)) or c is XE.XMLElement:
            continue
        try:
            e = fresh(c)
        except Exception:
            continue
        outcome(lambda: e.no_such_name_)
        outcome(lambda: setattr(e, 'no_such_name_', 3))
        outcome(lambda: c(no_such_name_=1))
out = []


def message(f):
    try:
        with contextlib.redirect_stdout(io.StringIO()), contextlib.redirect_stderr(io.StringIO()):
            f()
        return 'ok'
    except Exception as e:
        m = str(e)
        return type(e).__name__ + ':' + (m if len(m) < 300 else m[:200] + '...' + str(len(m)) + ':' + str(sum(map(ord, m))))


# what a fresh element SAYS when it refuses (which required attribute is missing, which names are allowed) is part of its behaviour too
for n in XE.__all__:
    c = getattr(XE, n)
    if not (isinstance(c, type) and issubclass(c, XE.XMLElement)) or c is XE.XMLElement:
        continue
    try:
        if not c.TYPE.get_xsd_tree().is_complex_type or len([a for a in c.TYPE.get_xsd_attributes() if a.name and a.is_required]) < 1:
            continue
    except Exception:
        continue
    out.append(['<message>', n, '', '', message(lambda: c(xsd_check=True)._check_required_attributes()), True, message(lambda: c(no_such_name_=1))])
for n, key, v, alt in plan:
    e = fresh(getattr(XE, n))
    o1 = outcome(lambda: setattr(e, key, alt))
    o2 = outcome(lambda: e.to_string() if o1.startswith('ok') else None)
    out.append([n, key, repr(v), repr(alt), o1, dict(e.attributes).get(key.replace('_', '-')) is not None, o2])
# fresh elements WITH children (three levels), serialised: text, indentation and all must not depend on what happened before
def nested_probes():
    pl = XE.XMLPartList()
    sp = pl.add_child(XE.XMLScorePart(id='P1'))
    sp.add_child(XE.XMLPartName('Flute'))
    pi = XE.XMLPitch(); pi.add_child(XE.XMLStep('C')); pi.add_child(XE.XMLOctave(4))
    nt = XE.XMLNote(); nt.add_child(pi); nt.add_child(XE.XMLDuration(1))
    ms = XE.XMLMeasure(number='1'); ms.add_child(nt)
    import copy
    return [('part-list', pl), ('note', nt), ('measure', ms), ('copy of measure', copy.deepcopy(ms)), ('pitch inside note', pi)]
for name, e in nested_probes():
    o = outcome(e.to_string)
    out.append(['<nested>', name, '', '', 'ok', True, o if len(o) < 130 else o[:100] + '...' + str(len(o)) + ':' + str(sum(map(ord, o)))])
# an element that has LEFT its parent (removed, unset by shortcut, replaced out) is on its own again: whatever happens to the former parent afterwards
# (nested into a measure, into a part) must not show in it; compared with a twin that was never attached
def released_probes():
    def pitch():
        pi = XE.XMLPitch(); pi.add_child(XE.XMLStep('C')); pi.add_child(XE.XMLOctave(4))
        return pi
    res = []
    for checked in (True, False):
        for how in ('remove', 'unset', 'replace'):
            nt = XE.XMLNote(xsd_check=checked)
            pi = nt.add_child(pitch()); nt.add_child(XE.XMLDuration(1))
            if how == 'remove':
                nt.remove(pi)
            elif how == 'unset':
                nt.xml_pitch = None
            else:
                nt.replace_child(pi, pitch())
            before = outcome(pi.to_string)
            ms = XE.XMLMeasure(number='1', xsd_check=False); ms.add_child(nt)
            pt = XE.XMLPart(id='P1', xsd_check=False); pt.add_child(ms)
            after = outcome(pi.to_string)
            twin = outcome(pitch().to_string)
            res.append(('pitch after %s from a %s note' % (how, 'checked' if checked else 'unchecked'), before, after, twin, pi.get_parent() is None))
    return res
for name, before, after, twin, orphan in released_probes():
    ok = before == after == twin and orphan
    out.append(['<released>', name, '', '', 'ok' if ok else 'DIFFERS', True, '' if ok else 'parent is None: %s; alone %r / after the former parent was nested %r / twin %r' % (orphan, before[:80], after[:80], twin[:80])])
# elements that come out of the parser are instances like any others: equal leaves in different parents are different objects, and a second parse
# of the same text is not affected by what was done to the first
def parsed_probes():
    import tempfile, os
    from musicxml.parser.parser import parse_musicxml
    note = '<note><pitch><step>C</step><octave>4</octave></pitch><duration>4</duration><voice>1</voice><type>whole</type></note>'
    rest = '<note><rest/><duration>4</duration><voice>1</voice><type>whole</type></note>'
    text = ('<?xml version="1.0" encoding="UTF-8"?><score-partwise version="4.0"><part-list><score-part id="P1"><part-name>A</part-name></score-part></part-list>'
            '<part id="P1"><measure number="1">' + note + rest + note + rest + '</measure></part></score-partwise>')
    fd, path = tempfile.mkstemp(suffix='.xml')
    os.write(fd, text.encode('utf-8')); os.close(fd)
    res = []
    try:
        s1 = parse_musicxml(path)
        first = outcome(s1.to_string)
        notes = [n for n in s1.get_children()[-1].get_children()[0].get_children()]
        before = [outcome(n.to_string) for n in notes]
        ids = {}
        shared = []
        for n in notes:
            for leaf in n.traverse():
                if leaf is not n and id(leaf) in ids and ids[id(leaf)] is not n:
                    shared.append(leaf.name)
                ids[id(leaf)] = n
        res.append(('no element object is a descendant of two parsed notes', not shared, 'shared: %s' % sorted(set(shared))))
        n2 = notes[1]
        n2.xml_duration = 2
        n2.xml_type = None
        n2.xml_rest.add_child(XE.XMLDisplayStep('D')); n2.xml_rest.add_child(XE.XMLDisplayOctave(5))
        after = [outcome(n.to_string) for n in notes]
        res.append(('changing the second parsed note leaves the first, third and fourth as they were', [before[i] == after[i] for i in (0, 2, 3)] == [True] * 3,
                    'notes that changed: %s' % [i + 1 for i in (0, 2, 3) if before[i] != after[i]]))
        s2 = parse_musicxml(path)
        res.append(('a second parse of the same file serialises like the first did', outcome(s2.to_string) == first, ''))
    except Exception as ex:
        res.append(('parsed probes run', False, type(ex).__name__ + ': ' + str(ex)[:120]))
    finally:
        os.remove(path)
    return res
for name, ok, detail in parsed_probes():
    out.append(['<released>', name, '', '', 'ok' if ok else 'DIFFERS', True, '' if ok else detail])
json.dump(out, sys.stdout)
