"""C14 runner: element trees with attributes applied by keyword / dot assignment / changed / removed / through the parser,
deep-copied; copy compared with the original, then each side mutated in turn.  argv[1]: seed, argv[2]: number of trees."""
import sys, io, json, copy, contextlib, warnings, random
warnings.simplefilter('ignore')
with contextlib.redirect_stdout(io.StringIO()):
    from musicxml.xmlelement import xmlelement as XE
    from musicxml.parser.parser import _et_xml_to_music_xml
import xml.etree.ElementTree as ET
sys.path.insert(0, __file__.rsplit('/', 1)[0])
import impl_runner as R
R.init()
job = json.load(sys.stdin)
rng = random.Random(job['seed'])
CANDS = ['yes', 'no', 1, 2, 1.5, 100, 'a', 'above', 'start', 'up', 'left', '#FF0000', 'en', 'x1', 'P1', 'normal', 'Arial', 'solid', 'top',
         'bold', 'italic', 'begin', 'full', 'whole', 'major', 'regular', 'single', 'id1', 'text', 3, 7, 'medium', 'sharp', 'C', 4]


def ts(e):
    try:
        with contextlib.redirect_stdout(io.StringIO()):
            return e.to_string()
    except Exception as ex:
        return 'EXC:' + type(ex).__name__


def good_values(a):
    out = []
    for v in CANDS:
        try:
            a.type_(v)
            out.append(v)
        except Exception:
            pass
    return out


def attr_plan(cls):
    """list of (dot key, mode, v1, v2)"""
    try:
        attrs = [a for a in cls.TYPE.get_xsd_attributes() if a.name and a.name != 'name']
    except Exception:
        return []
    plan = []
    for a in rng.sample(attrs, min(len(attrs), 4)):
        try:
            g = good_values(a)
        except Exception:
            continue
        if not g:
            continue
        mode = rng.choice(['kw', 'dot', 'change', 'remove', 'kw'])
        plan.append((a.name.replace('-', '_'), mode, rng.choice(g), rng.choice(g)))
    # the schema attribute called `name` (lyric, bookmark, miscellaneous-field, ...): a constructor keyword is the only way to give it
    # (dot assignment is captured by the Python property: recorded finding of C04), and a copy has to carry it all the same
    try:
        named = [a for a in cls.TYPE.get_xsd_attributes() if a.name == 'name']
    except Exception:
        named = []
    for a in named:
        g = [v for v in good_values(a) if isinstance(v, str) and v.strip()]
        if g:
            v = rng.choice(g)
            plan.append(('name', 'kw', v, v))
    return plan


def build(name, depth, log, force_unchecked=False):
    cls = R.class_of(name)
    R.make(name)
    v0 = R._cache.get(name)
    plan = attr_plan(cls) if cls.TYPE.get_xsd_tree().is_complex_type else []
    kw = {k: v1 for k, m, v1, v2 in plan if m in ('kw', 'change', 'remove')}
    unchecked = force_unchecked or rng.random() < 0.15
    e = cls(v0, xsd_check=not unchecked, **kw) if v0 is not None else cls(xsd_check=not unchecked, **kw)
    for k, m, v1, v2 in plan:
        if m == 'dot':
            setattr(e, k, v1)
        elif m == 'change':
            setattr(e, k, v2)
        elif m == 'remove':
            setattr(e, k, None)
    log.append([name, [(k, m) for k, m, _, _ in plan], unchecked])
    return e


def tree(case, log):
    """children are added in document order, except in two variants (decided per case, so that a rebuilt tree is the same tree):
    'forward': of two same-named children the later one is added first with forward=1 (insertion order != document order in a way the
               container cannot reconstruct by itself); 'stray': checking is switched off, a child outside the content model is added, checking
               is switched on again (the insertion list holds a child the container does not)"""
    root = build(case['root'], 0, log, case.get('unchecked_root', False))
    word = list(case['word'])
    variant = case.get('variant')
    kids = [build(n, 1, log) for n in word]
    order = list(range(len(word)))
    fwd = {}
    if variant == 'forward':
        dup = [(i, j) for i in range(len(word)) for j in range(i + 1, len(word)) if word[i] == word[j]]
        if dup:
            i, j = dup[0]
            order[i], order[j] = j, i
            fwd[j] = 1
    for pos in order:
        if pos in fwd:
            try:
                root.add_child(kids[pos], forward=fwd[pos])
            except Exception:
                root.add_child(kids[pos])          # forward= is refused here (a recorded finding of C10 / C19): plain add
        else:
            root.add_child(kids[pos])
    if variant == 'stray' and root.xsd_check:
        root.xsd_check = False
        root.add_child(build(case['stray'], 1, log))
        root.xsd_check = True
    return root


def obs(x):
    def names(l):
        try:
            return [type(c).__name__ for c in l()]
        except Exception as ex:
            return 'EXC:' + type(ex).__name__
    return [ts(x), names(lambda: x.get_children(ordered=False)), names(lambda: x.get_children())]


def checks(e):
    return [e.xsd_check] + [x for c in e.get_children() for x in checks(c)]          # the nodes that are serialised (a child held only by the insertion list is not)


out = []
for case in job['cases']:
    log = []
    rec = {'case': case}
    try:
        e = tree(case, log)
    except Exception as ex:
        rec['build'] = type(ex).__name__ + ': ' + str(ex)[:100]
        out.append(rec)
        continue
    rec['log'] = log
    s0 = ts(e)
    if case.get('variant') == 'forward' and s0.startswith('EXC:'):
        # forward= left the original in a state that does not serialise (recorded findings of C06 / C10 / C19, RC2): nothing to be faithful to
        rec['build'] = 'forward variant: the original does not serialise (%s)' % s0[:60]
        out.append(rec)
        continue
    try:
        c = copy.deepcopy(e)
    except Exception as ex:
        rec['copy_exc'] = type(ex).__name__
        out.append(rec)
        continue
    sc, s1 = ts(c), ts(e)
    rec['faithful'] = (sc == s0)
    rec['orig_unchanged'] = (s1 == s0)
    rec['checks_kept'] = checks(c) == checks(e)
    if not rec['faithful']:
        rec['orig'] = s0[:600]
        rec['copy'] = sc[:600]
    # a copy of a NESTED element is an element on its own: no parent, level 0, and what is done to the original tree above the element it was copied
    # from (here: that element's parent taken out of a measure it was put into) does not show in it
    try:
        kids_ = e.get_children(ordered=False)
        if kids_:
            kc = copy.deepcopy(kids_[0])
            lone = ts(kc)
            holder = XE.XMLMeasure(number='1', xsd_check=False)
            holder.add_child(e)
            kc2 = copy.deepcopy(kids_[0])
            mid = ts(kc2)
            holder.remove(e)
            rec['nested_copy'] = {'parent_none': kc.get_parent() is None and kc2.get_parent() is None, 'same': ts(kc2) == mid == lone and ts(kc) == lone}
    except Exception as ex:
        rec['nested_copy'] = {'exc': type(ex).__name__ + ': ' + str(ex)[:80]}
    # independence: mutate the copy, the original must not move; then mutate the original, the (fresh) copy must not move
    indep = []
    def mutations(x):
        ms = []
        nodes = [x] + list(x.get_children(ordered=False))
        for nd in nodes:
            for k in list(nd.attributes)[:2]:
                ms.append(('remove-attr', nd, k))
                ms.append(('set-attr', nd, k))
        if x.get_children(ordered=False):
            ms.append(('remove-child', x, None))
        ms.append(('add-child', x, None))
        ms.append(('toggle-check', x, None))
        ms.append(('recheck-add', x, None))
        return ms
    for side in ('copy', 'orig'):
        for mi in range(6):
            a = tree_copy = None
            e2 = e
            try:
                c2 = copy.deepcopy(e2)
            except Exception as ex:
                rec['copy_exc'] = type(ex).__name__ + ' (copy of a tree rebuilt for the independence rounds)'
                break
            tgt, other = (c2, e2) if side == 'copy' else (e2, c2)
            before = obs(other)
            ms = mutations(tgt)
            if mi >= len(ms):
                break
            kind, nd, k = ms[mi] if mi < 2 else (ms[-1] if mi == 2 else rng.choice(ms))
            try:
                if kind == 'remove-attr':
                    setattr(nd, k.replace('-', '_'), None)
                elif kind == 'set-attr':
                    setattr(nd, k.replace('-', '_'), nd.attributes[k])
                elif kind == 'remove-child':
                    nd.remove(nd.get_children(ordered=False)[0])
                elif kind == 'add-child' and case['word']:
                    nd.add_child(build(case['word'][-1], 1, []))
                elif kind == 'toggle-check':
                    nd.xsd_check = not nd.xsd_check
                elif kind == 'recheck-add' and case['word']:
                    # both sides are switched to checking (whatever they were built with), then only one side gets a child
                    nd.xsd_check = True
                    other.xsd_check = True
                    before = obs(other)
                    nd.add_child(build(case['word'][-1], 1, []))
            except Exception:
                pass
            after = obs(other)
            if side == 'orig':
                # restore: rebuild the original for the next round (mutating it in place would accumulate)
                e = tree(case, [])
                s0 = ts(e)
            if before != after:
                indep.append([side, kind, str(k)])
    if 'copy_exc' in rec:
        out.append(rec)
        continue
    rec['independent'] = not indep
    rec['aliasing'] = indep
    out.append(rec)
json.dump(out, sys.stdout)
