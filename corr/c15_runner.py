"""C15 runner: twins built through the shortcut syntax and through the explicit API, compared after every step.
stdin: JSON list of cases {"type":..., "ops":[...]}; ops: ["a",name] add_child (both twins) | ["x",name] e.xml_n = instance |
["n",name] e.xml_n = None | ["v",name] e.xml_n = scalar value | ["g",name] read e.xml_n | ["A",key,valrepr] attribute set |
["G",key] attribute read.  stdout: JSON list of per-op comparison records."""
import sys, io, json, contextlib, warnings, re
warnings.simplefilter('ignore')
with contextlib.redirect_stdout(io.StringIO()):
    from musicxml.xmlelement import xmlelement as XE
sys.path.insert(0, __file__.rsplit('/', 1)[0])
import impl_runner as R
R.init()
cases = json.load(sys.stdin)


def dotname(n):
    return 'xml_' + n.replace('-', '_')


ADDR = re.compile(r' object at 0x[0-9a-fA-F]+')


def snapshot(e):
    buf = io.StringIO()
    try:
        with contextlib.redirect_stdout(buf):
            s = e.to_string()
        ser = ADDR.sub(' object', s)      # an element given as a VALUE prints with its address: not comparable between twins
    except Exception as ex:
        ser = 'EXC:' + type(ex).__name__
    return {'ser': ser, 'uno': [(c.name, getattr(c, '_vid', None), ADDR.sub(' object', str(c.value_))) for c in e.get_children(ordered=False)],
            'ord': [(c.name, getattr(c, '_vid', None)) for c in e.get_children(ordered=True)], 'attrs': [[k, str(v)] for k, v in e.attributes.items()]}


def attempt(f):
    buf = io.StringIO()
    try:
        with contextlib.redirect_stdout(buf), contextlib.redirect_stderr(buf):
            r = f()
        return 'ok', r
    except Exception as ex:
        return type(ex).__name__, None


out = []
for case in cases:
    P = R.PARENTS[case['type']]
    A, B = P(), P()      # A: shortcuts, B: explicit API
    for ch in case.get('kw', []):
        pass
    rec = []
    for i, op in enumerate(case['ops']):
        k = op[0]
        if k == 'a':
            ca, cb = R.make(op[1]), R.make(op[1]); ca._vid = cb._vid = i
            ra, _ = attempt(lambda: A.add_child(ca)); rb, _ = attempt(lambda: B.add_child(cb))
        elif k == 'x':
            ca, cb = R.make(op[1]), R.make(op[1]); ca._vid = cb._vid = i
            ra, _ = attempt(lambda: setattr(A, dotname(op[1]), ca))
            def ex():
                if op[1] not in B.possible_children_names:
                    raise AttributeError
                f = B.find_child(R.class_of(op[1]).__name__)
                if f:
                    B.replace_child(f, cb)
                else:
                    B.add_child(cb)
            rb, _ = attempt(ex)
        elif k == 'X':
            # e.xml_n = an element of ANOTHER class: not an instance of the class the shortcut names, so it is a plain value for that child
            # (explicit: the child class constructed with it / value_ of the existing child set to it)
            ca, cb = R.make(op[2]), R.make(op[2]); ca._vid = cb._vid = i
            ra, _ = attempt(lambda: setattr(A, dotname(op[1]), ca))
            def ex():
                if op[1] not in B.possible_children_names:
                    raise AttributeError
                f = B.find_child(R.class_of(op[1]).__name__)
                if f:
                    f.value_ = cb
                else:
                    c = R.class_of(op[1])(cb); B.add_child(c)
            rb, _ = attempt(ex)
        elif k in ('R', 'D'):
            ca, cb = R.make(op[1]), R.make(op[1]); ca._vid = cb._vid = i
            def explicit(E, new):
                def ex():
                    f = [c for c in E.get_children(ordered=False) if c.name == op[1]]
                    if k == 'D':
                        if f:
                            E.remove(f[0])
                    elif f:
                        E.replace_child(f[0], new)
                    else:
                        E.add_child(new)
                return ex
            ra, _ = attempt(explicit(A, ca)); rb, _ = attempt(explicit(B, cb))
        elif k == 'n':
            ra, _ = attempt(lambda: setattr(A, dotname(op[1]), None))
            def ex():
                if op[1] not in B.possible_children_names:
                    raise AttributeError
                f = B.find_child(R.class_of(op[1]).__name__)
                if f:
                    B.remove(f)
            rb, _ = attempt(ex)
        elif k == 'v':
            R.make(op[1]); v = R._cache.get(op[1])
            ra, _ = attempt(lambda: setattr(A, dotname(op[1]), v))
            def ex():
                if op[1] not in B.possible_children_names:
                    raise AttributeError
                f = B.find_child(R.class_of(op[1]).__name__)
                if f:
                    f.value_ = v
                else:
                    c = R.class_of(op[1])(v); B.add_child(c)
            rb, _ = attempt(ex)
        elif k == 'g':
            ra, va = attempt(lambda: getattr(A, dotname(op[1])))
            def ex():
                for c in B.get_children(ordered=False):
                    if c.name == op[1]:
                        return c
                if op[1] in B.possible_children_names:
                    return None
                raise AttributeError
            rb, vb = attempt(ex)
            ra = ra + ':' + ('None' if va is None else str(getattr(va, '_vid', 'novid')) + '/' + str(getattr(va, 'name', '?')))
            rb = rb + ':' + ('None' if vb is None else str(getattr(vb, '_vid', 'novid')) + '/' + str(getattr(vb, 'name', '?')))
        elif k == 'A':
            v = eval(op[2])
            ra, _ = attempt(lambda: setattr(A, op[1].replace('-', '_'), v))
            def ex():
                # the explicit side: a plain update of the attribute dictionary under the schema name, after the declared type accepted the value
                decl = [a for a in B.TYPE.get_xsd_attributes() if a.name == op[1]] if B.TYPE.get_xsd_tree().is_complex_type else []
                if not decl:
                    raise AttributeError
                if v is None:
                    B._attributes = {k_: x for k_, x in B._attributes.items() if k_ != op[1]}
                else:
                    decl[0].type_(v)
                    B._attributes = {**B._attributes, op[1]: v}
            rb, _ = attempt(ex)
        elif k == 'G':
            ra, va = attempt(lambda: getattr(A, op[1].replace('-', '_')))
            def ex():
                if op[1] in B.attributes:
                    return B.attributes[op[1]]
                if op[1] in [a.name for a in B.TYPE.get_xsd_attributes()]:
                    return None
                raise AttributeError
            rb, vb = attempt(ex)
            ra += ':' + repr(va); rb += ':' + repr(vb)
        sa, sb = snapshot(A), snapshot(B)
        rec.append({'ra': ra, 'rb': rb, 'same': sa == sb, 'a': None if sa == sb else sa, 'b': None if sa == sb else sb})
    # constructor keywords vs dict update
    out.append(rec)
json.dump(out, sys.stdout)
