"""C16 runner.  (1) strings over the XML Char range (no CR) in text and attribute positions: to_string -> standard parser
recovers them; the bytes of text / attribute values equal the model's escaping (passed in from the extracted Coq functions).
(2) twins: the same sequence of mutations with and without interleaved to_string calls on the root and on subtrees,
including one element object shared by two parents; repeated calls; subtree alone vs. inside its parent."""
import sys, io, json, random, contextlib, warnings
warnings.simplefilter('ignore')
with contextlib.redirect_stdout(io.StringIO()):
    from musicxml.xmlelement.xmlelement import *
import xml.etree.ElementTree as ET
job = json.load(sys.stdin)
rng = random.Random(job['seed'])
out = {'strings': [], 'twins': []}


def ts(e):
    try:
        with contextlib.redirect_stdout(io.StringIO()):
            return e.to_string()
    except Exception as ex:
        return 'EXC:' + type(ex).__name__


for cps in job['strings']:
    s = ''.join(chr(c) for c in cps)
    rec = {}
    # text position (xs:string typed element) and attribute position (xs:token typed, not collapsed by the library on output)
    try:
        w = XMLWords(s, font_family='x')
        txt = w.to_string()
        back = ET.fromstring(txt)
        rec['text_ok'] = (back.text or '') == s
        rec['text_raw'] = txt[txt.index('>') + 1: txt.rindex('</words>')] if '</words>' in txt else None
    except Exception as ex:
        rec['text_exc'] = type(ex).__name__
    try:
        k = XMLKind('major', text=s)
        txt = k.to_string()
        back = ET.fromstring(txt)
        rec['attr_ok'] = back.attrib.get('text') == s
        i = txt.index('text="') + 6
        rec['attr_raw'] = txt[i: txt.index('"', i)]
    except Exception as ex:
        rec['attr_exc'] = type(ex).__name__
    # the same text three levels down: serialised alone, inside its parent, inside its grandparent - always recovered
    try:
        m = XMLMeasure(number='1'); dd = m.add_child(XMLDirection()); tt = dd.add_child(XMLDirectionType()); ww = tt.add_child(XMLWords(s))
        got = []
        for node, path in ((ww, '.'), (tt, 'words'), (dd, 'direction-type/words'), (m, 'direction/direction-type/words')):
            el = ET.fromstring(node.to_string())
            got.append((el if path == '.' else el.find(path)).text or '')
        rec['nested_ok'] = all(g == s for g in got)
        if not rec['nested_ok']:
            rec['nested_got'] = got
    except Exception as ex:
        rec['nested_exc'] = type(ex).__name__
    out['strings'].append(rec)


# accepted values of every Python type and truthiness, in text and attribute position: what a standard parser recovers must be str(value)
out['values'] = []
for label, make, where in (
        ('words default-x', lambda v: XMLWords('a', default_x=v), 'default-x'), ('words relative-y', lambda v: XMLWords('a', relative_y=v), 'relative-y'),
        ('words font-size', lambda v: XMLWords('a', font_size=v), 'font-size'), ('lyric name', lambda v: XMLLyric(name=v, xsd_check=False), 'name'),
        ('kind text', lambda v: XMLKind('major', text=v), 'text'), ('measure number', lambda v: XMLMeasure(number=v, xsd_check=False), 'number'),
        ('duration text', lambda v: XMLDuration(v), None), ('staff text', lambda v: XMLStaff(v), None), ('words text', lambda v: XMLWords(v), None),
        ('alter text', lambda v: XMLAlter(v), None), ('offset text', lambda v: XMLOffset(v), None)):
    for v in (0, 0.0, -0.0, '', 1, -1, 1.5, 10, 2.0, 1000000.0, 12345678.0, 1e-5, '0', ' ', 'False', 10 ** 20):
        try:
            e = make(v)
        except Exception:
            continue                         # not an accepted value for this position
        try:
            back = ET.fromstring(e.to_string())
            got = back.attrib.get(where) if where else (back.text or '')
            out['values'].append([label, repr(v), got, got == str(v)])
        except Exception as ex:
            out['values'].append([label, repr(v), 'EXC:' + type(ex).__name__, False])


def scenario(with_calls, seed):
    r = random.Random(seed)
    log = []
    d1 = XMLDirection(placement='above'); d2 = XMLDirection()
    t1 = d1.add_child(XMLDirectionType()); t2 = d2.add_child(XMLDirectionType())
    shared = XMLWords('a<b&"c', font_size=10)
    t1.add_child(shared)
    if r.random() < 0.7:
        t2.add_child(shared)            # one element object under two parents
    else:
        t2.add_child(XMLWords('other'))
    own = t1.add_child(XMLWords('own'))
    m = XMLMeasure(number='1'); m.add_child(d1); m.add_child(d2)
    nodes = [m, d1, d2, t1, t2, shared, own]
    for step in range(r.randrange(3, 9)):
        do_call = r.random() < 0.7
        x = r.choice(nodes)
        if with_calls and do_call:
            a, b = ts(x), ts(x)
            if a != b:
                log.append('repeat differs on ' + x.name)
        k = r.randrange(6)
        if k == 0:
            shared.value_ = 'v%d <&> "%d"' % (step, step)
        elif k == 1:
            shared.font_size = 10 + step
        elif k == 2:
            own.value_ = 'own %d' % step
        elif k == 3:
            d1.placement = r.choice(['above', 'below'])
        elif k == 4:
            c = XMLWords('extra %d' % step); t1.add_child(c); nodes.append(c)
        else:
            ch = t1.get_children(ordered=False)
            if len(ch) > 2:
                t1.remove(ch[-1])
    final = {'m': ts(m), 'd1': ts(d1), 'd2': ts(d2), 't1': ts(t1), 't2': ts(t2), 'shared': ts(shared)}
    # a subtree serialises to the same content alone as inside its parent (indentation aside)
    norm = lambda x: ''.join(x.split())
    inside = norm(final['d1']) in norm(final['m']) and norm(final['t1']) in norm(final['d1']) and norm(final['shared']) in norm(final['t1'])
    return final, log, inside


for i in range(job['twins']):
    seed = job['seed'] * 1000 + i
    a, la, ia = scenario(True, seed)
    b, lb, ib = scenario(False, seed)
    out['twins'].append({'seed': seed, 'same': a == b, 'log': la, 'inside': ia and ib,
                         'diff': None if a == b else {k: [a[k][:300], b[k][:300]] for k in a if a[k] != b[k]}})


# (3) nested: a schema-generated, xsd-checked element whose children were supplied in a shuffled order, serialised alone and inside
#     unchecked ancestors (one and two levels): the subtree must read the same in all three
def build(node):
    import impl_runner as R
    cls = R.class_of(node['tag'])
    kw = {}
    for n, txt, py in node['attrs']:
        kw[n.split(':')[-1].replace('-', '_')] = eval(py)
    e = cls(eval(node['py']), **kw) if node['py'] is not None else cls(**kw)
    for k in node['kids']:
        e.add_child(build(k))
    return e


nan, inf = float('nan'), float('inf')
MIXED = ['hello', 'a & b < c', 'two  words', '"q" \'s\'', 'non-BMP \U0001D11E', ']]> &amp;']
out['nested'] = []
if job.get('nested'):
    import impl_runner as R
    R.init()
    norm = lambda x: ''.join(x.split())
    for node in job['nested']:
        rec = {}
        try:
            e = build(node)
            alone = ts(e)
            if alone.startswith('EXC:'):
                raise RuntimeError('the element alone does not pass its final check: ' + alone)      # not a document the library emits
        except Exception as ex:
            rec['skip'] = type(ex).__name__
            out['nested'].append(rec)
            continue
        try:
            w1 = XMLMeasure(number='1', xsd_check=False)
            w1.add_child(e)
            in1 = ts(w1)
            w2 = XMLPart(id='P1', xsd_check=False)
            w2.add_child(w1)
            in2 = ts(w2)
            again = ts(e)
            rec['inside1'] = norm(alone) in norm(in1)
            rec['inside2'] = norm(alone) in norm(in2)
            rec['stable'] = norm(again) == norm(alone)      # indentation follows the nesting level: compared without white space
            # serialising reads and nothing else does either: a deep copy is taken and stripped of its attributes - the element itself still serialises the same
            import copy as _copy
            try:
                cp = _copy.deepcopy(e)
                for x in [cp] + [y for y in cp.traverse()] if hasattr(cp, 'traverse') else [cp]:
                    for k in list(x.attributes):
                        try:
                            setattr(x, k.replace('-', '_').replace(':', '_'), None)
                        except Exception:
                            pass
                rec['stable'] = rec['stable'] and norm(ts(e)) == norm(alone)
            except Exception:
                pass
            if not (rec['inside1'] and rec['inside2'] and rec['stable']):
                rec['alone'] = alone[:600]
                rec['in'] = in1[:800]
        except Exception as ex:
            rec['exc'] = type(ex).__name__ + ':' + str(ex)[:100]
        # text on an element that also has children (accepted by the library for complex types without simple content): the accepted
        # string must come back from a standard parser, indentation aside
        if node['py'] is None and node['kids']:
            try:
                e2 = build(node)
                txt = MIXED[len(out['nested']) % len(MIXED)]
                e2.value_ = txt
                if e2.value_ == txt:
                    s2 = ts(e2)
                    if not s2.startswith('EXC:'):
                        got = ET.fromstring(s2).text or ''
                        rec['mixed'] = [txt, got, got.strip() == txt.strip()]
            except Exception as ex:
                rec['mixed_skip'] = type(ex).__name__
        out['nested'].append(rec)
json.dump(out, sys.stdout)
