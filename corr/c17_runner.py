"""C17 runner.  argv[1] = "faults": write() with each element of a document failing its check in turn, for several prior
states of the destination.  argv[1] = "locale:<encoding>": import / write / parse with the default text encoding set to
<encoding> (real process locale for ascii via LC_ALL=C; otherwise builtins.open is shimmed so that text-mode opens without an
explicit encoding use <encoding>, which is what a process locale does)."""
import sys, os, io, json, tempfile, contextlib, warnings
warnings.simplefilter('ignore')
mode = sys.argv[1]
res = {'mode': mode}
if mode.startswith('locale:'):
    enc = mode.split(':', 1)[1]
    import builtins
    _open = builtins.open

    def shim(file, mode='r', buffering=-1, encoding=None, errors=None, newline=None, closefd=True, opener=None):
        if 'b' not in mode and encoding is None:
            encoding = enc
        return _open(file, mode, buffering, encoding, errors, newline, closefd, opener)
    if enc != 'real':
        builtins.open = shim
        io.open = shim
    import locale
    res['preferred'] = locale.getpreferredencoding(False)
try:
    with contextlib.redirect_stdout(io.StringIO()):
        from musicxml.xmlelement.xmlelement import *
        from musicxml.parser.parser import parse_musicxml
    res['import'] = 'ok'
except Exception as ex:
    res['import'] = type(ex).__name__ + ': ' + str(ex)[:120]
    print(json.dumps(res))
    sys.exit(0)

DECL = '<?xml version="1.0" encoding="UTF-8" standalone="no"?>\n'


def make_score(text='Flöte ♪ Ünïcode', break_at=None):
    """a small valid score; break_at = index of the node that is made to fail its own check"""
    nodes = []
    s = XMLScorePartwise(version='4.0'); nodes.append(('score', s))
    pl = s.add_child(XMLPartList()); nodes.append(('part-list', pl))
    sp = pl.add_child(XMLScorePart(id='P1')); nodes.append(('score-part', sp))
    pn = sp.add_child(XMLPartName(text)); nodes.append(('part-name', pn))
    p = s.add_child(XMLPart(id='P1')); nodes.append(('part', p))
    m = p.add_child(XMLMeasure(number='1')); nodes.append(('measure', m))
    n = m.add_child(XMLNote()); nodes.append(('note', n))
    pi = n.add_child(XMLPitch()); nodes.append(('pitch', pi))
    pi.add_child(XMLStep('C')); pi.add_child(XMLOctave(4))
    n.add_child(XMLDuration(1))
    if break_at is not None:
        name, nd = nodes[break_at]
        if name == 'score':
            nd.remove(pl)
        elif name == 'part-list':
            nd.remove(sp)
        elif name == 'score-part':
            nd.remove(pn)
        elif name == 'part-name':
            nd._value = None if False else nd._value; sp.id = None      # required attribute of its parent element missing
        elif name == 'part':
            nd.id = None
        elif name == 'measure':
            nd.number = None
        elif name == 'note':
            nd.remove(nd.get_children(ordered=False)[-1])
        elif name == 'pitch':
            nd.remove(nd.get_children(ordered=False)[-1])
    return s, len(nodes)


if mode == 'faults':
    out = []
    _, n = make_score()
    priors = {'absent': None, 'empty': b'', 'short': b'old', 'long': b'<old>' + b'x' * 5000 + b'</old>\n', 'same': None}
    d = tempfile.mkdtemp(prefix='c17_')
    for b in [None] + list(range(n)) + [('unchecked-root', x) for x in [None] + list(range(1, n))]:
        for pname, prior in priors.items():
            # second family: the ROOT is switched to xsd_check=False (to_string then checks nothing at the root) while the broken node below keeps checking
            unchecked_root = isinstance(b, tuple)
            s, _ = make_score(break_at=b[1] if unchecked_root else b)
            label = b
            if unchecked_root:
                s.xsd_check = False
                label = 'unchecked-root:%s' % b[1]
            # the destination's own name is the caller's business: any suffix, several, none (a writer that derives a scratch name from it must not collide with it)
            EXTS = ['.xml', '.tmp', '.musicxml', '.xml.tmp', '', '.bak', '.XML', '.part', '.xml~', '.new']
            n_path = globals().get('_n_path', 0); globals()['_n_path'] = n_path + 1
            path = os.path.join(d, 'f_%s_%s%s' % (str(label).replace(':', '_'), pname, EXTS[n_path % len(EXTS)]))
            if pname == 'same':
                good, _ = make_score()
                prior = (DECL + good.to_string()).encode('utf-8')
            if prior is not None:
                with open(path, 'wb') as f:
                    f.write(prior)
            try:
                expected = (DECL + s.to_string()).encode('utf-8')
                exp_raise = None
            except Exception as ex:
                expected = None
                exp_raise = type(ex).__name__
            try:
                s.write(path)
                raised = None
            except Exception as ex:
                raised = type(ex).__name__
            after = open(path, 'rb').read() if os.path.exists(path) else None
            out.append({'break_at': label, 'prior': pname, 'raised': raised, 'to_string_raises': exp_raise,
                        'untouched': after == prior, 'exact': (after == expected) if expected is not None else None,
                        'after_len': None if after is None else len(after), 'prior_len': None if prior is None else len(prior)})
            if os.path.exists(path):
                os.remove(path)
    # texts with every kind of line boundary Unicode knows (all legal XML characters): the file must hold declaration + to_string() byte for byte
    for ti, text in enumerate(['line\u2028separator', 'paragraph\u2029separator', 'next\x85line', 'carriage\rreturn', 'new\nline', 'tab\tstop', 'mixed \u2028\r\n\x85 end',
                               'astral \U0001D11E clef', '<&>"\'']):
        s, _ = make_score(text=text)
        path = os.path.join(d, 't_%d.xml' % ti)
        try:
            expected = (DECL + s.to_string()).encode('utf-8')
            exp_raise = None
        except Exception as ex:
            expected, exp_raise = None, type(ex).__name__
        try:
            s.write(path)
            raised = None
        except Exception as ex:
            raised = type(ex).__name__
        after = open(path, 'rb').read() if os.path.exists(path) else None
        out.append({'break_at': 'text:%r' % text, 'prior': 'absent', 'raised': raised, 'to_string_raises': exp_raise, 'untouched': after is None,
                    'exact': (after == expected) if expected is not None else None, 'after_len': None if after is None else len(after), 'prior_len': None})
        if os.path.exists(path):
            os.remove(path)
    # the same score object written again to the same path after something ELSE changed the file (another tool, a truncation, a restore), after the
    # score itself was changed and changed back, and to a second path: when write() returns the file holds declaration + to_string()
    for ri, tamper in enumerate([b'<other/>\n', b'', b'x' * 5000, None, 'edit-and-revert', 'second-path']):
        s, _ = make_score()
        path = os.path.join(d, 'r_%d.xml' % ri)
        label = 'rewrite:%r' % (tamper if not isinstance(tamper, bytes) else tamper[:12])
        try:
            s.write(path)
            if isinstance(tamper, bytes):
                with open(path, 'wb') as f:
                    f.write(tamper)
            elif tamper is None:
                os.remove(path)
            elif tamper == 'edit-and-revert':
                pn = s.get_children()[0].get_children()[0].get_children()[0]
                old_v = pn.value_
                pn.value_ = 'changed'
                s.write(path)
                pn.value_ = old_v
            elif tamper == 'second-path':
                path = os.path.join(d, 'r_%d_b.xml' % ri)
            expected = (DECL + s.to_string()).encode('utf-8')
            s.write(path)
            after = open(path, 'rb').read() if os.path.exists(path) else None
            out.append({'break_at': label, 'prior': 'tampered', 'raised': None, 'to_string_raises': None, 'untouched': False, 'exact': after == expected,
                        'after_len': None if after is None else len(after), 'prior_len': None})
        except Exception as ex:
            out.append({'break_at': label, 'prior': 'tampered', 'raised': type(ex).__name__, 'to_string_raises': None, 'untouched': False, 'exact': None, 'after_len': None, 'prior_len': None})
        for fn in os.listdir(d):
            os.remove(os.path.join(d, fn))
    os.rmdir(d)
    res['faults'] = out
else:
    d = tempfile.mkdtemp(prefix='c17_')
    path = os.path.join(d, 'l.xml')
    s, _ = make_score()
    try:
        expected = (DECL + s.to_string()).encode('utf-8')
        s.write(path)
        got = open(path, 'rb').read()
        res['write'] = 'ok' if got == expected else 'bytes differ (%d vs %d)' % (len(got), len(expected))
    except Exception as ex:
        res['write'] = type(ex).__name__
    # parse a UTF-8 file written in binary, independent of the library's writer
    try:
        with open(path, 'wb') as f:
            f.write(expected)
        t = parse_musicxml(path)
        name = t.get_children(ordered=False)[0].get_children(ordered=False)[0].get_children(ordered=False)[0].value_
        res['parse'] = 'ok' if name == 'Flöte ♪ Ünïcode' else 'text differs: %r' % name
    except Exception as ex:
        res['parse'] = type(ex).__name__
    # the schema copy loaded at import: the non-ASCII characters of the patterns must be the schema's
    try:
        import musicxml.generate_classes.utils as U
        txt = ''.join(e.get('value') or '' for e in U.musicxml_xsd_et_root.iter('{http://www.w3.org/2001/XMLSchema}pattern'))
        docs = ''.join((e.text or '') for e in U.musicxml_xsd_et_root.iter('{http://www.w3.org/2001/XMLSchema}documentation'))
        import hashlib
        res['schema_digest'] = hashlib.sha1((txt + docs).encode('utf-8', 'surrogatepass')).hexdigest()
    except Exception as ex:
        res['schema_digest'] = type(ex).__name__
    for f in os.listdir(d):
        os.remove(os.path.join(d, f))
    os.rmdir(d)
print(json.dumps(res))
