"""C18 runner (implementation side).  stdin: JSON {"unchecked": [...], "twins": [...], "trees": [...]}; stdout: JSON results."""
import sys, io, json, contextlib, warnings
warnings.simplefilter('ignore')
with contextlib.redirect_stdout(io.StringIO()):
    from musicxml.xmlelement import xmlelement as XE
sys.path.insert(0, __file__.rsplit('/', 1)[0])
import impl_runner as R
R.init()
job = json.load(sys.stdin)
out = {'unchecked': [], 'twins': [], 'trees': []}


def cls_of_elem(name):
    return R.class_of(name)


_parent_of = {}


def used_child(name, how):
    """a child that lived in a CHECKED parent before: how = 1: added and removed again, 2: added and replaced out"""
    if name not in _parent_of:
        _parent_of[name] = None
        for n in XE.__all__:
            pc = getattr(XE, n)
            if not (isinstance(pc, type) and issubclass(pc, XE.XMLElement)) or pc is XE.XMLElement:
                continue
            try:
                if not pc.TYPE.get_xsd_tree().is_complex_type:
                    continue
                R.make(pc.XSD_TREE.name)
                p = R.make(pc.XSD_TREE.name)
                if name in (p.possible_children_names or []):
                    p.add_child(R.make(name))
                    _parent_of[name] = pc.XSD_TREE.name
                    break
            except Exception:
                continue
    pn = _parent_of[name]
    c = R.make(name)
    if pn is None:
        return c
    try:
        p = R.make(pn)
        p.add_child(c)
        if how == 1:
            p.remove(c)
        else:
            p.replace_child(c, R.make(name))
    except Exception:
        return R.make(name)
    return c


# (1) histories on an unchecked element of ANY class, children of ANY class (fresh, or used before in a checked parent)
for case in job['unchecked']:
    res = []
    try:
        R.make(case['elem'])                       # finds (and caches) a valid value for the element's type
        v = R._cache.get(case['elem'])
        e = cls_of_elem(case['elem'])(v, xsd_check=False) if v is not None else cls_of_elem(case['elem'])(xsd_check=False)
    except Exception as ex:
        out['unchecked'].append({'ctor': type(ex).__name__})
        continue
    ever = {}
    for i, op in enumerate(case['ops']):
        st = 'ok'
        txt = None
        for c0 in e.get_children(ordered=False):
            ever[id(c0)] = c0
        buf = io.StringIO()
        with contextlib.redirect_stdout(buf), contextlib.redirect_stderr(buf):
            try:
                u = e.get_children(ordered=False)
                if op[0] == 'a':
                    c = R.make(op[1]) if i % 3 == 0 else used_child(op[1], i % 3); c.xsd_check = False; c._vid = i; e.add_child(c)
                elif op[0] == 'r':
                    if op[1] < len(u):
                        e.remove(u[op[1]])
                    else:
                        e.remove(XE.XMLStep('A'))
                elif op[0] == 'p':
                    c = R.make(op[2]) if i % 3 == 0 else used_child(op[2], i % 3); c.xsd_check = False; c._vid = i
                    if op[1] < len(u):
                        e.replace_child(u[op[1]], c)
                    else:
                        e.replace_child(XE.XMLStep('A'), c)
                elif op[0] == 'x':
                    c = R.make(op[1]); c.xsd_check = False; c._vid = i
                    setattr(e, 'xml_' + op[1].replace('-', '_'), c)
                elif op[0] == 'n':
                    setattr(e, 'xml_' + op[1].replace('-', '_'), None)
                elif op[0] == 'g':
                    got = getattr(e, 'xml_' + op[1].replace('-', '_'))
                    first = [c for c in u if c.name == op[1]]
                    if (got is None) != (not first) or (first and got is not first[0]):
                        raise RuntimeError('shortcut read returns %r' % (got,))
                elif op[0] == 's':
                    import xml.etree.ElementTree as ET
                    s = e.to_string()
                    txt = [ch.tag for ch in ET.fromstring(s)]
            except Exception as ex:
                st = type(ex).__name__
        o = {'st': st, 'pr': bool(buf.getvalue()), 'uno': [c._vid for c in e.get_children(ordered=False)],
             'ord': [c._vid for c in e.get_children(ordered=True)],
             # switching the checks off must not switch off the tree: every child points at the element and sits one level below it
             'linked': all(c.up is e and c.get_level() == e.get_level() + 1 for c in e.get_children(ordered=False))}
        for c0 in e.get_children(ordered=False):
            ever[id(c0)] = c0
        # ... and a child that has left (removed, unset, replaced out) no longer points at the element: its own level, root and indentation are its own
        now = {id(c0) for c0 in e.get_children(ordered=False)}
        o['released'] = all(c0.up is not e for k0, c0 in ever.items() if k0 not in now)
        if txt is not None:
            o['txt'] = txt
            o['names'] = [c.name for c in e.get_children(ordered=False)]
        res.append(o)
    out['unchecked'].append(res)

# (2) valid words: unchecked twin vs checked twin, byte comparison (children unchecked in both, so only the parent's structure matters)
for case in job['twins']:
    r = {}
    for mode in ('checked', 'unchecked'):
        try:
            e = R.PARENTS[case['type']](xsd_check=(mode == 'checked'))
            for n in case['word']:
                c = R.make(n); c.xsd_check = False; e.add_child(c)
            r[mode] = e.to_string()
        except Exception as ex:
            r[mode] = 'EXC:' + type(ex).__name__
    if len(set(case['word'])) == len(case['word']):
        # the same word supplied through the xml_* shortcut to an unchecked element, and an absent possible child read back
        try:
            e = R.PARENTS[case['type']](xsd_check=False)
            for n in case['word']:
                c = R.make(n); c.xsd_check = False
                setattr(e, 'xml_' + n.replace('-', '_'), c)
            r['unchecked_shortcut'] = e.to_string()
            absent = [n for n in sorted(e.possible_children_names or []) if n not in case['word']][:3]
            r['absent_reads'] = [repr(getattr(e, 'xml_' + n.replace('-', '_'))) for n in absent]
        except Exception as ex:
            r['unchecked_shortcut'] = 'EXC:' + type(ex).__name__
    out['twins'].append(r)


# (3) mixed trees: spec = [kind, checked, complete, kids]; kinds: part, measure, note, pitch
def build(spec):
    kind, checked, complete, kids = spec
    if kind == 'part':
        e = XE.XMLPart(id='P1', xsd_check=checked) if complete or kids else XE.XMLPart(xsd_check=checked)
        if not complete and kids:
            e = XE.XMLPart(xsd_check=checked)          # incomplete: required attribute id missing
    elif kind == 'measure':
        e = XE.XMLMeasure(number='1', xsd_check=checked) if complete else XE.XMLMeasure(xsd_check=checked)
    elif kind == 'note':
        e = XE.XMLNote(xsd_check=checked)
    else:
        e = XE.XMLPitch(xsd_check=checked)
        e.add_child(XE.XMLStep('C'))
        if complete:
            e.add_child(XE.XMLOctave(4))
    for k in kids:
        e.add_child(build(k))
    if kind == 'note' and complete:
        if not any(k[0] == 'pitch' for k in kids):
            e.add_child(XE.XMLRest())
        e.add_child(XE.XMLDuration(1))
    return e


for spec in job['trees']:
    try:
        e = build(spec)
    except Exception as ex:
        out['trees'].append({'build': type(ex).__name__})
        continue
    try:
        with contextlib.redirect_stdout(io.StringIO()):
            e.to_string()
        out['trees'].append({'to_string': 'ok'})
    except Exception as ex:
        out['trees'].append({'to_string': type(ex).__name__})
    # the optional intelligent_choice flag re-arranges children of CHECKED elements; it does not decide whether checks run at all
    try:
        with contextlib.redirect_stdout(io.StringIO()):
            build(spec).to_string(intelligent_choice=True)
        out['trees'][-1]['to_string_ic'] = 'ok'
    except Exception as ex:
        out['trees'][-1]['to_string_ic'] = type(ex).__name__
json.dump(out, sys.stdout)
