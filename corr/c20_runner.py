"""C20 runner: systematic two-thread schedules.  For every scenario (an element class built, given an attribute, serialised)
thread A is pre-empted once at its k-th executed library line (k = every line of its run, or a sample), thread B runs the
same or a sibling scenario to completion in the gap, A resumes.  Every schedule runs in a freshly forked child of a parent
that has only imported the package, so the process-wide lazily built tables are empty at the start of each schedule.
stdin: JSON {"scenarios": [[clsA, kwA, clsB, kwB], ...], "max_points": n, "seed": s}; stdout: JSON."""
import sys, os, io, json, threading, contextlib, warnings, random, pickle
warnings.simplefilter('ignore')
with contextlib.redirect_stdout(io.StringIO()):
    from musicxml.xmlelement import xmlelement as XE
import musicxml
ROOT = os.path.dirname(musicxml.__file__)
job = json.load(sys.stdin)
rng = random.Random(job.get('seed', 1))


def scenario(cls, kw, other=None):
    out = []
    c = getattr(XE, cls)
    for attempt in (dict(kw), {}, {'no_such_attribute_': 1}):
        try:
            e = c(**attempt) if not job.get('values', {}).get(cls) else c(job['values'][cls], **attempt)
            try:
                out.append(e.to_string())
            except Exception as ex:
                out.append('EXC:' + type(ex).__name__ + ':' + str(ex)[:160])
        except Exception as ex:
            out.append('CTOR:' + type(ex).__name__ + ':' + str(ex)[:160])
    # a misspelt dot name (the error message lists the allowed attributes: a consumer of the shared table), then the element is used normally
    try:
        e = c(**dict(kw)) if not job.get('values', {}).get(cls) else c(job['values'][cls], **dict(kw))
        try:
            e.no_such_attribute_ = 1
            out.append('DOT:ok')
        except Exception as ex:
            out.append('DOT:' + type(ex).__name__ + ':' + str(ex)[:200])
        try:
            out.append(e.to_string())
        except Exception as ex:
            out.append('EXC:' + type(ex).__name__ + ':' + str(ex)[:160])
    except Exception as ex:
        out.append('CTOR:' + type(ex).__name__ + ':' + str(ex)[:160])
    # a tree of three levels of its own, serialised: indentation and all is part of what the thread obtains
    try:
        pi = XE.XMLPitch(); pi.add_child(XE.XMLStep('C')); pi.add_child(XE.XMLOctave(4))
        nt = XE.XMLNote(); nt.add_child(pi); nt.add_child(XE.XMLDuration(1))
        out.append('NEST:' + nt.to_string())
        out.append('NEST:' + pi.to_string())
        # repeated groups: the second item makes the container duplicate a part of itself from the shared schema node
        orn = XE.XMLOrnaments(); orn.add_child(XE.XMLTrillMark()); orn.add_child(XE.XMLTrillMark())
        out.append('NEST:' + orn.to_string())
        sp = XE.XMLScorePart(id='P1'); sp.add_child(XE.XMLPartName('A'))
        for k_ in (1, 2):
            sp.add_child(XE.XMLMidiDevice(id='I%d' % k_)); sp.add_child(XE.XMLMidiInstrument(id='I%d' % k_))
        out.append('NEST:' + sp.to_string())
    except Exception as ex:
        out.append('NEST:EXC:' + type(ex).__name__ + ':' + str(ex)[:160])
    # what the OTHER thread's scenario supplies, offered to this thread's class: the other thread's text value and the other thread's attribute
    # values are valid for ITS types and mostly invalid here - whether they are refused must not depend on which thread filled which table first
    if other:
        ocls, okw = other
        oval = job.get('values', {}).get(ocls)
        for args, kws in (([oval] if oval is not None else None, {}), ([job['values'][cls]] if job.get('values', {}).get(cls) else [], dict(okw))):
            if args is None:
                continue
            try:
                e = c(*args, **kws)
                try:
                    out.append('X:' + e.to_string())
                except Exception as ex:
                    out.append('X:EXC:' + type(ex).__name__ + ':' + str(ex)[:160])
            except Exception as ex:
                out.append('X:CTOR:' + type(ex).__name__ + ':' + str(ex)[:160])
    return out


def in_child(f):
    r, w = os.pipe()
    pid = os.fork()
    if pid == 0:
        os.close(r)
        try:
            res = f()
        except BaseException as ex:
            res = {'child_error': type(ex).__name__ + ': ' + str(ex)[:200]}
        with os.fdopen(w, 'wb') as fw:
            pickle.dump(res, fw)
        os._exit(0)
    os.close(w)
    with os.fdopen(r, 'rb') as fr:
        data = fr.read()
    os.waitpid(pid, 0)
    return pickle.loads(data) if data else {'child_error': 'no data'}


def solo(cls, kw, trace=False, other=None):
    lines = []
    def tracer(frame, event, arg):
        if not frame.f_code.co_filename.startswith(ROOT):
            return None
        def local(fr, ev, a):
            if ev == 'line':
                lines.append((os.path.relpath(fr.f_code.co_filename, ROOT), fr.f_lineno))
            return local
        return local
    if trace:
        sys.settrace(tracer)
    try:
        res = scenario(cls, kw, other)
    finally:
        sys.settrace(None)
    return {'res': res, 'lines': lines}


def schedule(clsA, kwA, clsB, kwB, k):
    gate, resume = threading.Event(), threading.Event()
    out = {}
    count = [0]
    def tracer(frame, event, arg):
        if not frame.f_code.co_filename.startswith(ROOT):
            return None
        def local(fr, ev, a):
            if ev == 'line':
                if count[0] == k:
                    gate.set()
                    resume.wait(20)
                count[0] += 1
            return local
        return local
    def ta():
        sys.settrace(tracer)
        try:
            out['A'] = scenario(clsA, kwA, (clsB, kwB))
        finally:
            sys.settrace(None)
            gate.set()
    def tb():
        gate.wait(20)
        try:
            out['B'] = scenario(clsB, kwB, (clsA, kwA))
        finally:
            resume.set()
    a, b = threading.Thread(target=ta), threading.Thread(target=tb)
    a.start(); b.start(); a.join(30); b.join(30)
    return out


report = {'scenarios': [], 'schedules': 0, 'mismatches': []}
for clsA, kwA, clsB, kwB in job['scenarios']:
    sa = in_child(lambda: solo(clsA, kwA, trace=True, other=(clsB, kwB)))
    sb = in_child(lambda: solo(clsB, kwB, other=(clsA, kwA)))
    if 'child_error' in sa or 'child_error' in sb:
        report['mismatches'].append({'A': clsA, 'B': clsB, 'error': str(sa.get('child_error') or sb.get('child_error'))})
        continue
    n = len(sa['lines'])
    pts = list(range(n))
    if len(pts) > job['max_points']:
        # always pre-empt at the first occurrences of every line of a function that stores to a class-level attribute
        # (ranges read off the code by tr/code.py), then the modules that hold process-wide tables, then a sample of the rest
        must = []
        seen_ln = {}
        for i, (f, ln) in enumerate(sa['lines']):
            if any(f == rf and a <= ln <= b for rf, a, b in job.get('ranges', [])):
                seen_ln[(f, ln)] = seen_ln.get((f, ln), 0) + 1
                if seen_ln[(f, ln)] <= job.get('must_occurrences', 3):
                    must.append(i)
        hot = [i for i, (f, _) in enumerate(sa['lines']) if f.startswith('xsd/') and i not in set(must)]
        rest = [i for i in pts if i not in set(hot)]
        if len(hot) > job['max_points']:
            step = len(hot) / job['max_points']
            hot = [hot[int(j * step)] for j in range(job['max_points'])]
        pts = sorted(set(must + hot + rng.sample(rest, max(0, min(len(rest), job['max_points'] - len(hot))))))
    report['scenarios'].append({'A': clsA, 'B': clsB, 'lines': n, 'points': len(pts)})
    for k in pts:
        r = in_child(lambda: schedule(clsA, kwA, clsB, kwB, k))
        report['schedules'] += 1
        if r.get('A') != sa['res'] or r.get('B') != sb['res']:
            f, ln = sa['lines'][k]
            report['mismatches'].append({'A': clsA, 'kwA': kwA, 'B': clsB, 'kwB': kwB, 'k': k, 'at': '%s:%d' % (f, ln),
                                         'A_got': r.get('A'), 'A_alone': sa['res'], 'B_got': r.get('B'), 'B_alone': sb['res'], 'err': r.get('child_error')})
            if len([m for m in report['mismatches'] if m.get('A') == clsA]) >= 3:
                break
print(json.dumps(report))
