"""C20 slot correspondence (implementation side).  For every class-level store site of the library whose function is a classmethod
(get_xsd_tree, get_xsd_attributes, _fill_xsd_tree, ...): ancestor-closed groups of real library classes, random sequences of uses, each
sequence in a freshly forked child of a parent that has only imported the package.  Reported per use: WHICH class's dictionary holds the
value the use returned; at the end: which class's dictionary supplies the slot to every class of the group.  Model/ClassSlots.v (owner_run)
predicts both from the hierarchy and from which class bodies bind the slot.
stdin: JSON {"sites": [[file, function, attribute]], "seed": n, "groups": n, "max_uses": n}; stdout: JSON."""
import sys, os, io, json, contextlib, warnings, random, pickle, importlib, inspect, ast, textwrap
warnings.simplefilter('ignore')
with contextlib.redirect_stdout(io.StringIO()):
    from musicxml.xmlelement import xmlelement as XE
import musicxml
job = json.load(sys.stdin)
rng = random.Random(job.get('seed', 1))


def in_child(f):
    r, w = os.pipe()
    pid = os.fork()
    if pid == 0:
        os.close(r)
        try:
            res = f()
        except BaseException as ex:
            res = {'child_error': type(ex).__name__ + ': ' + str(ex)[:200]}
        with os.fdopen(w, 'wb') as fw:
            pickle.dump(res, fw)
        os._exit(0)
    os.close(w)
    with os.fdopen(r, 'rb') as fr:
        data = fr.read()
    os.waitpid(pid, 0)
    return pickle.loads(data) if data else {'child_error': 'no data'}


def subclasses(c):
    out = []
    for s in c.__subclasses__():
        if s not in out:
            out.append(s)
            for x in subclasses(s):
                if x not in out:
                    out.append(x)
    return out


report = {'sites': [], 'cases': [], 'skipped_sites': []}
for rel, fn, attr in job['sites']:
    modname = rel[:-3].replace('/', '.')
    try:
        mod = importlib.import_module(modname)
    except Exception as ex:
        report['skipped_sites'].append([rel, fn, attr, 'import: ' + type(ex).__name__])
        continue
    owners = [c for c in vars(mod).values() if isinstance(c, type) and c.__module__ == modname and fn in c.__dict__]
    if not owners or not isinstance(owners[0].__dict__[fn], classmethod):
        report['skipped_sites'].append([rel, fn, attr, 'the storing function is not a classmethod: no generic way to use a class'])
        continue
    K = owners[0]
    try:
        src = textwrap.dedent(inspect.getsource(K.__dict__[fn].__func__))
        tree = ast.parse(src)
        none_guard = any(isinstance(n, ast.Compare) and isinstance(n.ops[0], (ast.Is, ast.IsNot)) and isinstance(n.left, ast.Attribute) and n.left.attr == attr for n in ast.walk(tree))
    except Exception:
        none_guard = False
    accepted = (lambda v: v is not None) if none_guard else (lambda v: bool(v))
    fam = [K] + subclasses(K)
    famset = set(fam)

    def use(c):
        getattr(c, fn)()
        return getattr(c, attr)          # what the class reads in its slot after the call (what the function itself returns, when it returns it)

    def owner_of(v, c, group):
        for b in c.__mro__:
            if b in famset and attr in b.__dict__ and b.__dict__[attr] is v:
                return group.index(b) if b in group else -2
        return -1

    def supplier(c, group):
        for b in c.__mro__:
            if attr in b.__dict__:
                if not accepted(b.__dict__[attr]):
                    return -1
                return group.index(b) if b in group else -2
        return -1
    leaves = [c for c in fam if c is not K]
    rng.shuffle(leaves)
    # prefer classes with library ancestors below K (the chains), then fill up
    leaves.sort(key=lambda c: -len([b for b in c.__mro__[1:] if b in famset and b is not K]))
    picked = leaves[:job['groups'] // 2] + rng.sample(leaves, min(len(leaves), job['groups'] - job['groups'] // 2))
    n_site = 0
    for D in picked:
        group = [b for b in D.__mro__ if b in famset]
        sibs = [c for c in fam if c not in group and any(b in group and b is not K for b in c.__mro__[1:])]
        for c in rng.sample(sibs, min(len(sibs), 2)):
            for b in c.__mro__:
                if b in famset and b not in group:
                    group.append(b)
        if len(group) > 9:
            continue
        # which classes can be used at all (alone, in a fresh child), and do they leave the value in a class dictionary
        def alone(c):
            def f():
                try:
                    v = use(c)
                except Exception as ex:
                    return 'EXC'
                if not accepted(v):
                    return -1          # an abstract layer: the call finds nothing to store
                return owner_of(v, c, group)
            return in_child(f)
        usable = [c for c in group if isinstance(alone(c), int) and alone(c) >= 0]
        if not usable:
            continue
        seqs = [[rng.choice(usable) for _ in range(rng.randint(2, job['max_uses']))]]
        for b_ in usable:
            for d_ in usable:
                if b_ is not d_ and b_ in d_.__mro__ and len(seqs) < 7:
                    seqs += [[b_, d_], [d_, b_], [b_, d_, b_]]
        for uses in seqs:
          body = [(2 if accepted(c.__dict__[attr]) else 1) if attr in c.__dict__ else 0 for c in group]       # at import: unbound / bound to a rejected value / bound

          def run():
              res = []
              for c in uses:
                  try:
                      v = use(c)
                      res.append(owner_of(v, c, group))
                  except Exception as ex:
                      res.append('EXC:' + type(ex).__name__)
              return {'res': res, 'looks': [supplier(c, group) for c in group]}
          r = in_child(run)
          al = {group.index(c): alone(c) for c in set(uses)}
          report['cases'].append({'site': [rel, fn, attr], 'names': [c.__name__ for c in group],
                                  'mros': [[group.index(b) for b in c.__mro__[1:] if b in group] for c in group],
                                  'bits': ''.join(str(b) for b in body), 'uses': [group.index(c) for c in uses],
                                  'alone': {str(k): v for k, v in al.items()}, 'impl': r})
          n_site += 1
    report['sites'].append([rel, fn, attr, 'none-guard' if none_guard else 'truthiness-guard', len(fam), n_site])
json.dump(report, sys.stdout)
