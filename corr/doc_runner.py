"""Document runner (implementation side).  stdin JSON {"api": [abstract docs], "xml": [xml texts]}.
api : build the document through the API (typed Python values), emit, parse_musicxml, emit, parse, emit  (C08)
xml : write the text to a file, parse_musicxml, emit                                              (C09)
stdout JSON: per case the emitted texts or the exception class with the step at which it was raised."""
import sys, os, io, json, tempfile, contextlib, warnings
warnings.simplefilter('ignore')
with contextlib.redirect_stdout(io.StringIO()):
    from musicxml.xmlelement import xmlelement as XE
    from musicxml.parser.parser import parse_musicxml
sys.path.insert(0, __file__.rsplit('/', 1)[0])
import impl_runner as R
R.init()
job = json.load(sys.stdin)
d = tempfile.mkdtemp(prefix='docr_')
path = os.path.join(d, 'doc.xml')
nan, inf = float('nan'), float('inf')


def build(node):
    cls = R.class_of(node['tag'])
    kw = {}
    for n, txt, py in node['attrs']:
        kw[n.split(':')[-1].replace('-', '_')] = eval(py)
    e = cls(eval(node['py']), **kw) if node['py'] is not None else cls(**kw)
    for k in node['kids']:
        e.add_child(build(k))
    return e


def quiet(f):
    with contextlib.redirect_stdout(io.StringIO()), contextlib.redirect_stderr(io.StringIO()):
        return f()


def reparse(text):
    with open(path, 'w', encoding='utf-8') as f:
        f.write(text)
    return quiet(lambda: parse_musicxml(path))


out = {'api': [], 'xml': []}
for node in job.get('api', []):
    rec = {}
    try:
        step = 'build'
        e = quiet(lambda: build(node))
        step = 'emit1'
        s1 = quiet(e.to_string); rec['s1'] = s1
        step = 'parse1'
        e2 = reparse(s1)
        step = 'emit2'
        s2 = quiet(e2.to_string); rec['s2'] = s2
        step = 'parse2'
        e3 = reparse(s2)
        step = 'emit3'
        rec['s3'] = quiet(e3.to_string)
    except Exception as ex:
        rec['exc'] = type(ex).__name__
        rec['step'] = step
        rec['msg'] = str(ex)[:200]
    out['api'].append(rec)
for text in job.get('xml', []):
    rec = {}
    try:
        step = 'parse'
        e = reparse(text)
        step = 'emit'
        rec['s'] = quiet(e.to_string)
    except Exception as ex:
        rec['exc'] = type(ex).__name__
        rec['step'] = step
        rec['msg'] = str(ex)[:200]
    out['xml'].append(rec)
try:
    os.remove(path)
except OSError:
    pass
os.rmdir(d)
json.dump(out, sys.stdout)
