"""Runs operation histories on the IMPLEMENTATION (musicxml from $PYTHONPATH).  stdin: one JSON case per line
{"type": <complex type class name>, "ops": [...], "unchecked": bool}; stdout: one JSON result per line, same order.
ops:  ["a",name] add_child | ["w",name,i] add_child(forward=i) | ["r",k] remove k-th child of the insertion-ordered view
      ["p",k,name] replace_child(k-th, new name) | ["q",k] replace_child(k-th, new child of the SAME name) | ["f",ic] final check (required children verdict) | ["s",ic] to_string
      ["e",k] add_child(k-th child AGAIN, the same object) | ["s",k] replace_child(k-th, k-th) (a child replaced by itself)
      ["x",name] e.xml_<name> = new child | ["n",name] e.xml_<name> = None | ["t",b] e.xsd_check = b
Observation after every op: st (ok | exception class name), pr (printed to stdout/stderr), ord / uno (child ids in the
schema-ordered / insertion-ordered view; ids = index of the creating op), req (flattened required names) or None,
par (ids in uno whose parent is not the element), txt (names in serialised output) for "s"."""
import sys
import io
import json
import contextlib
import multiprocessing as mp
import warnings
warnings.simplefilter('ignore')

XE = None
PARENTS = {}
CLS2NAME = {}
_cache = {}


def init():
    global XE
    if XE is not None:
        return
    with contextlib.redirect_stdout(io.StringIO()):
        from musicxml.xmlelement import xmlelement as XE_
        from musicxml.xmlelement.containers import containers
    XE = XE_
    for n in XE.__all__:
        c = getattr(XE, n)
        if isinstance(c, type) and issubclass(c, XE.XMLElement) and c is not XE.XMLElement:
            try:
                c._fill_xsd_tree()
                CLS2NAME[c.__name__] = c.XSD_TREE.name
            except Exception:
                pass
            if c.TYPE is not None and c.TYPE.__name__ in containers:
                PARENTS.setdefault(c.TYPE.__name__, c)


def class_of(name):
    return getattr(XE, 'XML' + ''.join(p[:1].upper() + p[1:] for p in name.split('-')))


def make(name, unchecked=False):
    cls = class_of(name)
    if name in _cache:
        v = _cache[name]
        return cls(v) if v is not None else cls()
    cands = ['', None, 1, 1.0, 'a', 'yes', 'A', 'start', 'up', '1', 'above', '2000-01-01', '#000000', 'C', '1,2', 'P1', 'en']
    for v in cands:
        try:
            e = cls(v) if v is not None else cls()
            _cache[name] = v
            return e
        except Exception:
            pass
    st = cls.TYPE
    sc = getattr(st, '_SIMPLE_CONTENT', None) or st
    try:
        perm = sc.get_xsd_tree().get_permitted()
        if perm:
            e = cls(perm[0])
            _cache[name] = perm[0]
            return e
    except Exception:
        pass
    raise RuntimeError('cannot make ' + name)


def flat(x):
    if x is None:
        return []
    if isinstance(x, str):
        return [x]
    return [y for z in x for y in flat(z)]


def run_case(case):
    init()
    cls = PARENTS[case['type']]
    e = cls(xsd_check=False) if case.get('unchecked') else cls()
    res = []
    for i, op in enumerate(case['ops']):
        st = 'ok'
        req = None
        txt = None
        buf = io.StringIO()
        with contextlib.redirect_stdout(buf), contextlib.redirect_stderr(buf):
            try:
                k = op[0]
                if k == 'a':
                    c = make(op[1]); c._vid = i; e.add_child(c)
                elif k == 'w':
                    c = make(op[1]); c._vid = i; e.add_child(c, forward=op[2])
                elif k == 'r':
                    u = e.get_children(ordered=False)
                    if op[1] < len(u):
                        e.remove(u[op[1]])
                    else:
                        st = 'skip'
                elif k == 'p':
                    u = e.get_children(ordered=False)
                    if op[1] < len(u):
                        c = make(op[2]); c._vid = i; e.replace_child(u[op[1]], c)
                    else:
                        st = 'skip'
                elif k == 'q':
                    u = e.get_children(ordered=False)
                    if op[1] < len(u):
                        c = make(u[op[1]].name); c._vid = i; e.replace_child(u[op[1]], c)
                    else:
                        st = 'skip'
                elif k == 'e':
                    u = e.get_children(ordered=False)
                    if op[1] < len(u):
                        e.add_child(u[op[1]])
                    else:
                        st = 'skip'
                elif k == 's':
                    u = e.get_children(ordered=False)
                    if op[1] < len(u):
                        e.replace_child(u[op[1]], u[op[1]])
                    else:
                        st = 'skip'
                elif k == 'f':
                    r = e.child_container_tree.get_required_element_names(intelligent_choice=bool(op[1]))
                    req = [CLS2NAME.get(x, x) for x in flat(r)]
                elif k == 's':
                    s = e.to_string(intelligent_choice=bool(op[1]))
                    import xml.etree.ElementTree as ET
                    txt = [ch.tag for ch in ET.fromstring(s)]
                elif k == 'x':
                    c = make(op[1]); c._vid = i; setattr(e, 'xml_' + op[1].replace('-', '_'), c)
                elif k == 'n':
                    setattr(e, 'xml_' + op[1].replace('-', '_'), None)
                elif k == 't':
                    e.xsd_check = bool(op[1])
                else:
                    raise RuntimeError('bad op')
            except Exception as ex:
                st = type(ex).__name__
        o = {'st': st, 'pr': bool(buf.getvalue())}
        oc = []
        try:
            with contextlib.redirect_stdout(io.StringIO()):
                oc = e.get_children(ordered=True)
                o['ord'] = [c._vid for c in oc]
        except Exception as ex:
            o['ord'] = 'EXC:' + type(ex).__name__
        u = e.get_children(ordered=False)
        o['uno'] = [c._vid for c in u]
        o['nm'] = {c._vid: c.name for c in list(u) + list(oc)}
        o['par'] = [c._vid for c in u if c._parent is not e]
        if req is not None:
            o['req'] = req
        if txt is not None:
            o['txt'] = txt
        res.append(o)
    return res


def run_multi(case):
    """several live instances, operations interleaved: ops are [instance index, op...]"""
    init()
    inst = [PARENTS[t]() for t in case['multi']]
    res = []
    for i, op in enumerate(case['ops']):
        e = inst[op[0]]
        o = op[1:]
        st = 'ok'
        req = None
        buf = io.StringIO()
        with contextlib.redirect_stdout(buf), contextlib.redirect_stderr(buf):
            try:
                k = o[0]
                u = e.get_children(ordered=False)
                if k == 'a':
                    c = make(o[1]); c._vid = i; c.xsd_check = not case.get('unchecked_children', False); e.add_child(c)
                elif k == 'w':
                    c = make(o[1]); c._vid = i; c.xsd_check = not case.get('unchecked_children', False); e.add_child(c, forward=o[2])
                elif k == 'r':
                    if o[1] < len(u):
                        e.remove(u[o[1]])
                elif k == 'q':
                    if o[1] < len(u):
                        c = make(u[o[1]].name); c._vid = i; e.replace_child(u[o[1]], c)
                elif k == 'f':
                    r = e.child_container_tree.get_required_element_names(intelligent_choice=bool(o[1]))
                    req = [CLS2NAME.get(x, x) for x in flat(r)]
                elif k == 's':
                    e.to_string()
            except Exception as ex:
                st = type(ex).__name__
        ob = {'st': st, 'pr': bool(buf.getvalue()), 'uno': [c.name for c in e.get_children(ordered=False)]}
        try:
            ob['ord'] = [c.name for c in e.get_children(ordered=True)]
        except Exception as ex:
            ob['ord'] = 'EXC:' + type(ex).__name__
        if req is not None:
            ob['req'] = req
        res.append(ob)
    return res


def work(line):
    try:
        c = json.loads(line)
        if 'multi' in c:
            return json.dumps(run_multi(c))
        return json.dumps(run_case(c))
    except Exception as ex:
        return json.dumps({'error': type(ex).__name__ + ': ' + str(ex)})


if __name__ == '__main__':
    lines = [l for l in sys.stdin.read().split('\n') if l.strip()]
    n = int(sys.argv[1]) if len(sys.argv) > 1 else 1
    if n > 1 and len(lines) > 50:
        with mp.Pool(n, initializer=init) as p:
            out = p.map(work, lines, chunksize=max(1, len(lines) // (n * 8)))
    else:
        out = [work(l) for l in lines]
    sys.stdout.write('\n'.join(out) + '\n')
