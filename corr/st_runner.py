"""Simple-type battery (implementation side).  stdin: JSON {"pairs": [[class name, python repr of the value], ...]}.
stdout: JSON list of [verdict, str(value) or null, text found in the serialisation of an element carrying the value or null, carrier], in order.
verdict: ok | TypeError | ValueError | <other exception>.  The serialised text is taken from a real element: the first element class whose
text content (or one of whose attributes) has that simple type, built unchecked so that only the value is validated."""
import sys, io, json, contextlib, warnings
import xml.etree.ElementTree as ET
warnings.simplefilter('ignore')
with contextlib.redirect_stdout(io.StringIO()):
    from musicxml.xsd import xsdsimpletype as ST
    from musicxml.xmlelement import xmlelement as XE
sys.path.insert(0, __file__.rsplit('/', 1)[0])
import impl_runner as R
R.init()
job = json.load(sys.stdin)
nan, inf = float('nan'), float('inf')
carriers = {}
for n in XE.__all__:
    c = getattr(XE, n)
    if not (isinstance(c, type) and issubclass(c, XE.XMLElement)) or c is XE.XMLElement:
        continue
    try:
        T = c.TYPE
        if isinstance(T, type) and issubclass(T, ST.XSDSimpleType):
            carriers.setdefault(T.__name__, ('text', c, None))
        elif T.get_xsd_tree().is_complex_type:
            for a in T.get_xsd_attributes():
                try:
                    carriers.setdefault(a.type_.__name__, ('attr', c, a.name))
                except Exception:
                    pass
    except Exception:
        pass


def serialised(cls, v):
    if cls not in carriers:
        return None, None
    kind, c, an = carriers[cls]
    try:
        with contextlib.redirect_stdout(io.StringIO()):
            if kind == 'text':
                e = c(v, xsd_check=False)
                return (ET.fromstring(e.to_string()).text or ''), c.__name__
            R.make(c.XSD_TREE.name)
            v0 = R._cache.get(c.XSD_TREE.name)
            kw = {an.replace('-', '_'): v, 'xsd_check': False}
            e = c(v0, **kw) if v0 is not None else c(**kw)
            return ET.fromstring(e.to_string()).attrib.get(an), c.__name__ + '@' + an
    except Exception as ex:
        return 'EXC:' + type(ex).__name__, c.__name__


out = []
for cls, rv in job['pairs']:
    v = eval(rv)
    try:
        c = getattr(ST, cls)
        c(v)
        txt, car = serialised(cls, v)
        out.append(['ok', str(v), txt, car])
    except TypeError:
        out.append(['TypeError', None, None, None])
    except ValueError:
        out.append(['ValueError', None, None, None])
    except Exception as ex:
        out.append([type(ex).__name__, None, None, None])
    # the same call once more, right away: a verdict depends on the value, not on the value having been offered (and refused, or accepted) before
    try:
        getattr(ST, cls)(v)
        out[-1].append('ok')
    except TypeError:
        out[-1].append('TypeError')
    except ValueError:
        out[-1].append('ValueError')
    except Exception as ex:
        out[-1].append(type(ex).__name__)
json.dump(out, sys.stdout)
