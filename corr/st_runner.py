"""Simple-type battery (implementation side).  stdin: JSON {"pairs": [[class name, python repr of the value], ...]}.
stdout: JSON list of [verdict, rendered text or null], in order.  verdict: ok | TypeError | ValueError | <other exception>."""
import sys, io, json, contextlib, warnings
warnings.simplefilter('ignore')
with contextlib.redirect_stdout(io.StringIO()):
    from musicxml.xsd import xsdsimpletype as ST
job = json.load(sys.stdin)
nan, inf = float('nan'), float('inf')
out = []
for cls, rv in job['pairs']:
    v = eval(rv)
    try:
        c = getattr(ST, cls)
        c(v)
        out.append(['ok', str(v)])
    except TypeError:
        out.append(['TypeError', None])
    except ValueError:
        out.append(['ValueError', None])
    except Exception as ex:
        out.append([type(ex).__name__, None])
json.dump(out, sys.stdout)
