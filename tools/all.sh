#!/bin/bash
# run every check (quick by default) on the current /repo; print one line per check
cd /verif
T=${1:-quick}
git -C /repo diff --quiet || { echo "/repo is dirty"; exit 2; }
for i in 01 02 03 04 05 06 07 08 09 10 11 12 13 14 15 16 17 18 19 20; do
  ./check C$i --tier $T > /tmp/all_C$i.log 2>&1; rc=$?
  echo "C$i exit=$rc $(tail -1 /tmp/all_C$i.log) $(grep -c '^VIOLATION' /tmp/all_C$i.log) viol"
done
