#!/bin/bash
# run every check (quick by default) on the current /repo (or on $VP_RUN_REPO under `vp run --with-repo`); print one line per check
cd "$(dirname "$0")/.."
T=${1:-quick}
export VERIF_REPO=${VP_RUN_REPO:-${VERIF_REPO:-/repo}}
git -C $VERIF_REPO diff --quiet || { echo "$VERIF_REPO is dirty"; exit 2; }
[ -d build ] || python3 tools/setup.py > /dev/null 2>&1
for i in 01 02 03 04 05 06 07 08 09 10 11 12 13 14 15 16 17 18 19 20; do
  /usr/bin/time -f %es -o /tmp/all_time.$$ ./check C$i --tier $T > /tmp/all_${T}_C$i.log 2>&1; rc=$?
  echo "C$i exit=$rc $(tail -1 /tmp/all_${T}_C$i.log) $(grep -c '^VIOLATION' /tmp/all_${T}_C$i.log) viol" | tee -a all_$T.txt
done
echo done >> all_$T.txt
