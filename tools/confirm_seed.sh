#!/bin/bash
# usage: tools/confirm_seed.sh <dir with patch.diff demo.py meta.json> <seed name>
# confirms in a fresh scratch worktree: demo passes without the patch; with the patch the 192 tests pass and the demo fails.
set -u
SRC=$1; NAME=$2; WT=/tmp/confirm_$NAME
git -C /repo worktree remove --force $WT 2>/dev/null; rm -rf $WT
git -C /repo worktree add -q --detach $WT HEAD || exit 2
cp $SRC/demo.py $WT/demo.py
# demos written by the agents refer to their own worktree path: rewrite it
sed -i "s|/tmp/seed/C[0-9][0-9][a-z]*|$WT|g" $WT/demo.py
cd $WT
run() { PYTHONPATH=$WT PYTHONHASHSEED=0 timeout 900 /venv/bin/python "$@"; }
run demo.py > /tmp/confirm_$NAME.base.log 2>&1; BASE=$?
git apply $SRC/patch.diff || { echo "patch does not apply"; exit 2; }
run -m pytest -q -p no:cacheprovider --timeout=900 -q > /tmp/confirm_$NAME.tests.log 2>&1; TESTS=$?
run demo.py > /tmp/confirm_$NAME.mut.log 2>&1; MUT=$?
cd /; git -C /repo worktree remove --force $WT
echo "seed=$NAME demo_without_patch_exit=$BASE tests_with_patch_exit=$TESTS ($(tail -1 /tmp/confirm_$NAME.tests.log)) demo_with_patch_exit=$MUT"
[ $BASE -eq 0 ] && [ $TESTS -eq 0 ] && [ $MUT -ne 0 ]
