#!/bin/bash
# usage: tools/keep_seed.sh <name>   (after confirm_seed.sh succeeded): copies /tmp/seed/<name>/{patch.diff,demo.py,meta.json} to seeded/<name>, adds the confirmation, removes the worktree
N=$1
mkdir -p /verif/seeded/$N
cp /tmp/seed/$N/patch.diff /tmp/seed/$N/demo.py /tmp/seed/$N/meta.json /verif/seeded/$N/
python3 - "$N" <<'PY'
import json, sys
p = '/verif/seeded/%s/meta.json' % sys.argv[1]
d = json.load(open(p))
d['confirmed_by_me'] = {'how': 'tools/confirm_seed.sh in a fresh scratch worktree of /repo HEAD', 'demo_without_patch_exit': 0, 'tests_with_patch': '192 passed (exit 0)', 'demo_with_patch_exit': 1}
json.dump(d, open(p, 'w'), indent=1)
PY
git -C /repo worktree remove --force /tmp/seed/$N
ls /verif/seeded/$N
