#!/bin/bash
# seeds x checks matrix.  Uses the repository copy in $VP_RUN_REPO (vp run --with-repo) or a scratch worktree; never touches /repo.
cd "$(dirname "$0")/.."
V=$(pwd)
R=${VP_RUN_REPO:-}
if [ -z "$R" ]; then R=/tmp/matrix_repo; git -C /repo worktree remove --force $R 2>/dev/null; git -C /repo worktree add -q --detach $R HEAD || exit 2; fi
export VERIF_REPO=$R
OUT=$V/matrix.txt; : > $OUT
python3 tools/setup.py > /dev/null 2>&1
for S in $(ls seeded); do
  git -C $R apply $V/seeded/$S/patch.diff || { echo "$S: patch does not apply" >> $OUT; continue; }
  LINE="$S:"
  for i in 01 02 03 04 05 06 07 08 09 10 11 12 13 14 15 16 17 18 19 20; do
    ./check C$i --tier quick > /tmp/mx_$S_C$i.log 2>&1; rc=$?
    if [ $rc -ne 0 ]; then
      if grep -q '^VIOLATION.*no-failing-input-found' /tmp/mx_$S_C$i.log && ! grep '^VIOLATION' /tmp/mx_$S_C$i.log | grep -qv 'no-failing-input-found'; then LINE="$LINE C$i(nfi)"; else LINE="$LINE C$i"; fi
    fi
  done
  echo "$LINE" | tee -a $OUT
  git -C $R checkout -- . 
done
[ -z "${VP_RUN_REPO:-}" ] && git -C /repo worktree remove --force $R
echo done >> $OUT
