#!/bin/bash
# every seed against the check of its own property and two or three neighbouring checks (the full 20-check matrix is tools/matrix.sh).
# Uses the repository copy in $VP_RUN_REPO (vp run --with-repo) or a scratch worktree; never touches /repo.
cd "$(dirname "$0")/.."
V=$(pwd)
R=${VP_RUN_REPO:-}
if [ -z "$R" ]; then R=/tmp/matrix_repo; git -C /repo worktree remove --force $R 2>/dev/null; git -C /repo worktree add -q --detach $R HEAD || exit 2; fi
export VERIF_REPO=$R
OUT=$V/matrix_own.txt; : > $OUT
python3 tools/setup.py > /dev/null 2>&1
declare -A NB=( [C01]="C06 C19" [C02]="C01 C12" [C03]="C04 C13" [C04]="C03 C15" [C05]="C04 C13" [C06]="C01 C19" [C07]="C01 C06" [C08]="C09" [C09]="C08 C04"
  [C10]="C19 C06" [C11]="C01 C12" [C12]="C02 C06" [C13]="C03 C05" [C14]="C13" [C15]="C04" [C16]="C18" [C17]="" [C18]="C16" [C19]="C10" [C20]="C13" )
for S in ${@:-$(ls seeded)}; do
  P=$(python3 -c "import json,sys; print(json.load(open('seeded/$S/meta.json'))['property'])")
  git -C $R apply $V/seeded/$S/patch.diff || { echo "$S: patch does not apply" >> $OUT; continue; }
  LINE="$S:"
  for c in $P ${NB[$P]}; do
    ./check $c --tier quick > /tmp/mxo_$S_$c.log 2>&1; rc=$?
    if [ $rc -ne 0 ]; then
      if grep -q '^VIOLATION.*no-failing-input-found' /tmp/mxo_$S_$c.log && ! grep '^VIOLATION' /tmp/mxo_$S_$c.log | grep -qv 'no-failing-input-found'; then LINE="$LINE $c(nfi)"; else LINE="$LINE $c"; fi
    fi
  done
  echo "$LINE (ran: $P ${NB[$P]})" | tee -a $OUT
  git -C $R checkout -- .
done
[ -z "${VP_RUN_REPO:-}" ] && git -C /repo worktree remove --force $R
echo done >> $OUT
