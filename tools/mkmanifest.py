#!/usr/bin/env python3
"""(re)write MANIFEST.json from the table below; properties without a vlib/cXX.py module go to not_applicable."""
import json, os
V = os.path.dirname(os.path.dirname(os.path.abspath(__file__)))
TB = "Trusted: Coq 8.16.1 kernel + vm_compute; translators tr/*.py; extraction (ExtrOcamlBasic only) + OCaml driver; the correspondence harness (differential testing against /repo, bounded by its generators). M_py (coq/Model/PyM.v) is modelled Python semantics tied to the code only by correspondence."
P = {
 'C01': ("Coq theorems C01_partial_seq / C01_partial_bag: for every template of the sequence class (61 types) and bag class (9 types), joined with the schema's content model by C03, every history of add/remove/replace/final whose final check passes yields a word of the schema language; refutations as vm_compute runs of the faithful model. Tie: implementation <-> M_py on all 94 types and <-> specification machines on their classes; every passing final check of the implementation is judged by the extracted verified matcher.", "Coq proof (invariant over all histories) + correspondence + verified judge"),
 'C02': ("Coq theorems C02_partial_seq / C02_partial_bag: every word (unbounded) of the schema content model of a sequence-class or bag-class type is accepted child by child, passes the final check and keeps its order; refutations on M_py for the 10 types where it fails. Tie: words enumerated from the schema, confirmed by the verified matcher, fed to the implementation, M_py and the machines.", "Coq proof (induction over templates and words) + correspondence"),
 'C03': ("Coq theorems over tables regenerated from /repo on every run (independent XSD reader vs. live classes): language equality of all 94 content models for all words via a proved structural-equivalence checker, class/type/attribute/simple-content tables by computation over the complete finite tables.", "Coq proof (peq_sound + forallb over regenerated tables)"),
 'C06': ("Coq theorems C06_partial_seq (ordered view is a permutation of the insertion view in every reachable state of the sequence machine) and C06_partial_spec_list (insertion view = list semantics of the successful operations); refutations on M_py. Tie: both views compared by child identity after every operation of every generated history, implementation vs. list semantics, M_py and machines.", "Coq proof (invariant) + correspondence"),
 'C10': ("Coq theorems: on the specification machines a non-successful step leaves both views and all later behaviour unchanged; refutation on M_py (forward). Tie: for every failing operation of the corpus the implementation is compared with itself with and without the failed call (views + sampled continuations); M_py decides which differences are recorded findings.", "Coq proof on the specification machines + twin-replay correspondence"),
 'C11': ("Coq theorem: on the sequence machine a removal deletes exactly that child from both views keeping the relative order; the fresh-element equivalence is refuted (sticky activation) on the machine and on M_py. Tie: after every successful removal the implementation is compared with a fresh twin fed the remaining children.", "Coq proof (partial) + refutation witnesses + twin-replay correspondence"),
 'C19': ("Coq theorems: outcomes of the specification machines are documented rejections characterised exactly; no print( / sys.stdout site exists in any library module (table regenerated from the ast); refutations on M_py for the internal errors. Tie: every operation of the corpus classified, stdout/stderr captured; constructor/to_string sweep over all 441 classes.", "Coq proof on machines + regenerated site table + correspondence"),
 'C07': ("Verified judges (Coq): a state is reported dead only when Parikh.dead proves that no word of the content model dominates the children (dead_sound), alive only with a checked witness (witness_sound); every state reached by a successful add/forward/replace of the corpus is judged; refutations on M_py.", "Coq-verified judges (maxcount/excl soundness) + correspondence"),
 'C12': ("Verified witness judge (Coq, witness_sound) decides 'still compatible'; (a) all permutations of multisets with a unique valid arrangement (arrangement confirmed by the verified matcher), (b) every rejected add of the corpus; refutations on M_py.", "Coq-verified judge + exhaustive permutations + correspondence"),
 'C18': ("Coq theorems on the unchecked list machine (never a structural rejection, insertion order) and on the gating of final checks over trees of checked/unchecked nodes (final_checks passes iff every checked node is complete). Tie: unchecked histories with arbitrary children on all 441 classes vs. the extracted machine, checked/unchecked byte twins for every valid word, random mixed trees vs. the gating model.", "Coq proof (list machine + tree induction) + correspondence"),
}
m = json.load(open(os.path.join(V, 'MANIFEST.json')))
checks = []
for i in range(1, 21):
    p = 'C%02d' % i
    if os.path.exists(os.path.join(V, 'vlib', p.lower() + '.py')) and p in P:
        text, tech = P[p]
        checks.append({'property_id': p, 'quick_cmd': './check %s --tier quick' % p, 'thorough_cmd': './check %s --tier thorough' % p,
                       'evidence_file': 'evidence/%s.json' % p, 'replay_cmd_template': './check %s --replay {path}' % p, 'engine': 'coq',
                       'level_claimed': {'category': 'proof', 'text': text, 'design_ref': 'DESIGN.md section 5 ' + p},
                       'level_note': TB + ' Recorded findings: known_findings.json.', 'technique': tech})
m['checks'] = checks
have = {c['property_id'] for c in checks}
m['not_applicable'] = [{'property_id': 'C%02d' % i, 'reason': 'check not built yet (work in progress; DESIGN.md section 9 gives the build order)'} for i in range(1, 21) if 'C%02d' % i not in have]
m['engines'][0]['serves_properties'] = sorted(have)
json.dump(m, open(os.path.join(V, 'MANIFEST.json'), 'w'), indent=1)
print(sorted(have))
