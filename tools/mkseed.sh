#!/bin/bash
# usage: tools/mkseed.sh <property id> <seed name> "<one-line description of ideas already taken>"
# creates a scratch worktree /tmp/seed/<name> of /repo HEAD and the prompt file /tmp/seed/<name>.prompt.txt (property text only; nothing from /verif)
P=$1; N=$2; TAKEN=$3
if [ "$TAKEN" = "auto" ]; then TAKEN=$(python3 - "$P" <<'PY'
import json, os, sys, glob
out = []
for d in sorted(glob.glob('/verif/seeded/%s*' % sys.argv[1])):
    try:
        s = ' '.join(json.load(open(os.path.join(d, 'meta.json')))['summary'].split())
    except Exception:
        continue
    out.append('(%d) ' % (len(out) + 1) + s[:330].rsplit(' ', 1)[0] + ' ...')
print(' '.join(out))
PY
); fi
mkdir -p /tmp/seed
[ -f /tmp/seed/$P.prop.txt ] || python3 - "$P" <<'PY'
import json, sys
for l in open('/verif/properties.jsonl'):
    d = json.loads(l)
    if d['id'] == sys.argv[1]:
        open('/tmp/seed/%s.prop.txt' % d['id'], 'w').write('Property %s: %s\n\nStatement: %s\n\nQuantification: %s\n\nWhy the existing tests cannot settle it: %s\n\nRelevant files: %s\n' % (
            d['id'], d['title'], d['statement'], d['quantifier']['text'], d['why_tests_cant'], ', '.join(d['anchors']['files'])))
PY
git -C /repo worktree add --detach /tmp/seed/$N HEAD >/dev/null 2>&1 || { echo "worktree failed"; exit 1; }
python3 - "$P" "$N" "$TAKEN" <<'PY'
import sys
p, n, taken = sys.argv[1:4]
t = open('/tmp/seed/PROMPT.tmpl').read() if False else None
src = open('/verif/tools/seed_prompt_example.txt').read()
head, rest = src.split('-----\n', 1)
_, tail = rest.split('-----\n', 1)
tail = tail.split('Additional constraint:')[0]
prop = open('/tmp/seed/%s.prop.txt' % p).read()
out = (head + '-----\n' + prop + '\n-----\n' + tail).replace('C02b', n).replace('"C02"', '"%s"' % p)
if taken:
    out += '\nAdditional constraint: other engineers have already proposed changes based on these ideas: ' + taken + ' Find a DIFFERENT mechanism (a different function or a different kind of mistake).\n'
open('/tmp/seed/%s.prompt.txt' % n, 'w').write(out)
PY
echo /tmp/seed/$N.prompt.txt
