#!/bin/bash
# usage: tools/run_harmless.sh [<diff under harmless/>...]   applies each behaviour-preserving rewrite, runs all 20 quick checks, reverts.
# Works on /repo, or - under `vp run --with-repo` - on the run's own copy ($VP_RUN_REPO) with the run's own copy of /verif.
cd "$(dirname "$0")/.."
V=$(pwd)
R=${VP_RUN_REPO:-/repo}
export VERIF_REPO=$R
OUT=$V/harmless_results.txt; : > $OUT
[ -n "${VP_RUN_REPO:-}" ] && python3 tools/setup.py > /dev/null 2>&1
for D in ${@:-$(cd harmless; ls *.diff)}; do
  git -C $R diff --quiet || { echo "$R is dirty"; exit 2; }
  git -C $R apply $V/harmless/$D || { echo "$D: does not apply" | tee -a $OUT; continue; }
  rm -rf /tmp/evidence_save_h$$ && cp -r $V/evidence /tmp/evidence_save_h$$
  LOUD=""
  for i in 01 02 03 04 05 06 07 08 09 10 11 12 13 14 15 16 17 18 19 20; do
    ./check C$i > /tmp/run_harmless_$$_C$i.log 2>&1; RC=$?
    if [ $RC -ne 0 ]; then
      K="C$i"; grep '^VIOLATION' /tmp/run_harmless_$$_C$i.log | grep -qv 'no-failing-input-found' || K="C$i(nfi)"
      LOUD="$LOUD $K"
      echo "  $D $K: $(grep -A1 -m1 '^VIOLATION' /tmp/run_harmless_$$_C$i.log | sed -n 2p | cut -c1-260)" | tee -a $OUT
    fi
  done
  echo "harmless=$D loud:${LOUD:- none}" | tee -a $OUT
  git -C $R checkout -- .; rm -rf $V/evidence; mv /tmp/evidence_save_h$$ $V/evidence
done
echo done >> $OUT
