#!/bin/bash
# usage: tools/run_harmless.sh <diff under harmless/>...   applies each behaviour-preserving rewrite to /repo, runs all 20 quick checks, reverts.
# Output: one line per (rewrite, check) that is not quiet; "quiet" lines are summarised.
cd /verif
for D in "$@"; do
  git -C /repo diff --quiet || { echo "/repo is dirty"; exit 2; }
  git -C /repo apply /verif/harmless/$D || { echo "$D: does not apply"; continue; }
  rm -rf /tmp/evidence_save_h && cp -r /verif/evidence /tmp/evidence_save_h
  LOUD=""
  for i in 01 02 03 04 05 06 07 08 09 10 11 12 13 14 15 16 17 18 19 20; do
    ./check C$i > /tmp/run_harmless_C$i.log 2>&1; RC=$?
    if [ $RC -ne 0 ]; then
      K="C$i"; grep '^VIOLATION' /tmp/run_harmless_C$i.log | grep -qv 'no-failing-input-found' || K="C$i(nfi)"
      LOUD="$LOUD $K"
      echo "  $D $K: $(grep -A1 -m1 '^VIOLATION' /tmp/run_harmless_C$i.log | sed -n 2p | cut -c1-260)"
    fi
  done
  echo "harmless=$D loud:${LOUD:- none}"
  git -C /repo checkout -- .; rm -rf /verif/evidence; mv /tmp/evidence_save_h /verif/evidence
done
