#!/bin/bash
# usage: tools/run_seed.sh <seed dir name under seeded/> <property>...   (applies the patch to /repo, runs the checks, reverts)
S=$1; shift
cd /verif
git -C /repo diff --quiet || { echo "/repo is dirty"; exit 2; }
git -C /repo apply /verif/seeded/$S/patch.diff || exit 2
rm -rf /tmp/evidence_save && cp -r /verif/evidence /tmp/evidence_save
trap 'git -C /repo checkout -- .; rm -rf /verif/evidence; mv /tmp/evidence_save /verif/evidence' EXIT
for P in "$@"; do
  ./check $P > /tmp/run_seed_$S_$P.log 2>&1; RC=$?
  echo "seed=$S check=$P exit=$RC  $(grep -c '^VIOLATION' /tmp/run_seed_$S_$P.log) violation line(s); $(grep -m1 '^VIOLATION' /tmp/run_seed_$S_$P.log)"
  grep -A1 -m2 '^VIOLATION' /tmp/run_seed_$S_$P.log | sed -n 2p | cut -c1-300
done
