#!/usr/bin/env python3
"""usage: tools/seedtable.py <full matrix.txt> [<own-property matrix.txt>] [<later single results.txt>] :
markdown table of the seeded changes (seeded/*/meta.json) with the checks that reported each.
Full matrix lines "seed: C01 C06(nfi) ..." (all 20 quick checks were run); own-property lines "seed: C04 (ran: C05 C04 C13)" (only the listed checks were
run); a later file overrides an earlier one for the checks it ran."""
import json, os, re, sys
V = os.path.dirname(os.path.dirname(os.path.abspath(__file__)))
full, own = {}, {}
for fn in sys.argv[1:]:
    for l in open(fn):
        m = re.match(r'(\S+):\s*(.*?)\s*(\(ran: ([^)]*)\))?\s*$', l)
        if not m or m.group(1) == 'done':
            continue
        seed, hits, _, ran = m.groups()
        if ran is None:
            full[seed] = hits.split()
        else:
            own[seed] = (hits.split(), ran.split())
print('| seed | property | what the change does (first sentence of the author\'s summary) | quick checks that report it |')
print('|---|---|---|---|')
for s in sorted(os.listdir(os.path.join(V, 'seeded'))):
    mp = os.path.join(V, 'seeded', s, 'meta.json')
    if not os.path.exists(mp):
        continue
    m = json.load(open(mp))
    summ = ' '.join(m.get('summary', '').split())
    first = summ.split('. ')[0][:200]
    if s in full:
        cell = ' '.join(full[s]) or '(none)'
    elif s in own:
        cell = (' '.join(own[s][0]) or '(none)') + ' — of ' + ' '.join(own[s][1])
    else:
        cell = '(processed individually: see the round narrative)'
    print('| %s | %s | %s | %s |' % (s, m.get('property', s[:3]), first.replace('|', '/'), cell))
