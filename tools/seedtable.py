#!/usr/bin/env python3
"""usage: tools/seedtable.py <matrix.txt> : markdown table of the seeded changes (seeded/*/meta.json) with the checks that reported each"""
import json, os, sys
V = os.path.dirname(os.path.dirname(os.path.abspath(__file__)))
rows = {}
for l in open(sys.argv[1]):
    if ':' in l:
        k, v = l.split(':', 1)
        rows[k.strip()] = v.split()
print('| seed | property | what the change does (first sentence of the author\'s summary) | quick checks that report it |')
print('|---|---|---|---|')
for s in sorted(os.listdir(os.path.join(V, 'seeded'))):
    mp = os.path.join(V, 'seeded', s, 'meta.json')
    if not os.path.exists(mp):
        continue
    m = json.load(open(mp))
    summ = ' '.join(m.get('summary', '').split())
    first = summ.split('. ')[0][:230]
    print('| %s | %s | %s | %s |' % (s, m.get('property', s[:3]), first.replace('|', '/'), ' '.join(rows.get(s, ['(not in this matrix run)']))))
