#!/usr/bin/env python3
"""MANIFEST.setup_cmd: regenerate coq/Gen from /repo and build the whole Coq development + extracted driver, offline."""
import os
import sys
sys.path.insert(0, os.path.dirname(os.path.dirname(os.path.abspath(__file__))))
from vlib import common as C
ok, log = C.build()
print(log[-3000:])
try:
    from vlib import extract
    extract.ensure()
except ImportError:
    pass
print('setup: coq build', 'ok' if ok else 'FAILED')
sys.exit(0 if ok else 1)
