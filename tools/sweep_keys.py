#!/usr/bin/env python3
"""Collect the model-predicted failure keys ('other:<type>') of a matcher property over many seeds (to fill known_findings.json).
usage: tools/sweep_keys.py C06 <seed0> <nseeds> [per_type]"""
import sys, os, collections, importlib
sys.path.insert(0, os.path.dirname(os.path.dirname(os.path.abspath(__file__))))
from vlib import extract, hist, impl, matcher
prop = sys.argv[1]; s0 = int(sys.argv[2]); n = int(sys.argv[3]); per = int(sys.argv[4]) if len(sys.argv) > 4 else 150
mod = importlib.import_module('vlib.' + prop.lower())
from vlib import common as C
C.build()
m = extract.Model()
keys = collections.defaultdict(list); unpred = []
for seed in range(s0, s0 + n):
    for mode in (1, 2):
        cases = hist.gen_histories(m.g, seed * 2 + mode, per, maxlen=18, mode=mode)
        io = impl.run_cases(cases); mo = m.run_py(cases)
        for f in mod.sweep_failures(m, cases, io, mo):
            ci, oi, why, predicted = f
            c = cases[ci]
            k = matcher.cause_key(c['type'], c['ops'][:oi + 1])
            if not predicted:
                unpred.append((c['type'], c['ops'][:oi + 1], why))
            elif len(keys[k]) < 3 or len(c['ops'][:oi + 1]) < len(keys[k][0][0]):
                keys[k].append((c['ops'][:oi + 1], why)); keys[k].sort(key=lambda x: len(x[0]))
    print('seed', seed, 'keys', len(keys), 'unpredicted', len(unpred), flush=True)
for k, v in sorted(keys.items()):
    print(k, '|', v[0][0], '|', v[0][1][:120])
print('UNPREDICTED', unpred[:5])
m.close()
