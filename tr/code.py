"""Python `ast` translator: specific functions of the library turned into small IRs (coq/Gen/Code.v).
Fail-closed: a shape that is not recognised makes the corresponding tr_*_ok definition `false`, and the theorems that
need it stop compiling."""
import ast
import re
import json
import os
import sys

HERE = os.path.dirname(os.path.abspath(__file__))
VERIF = os.path.dirname(HERE)
REPO = os.environ.get('VERIF_REPO', '/repo')
sys.path.insert(0, HERE)
from gen import write_if_changed, q  # noqa: E402


class Fail(Exception):
    pass


def parse(rel):
    with open(os.path.join(REPO, rel), encoding='utf-8') as f:
        return ast.parse(f.read())


def find_func(tree, cls, name):
    for n in ast.walk(tree):
        if isinstance(n, ast.ClassDef) and n.name == cls:
            for f in n.body:
                if isinstance(f, ast.FunctionDef) and f.name == name:
                    return f
    return None


def call_name(c):
    if isinstance(c.func, ast.Name):
        return c.func.id
    if isinstance(c.func, ast.Attribute):
        return c.func.attr
    return None


def open_info(c):
    mode = 'r'
    if len(c.args) > 1:
        a = c.args[1]
        if isinstance(a, ast.Constant):
            mode = a.value
        elif isinstance(a, ast.IfExp) and isinstance(a.body, ast.Constant) and isinstance(a.orelse, ast.Constant):
            mode = a.body.value + '|' + a.orelse.value
        else:
            raise Fail('open() mode is not a constant')
    for k in c.keywords:
        if k.arg == 'mode':
            if not isinstance(k.value, ast.Constant):
                raise Fail('open() mode is not a constant')
            mode = k.value.value
    enc = [k.value.value for k in c.keywords if k.arg == 'encoding' and isinstance(k.value, ast.Constant)]
    return mode, (enc[0] if enc else None)


# ---- (a) effect order of XMLScorePartwise.write
def write_effects():
    mod = parse('musicxml/xmlelement/xmlelement.py')
    f = find_func(mod, 'XMLScorePartwise', 'write')
    if f is None:
        raise Fail('XMLScorePartwise.write not found')
    eff = []
    doc_vars = set()
    # module-level names bound exactly once, to a string literal (a hoisted constant is still a constant)
    bound = {}
    for st in ast.walk(mod):
        if isinstance(st, (ast.Assign, ast.AugAssign, ast.AnnAssign)):
            for tg in (st.targets if isinstance(st, ast.Assign) else [st.target]):
                if isinstance(tg, ast.Name):
                    bound.setdefault(tg.id, []).append(st)
    str_consts = {k for k, v in bound.items() if len(v) == 1 and isinstance(v[0], ast.Assign) and v[0] in mod.body and isinstance(v[0].value, ast.Constant) and isinstance(v[0].value.value, str)}

    def visit(stmts):
        for st in stmts:
            if isinstance(st, ast.Expr) and isinstance(st.value, ast.Constant):
                continue
            if isinstance(st, ast.With):
                for it in st.items:
                    c = it.context_expr
                    if not (isinstance(c, ast.Call) and call_name(c) == 'open'):
                        raise Fail('with-item is not open()')
                    mode, enc = open_info(c)
                    eff.append(('Open', mode, enc))
                visit(st.body)
                eff.append(('Close',))
                continue
            calls = [n for n in ast.walk(st) if isinstance(n, ast.Call)]
            names = [call_name(c) for c in calls]
            if isinstance(st, (ast.Assign, ast.Expr)) and names and set(names) <= {'write', 'to_string', 'encode'}:
                if isinstance(st, ast.Assign) and 'to_string' in names and len(st.targets) == 1 and isinstance(st.targets[0], ast.Name):
                    doc_vars.add(st.targets[0].id)
                for c in sorted(calls, key=lambda c: (-c.col_offset)):
                    n = call_name(c)
                    if n == 'to_string':
                        eff.append(('Validate',))
                    elif n == 'write':
                        a = c.args[0]
                        if isinstance(a, ast.Constant) or (isinstance(a, ast.Name) and a.id in str_consts and a.id not in doc_vars):
                            eff.append(('Write', 'const'))
                        elif isinstance(a, ast.Call) and call_name(a) in ('to_string', 'encode'):
                            eff.append(('Write', 'doc'))
                        elif isinstance(a, ast.Name) and a.id in doc_vars:
                            eff.append(('Write', 'doc'))
                        else:
                            raise Fail('write() of an unrecognised expression')
                continue
            raise Fail('unrecognised statement in write(): ' + ast.dump(st)[:80])
    visit(f.body)
    return eff


LIB_DIRS = ('musicxml/xmlelement', 'musicxml/xsd', 'musicxml/parser', 'musicxml/util')
LIB_FILES = ('musicxml/generate_classes/utils.py', 'musicxml/exceptions.py', 'musicxml/__init__.py')


def lib_files():
    out = list(LIB_FILES)
    for d in LIB_DIRS:
        for fn in sorted(os.listdir(os.path.join(REPO, d))):
            if fn.endswith('.py') and not fn.startswith('_test') and not fn.startswith('test_'):
                out.append(d + '/' + fn)
    return [f for f in out if os.path.exists(os.path.join(REPO, f))]


# ---- (b) open()/print() call sites in library modules
def io_sites():
    opens, prints = [], []
    for rel in lib_files():
        for n in ast.walk(parse(rel)):
            if isinstance(n, ast.Call) and isinstance(n.func, ast.Name) and n.func.id == 'open':
                mode, enc = open_info(n)
                opens.append((rel, n.lineno, mode, enc))
            if isinstance(n, ast.Call) and isinstance(n.func, ast.Name) and n.func.id == 'print':
                prints.append((rel, n.lineno))
            if isinstance(n, ast.Call) and isinstance(n.func, ast.Attribute) and n.func.attr == 'parse' and \
                    isinstance(n.func.value, ast.Name) and n.func.value.id == 'ET':
                a = n.args[0] if n.args else None
                kind = 'path' if not (isinstance(a, ast.Name) and a.id in ('f', 'file', 'fp')) else 'file'
                opens.append((rel, n.lineno, 'ET.parse:' + kind, None))
            if isinstance(n, ast.Attribute) and n.attr in ('stdout', 'stderr') and isinstance(n.value, ast.Name) and n.value.id == 'sys':
                prints.append((rel, n.lineno))
            # the other ways to reach the terminal: the logging module (an unconfigured logger prints WARNING and above to standard error through
            # logging.lastResort), warnings.warn, traceback.print_*, pprint, breakpoint()
            if isinstance(n, ast.Call) and isinstance(n.func, ast.Attribute) and isinstance(n.func.value, ast.Name):
                base, meth = n.func.value.id, n.func.attr
                if base in ('logging', 'logger', 'log', 'LOGGER', '_logger', '_log') and meth in ('warning', 'warn', 'error', 'exception', 'critical', 'log', 'fatal'):      # debug / info stay below lastResort's level
                    prints.append((rel, n.lineno))
                if (base, meth) in (('warnings', 'warn'), ('warnings', 'warn_explicit'), ('pprint', 'pprint'), ('pprint', 'pp')) or (base == 'traceback' and meth.startswith('print_')):
                    prints.append((rel, n.lineno))
            if isinstance(n, ast.Call) and isinstance(n.func, ast.Name) and n.func.id in ('breakpoint', 'pprint', 'pp'):
                prints.append((rel, n.lineno))
    return sorted(opens), sorted(prints)


# ---- (c) lazy class-level caches: publish-then-fill vs compute-then-publish
def lazy_cache(rel, cls, fn, attr):
    f = find_func(parse(rel), cls, fn)
    if f is None:
        raise Fail('%s.%s not found' % (cls, fn))
    ifs = [s for s in f.body if isinstance(s, ast.If)]
    if len(ifs) != 1:
        raise Fail('expected exactly one if')
    body = ifs[0].body
    # the early-return spelling:  if cls.A is not None: return cls.A ;  <build> ; cls.A = built ; return cls.A   - the build is what follows the if
    i0 = ifs[0]
    if len(i0.body) == 1 and isinstance(i0.body[0], ast.Return) and not i0.orelse and isinstance(i0.test, ast.Compare) and len(i0.test.ops) == 1 and \
            isinstance(i0.test.ops[0], ast.IsNot) and isinstance(i0.test.comparators[0], ast.Constant) and i0.test.comparators[0].value is None and \
            ast.unparse(i0.test.left) == 'cls.' + attr and ast.unparse(i0.body[0].value or ast.Constant(None)) == 'cls.' + attr:
        rest = f.body[f.body.index(i0) + 1:]
        if rest and isinstance(rest[-1], ast.Return):
            rest = rest[:-1]
        body = [x for x in rest if not (isinstance(x, ast.Expr) and isinstance(x.value, ast.Constant))]

    def is_store(t):
        return isinstance(t, ast.Attribute) and t.attr == attr and isinstance(t.value, ast.Name) and t.value.id == 'cls'
    assigns = [(i, s) for i, s in enumerate(body) if isinstance(s, ast.Assign) and any(is_store(t) for t in s.targets)]
    nested_assigns = [n.lineno for s in body for n in ast.walk(s) if isinstance(n, ast.Assign) and any(is_store(t) for t in n.targets)]
    muts = [n.lineno for s in body for n in ast.walk(s) if isinstance(n, ast.Call) and isinstance(n.func, ast.Attribute)
            and n.func.attr in ('append', 'extend', 'insert') and is_store(n.func.value)]
    if not nested_assigns:
        raise Fail('no publication found')
    first_pub = min(nested_assigns)
    if muts and min(muts) > first_pub:
        return 'PublishThenFill', first_pub, muts
    if not muts and assigns and assigns[-1][0] == len(body) - 1 and len(nested_assigns) == 1:
        return 'ComputeThenPublish', assigns[-1][1].lineno, []
    raise Fail('unrecognised cache shape')


# ---- (c') every function of the library that stores to a class-level attribute, and whether it publishes an empty container first
def class_level_stores():
    sites = []
    for rel in lib_files():
        tree = parse(rel)
        for fn in [n for n in ast.walk(tree) if isinstance(n, ast.FunctionDef)]:
            aliases = {'cls'}
            for n in ast.walk(fn):
                if isinstance(n, ast.Assign) and len(n.targets) == 1 and isinstance(n.targets[0], ast.Name):
                    v = n.value
                    if isinstance(v, ast.Attribute) and v.attr == '__class__':
                        aliases.add(n.targets[0].id)
                    if isinstance(v, ast.Call) and isinstance(v.func, ast.Name) and v.func.id == 'type':
                        aliases.add(n.targets[0].id)

            def class_obj(e):
                if isinstance(e, ast.Name) and (e.id in aliases or e.id[:1].isupper()):
                    return True
                if isinstance(e, ast.Attribute) and e.attr == '__class__':
                    return True
                if isinstance(e, ast.Call) and isinstance(e.func, ast.Name) and e.func.id == 'type':
                    return True
                return False
            stores = []
            for n in ast.walk(fn):
                if isinstance(n, (ast.Assign, ast.AugAssign)):
                    tg = n.targets if isinstance(n, ast.Assign) else [n.target]
                    for t in tg:
                        if isinstance(t, ast.Attribute) and class_obj(t.value):
                            stores.append((t.attr, n.lineno, n.value, isinstance(n, ast.AugAssign)))
            if not stores:
                continue
            muts = {}
            for n in ast.walk(fn):
                if isinstance(n, ast.Call) and isinstance(n.func, ast.Attribute) and n.func.attr in ('append', 'extend', 'insert', 'update', 'add', 'setdefault', 'pop', 'remove', 'clear'):
                    t = n.func.value
                    if isinstance(t, ast.Attribute) and class_obj(t.value):
                        muts.setdefault(t.attr, []).append(n.lineno)
                if isinstance(n, ast.Assign):
                    for t in n.targets:
                        if isinstance(t, ast.Subscript) and isinstance(t.value, ast.Attribute) and class_obj(t.value.value):
                            muts.setdefault(t.value.attr, []).append(n.lineno)
            for attr, ln, val, rmw in stores:
                empty = (isinstance(val, (ast.List, ast.Dict, ast.Set)) and not (getattr(val, 'elts', None) or getattr(val, 'keys', None))) or \
                        (isinstance(val, ast.Call) and isinstance(val.func, ast.Name) and val.func.id in ('list', 'dict', 'set') and not val.args)
                later = [m for m in muts.get(attr, []) if m > ln]
                # x.A += ... (or A = f(A) spelt out) is process-wide state that changes while the library works: not a write-once cache at all
                reads_self = any(isinstance(y, ast.Attribute) and y.attr == attr and class_obj(y.value) for y in ast.walk(val))
                shape = 'ReadModifyWrite' if (rmw or reads_self) else ('PublishThenFill' if later else 'SingleStore')
                sites.append((rel, fn.name, fn.lineno, fn.end_lineno, attr, ln, shape))
    return sorted(set(sites))


# ---- (c'') class-level slots that are READ through the method resolution order: a lazily filled slot of a class in use that another class in
#      use would find, unshadowed, on its own lookup path (Model/ClassSlots.v: exactly the pairs the order-independence theorem excludes)
SLOT_MARKERS = ('_XSD_TREE', 'XSD_TREE', '_SEARCH_FOR_ELEMENT', 'TYPE')


def _truthy(v):
    if isinstance(v, ast.Constant):
        return bool(v.value)
    if isinstance(v, (ast.List, ast.Tuple, ast.Set)):
        return bool(v.elts)
    if isinstance(v, ast.Dict):
        return bool(v.keys)
    return True


def class_table():
    classes = {}
    for rel in lib_files():
        for n in ast.walk(parse(rel)):
            if isinstance(n, ast.ClassDef):
                names = {}
                for st in n.body:
                    if isinstance(st, ast.Assign):
                        for tg in st.targets:
                            if isinstance(tg, ast.Name):
                                names[tg.id] = _truthy(st.value)
                    if isinstance(st, ast.AnnAssign) and isinstance(st.target, ast.Name) and st.value is not None:
                        names[st.target.id] = _truthy(st.value)
                bases = [b.id if isinstance(b, ast.Name) else (b.attr if isinstance(b, ast.Attribute) else None) for b in n.bases]
                if None in bases:
                    raise Fail('class %s: a base that is not a name' % n.name)
                if n.name in classes and classes[n.name][0] != bases:
                    raise Fail('two classes called %s with different bases' % n.name)
                if n.name not in classes:
                    classes[n.name] = (bases, names, rel, {f.name for f in n.body if isinstance(f, ast.FunctionDef)})
    return classes


def _c3(classes, c, memo):
    if c in memo:
        return memo[c]
    bases = [b for b in classes[c][0] if b in classes]
    seqs = [list(_c3(classes, b, memo)) for b in bases] + [list(bases)]
    out = [c]
    while any(seqs):
        for sq in seqs:
            if sq and not any(sq[0] in other[1:] for other in seqs):
                h = sq[0]
                break
        else:
            raise Fail('no linearisation for class ' + c)
        out.append(h)
        for sq in seqs:
            if sq and sq[0] == h:
                del sq[0]
    memo[c] = out
    return out


def inherited_class_slots():
    classes = class_table()
    memo = {}
    inst = {c for c, (_, names, _, _) in classes.items() if any(names.get(m) for m in SLOT_MARKERS)}
    out = set()
    for rel, fn, ln0, ln1, attr, ln, shape in class_level_stores():
        # a guard that looks into the class's OWN dictionary ('A' in cls.__dict__ / vars(cls)) never finds an inherited slot
        own_dict = False
        for f in [n for n in ast.walk(parse(rel)) if isinstance(n, ast.FunctionDef) and n.name == fn and n.lineno == ln0]:
            for n in ast.walk(f):
                if isinstance(n, ast.Compare) and len(n.ops) == 1 and isinstance(n.ops[0], (ast.In, ast.NotIn)) and isinstance(n.left, ast.Constant) and n.left.value == attr:
                    c0 = n.comparators[0]
                    if (isinstance(c0, ast.Attribute) and c0.attr == '__dict__') or (isinstance(c0, ast.Call) and isinstance(c0.func, ast.Name) and c0.func.id == 'vars'):
                        own_dict = True
        if own_dict:
            continue
        owners = [c for c, (_, _, r, fns) in classes.items() if r == rel and fn in fns]
        if not owners:
            raise Fail('class-level store in %s.%s: no owning class found' % (rel, fn))
        for K in owners:
            fam = {c for c in classes if K in _c3(classes, c, memo)}
            for D in sorted(fam & inst):
                if attr in classes[D][1]:
                    continue                      # bound in D's own body (to anything): the walk stops at D's own dictionary
                for B in _c3(classes, D, memo)[1:]:
                    if B not in fam:
                        continue
                    if classes[B][1].get(attr):
                        break                     # an accepted body binding: found first, never replaced
                    if B in inst:
                        out.add((attr, B, D))
                    elif attr in classes[B][1]:
                        break                     # a rejected binding on a class that is never used: the walk stops there for good
    return sorted(out)


def slot_tables():
    """for every class-level store site: the class table of its family (sorted by name; row = strict ancestors inside the family in C3 order,
    what the class body binds for the attribute: 0 nothing / 1 a falsy literal / 2 anything else, whether the class is instantiable)"""
    classes = class_table()
    memo = {}
    inst = {c for c, (_, names, _, _) in classes.items() if any(names.get(m) for m in SLOT_MARKERS)}
    out = []
    seen = set()
    for rel, fn, ln0, ln1, attr, ln, shape in class_level_stores():
        owners = [c for c, (_, _, r, fns) in classes.items() if r == rel and fn in fns]
        if not owners:
            raise Fail('class-level store in %s.%s: no owning class found' % (rel, fn))
        for K in owners:
            if (attr, K) in seen:
                continue
            seen.add((attr, K))
            fam = sorted(c for c in classes if K in _c3(classes, c, memo))
            idx = {c: i for i, c in enumerate(fam)}
            rows = []
            for c in fam:
                mro = [idx[b] for b in _c3(classes, c, memo)[1:] if b in idx]
                names = classes[c][1]
                state = 0 if attr not in names else (2 if names[attr] else 1)
                rows.append((mro, state, c in inst))
            out.append((attr, K, fam, rows))
    return out


# ---- (c3) lazily initialised INSTANCE attributes (objects that live in class-level tables are shared by all threads and elements):
#      every  `if self.<a> is None: ...`  whose body stores self.<a>; shape = one store of the final value on every path, or several
def lazy_instance_stores():
    sites = []

    def attr_of_test(t):
        if isinstance(t, ast.Compare) and len(t.ops) == 1 and isinstance(t.ops[0], ast.Is) and isinstance(t.comparators[0], ast.Constant) and \
                t.comparators[0].value is None and isinstance(t.left, ast.Attribute) and isinstance(t.left.value, ast.Name) and t.left.value.id == 'self':
            return t.left.attr
        if isinstance(t, ast.UnaryOp) and isinstance(t.op, ast.Not) and isinstance(t.operand, ast.Attribute) and isinstance(t.operand.value, ast.Name) and t.operand.value.id == 'self':
            return t.operand.attr
        return None

    def is_store(x, a):
        """number of stores to / in-place updates of self.<a> in the simple statement x"""
        n = 0
        for y in ast.walk(x):
            if isinstance(y, (ast.Assign, ast.AugAssign)):
                tg = y.targets if isinstance(y, ast.Assign) else [y.target]
                for t in tg:
                    base = t.value if isinstance(t, ast.Subscript) else t
                    if isinstance(base, ast.Attribute) and base.attr == a and isinstance(base.value, ast.Name) and base.value.id == 'self':
                        n += 1
            if isinstance(y, ast.Call) and isinstance(y.func, ast.Attribute) and y.func.attr in ('append', 'extend', 'insert', 'update', 'add', 'setdefault', 'pop', 'remove', 'clear'):
                b = y.func.value
                if isinstance(b, ast.Attribute) and b.attr == a and isinstance(b.value, ast.Name) and b.value.id == 'self':
                    n += 1
        return n

    def stores_on_path(stmts, a):
        """(maximal number of stores on one path outside loops, maximal number per loop iteration)"""
        n, per_iter = 0, 0
        for st in stmts:
            if isinstance(st, ast.If):
                b, o_ = stores_on_path(st.body, a), stores_on_path(st.orelse, a)
                n += max(b[0], o_[0])
                per_iter = max(per_iter, b[1], o_[1])
            elif isinstance(st, (ast.For, ast.While)):
                b = stores_on_path(st.body, a)
                per_iter = max(per_iter, b[0], b[1])
            elif isinstance(st, ast.Try):
                parts = [stores_on_path(st.body, a)] + [stores_on_path(h.body, a) for h in st.handlers] + [stores_on_path(st.finalbody, a)]
                n += parts[0][0] + max([p_[0] for p_ in parts[1:-1]] + [0]) + parts[-1][0]
                per_iter = max([per_iter] + [p_[1] for p_ in parts])
            elif isinstance(st, ast.With):
                b = stores_on_path(st.body, a)
                n += b[0]
                per_iter = max(per_iter, b[1])
            else:
                n += is_store(st, a)
        return n, per_iter
    trees = {rel: parse(rel) for rel in lib_files()}

    def referenced(name, own):
        for rel, tree in trees.items():
            for fn2 in [n for n in ast.walk(tree) if isinstance(n, ast.FunctionDef)]:
                if fn2 is own:
                    continue
                for x in ast.walk(fn2):
                    if isinstance(x, ast.Attribute) and x.attr == name:
                        return True
        return False
    for rel, tree in trees.items():
        for fn in [n for n in ast.walk(tree) if isinstance(n, ast.FunctionDef)]:
            for node in ast.walk(fn):
                if isinstance(node, ast.If):
                    a = attr_of_test(node.test)
                    if a is None:
                        continue
                    k, it = stores_on_path(node.body, a)
                    if k == 0 and it == 0:
                        continue
                    if not referenced(fn.name, fn):
                        shape = 'Unreferenced'
                    elif k == 1 and it == 0:
                        shape = 'SingleStore'
                    elif k == 0 and it == 1:
                        shape = 'LoopStore'
                    else:
                        shape = 'Unsafe'
                    sites.append((rel, fn.name, fn.lineno, fn.end_lineno, a, node.lineno, shape))
    return sorted(set(sites))


# ---- (c3) consumers of the shared class-level tables: a value obtained from a table getter (get_xsd_attributes and friends) must only be READ
TABLE_GETTERS = ('get_xsd_attributes', 'get_xsd_indicator', 'get_xsd_tree', 'get_children_container')
SCHEMA_GETTERS = ('get_attributes',)
MUTATORS = ('sort', 'reverse', 'append', 'extend', 'insert', 'remove', 'pop', 'clear', 'update', 'setdefault', 'popitem', '__setitem__', '__delitem__', 'add', 'discard')


def shared_table_mutations():
    """(file, function, first line, last line, what) for every in-place mutation of a value that a function obtained from a table getter"""
    sites = []
    for rel in lib_files():
        t = parse(rel)
        for fn in ast.walk(t):
            if not isinstance(fn, ast.FunctionDef):
                continue
            if fn.name in TABLE_GETTERS:
                continue                      # the getter fills its own table: class_level_stores() judges that
            bound = set()
            # the attribute dictionary of a schema node (XSDTree.get_attributes() hands out the live ElementTree dict) is shared by every element of
            # the type - unless the node is a copy made in this very function
            fresh = set()
            for n in ast.walk(fn):
                if isinstance(n, ast.Assign) and isinstance(n.value, ast.Call):
                    f0 = n.value.func
                    if (isinstance(f0, ast.Attribute) and f0.attr in ('__deepcopy__', '__copy__', 'deepcopy', 'copy')) or (isinstance(f0, ast.Name) and f0.id in ('deepcopy', 'copy')):
                        for tg in n.targets:
                            if isinstance(tg, ast.Name):
                                fresh.add(tg.id)

            def schema_dict(x):
                return isinstance(x, ast.Call) and isinstance(x.func, ast.Attribute) and x.func.attr in SCHEMA_GETTERS and \
                    not (isinstance(x.func.value, ast.Name) and x.func.value.id in fresh)
            for n in ast.walk(fn):
                if isinstance(n, ast.Assign) and isinstance(n.value, ast.Call) and isinstance(n.value.func, ast.Attribute) and \
                        (n.value.func.attr in TABLE_GETTERS or schema_dict(n.value)):
                    for tg in n.targets:
                        if isinstance(tg, ast.Name):
                            bound.add(tg.id)

            def is_table(x):
                return (isinstance(x, ast.Name) and x.id in bound) or (isinstance(x, ast.Call) and isinstance(x.func, ast.Attribute) and x.func.attr in TABLE_GETTERS) or schema_dict(x)
            for n in ast.walk(fn):
                what = None
                if isinstance(n, ast.Call) and isinstance(n.func, ast.Attribute) and n.func.attr in MUTATORS and is_table(n.func.value):
                    what = '.%s()' % n.func.attr
                elif isinstance(n, (ast.Assign, ast.AugAssign, ast.Delete)):
                    tgs = n.targets if isinstance(n, (ast.Assign, ast.Delete)) else [n.target]
                    for tg in tgs:
                        if isinstance(tg, ast.Subscript) and is_table(tg.value):
                            what = 'item assignment / deletion'
                if what:
                    sites.append((rel, fn.name, fn.lineno, fn.end_lineno, what))
    return sorted(set(sites))


# ---- (c'') what a new element shares with the per-type container template
def sharing_facts():
    facts = {}
    xe = parse('musicxml/xmlelement/xmlelement.py')
    f = find_func(xe, 'XMLElement', '_create_child_container_tree')
    if f is None:
        raise Fail('_create_child_container_tree not found')
    def is_copy_call(v):
        if not isinstance(v, ast.Call):
            return False
        fn = v.func
        if isinstance(fn, ast.Attribute) and fn.attr in ('copy', 'deepcopy', '__copy__', '__deepcopy__'):
            return True
        return isinstance(fn, ast.Name) and fn.id in ('copy', 'deepcopy')
    assigns = [n for n in ast.walk(f) if isinstance(n, ast.Assign) and any(isinstance(t, ast.Attribute) and t.attr == '_child_container_tree' for t in n.targets)]
    # a local bound exactly once in the function, to a copy call, may carry the copy to the store
    local_bind = {}
    for n in ast.walk(f):
        if isinstance(n, ast.Assign) and len(n.targets) == 1 and isinstance(n.targets[0], ast.Name):
            local_bind.setdefault(n.targets[0].id, []).append(n.value)
        elif isinstance(n, (ast.AugAssign, ast.AnnAssign, ast.For, ast.With, ast.NamedExpr)):
            for x in ast.walk(n.target if hasattr(n, 'target') else n):
                if isinstance(x, ast.Name) and isinstance(getattr(x, 'ctx', None), ast.Store):
                    local_bind.setdefault(x.id, []).append(None)
    def carries_copy(v):
        return is_copy_call(v) or (isinstance(v, ast.Name) and len(local_bind.get(v.id, [])) == 1 and local_bind[v.id][0] is not None and is_copy_call(local_bind[v.id][0]))
    facts['P1_template_copied'] = bool(assigns) and all(carries_copy(n.value) or (isinstance(n.value, ast.Constant) and n.value.value is None) for n in assigns)
    cc = parse('musicxml/xmlelement/xmlchildcontainer.py')
    f = find_func(cc, 'XMLChildContainer', '__copy__')
    if f is None:
        raise Fail('XMLChildContainer.__copy__ not found')
    ok_new = False
    ok_content = False
    for n in ast.walk(f):
        if isinstance(n, ast.Call) and isinstance(n.func, ast.Attribute) and n.func.attr == '__class__':
            ok_new = True
            for k in n.keywords:
                if k.arg == 'content':
                    ok_content = is_copy_call(k.value)
    adds = [n for n in ast.walk(f) if isinstance(n, ast.Call) and isinstance(n.func, ast.Attribute) and n.func.attr == 'add_child']
    ok_children = bool(adds) and all(a.args and is_copy_call(a.args[0]) for a in adds)
    facts['P2_container_copy_fresh'] = ok_new and ok_content and ok_children
    el = parse('musicxml/xsd/xsdelement.py')
    f = find_func(el, 'XSDElement', '__copy__')
    if f is None:
        raise Fail('XSDElement.__copy__ not found')
    rets = [n for n in ast.walk(f) if isinstance(n, ast.Return)]
    facts['P3_leaf_copy_is_new_instance'] = bool(rets) and all(isinstance(r.value, ast.Call) and isinstance(r.value.func, ast.Attribute) and r.value.func.attr == '__class__' for r in rets)
    f = find_func(el, 'XSDElement', '__init__')
    if f is None:
        raise Fail('XSDElement.__init__ not found')
    a = [n for n in ast.walk(f) if isinstance(n, ast.Assign) and any(isinstance(t, ast.Attribute) and t.attr == '_xml_elements' for t in n.targets)]
    facts['P4_leaf_list_fresh'] = len(a) == 1 and ((isinstance(a[0].value, ast.List) and not a[0].value.elts) or
                                                   (isinstance(a[0].value, ast.Call) and isinstance(a[0].value.func, ast.Name) and a[0].value.func.id == 'list' and not a[0].value.args))
    # XMLElement.__init__ creates the per-instance mutable fields afresh
    f = find_func(xe, 'XMLElement', '__init__')
    fresh = {}
    for n in ast.walk(f):
        if isinstance(n, ast.Assign):
            for t in n.targets:
                if isinstance(t, ast.Attribute) and isinstance(t.value, ast.Name) and t.value.id == 'self' and t.attr in ('_attributes', '_unordered_children'):
                    v = n.value
                    fresh[t.attr] = (isinstance(v, (ast.List, ast.Dict)) and not (getattr(v, 'elts', None) or getattr(v, 'keys', None)))
    facts['P5_element_fields_fresh'] = fresh.get('_attributes') is True and fresh.get('_unordered_children') is True
    return facts


# ---- (d) what __deepcopy__ rebuilds the copy from
def deepcopy_ir():
    f = find_func(parse('musicxml/xmlelement/xmlelement.py'), 'XMLElement', '__deepcopy__')
    if f is None:
        raise Fail('__deepcopy__ not found')
    first = f.body[0]
    if not (isinstance(first, ast.Assign) and isinstance(first.value, ast.Call)):
        raise Fail('first statement is not a constructor call')
    c = first.value
    # the local that holds the copy may have any name: it is reported under the canonical name `copied`
    if len(first.targets) != 1 or not isinstance(first.targets[0], ast.Name):
        raise Fail('the constructor call is not bound to a local')
    local = first.targets[0].id
    if local != 'copied':
        class Ren(ast.NodeTransformer):
            def visit_Name(self, n):
                return ast.copy_location(ast.Name(id='copied', ctx=n.ctx), n) if n.id == local else n
        if any(isinstance(n, ast.Name) and n.id == 'copied' for n in ast.walk(f)):
            raise Fail('both `copied` and another local hold the copy')
        f = Ren().visit(f)
        first = f.body[0]
        c = first.value
    kw = {(k.arg or '**'): ast.unparse(k.value) for k in c.keywords}
    later = []
    for st in f.body[1:]:
        if isinstance(st, ast.Assign) and len(st.targets) == 1 and isinstance(st.targets[0], ast.Attribute):
            t = st.targets[0]
            later.append((ast.unparse(t.value), t.attr, ast.unparse(st.value)))
        elif isinstance(st, ast.Expr) and isinstance(st.value, ast.Call) and isinstance(st.value.func, ast.Attribute):
            c = st.value
            later.append((ast.unparse(c.func.value), c.func.attr + '()', ', '.join(ast.unparse(a) for a in c.args)))
    return kw, later


def deepcopy_source(kw, later):
    """FromKwargs: the copy is built from the constructor's keyword arguments only.  FromAttributes: it receives a COPY of
    the current attribute dictionary.  Anything else (in particular sharing the dictionary) is UnknownSource."""
    def is_copy_of_attrs(expr):
        e = expr.replace(' ', '')
        return e in ('copy.deepcopy(self._attributes)', 'copy.deepcopy(self.attributes)', 'dict(self._attributes)', 'dict(self.attributes)',
                     '{**self._attributes}', '{**self.attributes}', 'copy.copy(self._attributes)', 'self._attributes.copy()', 'self.attributes.copy()')
    on_copy = [(a, v) for obj, a, v in later if obj == 'copied' and a in ('_attributes', '_set_attributes()')]
    star = kw.get('**')
    if star == 'self._kwargs' and not on_copy:
        return 'FromKwargs'
    if star is None and len(on_copy) == 1 and is_copy_of_attrs(on_copy[0][1]):
        return 'FromAttributes'
    return 'UnknownSource'



# ---- (f) the conversion ladders of the parser (musicxml/parser/parser.py)
def parser_ir():
    t = parse('musicxml/parser/parser.py')
    fns = {n.name: n for n in t.body if isinstance(n, ast.FunctionDef)}
    for need in ('_et_xml_to_music_xml', '_parse_node', 'parse_musicxml'):
        if need not in fns:
            raise Fail('parser: no function ' + need)
    others = [n for n in t.body if not isinstance(n, (ast.FunctionDef, ast.Import, ast.ImportFrom))]
    if others or set(fns) != {'_et_xml_to_music_xml', '_parse_node', 'parse_musicxml'}:
        raise Fail('parser: module-level state or extra functions (%s)' % ', '.join(sorted(set(fns)) + [type(n).__name__ for n in others]))
    def nodoc(stmts):
        return [x for x in stmts if not (isinstance(x, ast.Expr) and isinstance(x.value, ast.Constant))]
    f = fns['_et_xml_to_music_xml']
    body = nodoc(f.body)
    # text = node.text.strip() if node.text else ''      (as an if statement or as a conditional expression)
    if not body:
        raise Fail('parser: empty _et_xml_to_music_xml')
    i = body[0]
    if isinstance(i, ast.If):
        if ast.unparse(i.test) != 'node.text' or len(i.body) != 1 or len(i.orelse) != 1 or ast.unparse(i.body[0]) != 'text = node.text.strip()' or ast.unparse(i.orelse[0]) != "text = ''":
            raise Fail('parser: text preparation is not strip(): ' + ast.unparse(i))
    elif ast.unparse(i) != "text = node.text.strip() if node.text else ''":
        raise Fail('parser: text preparation is not strip(): ' + ast.unparse(i))
    body = body[1:]
    # optionally the class name is computed once into a local
    cls_exprs = ['eval(convert_to_xml_class_name(node.tag))']
    if body and isinstance(body[0], ast.Assign) and len(body[0].targets) == 1 and isinstance(body[0].targets[0], ast.Name) and ast.unparse(body[0].value) == 'convert_to_xml_class_name(node.tag)' \
            and body[0].targets[0].id not in ('text', 'node', 'output'):
        cls_exprs = ['eval(%s)' % body[0].targets[0].id]
        body = body[1:]
    if len(body) != 3 or not isinstance(body[0], ast.Try) or not isinstance(body[1], ast.For) or not isinstance(body[2], ast.Return):
        raise Fail('parser: _et_xml_to_music_xml is not  text; try; for; return')
    body = [None] + body

    def conv(expr, var):
        u = ast.unparse(expr)
        if u == var:
            return 'Id'
        if u == 'float(%s)' % var:
            return 'Float'
        if u == 'int(%s)' % var:
            return 'Int'
        raise Fail('parser: unknown conversion ' + u)

    def handler_names(h):
        if h.type is None:
            raise Fail('parser: bare except')
        if isinstance(h.type, ast.Tuple):
            return [ast.unparse(e) for e in h.type.elts]
        return [ast.unparse(h.type)]

    def ladder(node, rung_of):
        """node: a Try whose body is one statement and whose only handler holds either one statement or one nested Try"""
        out = []
        while True:
            if isinstance(node, ast.Try):
                if len(node.body) != 1 or len(node.handlers) != 1 or node.orelse or node.finalbody or len(node.handlers[0].body) != 1:
                    raise Fail('parser: ladder rung is not try: <one statement> except <E>: <one statement>')
                names = handler_names(node.handlers[0])
                for nme in names:
                    if nme not in ('TypeError', 'ValueError'):
                        raise Fail('parser: handler for ' + nme)
                out.append((rung_of(node.body[0]), names))
                node = node.handlers[0].body[0]
            else:
                out.append((rung_of(node), []))
                return out

    def text_rung(st):
        if not isinstance(st, ast.Assign) or ast.unparse(st.targets[0]) != 'output' or not isinstance(st.value, ast.Call):
            raise Fail('parser: text rung is not output = cls(value_=...)')
        c = st.value
        if ast.unparse(c.func) not in cls_exprs or c.args or len(c.keywords) != 1 or c.keywords[0].arg != 'value_':
            raise Fail('parser: text rung constructor: ' + ast.unparse(c))
        return conv(c.keywords[0].value, 'text')

    def attr_rung(st):
        if not isinstance(st, ast.Expr) or not isinstance(st.value, ast.Call) or ast.unparse(st.value.func) != 'setattr' or len(st.value.args) != 3:
            raise Fail('parser: attribute rung is not setattr(output, k, ...)')
        a = st.value.args
        if ast.unparse(a[0]) != 'output' or ast.unparse(a[1]) != kv[0]:
            raise Fail('parser: attribute rung target')
        return conv(a[2], kv[1])
    text = ladder(body[1], text_rung)
    fo = body[2]
    if not (isinstance(fo.target, ast.Tuple) and len(fo.target.elts) == 2 and all(isinstance(x, ast.Name) for x in fo.target.elts)) \
            or ast.unparse(fo.iter) != 'node.attrib.items()' or len(fo.body) != 1 or fo.orelse:
        raise Fail('parser: attribute loop: ' + ast.unparse(fo.target) + ' in ' + ast.unparse(fo.iter))
    kv = [fo.target.elts[0].id, fo.target.elts[1].id]
    if len(set(kv + ['output', 'node', 'text'])) != 5:
        raise Fail('parser: attribute loop variables shadow another name')
    attr = ladder(fo.body[0], attr_rung)
    if ast.unparse(body[3]) != 'return output':
        raise Fail('parser: return')
    pn = fns['_parse_node']
    exp = ['output = _et_xml_to_music_xml(xml_node)', 'for child in xml_node:\n    output.add_child(_parse_node(child))', 'return output']
    if [ast.unparse(x) for x in nodoc(pn.body)] != exp:
        raise Fail('parser: _parse_node is not  convert; add every child in file order; return')
    pm = fns['parse_musicxml']
    pb = nodoc(pm.body)
    okpm = len(pb) == 2 and isinstance(pb[0], ast.With) and len(pb[0].items) == 1 and isinstance(pb[0].items[0].optional_vars, ast.Name) and len(pb[0].body) == 1 \
        and isinstance(pb[0].body[0], ast.Assign) and len(pb[0].body[0].targets) == 1 and isinstance(pb[0].body[0].targets[0], ast.Name)
    if okpm:
        fvar, tvar = pb[0].items[0].optional_vars.id, pb[0].body[0].targets[0].id
        okpm = ast.unparse(pb[0].body[0].value) == 'ET.parse(%s)' % fvar and ast.unparse(pb[1]) == 'return _parse_node(%s.getroot())' % tvar and fvar != tvar
    if not okpm:
        raise Fail('parser: parse_musicxml is not  open; ET.parse; _parse_node(root)')
    return {'strip': True, 'text': text, 'attr': attr, 'children_in_file_order': True}


# ---- (g) order of checks and stores in XMLElement.add_child / remove / value_ setter
def element_effects():
    t = parse('musicxml/xmlelement/xmlelement.py')
    cls = [n for n in ast.walk(t) if isinstance(n, ast.ClassDef) and n.name == 'XMLElement']
    if len(cls) != 1:
        raise Fail('XMLElement class not found')
    fns = {}
    for f in cls[0].body:
        if isinstance(f, ast.FunctionDef):
            if f.name == 'value_' and any(ast.unparse(d) == 'value_.setter' for d in f.decorator_list):
                fns['value_set'] = f
            elif f.name in ('add_child', 'remove', 'replace_child') and not f.decorator_list:
                fns[f.name] = f
    for need in ('add_child', 'remove', 'value_set', 'replace_child'):
        if need not in fns:
            raise Fail('XMLElement.%s not found' % need)

    def classify(st, helpers):
        u = ast.unparse(st)
        if isinstance(st, ast.Expr) and isinstance(st.value, ast.Constant):
            return []
        if isinstance(st, ast.FunctionDef):
            helpers.add(st.name)
            return []
        if isinstance(st, ast.Raise):
            return ['Raise']
        if isinstance(st, ast.Return) or isinstance(st, ast.Delete):
            return []
        if isinstance(st, ast.If):
            test = ast.unparse(st.test)
            inner = []
            for x in st.body + st.orelse:
                inner += classify(x, helpers)
            if test in ('self.xsd_check', 'not self._child_container_tree') or test.startswith('parent_container.chosen_child ==') \
                    or (isinstance(st.test, ast.UnaryOp) and isinstance(st.test.op, ast.Not) and isinstance(st.test.operand, ast.Name)):
                return inner                  # `if not <a local list>:` guards a raise
            if test == "hasattr(old, '__call__')" and inner == ['ReadMayRaise', 'ReadMayRaise']:
                return ['ReadMayRaise']
            raise Fail('unrecognised condition: ' + test)
        if u.startswith('self._child_container_tree.add_element('):
            return ['Matcher']
        if u == 'self._unordered_children.remove(child)':
            return ['ListRemove']
        if u == 'self._unordered_children.append(child)':
            return ['Append']
        if u in ('child._parent = self', 'child._parent = None'):
            return ['SetParent']
        if u.startswith('self.TYPE(val') or u == 'self._check_child_to_be_added(new)':
            return ['Validate']
        if re.fullmatch(r"\w+ = \[ch for ch in self\.get_children\(ordered=True\) if .*\]", u, re.S) or re.fullmatch(r"old_index = self\._unordered_children\.index\(\w+\[index\]\)", u):
            return ['ReadMayRaise']
        # the same selection spelt as a loop that only appends to a local list
        if isinstance(st, ast.For) and not st.orelse and ast.unparse(st.iter) == 'self.get_children(ordered=True)':
            inner_st = st.body
            while len(inner_st) == 1 and isinstance(inner_st[0], ast.If) and not inner_st[0].orelse:
                inner_st = inner_st[0].body
            if len(inner_st) == 1 and isinstance(inner_st[0], ast.Expr) and isinstance(inner_st[0].value, ast.Call) and isinstance(inner_st[0].value.func, ast.Attribute) \
                    and inner_st[0].value.func.attr == 'append' and isinstance(inner_st[0].value.func.value, ast.Name):
                return ['ReadMayRaise']
        if isinstance(st, ast.Assign) and len(st.targets) == 1 and isinstance(st.targets[0], ast.Name) and (
                ast.unparse(st.value) in ('[]', 'list()') or (isinstance(st.value, ast.Call) and isinstance(st.value.func, ast.Name) and st.value.func.id in ('hasattr', 'isinstance', 'callable', 'len'))):
            return ['Read']
        if u in ('old_child = self._unordered_children[old_index]', 'parent_xsd_element = old_child.parent_xsd_element'):
            return ['Read']
        if u == 'self._unordered_children.remove(old_child)':
            return ['ListRemove']
        if u == 'self._unordered_children.insert(old_index, new)':
            return ['Append']
        if u in ('new._parent = self', 'old._parent = None'):
            return ['SetParent']
        if u == 'new.parent_xsd_element = parent_xsd_element' or u.startswith('parent_xsd_element._xml_elements = [new if el == old_child else el for el in'):
            return ['Container']
        if u == 'self._value = val':
            return ['Store']
        if isinstance(st, ast.Assign) and len(st.targets) == 1 and isinstance(st.targets[0], ast.Name):
            if any(isinstance(n, ast.Call) and call_name(n) not in ('get_parent',) for n in ast.walk(st.value)):
                raise Fail('local assignment with a call: ' + u)
            return ['Read']
        if isinstance(st, ast.Assign) and len(st.targets) == 1 and isinstance(st.targets[0], ast.Attribute):
            # a store into the container bookkeeping reached from a local (the child, its schema leaf, the leaf's container), never into self
            root = st.targets[0]
            while isinstance(root, ast.Attribute):
                root = root.value
            if isinstance(root, ast.Name) and root.id != 'self' and st.targets[0].attr not in ('_parent', '_unordered_children', '_value', '_attributes'):
                return ['Container']
        if isinstance(st, ast.Expr) and isinstance(st.value, ast.Call) and isinstance(st.value.func, ast.Attribute) and st.value.func.attr == 'remove' \
                and ast.unparse(st.value.func.value).endswith('.xml_elements') and not ast.unparse(st.value.func.value).startswith('self.') \
                and [ast.unparse(a) for a in st.value.args] == ['child']:
            return ['Container']                     # the child leaves its schema leaf's list (however the leaf is named)
        if isinstance(st, ast.Expr) and isinstance(st.value, ast.Call) and isinstance(st.value.func, ast.Name) and st.value.func.id in helpers \
                and all(isinstance(a, ast.Name) for a in st.value.args) and not st.value.keywords:
            return ['Container']                     # a nested helper (container bookkeeping), with or without its locals passed in
        raise Fail('unrecognised statement: ' + u[:80])
    out = {}
    for k, f in fns.items():
        f = inline_self_aliases(f)
        helpers = set()
        eff = []
        for st in f.body:
            eff += classify(st, helpers)
        out[k] = eff
    return out



def inline_self_aliases(fn):
    """a copy of the function's body in which every local that is bound exactly once, to a plain attribute chain on self (no call), and only read
    afterwards, is replaced by that attribute chain (so `c = self._child_container_tree ... c.add_element(x)` reads like the direct spelling)"""
    import copy as _copy
    fn = _copy.deepcopy(fn)
    binds = {}
    stores = {}
    for n in ast.walk(fn):
        if isinstance(n, ast.Name) and isinstance(n.ctx, (ast.Store, ast.Del)):
            stores[n.id] = stores.get(n.id, 0) + 1
    for st in ast.walk(fn):
        if isinstance(st, ast.Assign) and len(st.targets) == 1 and isinstance(st.targets[0], ast.Name):
            v = st.value
            chain = v
            while isinstance(chain, ast.Attribute):
                chain = chain.value
            if isinstance(v, ast.Attribute) and isinstance(chain, ast.Name) and chain.id == 'self' and stores.get(st.targets[0].id) == 1:
                binds[st.targets[0].id] = (st, v)
    if not binds:
        return fn

    class Sub(ast.NodeTransformer):
        def visit_Name(self, n):
            if n.id in binds and isinstance(n.ctx, ast.Load):
                return _copy.deepcopy(binds[n.id][1])
            return n

        def generic_visit(self, node):
            for field in ('body', 'orelse', 'finalbody'):
                if isinstance(getattr(node, field, None), list):
                    setattr(node, field, [x for x in getattr(node, field) if not any(x is b[0] for b in binds.values())])
            return super().generic_visit(node)
    return ast.fix_missing_locations(Sub().visit(fn))

# ---- (h) gating of the final checks by xsd_check (XMLElement._final_checks, to_string)
def gating_ir():
    t = parse('musicxml/xmlelement/xmlelement.py')
    fc = find_func(t, 'XMLElement', '_final_checks')
    ts = find_func(t, 'XMLElement', 'to_string')
    if fc is None or ts is None:
        raise Fail('_final_checks / to_string not found')
    fc, ts = inline_self_aliases(fc), inline_self_aliases(ts)

    def is_doc(st):
        return isinstance(st, ast.Expr) and isinstance(st.value, ast.Constant)

    def own_checks(stmts):
        """the element's own requirements: value, required children, required attributes - and nothing else"""
        seen = []
        for st in stmts:
            u = ast.unparse(st)
            if u == 'self._check_required_value()':
                seen.append('value')
            elif u == 'self._check_required_attributes()':
                seen.append('attributes')
            elif isinstance(st, ast.If) and ast.unparse(st.test) == 'self._child_container_tree' and not st.orelse and \
                    'get_required_element_names' in u and 'raise XMLElementChildrenRequired' in u:
                seen.append('children')
            else:
                raise Fail('_final_checks: unrecognised own check: ' + u[:80])
        if sorted(seen) != ['attributes', 'children', 'value']:
            raise Fail('_final_checks: own checks are %s' % seen)

    def is_recursion(st):
        return isinstance(st, ast.For) and ast.unparse(st.iter) == 'self.get_children()' and not st.orelse and len(st.body) == 1 and \
            ast.unparse(st.body[0]) == '%s._final_checks(intelligent_choice=intelligent_choice)' % ast.unparse(st.target)
    body = [st for st in fc.body if not is_doc(st)]
    if len(body) == 2 and isinstance(body[0], ast.If) and ast.unparse(body[0].test) == 'self.xsd_check' and not body[0].orelse and is_recursion(body[1]):
        own_checks(body[0].body)
        shape = 'GuardOwnThenRecurse'
    elif len(body) == 1 and isinstance(body[0], ast.If) and ast.unparse(body[0].test) == 'self.xsd_check' and not body[0].orelse and is_recursion(body[0].body[-1]):
        own_checks(body[0].body[:-1])
        shape = 'GuardAll'
    elif body and is_recursion(body[-1]):
        own_checks(body[:-1])
        shape = 'NoGuard'
    else:
        raise Fail('_final_checks: unrecognised shape')
    tb = [st for st in ts.body if not is_doc(st)]
    if len(tb) >= 2 and isinstance(tb[-2], ast.Assign) and len(tb[-2].targets) == 1 and isinstance(tb[-2].targets[0], ast.Name) \
            and ast.unparse(tb[-2].value) == "ET.tostring(self.et_xml_element, encoding='unicode')" \
            and ast.unparse(tb[-1]) in ("return %s + '\\n'" % tb[-2].targets[0].id, "return f'{%s}\\n'" % tb[-2].targets[0].id):
        tb = tb[:-2] + [ast.parse("return ET.tostring(self.et_xml_element, encoding='unicode') + '\\n'").body[0]]
    tail = ['self._create_et_xml_element()', "return ET.tostring(self.et_xml_element, encoding='unicode') + '\\n'"]
    call = 'self._final_checks(intelligent_choice=intelligent_choice)'
    if len(tb) == 3 and isinstance(tb[0], ast.If) and ast.unparse(tb[0].test) == 'self.xsd_check' and not tb[0].orelse and \
            [ast.unparse(x) for x in tb[0].body] == [call] and [ast.unparse(x) for x in tb[1:]] == tail:
        guarded = True
    elif len(tb) == 3 and ast.unparse(tb[0]) == call and [ast.unparse(x) for x in tb[1:]] == tail:
        guarded = False
    else:
        raise Fail('to_string: unrecognised shape: ' + ' | '.join(ast.unparse(x)[:50] for x in tb))
    return {'final_checks_shape': shape, 'to_string_guarded': guarded}


# ---- (i) what serialisation reads and writes (XMLElement._create_et_xml_element, et_xml_element)
def serialise_ir():
    t = parse('musicxml/xmlelement/xmlelement.py')
    f = find_func(t, 'XMLElement', '_create_et_xml_element')
    g = None
    for n in ast.walk(t):
        if isinstance(n, ast.ClassDef) and n.name == 'XMLElement':
            for x in n.body:
                if isinstance(x, ast.FunctionDef) and x.name == 'et_xml_element' and any(ast.unparse(d) == 'property' for d in x.decorator_list):
                    g = x
    if f is None or g is None:
        raise Fail('_create_et_xml_element / et_xml_element not found')
    exp = ['self._et_xml_element = ET.Element(self.name, {k: str(v) for k, v in self.attributes.items()})',
           'if self.value_ is not None:\n    self._et_xml_element.text = str(self.value_)',
           'for child in self.get_children():\n    self._et_xml_element.append(child.et_xml_element)',
           "ET.indent(self._et_xml_element, space='  ', level=self.get_level())"]
    body = [st for st in f.body if not (isinstance(st, ast.Expr) and isinstance(st.value, ast.Constant))]
    got = [ast.unparse(st) for st in body]
    if got[:1] != exp[:1]:
        # the same dictionary spelt as a loop:  [tag = self.name;]  D = {};  for a, b in self.attributes.items(): D[a] = str(b);  ... = ET.Element(self.name | tag, D)
        i = 0
        tag = None
        if i < len(body) and isinstance(body[i], ast.Assign) and len(body[i].targets) == 1 and isinstance(body[i].targets[0], ast.Name) and ast.unparse(body[i].value) == 'self.name':
            tag = body[i].targets[0].id
            i += 1
        if i + 2 < len(body) and isinstance(body[i], ast.Assign) and len(body[i].targets) == 1 and isinstance(body[i].targets[0], ast.Name) and ast.unparse(body[i].value) in ('{}', 'dict()'):
            d = body[i].targets[0].id
            lp = body[i + 1]
            ok = isinstance(lp, ast.For) and not lp.orelse and ast.unparse(lp.iter) == 'self.attributes.items()' and isinstance(lp.target, ast.Tuple) and len(lp.target.elts) == 2 \
                and all(isinstance(x, ast.Name) for x in lp.target.elts) and len(lp.body) == 1
            if ok:
                a, b = lp.target.elts[0].id, lp.target.elts[1].id
                ok = ast.unparse(lp.body[0]) == '%s[%s] = str(%s)' % (d, a, b) and len({a, b, d, tag}) == 4 - (tag is None) + (tag is None)
            if ok and ast.unparse(body[i + 2]) in ('self._et_xml_element = ET.Element(self.name, %s)' % d,) + (('self._et_xml_element = ET.Element(%s, %s)' % (tag, d),) if tag else ()):
                rest = body[i + 3:]
                # the locals of the loop must not be used afterwards
                later = {n.id for st in rest for n in ast.walk(st) if isinstance(n, ast.Name)}
                if not ({a, b, d} & later) and (tag is None or tag not in later):
                    got = [exp[0]] + [ast.unparse(st) for st in rest]
    if got != exp:
        raise Fail('_create_et_xml_element has changed: ' + ' | '.join(x[:60] for x in got))
    gb = [ast.unparse(st) for st in g.body if not (isinstance(st, ast.Expr) and isinstance(st.value, ast.Constant))]
    if gb != ['self._create_et_xml_element()', 'return self._et_xml_element']:
        raise Fail('et_xml_element has changed: ' + ' | '.join(gb))
    stores = set()
    for fn in (f, g):
        for n in ast.walk(fn):
            if isinstance(n, (ast.Assign, ast.AugAssign)):
                for tg in (n.targets if isinstance(n, ast.Assign) else [n.target]):
                    root = tg
                    chain = []
                    while isinstance(root, (ast.Attribute, ast.Subscript)):
                        if isinstance(root, ast.Attribute):
                            chain.append(root.attr)
                        root = root.value
                    if isinstance(root, ast.Name) and root.id == 'self':
                        stores.add(chain[-1])
                    elif isinstance(root, ast.Name) and root.id in ('k', 'v', 'child'):
                        raise Fail('serialisation assigns through ' + root.id)
    return {'stores': sorted(stores), 'attributes': 'all of self.attributes, str(v)', 'text': 'str(self.value_) unless None', 'children': 'get_children() order'}


# ---- (j) decision table of the child shortcut  e.xml_x = value  (XMLElement._convert_attribute_to_child)
def shortcut_ir():
    t = parse('musicxml/xmlelement/xmlelement.py')
    f = find_func(t, 'XMLElement', '_convert_attribute_to_child')
    if f is None:
        raise Fail('_convert_attribute_to_child not found')
    body = [st for st in f.body if not (isinstance(st, ast.Expr) and isinstance(st.value, ast.Constant))]
    # a local bound once to child_name.split('_') may stand for that expression
    for k_, st in enumerate(body[:4]):
        if isinstance(st, ast.Assign) and len(st.targets) == 1 and isinstance(st.targets[0], ast.Name) and ast.unparse(st.value) == "child_name.split('_')":
            loc = st.targets[0].id
            stores = [n for x in body for n in ast.walk(x) if isinstance(n, ast.Name) and n.id == loc and isinstance(n.ctx, ast.Store)]
            if len(stores) == 1 and loc not in ('name', 'value', 'child_name', 'child_class_name', 'child_class', 'found_child', 'self'):
                class Sub(ast.NodeTransformer):
                    def visit_Name(self, n):
                        if n.id == loc and isinstance(n.ctx, ast.Load):
                            return ast.parse("child_name.split('_')", mode='eval').body
                        return n
                body = [ast.fix_missing_locations(Sub().visit(x)) for j_, x in enumerate(body) if j_ != k_]
            break
    src = [ast.unparse(st) for st in body]
    head = ["if not name.startswith('xml_'):\n    raise NameError", "child_name = name.replace('xml_', '')",
            "if '-'.join(child_name.split('_')) not in self.possible_children_names:\n    raise NameError",
            "child_class_name = 'XML' + ''.join([cap_first(partial) for partial in child_name.split('_')])",
            'child_class = eval(child_class_name)', 'found_child = self.find_child(child_class_name)']
    if src[:6] != head or len(body) != 7 or not isinstance(body[6], ast.If):
        raise Fail('_convert_attribute_to_child: preamble changed')
    acts = {'self.replace_child(found_child, value)': 'Replace', 'self.add_child(value)': 'AddGiven', 'self.remove(found_child)': 'Remove',
            'found_child.value_ = value': 'SetValue', 'self.add_child(child_class(value))': 'AddNew'}

    def branch(stmts):
        """stmts: [if found_child: A else: B]  or  [if found_child: A]"""
        if len(stmts) != 1 or not isinstance(stmts[0], ast.If) or ast.unparse(stmts[0].test) != 'found_child':
            raise Fail('_convert_attribute_to_child: branch is not `if found_child`')

        def one(ss):
            if not ss:
                return 'Nothing'
            if len(ss) != 1 or ast.unparse(ss[0]) not in acts:
                raise Fail('_convert_attribute_to_child: unknown action ' + ' ; '.join(ast.unparse(x) for x in ss)[:80])
            return acts[ast.unparse(ss[0])]
        return one(stmts[0].body), one(stmts[0].orelse)
    table = {}
    node = body[6]
    kinds = {'isinstance(value, child_class)': 'Instance', 'value is None': 'IsNone'}
    while True:
        k = kinds.get(ast.unparse(node.test))
        if k is None or k in table:
            raise Fail('_convert_attribute_to_child: unknown test ' + ast.unparse(node.test))
        table[k] = branch(node.body)
        if len(node.orelse) == 1 and isinstance(node.orelse[0], ast.If) and ast.unparse(node.orelse[0].test) != 'found_child':
            node = node.orelse[0]
            continue
        table['Other'] = branch(node.orelse)
        break
    if set(table) != {'Instance', 'IsNone', 'Other'}:
        raise Fail('_convert_attribute_to_child: cases ' + str(sorted(table)))
    return table


# ---- (k) attribute assignment: XMLElement.__setattr__ dispatch, _set_attributes, _check_attribute (exact statement shapes; any edit fails closed)
def attr_set_ir():
    t = parse('musicxml/xmlelement/xmlelement.py')
    sa = find_func(t, 'XMLElement', '_set_attributes')
    ca = find_func(t, 'XMLElement', '_check_attribute')
    st_ = find_func(t, 'XMLElement', '__setattr__')
    if sa is None or ca is None or st_ is None:
        raise Fail('attribute setters not found')

    def body(f):
        return [ast.unparse(x) for x in f.body if not (isinstance(x, ast.Expr) and isinstance(x.value, ast.Constant))]
    sb = [x for x in sa.body if not (isinstance(x, ast.Expr) and isinstance(x.value, ast.Constant))]
    b = [ast.unparse(x) for x in sb]
    path_common, none_path, value_path = [], [], []
    if len(b) < 6 or b[0] != 'if val is None:\n    return':
        raise Fail('_set_attributes[0]')
    if not (b[1].startswith('if self.TYPE.get_xsd_tree().is_simple_type:\n    if val:\n        raise XSDWrongAttribute(') and b[1].endswith('elif not isinstance(val, dict):\n    raise TypeError')):
        raise Fail('_set_attributes[1]')
    path_common += ['Raise', 'Raise']
    if b[2] != 'new_attributes = replace_key_underline_with_hyphen(dict_=val)':
        raise Fail('_set_attributes[2]')
    # the rest, read by what each statement DOES (names, comprehension vs loop, try/except vs pop default are free):
    #   Read*      locals computed from new_attributes (the keys whose value is None)
    #   PopNone    a loop over those keys that only pops them from new_attributes and from the element's attribute dict
    #   Validate   a loop over what is left that only calls self._check_attribute(key, value) for every entry
    #   Merge      self._attributes = {**self._attributes, **new_attributes}
    kinds = []
    nonekeys = set()
    for st in sb[3:]:
        u = ast.unparse(st)
        if isinstance(st, ast.Assign) and len(st.targets) == 1 and isinstance(st.targets[0], ast.Name) and isinstance(st.value, (ast.DictComp, ast.ListComp, ast.SetComp)) \
                and len(st.value.generators) == 1 and ast.unparse(st.value.generators[0].iter) == 'new_attributes.items()' \
                and len(st.value.generators[0].ifs) == 1 and isinstance(st.value.generators[0].ifs[0], ast.Compare) and ast.unparse(st.value.generators[0].ifs[0]).endswith(' is None'):
            nonekeys.add(st.targets[0].id)
            kinds.append('Read')
        elif isinstance(st, ast.For) and not st.orelse and isinstance(st.target, ast.Name) and isinstance(st.iter, ast.Name) and st.iter.id in nonekeys:
            k_ = st.target.id
            ok = len(st.body) == 2 and ast.unparse(st.body[0]) == 'new_attributes.pop(%s)' % k_
            second = ast.unparse(st.body[1]) if ok else ''
            ok = ok and second in ('try:\n    self.attributes.pop(%s)\nexcept KeyError:\n    pass' % k_, 'self.attributes.pop(%s, None)' % k_, 'self._attributes.pop(%s, None)' % k_)
            if not ok:
                raise Fail('_set_attributes: the loop over the None keys does more than pop them')
            kinds.append('PopNone')
        elif isinstance(st, ast.For) and not st.orelse and len(st.body) == 1:
            tg, it, bd = ast.unparse(st.target), ast.unparse(st.iter), ast.unparse(st.body[0])
            if (it == 'new_attributes' and bd == 'self._check_attribute(%s, new_attributes[%s])' % (tg, tg)) or \
               (it == 'new_attributes.items()' and isinstance(st.target, ast.Tuple) and len(st.target.elts) == 2 and bd == 'self._check_attribute(%s, %s)' % (ast.unparse(st.target.elts[0]), ast.unparse(st.target.elts[1]))):
                kinds.append('Validate')
            else:
                raise Fail('_set_attributes: unrecognised loop: ' + u[:80])
        elif u == 'self._attributes = {**self._attributes, **new_attributes}':
            kinds.append('Merge')
        else:
            raise Fail('_set_attributes: unrecognised statement: ' + u[:80])
    if kinds != ['Read', 'PopNone', 'Validate', 'Merge']:
        raise Fail('_set_attributes: order of effects is %s' % kinds)
    path_common += ['Read', 'Read']
    none_path = path_common + ['Store', 'Store']          # a key whose value is None: popped, nothing to check, merge of an empty dict
    value_path = path_common + ['Validate', 'Store']      # a key with a value: checked, then stored by the merge
    many_path = path_common + ['Store', 'Validate', 'Store']
    # _check_attribute: what the theorems use is that it only CHECKS (no store to anything but its own locals, no call of a mutating method);
    # what it accepts is tied by the correspondence of C04 (extracted set_attr vs the implementation)
    for n in ast.walk(ca):
        if isinstance(n, ast.Call) and isinstance(n.func, ast.Attribute) and n.func.attr in (
                'pop', 'append', 'update', 'remove', 'clear', 'extend', 'insert', 'setdefault', 'popitem', '__setattr__', '__setitem__', '__delitem__', 'add', 'discard', 'sort', 'reverse'):
            raise Fail('_check_attribute calls a mutating method: ' + n.func.attr)
        if isinstance(n, ast.Call) and isinstance(n.func, ast.Name) and n.func.id in ('setattr', 'delattr'):
            raise Fail('_check_attribute calls ' + n.func.id)
        if isinstance(n, (ast.Delete, ast.Global, ast.Nonlocal)):
            raise Fail('_check_attribute: del / global')
    for n in ast.walk(ca):
        if isinstance(n, (ast.Assign, ast.AugAssign)):
            for tg in (n.targets if isinstance(n, ast.Assign) else [n.target]):
                if not isinstance(tg, ast.Name):
                    raise Fail('_check_attribute stores')
    stb = [x for x in st_.body if not (isinstance(x, ast.Expr) and isinstance(x.value, ast.Constant))]
    if len(stb) == 2 and isinstance(stb[0], ast.If) and not stb[0].orelse and isinstance(stb[0].body[-1], ast.Return) and stb[0].body[-1].value is None and isinstance(stb[1], ast.If):
        # if A: X; return  /  if B: ... else: ...   ==   if A: X  elif B: ... else: ...
        merged = ast.If(test=stb[0].test, body=stb[0].body[:-1], orelse=[stb[1]])
        d = [ast.unparse(ast.fix_missing_locations(merged))]
    else:
        d = [ast.unparse(x) for x in stb]
    exp = ("if key[0] == '_' or key in self._PROPERTIES:\n    super().__setattr__(key, value)\nelif key.startswith('xml_'):\n    try:\n        self._convert_attribute_to_child(name=key, value=value)\n"
           "    except NameError:\n        raise AttributeError(self._get_attributes_error_message(key))\nelse:\n    try:\n        self._set_attributes({key: value})\n    except XSDWrongAttribute:\n"
           "        raise AttributeError(self._get_attributes_error_message(key))")
    if d != [exp]:
        raise Fail('__setattr__ changed')
    return {'none_path': none_path, 'value_path': value_path, 'many_path': many_path, 'dispatch': ['PrivateOrProperty', 'ChildShortcut', 'SingleAttribute']}


def cq(s):
    return q(str(s))


def main():
    o = ['From Coq Require Import List String Bool NArith.', 'Import ListNotations.', 'Open Scope string_scope.',
         'Inductive effect := EOpen (mode : string) (enc : option string) | EWrite (what : string) | EValidate | EClose.']
    side = {}
    try:
        eff = write_effects()
        side['write_effects'] = eff

        def e1(e):
            if e[0] == 'Open':
                return 'EOpen %s %s' % (cq(e[1]), 'None' if e[2] is None else '(Some %s)' % cq(e[2]))
            if e[0] == 'Write':
                return 'EWrite ' + cq(e[1])
            return 'E' + e[0]
        o.append('Definition tr_write_ok := true.')
        o.append('Definition write_effects : list effect := [' + '; '.join(e1(e) for e in eff) + '].')
    except Fail as ex:
        side['write_effects'] = 'FAILED: ' + str(ex)
        o.append('Definition tr_write_ok := false. (* %s *)' % str(ex).replace('*', ' '))
        o.append('Definition write_effects : list effect := [].')
    try:
        opens, prints = io_sites()
        side['opens'], side['prints'] = opens, prints
        o.append('Definition tr_io_ok := true.')
        o.append('(* file, line, mode, explicit encoding *)')
        o.append('Definition open_sites : list (string * N * string * option string) := [' + '; '.join(
            '(%s, %d%%N, %s, %s)' % (cq(f), ln, cq(m), 'None' if e is None else '(Some %s)' % cq(e)) for f, ln, m, e in opens) + '].')
        o.append('Definition print_sites : list (string * N) := [' + '; '.join('(%s, %d%%N)' % (cq(f), ln) for f, ln in prints) + '].')
    except Fail as ex:
        side['opens'] = 'FAILED: ' + str(ex)
        o.append('Definition tr_io_ok := false.')
        o.append('Definition open_sites : list (string * N * string * option string) := [].')
        o.append('Definition print_sites : list (string * N) := [].')
    o.append('Inductive cache_shape := PublishThenFill | ComputeThenPublish | UnknownShape.')
    caches = []
    for rel, cls, fn, attr in (('musicxml/xsd/xsdcomplextype.py', 'XSDComplexType', 'get_xsd_attributes', '_XSD_ATTRIBUTES'),
                               ('musicxml/xsd/xsdattribute.py', 'XSDAttributeGroup', 'get_xsd_attributes', '_XSD_ATTRIBUTES')):
        try:
            shape, pub, muts = lazy_cache(rel, cls, fn, attr)
        except Fail as ex:
            shape, pub, muts = 'UnknownShape', 0, []
            side.setdefault('cache_fail', []).append(str(ex))
        caches.append((cls, shape, pub, muts))
    side['caches'] = caches
    o.append('Definition cache_sites : list (string * cache_shape) := [' + '; '.join('(%s, %s)' % (cq(c), s) for c, s, _, _ in caches) + '].')
    cls_sites = class_level_stores()
    side['class_level_stores'] = cls_sites
    o.append('(* every store to a class-level attribute in the library: file, function, attribute, line, shape *)')
    o.append('Inductive store_shape := SPublishThenFill | SSingleStore | SReadModifyWrite.')
    o.append('Definition class_level_stores : list (string * string * string * N * store_shape) := [' + ';\n '.join(
        '(%s, %s, %s, %d%%N, %s)' % (cq(f), cq(fn), cq(a), ln, 'S' + sh) for f, fn, _, _, a, ln, sh in cls_sites) + '].')
    lz = lazy_instance_stores()
    side['lazy_instance_stores'] = lz
    o.append('(* every lazily initialised instance attribute (if self.a is None: ... self.a = ...): file, function, attribute, line, shape *)')
    o.append('Inductive lazy_shape := LSingleStore | LLoopStore | LUnreferenced | LUnsafe.')
    o.append('Definition lazy_instance_stores : list (string * string * string * N * lazy_shape) := [' + ';\n '.join(
        '(%s, %s, %s, %d%%N, %s)' % (cq(f), cq(fn), cq(a), ln, 'L' + sh) for f, fn, _, _, a, ln, sh in lz) + '].')
    try:
        ics = inherited_class_slots()
        side['inherited_class_slots'] = ics
        o.append('(* (attribute, base class, derived class): both classes are instantiable, the base fills its class-level slot lazily and the derived class reads it through the MRO *)')
        o.append('Definition tr_class_slots_ok := true.')
        o.append('Definition inherited_class_slots : list (string * string * string) := [' + '; '.join('(%s, %s, %s)' % (cq(a), cq(b), cq(d)) for a, b, d in ics) + '].')
    except Fail as ex:
        side['inherited_class_slots'] = 'FAILED: ' + str(ex)
        o.append('Definition tr_class_slots_ok := false.')
        o.append('Definition inherited_class_slots : list (string * string * string) := [].')
    try:
        stb = slot_tables()
        side['slot_tables'] = [[a, k, len(f), sum(1 for r in rows if r[2])] for a, k, f, rows in stb]
        o.append('(* per class-level store site: the class table of its family - row i = (strict ancestors of class i inside the family in C3 order, what its body binds: 0 / 1 rejected literal / 2, instantiable) *)')
        o.append('Definition tr_slot_tables_ok := true.')
        o.append('Definition slot_tables : list (string * string * list (list nat * nat * bool)) := [' + ';\n '.join(
            '(%s, %s, [%s])' % (cq(a), cq(k), '; '.join('([%s], %d, %s)' % ('; '.join(map(str, m)), st, 'true' if u else 'false') for m, st, u in rows)) for a, k, f, rows in stb) + '].')
    except Fail as ex:
        side['slot_tables'] = 'FAILED: ' + str(ex)
        o.append('Definition tr_slot_tables_ok := false.')
        o.append('Definition slot_tables : list (string * string * list (list nat * nat * bool)) := [].')
    stm = shared_table_mutations()
    side['shared_table_mutations'] = stm
    o.append('(* in-place mutations of a value obtained from a class-level table getter (file, function, what): none allowed *)')
    o.append('Definition shared_table_mutations : list (string * string * string) := [' + '; '.join('(%s, %s, %s)' % (cq(f), cq(fn), cq(w)) for f, fn, _, _, w in stm) + '].')
    try:
        sf = sharing_facts()
        side['sharing'] = sf
        o.append('Definition tr_sharing_ok := true.')
        o.append('Definition sharing_facts : list (string * bool) := [' + '; '.join('(%s, %s)' % (cq(k), 'true' if v else 'false') for k, v in sorted(sf.items())) + '].')
    except Fail as ex:
        side['sharing'] = 'FAILED: ' + str(ex)
        o.append('Definition tr_sharing_ok := false.')
        o.append('Definition sharing_facts : list (string * bool) := [].')
    try:
        kw, later = deepcopy_ir()
        side['deepcopy'] = {'ctor_kwargs': kw, 'later': later}
        src = deepcopy_source(kw, later)
        side['deepcopy']['source'] = src
        o.append('Definition tr_deepcopy_ok := true.')
        o.append('Definition deepcopy_source_name : string := %s.' % cq(src))
        o.append('Definition deepcopy_ctor : list (string * string) := [' + '; '.join('(%s, %s)' % (cq(k), cq(v)) for k, v in sorted(kw.items())) + '].')
        o.append('Definition deepcopy_later : list (string * string * string) := [' + '; '.join('(%s, %s, %s)' % (cq(a), cq(b), cq(c)) for a, b, c in later) + '].')
    except Fail as ex:
        side['deepcopy'] = 'FAILED: ' + str(ex)
        o.append('Definition tr_deepcopy_ok := false.')
        o.append('Definition deepcopy_source_name : string := "UnknownSource".')
        o.append('Definition deepcopy_ctor : list (string * string) := [].')
        o.append('Definition deepcopy_later : list (string * string * string) := [].')
    o.append('Inductive conv := CId | CFloat | CInt.')
    o.append('Inductive pexn := PTypeError | PValueError.')
    try:
        pir = parser_ir()
        side['parser'] = pir

        def lad(l):
            return '[' + '; '.join('(C%s, [%s])' % (c, '; '.join('P' + h for h in hs)) for c, hs in l) + ']'
        o.append('Definition tr_parser_ok := true.')
        o.append('Definition parser_text_ladder : list (conv * list pexn) := %s.' % lad(pir['text']))
        o.append('Definition parser_attr_ladder : list (conv * list pexn) := %s.' % lad(pir['attr']))
    except Fail as ex:
        side['parser'] = 'FAILED: ' + str(ex)
        o.append('Definition tr_parser_ok := false. (* %s *)' % str(ex).replace('*', ' ').replace('\n', ' '))
        o.append('Definition parser_text_ladder : list (conv * list pexn) := [].')
        o.append('Definition parser_attr_ladder : list (conv * list pexn) := [].')
    o.append('Inductive eeff := XRaise | XMatcher | XListRemove | XAppend | XSetParent | XRead | XReadMayRaise | XContainer | XValidate | XStore.')
    try:
        ee = element_effects()
        side['element_effects'] = ee
        o.append('Definition tr_element_ok := true.')
        for k in ('add_child', 'remove', 'value_set', 'replace_child'):
            o.append('Definition elt_%s : list eeff := [%s].' % (k, '; '.join('X' + e for e in ee[k])))
    except Fail as ex:
        side['element_effects'] = 'FAILED: ' + str(ex)
        o.append('Definition tr_element_ok := false. (* %s *)' % str(ex).replace('*', ' ').replace('\n', ' '))
        for k in ('add_child', 'remove', 'value_set', 'replace_child'):
            o.append('Definition elt_%s : list eeff := [].' % k)
    o.append('Inductive gating_shape := GuardOwnThenRecurse | GuardAll | NoGuard.')
    try:
        gi = gating_ir()
        side['gating'] = gi
        o.append('Definition tr_gating_ok := true.')
        o.append('Definition final_checks_shape := %s.' % gi['final_checks_shape'])
        o.append('Definition to_string_guarded := %s.' % ('true' if gi['to_string_guarded'] else 'false'))
    except Fail as ex:
        side['gating'] = 'FAILED: ' + str(ex)
        o.append('Definition tr_gating_ok := false. (* %s *)' % str(ex).replace('*', ' ').replace('\n', ' '))
        o.append('Definition final_checks_shape := NoGuard.')
        o.append('Definition to_string_guarded := false.')
    try:
        si = serialise_ir()
        side['serialise'] = si
        o.append('Definition tr_serialise_ok := true.')
        o.append('Definition serialise_stores : list string := [' + '; '.join(cq(x) for x in si['stores']) + '].')
    except Fail as ex:
        side['serialise'] = 'FAILED: ' + str(ex)
        o.append('Definition tr_serialise_ok := false. (* %s *)' % str(ex).replace('*', ' ').replace('\n', ' '))
        o.append('Definition serialise_stores : list string := [].')
    try:
        ai = attr_set_ir()
        side['attr_set'] = ai
        o.append('Definition tr_attr_set_ok := true.')
        for k in ('none_path', 'value_path', 'many_path'):
            o.append('Definition attr_%s : list eeff := [%s].' % (k, '; '.join('X' + e for e in ai[k])))
    except Fail as ex:
        side['attr_set'] = 'FAILED: ' + str(ex)
        o.append('Definition tr_attr_set_ok := false. (* %s *)' % str(ex).replace('*', ' ').replace('\n', ' '))
        for k in ('none_path', 'value_path', 'many_path'):
            o.append('Definition attr_%s : list eeff := [].' % k)
    o.append('Inductive sc_action := ScReplace | ScAddGiven | ScRemove | ScSetValue | ScAddNew | ScNothing.')
    o.append('Inductive sc_kind := ScInstance | ScIsNone | ScOther.')
    try:
        sc = shortcut_ir()
        side['shortcut'] = sc
        o.append('Definition tr_shortcut_ok := true.')
        o.append('(* value kind -> (action when a child of that class is present, action when not) *)')
        o.append('Definition shortcut_table : list (sc_kind * (sc_action * sc_action)) := [' + '; '.join(
            '(Sc%s, (Sc%s, Sc%s))' % (k, sc[k][0], sc[k][1]) for k in ('Instance', 'IsNone', 'Other')) + '].')
    except Fail as ex:
        side['shortcut'] = 'FAILED: ' + str(ex)
        o.append('Definition tr_shortcut_ok := false. (* %s *)' % str(ex).replace('*', ' ').replace('\n', ' '))
        o.append('Definition shortcut_table : list (sc_kind * (sc_action * sc_action)) := [].')
    ch = write_if_changed(os.path.join(VERIF, 'coq', 'Gen', 'Code.v'), '\n'.join(o) + '\n')
    write_if_changed(os.path.join(VERIF, 'build', 'code.json'), json.dumps(side, sort_keys=True, indent=1))
    print('code: write=%s opens=%s prints=%s caches=%s changed=%s' % (
        side.get('write_effects'), len(side['opens']) if isinstance(side.get('opens'), list) else side.get('opens'),
        side.get('prints'), [(c, s) for c, s, _, _ in caches], ch))


if __name__ == '__main__':
    main()
