"""Regenerate coq/Gen/*.v and build/gen.json from /repo (schema side: tr/schema.py, independent of the package;
library side: tr/lib.py, run in a /venv/bin/python subprocess).  Files are rewritten only when their content changes,
so `make` re-checks exactly what depends on what changed."""
import json
import os
import subprocess
import sys

HERE = os.path.dirname(os.path.abspath(__file__))
VERIF = os.path.dirname(HERE)
sys.path.insert(0, HERE)
import schema as SCH  # noqa: E402

REPO = os.environ.get('VERIF_REPO', '/repo')
PY = os.environ.get('VERIF_PY', '/venv/bin/python')


def q(s):
    return '"' + s.replace('"', '""') + '"'


def cbool(b):
    return 'true' if b else 'false'


def write_if_changed(path, text):
    try:
        if open(path, encoding='utf-8').read() == text:
            return False
    except OSError:
        pass
    os.makedirs(os.path.dirname(path), exist_ok=True)
    with open(path, 'w', encoding='utf-8') as f:
        f.write(text)
    return True


def lib_dump(out):
    env = dict(os.environ, PYTHONPATH=REPO, PYTHONHASHSEED='0')
    r = subprocess.run([PY, '-W', 'ignore', os.path.join(HERE, 'lib.py'), out], env=env, capture_output=True, text=True)
    if r.returncode != 0:
        raise RuntimeError('library dump failed:\n' + r.stderr[-3000:])
    return json.load(open(out))


class Syms:
    def __init__(self, names, groups):
        self.e = {n: i + 1 for i, n in enumerate(sorted(names))}
        self.g = {n: i + 1 for i, n in enumerate(sorted(groups))}


def occ(mx):
    return 'None' if mx == 'unbounded' else f'(Some {mx}%nat)'


def tr_particle(t, S):
    k = t[0]
    if k in 'EG':
        name, mn, mx, ch = t[1:]
    else:
        name = None
        mn, mx, ch = t[1:]
    if k == 'E':
        return f'(PElem {S.e[name]}%positive {mn}%nat {occ(mx)})'
    kids = '[' + '; '.join(tr_particle(c, S) for c in ch) + ']'
    if k == 'S':
        return f'(PSeq {mn}%nat {occ(mx)} {kids})'
    if k == 'C':
        return f'(PChoice {mn}%nat {occ(mx)} {kids})'
    return f'(PGroup {S.g[name]}%positive {mn}%nat {occ(mx)} {kids})'


def names_in(t, acc_e, acc_g):
    k = t[0]
    if k == 'E':
        acc_e.add(t[1])
    elif k == 'G':
        acc_g.add(t[1])
    for c in t[-1]:
        names_in(c, acc_e, acc_g)


def ident(s):
    return ''.join(ch if ch.isalnum() else '_' for ch in s)


def main():
    build = os.path.join(VERIF, 'build')
    os.makedirs(build, exist_ok=True)
    gen = os.path.join(VERIF, 'coq', 'Gen')
    S = SCH.load(REPO)
    L = lib_dump(os.path.join(build, 'lib.json'))
    elements, ndecl = S.elements()
    ctypes = S.ctypes()
    stypes = S.stypes()
    # ---- symbol table
    en, gn = set(elements), set()
    for v in ctypes.values():
        if v['particle']:
            names_in(v['particle'], en, gn)
    for v in L['templates'].values():
        names_in(v, en, gn)
    for c in L['classes']:
        if isinstance(c['name'], str):
            en.add(c['name'])
    SY = Syms(en, gn)
    changed = []
    # ---- Names.v
    o = ['From Coq Require Import List String PArith.', 'Import ListNotations.', 'Open Scope string_scope.',
         'Definition sym_table : list (positive * string) := [' +
         ';\n '.join(f'({i}%positive, {q(n)})' for n, i in sorted(SY.e.items(), key=lambda x: x[1])) + '].']
    o.append('(* one constant per element name, so that witnesses in Properties/*.v are readable *)')
    for n, i in sorted(SY.e.items(), key=lambda x: x[1]):
        o.append(f'Definition s_{ident(n)} : positive := {i}%positive.')
    changed.append(write_if_changed(os.path.join(gen, 'Names.v'), '\n'.join(o) + '\n'))
    # ---- Templates.v  (library side particles; used by models and theorems)
    o = ['From MX Require Import Spec.Particle.', 'From Coq Require Import String.', 'Import ListNotations.',
         'Open Scope string_scope.']
    tnames = sorted(L['templates'])
    for k in tnames:
        o.append(f'Definition tpl_{ident(k[len("XSDComplexType"):])} : particle := {tr_particle(L["templates"][k], SY)}.')
    o.append('Definition lib_templates : list (string * particle) := [' +
             ';\n '.join(f'({q(k)}, tpl_{ident(k[len("XSDComplexType"):])})' for k in tnames) + '].')
    changed.append(write_if_changed(os.path.join(gen, 'Templates.v'), '\n'.join(o) + '\n'))
    # ---- Schema.v  (XSD side)
    o = ['From MX Require Import Spec.Particle.', 'From Coq Require Import String.', 'Import ListNotations.',
         'Open Scope string_scope.']
    ck = sorted(ctypes)
    for i, k in enumerate(ck):
        p = ctypes[k]['particle']
        if p:
            o.append(f'Definition xp_{i} : particle := {tr_particle(p, SY)}.')
    o.append('(* element name, declared type ("<anon>x" for the four anonymous complex types) *)')
    o.append('Definition xsd_elements : list (string * string) := [' +
             ';\n '.join(f'({q(n)}, {q(t)})' for n in sorted(elements) for t in elements[n]) + '].')
    o.append('Definition xsd_type_is_complex : list (string * bool) := [' +
             ';\n '.join([f'({q(k)}, true)' for k in ck] + [f'({q(k)}, false)' for k in sorted(stypes)]) + '].')
    o.append('(* complex type key, is-anonymous, content particle, simple-content base *)')
    o.append('Definition xsd_ctypes : list (string * bool * option particle * option string) := [' +
             ';\n '.join(f'({q(k)}, {cbool(ctypes[k]["anon"])}, {"Some xp_%d" % i if ctypes[k]["particle"] else "None"}, '
                         f'{"Some " + q(ctypes[k]["simple"]) if ctypes[k]["simple"] else "None"})'
                         for i, k in enumerate(ck)) + '].')
    o.append('(* complex type key, attribute name (prefix kept), type, required *)')
    o.append('Definition xsd_attr_rows : list (string * string * string * bool) := [' +
             ';\n '.join(f'({q(k)}, {q(n)}, {q(t)}, {cbool(r)})' for k in ck for (n, t, r) in ctypes[k]['attrs']) + '].')
    o.append(f'Definition xsd_decl_count : nat := {ndecl}%nat.')
    changed.append(write_if_changed(os.path.join(gen, 'Schema.v'), '\n'.join(o) + '\n'))
    # ---- Lib.v (library side tables)
    o = ['From MX Require Import Spec.Particle Gen.Templates.', 'From Coq Require Import String.', 'Import ListNotations.',
         'Open Scope string_scope.',
         'Inductive arow := ARow (name ty : string) (req : bool) (tyclass : string) | ARowExc (e : string).',
         'Inductive atable := ATable (rows : list arow) | ATableExc (e : string).']
    o.append('(* class name, element name, TYPE class name *)')
    o.append('Definition lib_classes : list (string * string * string) := [' +
             ';\n '.join(f'({q(c["cls"])}, {q(c["name"] if isinstance(c["name"], str) else "<exc>" + c["name"]["exc"])}, {q(c["type"] or "")})'
                         for c in L['classes']) + '].')

    def arow(r):
        if isinstance(r, dict):
            return f'ARowExc {q(r["exc"])}'
        tc = r[3] if isinstance(r[3], str) else '<exc>' + r[3]['exc']
        return f'ARow {q(r[0] or "")} {q(r[1])} {cbool(r[2])} {q(tc)}'

    def atable(a):
        if isinstance(a, dict):
            return f'ATableExc {q(a["exc"])}'
        return 'ATable [' + '; '.join(arow(r) for r in a) + ']'
    o.append('(* complex type class, attribute table, simple-content class *)')
    o.append('Definition lib_ctypes : list (string * atable * option string) := [' +
             ';\n '.join(f'({q(k)}, {atable(v["attrs"])}, {"Some " + q(v["simple"]) if v["simple"] else "None"})'
                         for k, v in sorted(L['ctypes'].items())) + '].')
    o.append('(* element name, convert_to_xml_class_name(name) as computed by the library *)')
    o.append('Definition lib_convert_names : list (string * string) := [' +
             ';\n '.join(f'({q(n)}, {q(c)})' for n, c in sorted(L['convert_names'].items())) + '].')
    o.append('Definition lib_properties : list string := [' + '; '.join(q(p) for p in L['properties']) + '].')
    changed.append(write_if_changed(os.path.join(gen, 'Lib.v'), '\n'.join(o) + '\n'))
    # ---- SimpleTypes.v (both sides of C05)
    import regex as RX

    def ostr(x):
        return 'None' if x is None else '(Some %s)' % q(x)

    def opat(p, syntax):
        if p is None:
            return 'None'
        return '(Some %s)' % RX.to_coq(RX.parse(p, syntax))

    def lst(l):
        return '[' + '; '.join(q(x) for x in l) + ']'
    o = ['From MX Require Import Spec.CharRe Model.SimpleType.', 'From Coq Require Import String List NArith ZArith.', 'Import ListNotations.', 'Open Scope string_scope.']
    pyt = {'int': 'TInt', 'float': 'TFloat', 'str': 'TStr'}
    rows = []
    for k, d in sorted(L['stypes'].items()):
        ty = d['own'].get('_TYPES')
        forced = d['own'].get('_FORCED_PERMITTED')
        restr = d['restriction']
        rows.append('(%s, mkL %s %s %s %s %s %s %s [%s] %s %s %s)' % (
            q(k), lst([m for m in d['mro'] if m != 'XSDSimpleType']),
            'None' if ty is None else '(Some [%s])' % '; '.join(pyt[t] for t in ty),
            'None' if forced is None else '(Some %s)' % lst(forced),
            'None' if d['union'] is None else '(Some %s)' % lst(d['union']),
            opat(d['own'].get('_PATTERN'), 'py'), opat(d.get('own_first_pattern'), 'py'),
            ostr(restr['base']) if restr else 'None',
            '; '.join('(%s, %s)' % (q(t), q(v or '')) for t, v in restr['children']) if restr else '',
            cbool(d.get('has_restriction', False)), lst(d['union_node']['inner_enum']) if d['union_node'] else '[]', cbool(d['value_setter'])))
    o.append('Definition lib_st : ltable := [' + ';\n '.join(rows) + '].')

    def oz(x):
        return 'None' if x is None else '(Some (%d)%%Z)' % int(x)
    rows = []
    for k, d in sorted(stypes.items()):
        if len(d['patterns']) > 1:
            raise RuntimeError('more than one pattern facet on ' + k)
        if d['maxExclusive'] is not None:
            raise RuntimeError('maxExclusive facet not modelled: ' + k)
        inner = [e for i in d['inner'] for e in i['enum']]
        rows.append('(%s, mkX %s %s %s %s %s %s %s %s %s)' % (
            q(k), ostr(d['base']), lst(d['enum']), opat(d['patterns'][0] if d['patterns'] else None, 'xsd'), oz(d['minInclusive']), oz(d['maxInclusive']),
            oz(d['minExclusive']), 'None' if d['minLength'] is None else '(Some %d%%nat)' % int(d['minLength']), lst(d['union'] or []), lst(inner)))
    o.append('Definition xsd_st : xtable := [' + ';\n '.join(rows) + '].')
    o.append('(* library class of every schema simple type, by the naming rule *)')
    o.append('Definition st_pairs : list (string * string) := [' + '; '.join('(%s, %s)' % (q(k), q(SCH.cls_name(k, 'XSDSimpleType'))) for k in sorted(stypes)) + '].')
    changed.append(write_if_changed(os.path.join(gen, 'SimpleTypes.v'), '\n'.join(o) + '\n'))
    # ---- sidecar for the harness
    side = {'sym': SY.e, 'grp': SY.g, 'types': tnames, 'templates': L['templates'],
            'xsd_particles': {k: v['particle'] for k, v in ctypes.items() if v['particle']},
            'elements': elements, 'ctypes': {k: {'attrs': v['attrs'], 'simple': v['simple'], 'anon': v['anon'],
                                                 'has_particle': bool(v['particle'])} for k, v in ctypes.items()},
            'stypes': stypes, 'lib': {k: L[k] for k in ('classes', 'ctypes', 'stypes', 'properties', 'attrgroups', 'convert_names')}}
    write_if_changed(os.path.join(build, 'gen.json'), json.dumps(side, sort_keys=True))
    print('gen: %d symbols, %d templates, %d complex types, %d files changed' % (len(SY.e), len(tnames), len(ck), sum(changed)))


if __name__ == '__main__':
    main()
