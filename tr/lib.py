"""Dump what the LIVE classes of the musicxml package say (run under /venv/bin/python, PYTHONPATH=<repo>).
Nothing is read from the generated class files as text.  Exceptions raised by the library while answering are
recorded as data ({'exc': class name}) so that they become rows the Coq side compares."""
import io
import contextlib
import warnings

warnings.simplefilter('ignore')


def dump():
    with contextlib.redirect_stdout(io.StringIO()):
        from musicxml.xmlelement import xmlelement as XE
        from musicxml.xmlelement.containers import containers
        from musicxml.xsd.xsdindicator import XSDChoice, XSDGroup
        from musicxml.xsd.xsdelement import XSDElement
        from musicxml.xsd import xsdcomplextype as CTM
        from musicxml.xsd import xsdsimpletype as STM
        from musicxml.xsd import xsdattribute as ATM
        from musicxml.util.core import convert_to_xml_class_name

    def tree(n):
        c = n.content
        ch = [tree(x) for x in n.get_children()]
        if isinstance(c, XSDElement):
            return ['E', c.name, n.min_occurrences, n.max_occurrences, ch]
        if isinstance(c, XSDGroup):
            return ['G', c.name, n.min_occurrences, n.max_occurrences, ch]
        if isinstance(c, XSDChoice):
            return ['C', n.min_occurrences, n.max_occurrences, ch]
        return ['S', n.min_occurrences, n.max_occurrences, ch]

    out = {}
    out['templates'] = {k: tree(v) for k, v in containers.items()}
    classes = []
    for n in XE.__all__:
        c = getattr(XE, n)
        if not (isinstance(c, type) and issubclass(c, XE.XMLElement)) or c is XE.XMLElement:
            continue
        try:
            c._fill_xsd_tree()
            nm = c.XSD_TREE.name
        except Exception as e:
            nm = {'exc': type(e).__name__}
        ty = c.TYPE
        classes.append({'cls': c.__name__, 'name': nm, 'type': ty.__name__ if ty else None,
                        'mod_attr': n})
    out['classes'] = classes
    out['convert_names'] = {c['name']: convert_to_xml_class_name(c['name']) for c in classes if isinstance(c['name'], str)}
    ctypes = {}
    # pass 1: make every class resolve its lazily built tables (in an order derived from VERIF_SEED when given), so that
    # pass 2 below reports what the classes say AFTER ordinary use of all the others, not only on first touch
    import os
    import random
    order = [n for n in CTM.__all__ if n != 'XSDComplexType']
    seed = os.environ.get('VERIF_DUMP_ORDER')
    if seed:
        random.Random(int(seed)).shuffle(order)
    for n in order:
        try:
            getattr(CTM, n).get_xsd_attributes()
        except Exception:
            pass
    for n in CTM.__all__:
        c = getattr(CTM, n)
        if n == 'XSDComplexType':
            continue
        d = {'search': c._SEARCH_FOR_ELEMENT, 'simple': c._SIMPLE_CONTENT.__name__ if c._SIMPLE_CONTENT else None}
        try:
            d['xsd_name'] = c.get_xsd_tree().name
        except Exception as e:
            d['xsd_name'] = {'exc': type(e).__name__}
        try:
            rows = []
            for a in c.get_xsd_attributes():
                try:
                    t = a.xsd_tree.get_attributes().get('type')
                    try:
                        tc = a.type_.__name__
                    except Exception as e:
                        tc = {'exc': type(e).__name__}
                    rows.append([a.name, t or '', bool(a.is_required), tc])
                except Exception as e:
                    rows.append({'exc': type(e).__name__})
            d['attrs'] = rows
        except Exception as e:
            d['attrs'] = {'exc': type(e).__name__}
        ctypes[n] = d
    out['ctypes'] = ctypes
    st = {}
    for n in STM.__all__:
        c = getattr(STM, n)
        if n == 'XSDSimpleType':
            continue
        t = c.get_xsd_tree()
        restr = t.get_restriction() if t is not None else None
        union = t.get_union() if t is not None else None

        def own(k):
            v = c.__dict__.get(k)
            if isinstance(v, (list, tuple)) and v and isinstance(v[0], type):
                return [x.__name__ for x in v]
            return v
        st[n] = {'mro': [k.__name__ for k in c.__mro__ if k.__name__.startswith('XSDSimpleType')],
                 'own': {k: own(k) for k in ('_TYPES', '_FORCED_PERMITTED', '_PERMITTED', '_PATTERN') if k in c.__dict__},
                 'union': [x.__name__ for x in c.__dict__['_UNION']] if '_UNION' in c.__dict__ else None,
                 'has_init': '__init__' in c.__dict__,
                 'value_setter': 'value' in c.__dict__,
                 'xsd_name': t.name if t is not None else None,
                 'own_first_pattern': (t.get_pattern(None) if t is not None else None),
                 'has_restriction': restr is not None,
                 'restriction': None if restr is None else {
                     'base': restr.get_attributes().get('base'),
                     'children': [[ch.tag, ch.get_attributes().get('value')] for ch in restr.get_children()]},
                 'union_node': None if union is None else {
                     'members': union.get_attributes().get('memberTypes'),
                     'inner_enum': [e.get_attributes()['value'] for s in union.get_children() if s.tag == 'simpleType'
                                    for e in s.get_restriction().get_children() if e.tag == 'enumeration']}}
    out['stypes'] = st
    out['properties'] = sorted(XE.XMLElement._PROPERTIES)
    ag = {}
    for n in ATM.__all__:
        c = getattr(ATM, n)
        if isinstance(c, type) and issubclass(c, ATM.XSDAttributeGroup) and c is not ATM.XSDAttributeGroup:
            try:
                ag[n] = [a.name for a in c.get_xsd_attributes()]
            except Exception as e:
                ag[n] = {'exc': type(e).__name__}
    out['attrgroups'] = ag
    return out


if __name__ == '__main__':
    import json
    import sys
    json.dump(dump(), open(sys.argv[1], 'w'), default=str)
