"""Two small regular-expression readers, one for XSD pattern syntax and one for the Python `re` syntax subset that the
library's translated patterns use, both producing the same AST (emitted as Coq `cre` terms):
  ('set', neg, [(lo, hi), ...]) | ('cat', [..]) | ('alt', [..]) | ('rep', r, mn, mx|None) | ('eps',)
XSD multi-character escapes: \\d (Unicode decimal digits; approximated by the ranges in DIGIT), \\c / \\i = XML 1.0 (5th ed.)
NameChar / NameStartChar restricted to the BMP, the subtraction [\\i-[:]] / [\\c-[:]] = the same without ':'."""

DIGIT = [(0x30, 0x39), (0x660, 0x669), (0x6F0, 0x6F9), (0x966, 0x96F), (0xFF10, 0xFF19)]
NAME_START = [(0x3A, 0x3A), (0x41, 0x5A), (0x5F, 0x5F), (0x61, 0x7A), (0xC0, 0xD6), (0xD8, 0xF6), (0xF8, 0x2FF), (0x370, 0x37D), (0x37F, 0x1FFF),
              (0x200C, 0x200D), (0x2070, 0x218F), (0x2C00, 0x2FEF), (0x3001, 0xD7FF), (0xF900, 0xFDCF), (0xFDF0, 0xFFFD)]
NAME_CHAR = NAME_START + [(0x2D, 0x2E), (0x30, 0x39), (0xB7, 0xB7), (0x300, 0x36F), (0x203F, 0x2040)]


class RegexError(Exception):
    pass


def norm_ranges(rs):
    rs = sorted(rs)
    out = []
    for lo, hi in rs:
        if out and lo <= out[-1][1] + 1:
            out[-1] = (out[-1][0], max(out[-1][1], hi))
        else:
            out.append((lo, hi))
    return out


def minus(rs, c):
    out = []
    for lo, hi in rs:
        if lo <= c <= hi:
            if lo < c:
                out.append((lo, c - 1))
            if c < hi:
                out.append((c + 1, hi))
        else:
            out.append((lo, hi))
    return out


class P:
    def __init__(self, s, syntax):
        self.s, self.i, self.syntax = s, 0, syntax

    def peek(self):
        return self.s[self.i] if self.i < len(self.s) else None

    def next(self):
        c = self.s[self.i]
        self.i += 1
        return c

    def alt(self):
        items = [self.cat()]
        while self.peek() == '|':
            self.next()
            items.append(self.cat())
        return items[0] if len(items) == 1 else ('alt', items)

    def cat(self):
        items = []
        while self.peek() is not None and self.peek() not in '|)':
            a = self.atom()
            if a is None:
                continue
            a = self.quant(a)
            items.append(a)
        if not items:
            return ('eps',)
        return items[0] if len(items) == 1 else ('cat', items)

    def quant(self, a):
        c = self.peek()
        if c == '*':
            self.next(); return ('rep', a, 0, None)
        if c == '+':
            self.next(); return ('rep', a, 1, None)
        if c == '?':
            self.next(); return ('rep', a, 0, 1)
        if c == '{':
            j = self.s.index('}', self.i)
            body = self.s[self.i + 1:j]
            self.i = j + 1
            if ',' in body:
                lo, hi = body.split(',')
                return ('rep', a, int(lo), int(hi) if hi else None)
            return ('rep', a, int(body), int(body))
        return a

    def escape(self, in_class):
        c = self.next()
        if c == 'd':
            return list(DIGIT)
        if c == 'c' and self.syntax == 'xsd':
            return list(NAME_CHAR)
        if c == 'i' and self.syntax == 'xsd':
            return list(NAME_START)
        if c in 'nrt':
            return [({'n': 10, 'r': 13, 't': 9}[c],) * 2]
        if c == 'u' and self.syntax == 'py':
            v = int(self.s[self.i:self.i + 4], 16)
            self.i += 4
            return [(v, v)]
        if c.isalnum():
            raise RegexError('unsupported escape \\' + c)
        return [(ord(c), ord(c))]

    def atom(self):
        c = self.next()
        if c == '(':
            if self.s[self.i:self.i + 2] == '?:':
                self.i += 2
            r = self.alt()
            if self.next() != ')':
                raise RegexError('unbalanced )')
            return r
        if c == '[':
            return self.cls()
        if c == '\\':
            return ('set', False, norm_ranges(self.escape(False)))
        if c == '^' and self.syntax == 'py' and self.i == 1:
            return None
        if c == '$' and self.syntax == 'py' and self.i == len(self.s):
            return None
        if c == '.':
            raise RegexError('. not supported')
        return ('set', False, [(ord(c), ord(c))])

    def cls(self):
        neg = False
        if self.peek() == '^':
            self.next(); neg = True
        rs = []
        first = True
        while True:
            c = self.peek()
            if c is None:
                raise RegexError('unterminated class')
            if c == ']' and not first:
                self.next()
                break
            first = False
            if c == '-' and self.s[self.i + 1:self.i + 2] == '[' and self.syntax == 'xsd':
                # subtraction  [X-[:]]
                self.next()
                sub = self.atom()
                if sub != ('set', False, [(0x3A, 0x3A)]):
                    raise RegexError('only subtraction of [:] is supported')
                rs = minus(norm_ranges(rs), 0x3A)
                if self.next() != ']':
                    raise RegexError('bad subtraction')
                break
            if c == '\\':
                self.next()
                lo = self.escape(True)
                if len(lo) != 1 or lo[0][0] != lo[0][1] or self.peek() != '-' or self.s[self.i + 1:self.i + 2] == ']':
                    rs += lo
                    continue
                lo = lo[0][0]
            else:
                self.next()
                lo = ord(c)
            if self.peek() == '-' and self.s[self.i + 1:self.i + 2] not in (']', '[', ''):
                self.next()
                h = self.next()
                if h == '\\':
                    hh = self.escape(True)
                    h = hh[0][0]
                else:
                    h = ord(h)
                rs.append((lo, h))
            else:
                rs.append((lo, lo))
        return ('set', neg, norm_ranges(rs))


def parse(s, syntax):
    p = P(s, syntax)
    r = p.alt()
    if p.i != len(s):
        raise RegexError('trailing input at %d in %r' % (p.i, s))
    return r


def to_coq(r):
    k = r[0]
    if k == 'eps':
        return 'CEps'
    if k == 'set':
        return '(CSet %s [%s])' % ('true' if r[1] else 'false', '; '.join('(%d%%N, %d%%N)' % (lo, hi) for lo, hi in r[2]))
    if k == 'cat':
        out = to_coq(r[1][-1])
        for x in reversed(r[1][:-1]):
            out = '(CCat %s %s)' % (to_coq(x), out)
        return out
    if k == 'alt':
        out = to_coq(r[1][-1])
        for x in reversed(r[1][:-1]):
            out = '(CAlt %s %s)' % (to_coq(x), out)
        return out
    if k == 'rep':
        return '(CRep %s %d%%nat %s)' % (to_coq(r[1]), r[2], 'None' if r[3] is None else '(Some %d%%nat)' % r[3])
    raise RegexError(k)


if __name__ == '__main__':
    import json, sys
    sys.path.insert(0, '/repo')
    g = json.load(open('/verif/build/gen.json'))
    for k, d in sorted(g['stypes'].items()):
        for p in d['patterns']:
            print(k, parse(p, 'xsd') is not None)
    from musicxml.xsd import xsdsimpletype as ST
    for n in ST.__all__:
        c = getattr(ST, n)
        if n != 'XSDSimpleType':
            try:
                t = c.get_xsd_tree()
                pat = t.get_pattern(c.__mro__[1].get_xsd_tree()) or c._PATTERN
            except Exception as e:
                pat = None
            if pat:
                a = parse(pat, 'py')
                xs = [p for k, d in g['stypes'].items() for p in d['patterns'] if ST.__dict__.get(n) is not None]
                print(n, 'py-parsed')
