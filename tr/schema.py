"""Independent reader of musicxml_4_0.xsd / xml.xsd.  Imports NOTHING from the musicxml package.

Produces plain Python data:
  elements   : {element name: sorted list of distinct declared types}  (partwise only)
  ctypes     : {complex type key: {'particle': tree|None, 'attrs': [(name, type, required)], 'simple': base|None}}
  stypes     : {simple type name: {...facets...}}
Particle trees are lists: ['E', name, mn, mx, []] | ['S'|'C', mn, mx, kids] | ['G', name, mn, mx, kids]
Anonymous complex types get the keys the library uses for them: score-partwise, part, measure, directive.
"""
import os
import xml.etree.ElementTree as ET

XS = '{http://www.w3.org/2001/XMLSchema}'


# Types of the attributes the schema takes from imported namespaces.  The W3C xml.xsd / xlink.xsd are not in the
# repository (its xml.xsd models six XML Schema built-in types instead), so these come from the W3C documents:
# xml:lang is xs:language, xml:space an anonymous enumeration {default, preserve}; the xlink types are left open.
REF_TYPES = {'xml:lang': 'xs:language', 'xml:space': ''}


class SchemaError(Exception):
    pass


def load(repo):
    path = os.path.join(repo, 'musicxml', 'generate_classes', 'musicxml_4_0.xsd')
    with open(path, 'rb') as f:
        root = ET.parse(f).getroot()
    with open(os.path.join(repo, 'musicxml', 'generate_classes', 'xml.xsd'), 'rb') as f:
        xroot = ET.parse(f).getroot()
    return Schema(root, xroot)


class Schema:
    def __init__(self, root, xroot):
        self.root = root
        self.CT = {c.get('name'): c for c in root.findall(XS + 'complexType')}
        self.AG = {c.get('name'): c for c in root.findall(XS + 'attributeGroup')}
        self.GR = {c.get('name'): c for c in root.findall(XS + 'group')}
        self.ST = {c.get('name'): c for c in root.findall(XS + 'simpleType')}
        # xml.xsd in this repository declares six XML Schema built-in simple types (NMTOKEN, Name, NCName, ID, IDREF, language)
        self.XST = {'xs:' + c.get('name'): c for c in xroot.findall(XS + 'simpleType')}
        self.anon = {}
        self._find_anon()

    # ---------- anonymous complex types, named the way the library names them ----------
    def _find_anon(self):
        sp = [e for e in self.root.findall(XS + 'element') if e.get('name') == 'score-partwise']
        if len(sp) != 1:
            raise SchemaError('score-partwise declaration not unique')
        ct = sp[0].find(XS + 'complexType')
        self.anon['score-partwise'] = ct
        part = [e for e in ct.iter(XS + 'element') if e.get('name') == 'part'][0]
        self.anon['part'] = part.find(XS + 'complexType')
        meas = [e for e in self.anon['part'].iter(XS + 'element') if e.get('name') == 'measure'][0]
        self.anon['measure'] = meas.find(XS + 'complexType')
        for e in self.CT['attributes'].iter(XS + 'element'):
            if e.get('name') == 'directive':
                self.anon['directive'] = e.find(XS + 'complexType')
        if len(self.anon) != 4:
            raise SchemaError('anonymous types not found')

    def _anon_simple(self, st):
        r = st.find(XS + 'restriction')
        if r is not None:
            return {'base': r.get('base'), 'enum': [e.get('value') for e in r.findall(XS + 'enumeration')]}
        u = st.find(XS + 'union')
        if u is not None:
            return {'union': (u.get('memberTypes') or '').split(),
                    'inner': [self._anon_simple(s) for s in u.findall(XS + 'simpleType')]}
        raise SchemaError('anonymous simple type shape')

    # ---------- particles ----------
    @staticmethod
    def occ(c):
        mx = c.get('maxOccurs', '1')
        return int(c.get('minOccurs', '1')), (mx if mx == 'unbounded' else int(mx))

    def part(self, c):
        t = c.tag[len(XS):]
        mn, mx = self.occ(c)
        if t == 'element':
            return ['E', c.get('name') or c.get('ref'), mn, mx, []]
        if t == 'group':
            g = self.GR[c.get('ref')]
            return ['G', c.get('ref'), mn, mx, [self.part(x) for x in g if x.tag in (XS + 'sequence', XS + 'choice')]]
        if t not in ('sequence', 'choice'):
            raise SchemaError('unexpected particle ' + t)
        kids = [self.part(x) for x in c if x.tag in (XS + 'sequence', XS + 'choice', XS + 'group', XS + 'element')]
        return ['S' if t == 'sequence' else 'C', mn, mx, kids]

    def particle(self, node):
        for c in node:
            if c.tag in (XS + 'sequence', XS + 'choice', XS + 'group'):
                return self.part(c)
            if c.tag == XS + 'complexContent':
                ext = c[0]
                base = self.particle(self.CT[ext.get('base')])
                own = self.particle(ext)
                if own is not None:
                    raise SchemaError('complexContent extension with own particle not supported')
                return base
        return None

    # ---------- attributes ----------
    def attrs_of(self, node):
        out = []
        for c in node:
            if c.tag == XS + 'attribute':
                name = c.get('name') or c.get('ref')
                ty = c.get('type')
                if ty is None and c.get('ref') in REF_TYPES:
                    ty = REF_TYPES[c.get('ref')]
                out.append((name, ty or '', c.get('use') == 'required'))
            elif c.tag == XS + 'attributeGroup':
                out += self.attrs_of(self.AG[c.get('ref')])
            elif c.tag in (XS + 'simpleContent', XS + 'complexContent'):
                ext = c[0]
                if c.tag == XS + 'complexContent':
                    out += self.attrs_of(self.CT[ext.get('base')])
                out += self.attrs_of(ext)
        return out

    def simple_base(self, node):
        sc = node.find(XS + 'simpleContent')
        if sc is None:
            return None
        return sc[0].get('base')

    def ctypes(self):
        out = {}
        items = list(self.CT.items()) + list(self.anon.items())
        for name, node in items:
            out[name] = {'particle': self.particle(node), 'attrs': self.attrs_of(node), 'simple': self.simple_base(node),
                         'anon': name in self.anon and name not in self.CT}
        return out

    # ---------- element declarations (partwise) ----------
    def elements(self):
        decl = {}
        count = [0]

        def walk(e, tw):
            for c in e:
                t2 = tw or (c.tag == XS + 'element' and c.get('name') == 'score-timewise')
                if c.tag == XS + 'element' and c.get('name') and not t2:
                    count[0] += 1
                    ty = c.get('type')
                    if ty is None:
                        ct = c.find(XS + 'complexType')
                        if ct is None:
                            raise SchemaError('element without type: ' + c.get('name'))
                        keys = [k for k, v in self.anon.items() if v is ct]
                        if len(keys) != 1:
                            raise SchemaError('unknown anonymous type at ' + c.get('name'))
                        ty = '<anon>' + keys[0]
                    decl.setdefault(c.get('name'), set()).add(ty)
                walk(c, t2)
        walk(self.root, False)
        return {k: sorted(v) for k, v in decl.items()}, count[0]

    # ---------- simple types ----------
    def stypes(self):
        out = {}
        for name, node in list(self.ST.items()) + list(self.XST.items()):
            out[name] = self._stype(node)
        return out

    def _stype(self, node):
        r = node.find(XS + 'restriction')
        u = node.find(XS + 'union')
        d = {'base': None, 'enum': [], 'patterns': [], 'minInclusive': None, 'maxInclusive': None,
             'minExclusive': None, 'maxExclusive': None, 'minLength': None, 'union': None, 'inner': []}
        if r is not None:
            d['base'] = r.get('base')
            for ch in r:
                tag = ch.tag[len(XS):]
                if tag == 'enumeration':
                    d['enum'].append(ch.get('value'))
                elif tag == 'pattern':
                    d['patterns'].append(ch.get('value'))
                elif tag in ('minInclusive', 'maxInclusive', 'minExclusive', 'maxExclusive', 'minLength'):
                    d[tag] = ch.get('value')
                elif tag == 'annotation':
                    pass
                else:
                    raise SchemaError('unknown facet ' + tag + ' in ' + str(node.get('name')))
        elif u is not None:
            d['union'] = (u.get('memberTypes') or '').split()
            d['inner'] = [self._stype(s) for s in u.findall(XS + 'simpleType')]
        else:
            raise SchemaError('simple type shape: ' + str(node.get('name')))
        return d


def cls_name(tname, kind):
    """XSDComplexType<Name> / XSDSimpleType<Name> / XML<Name> by the documented naming rule (own implementation)."""
    t = tname.split(':')[-1]
    return kind + ''.join(p[:1].upper() + p[1:] for p in t.split('-'))
