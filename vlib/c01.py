"""C01 — whenever the final check passes, the children in schema order are a word of the schema's content model.
Theorems: Properties/C01.v (sequence and bag machines at every template, all histories) + refutations on M_py.
Ties: implementation <-> M_py on all 94 types; implementation <-> specification machines on their classes.
Search: every passing final check of the implementation is judged by the extracted verified matcher."""
import json
import os
import random
from . import common as C
from . import matcher, hist


def passes(o):
    return hist.norm_st(o['st']) == 'ok' and o.get('req') == []


def proj(op, o):
    if op[0] != 'f':
        return None
    p = hist.norm_st(o['st']) == 'ok' and (o.get('req') == [] if 'req' in o else o.get('pass'))
    return (bool(p), tuple(o['ord']) if p else None)


def judge(m, cases, impl_out):
    """all (case, op) where the implementation's final check passes with a word outside the language"""
    items, where = [], []
    for ci, (c, r) in enumerate(zip(cases, impl_out)):
        for oi, (op, o) in enumerate(zip(c['ops'], r)):
            if op[0] == 'f' and passes(o) and isinstance(o['ord'], list):
                nm = o['nm']
                items.append((c['type'], [nm.get(str(i), nm.get(i)) for i in o['ord']]))
                where.append((ci, oi))
    acc = m.accepts(items)
    return [(w, it[1]) for w, it, a in zip(where, items, acc) if not a], len(items)


def sweep_failures(m, cases, io, mo):
    out = []
    bad, _ = judge(m, cases, io)
    for (ci, oi), word in bad:
        pred = all(proj(cases[ci]['ops'][k], io[ci][k]) == proj(cases[ci]['ops'][k], mo[ci][k]) for k in range(oi + 1))
        out.append((ci, oi, 'passes with %s' % word, pred))
    return out


def run(rep):
    res = C.proof_obligations(rep, 'Properties/C01.v')
    quick = rep.tier == 'quick'
    g0 = json.load(open(__import__('os').path.join(C.BUILD, 'gen.json'))) if __import__('os').path.exists(__import__('os').path.join(C.BUILD, 'gen.json')) else None
    extra = matcher.incomplete_word_cases(g0, rep.seed, 25 if quick else 200) if g0 else []
    extra += matcher.repeat_then_remove_cases(g0, rep.seed, 60) if g0 else []
    corp = matcher.Corpus(rep, per_type=40 if quick else 300, maxlen=14 if quick else 24, extra_cases=extra)
    try:
        m = corp.m
        # --- direct judgement of the implementation
        bad, n_judged = judge(m, corp.cases, corp.impl)
        reported = set()
        for (ci, oi), word in bad:
            c = corp.cases[ci]
            key = 'C01:' + matcher.cause_key(c['type'], c['ops'][:oi + 1])
            predicted = corp.model_agrees(ci, oi, proj)
            if predicted and key not in reported:
                reported.add(key)
                rep.finding_or_violation(key, 'final check passes with children %s, not a word of the content model of %s' % (word, c['type']),
                                         {'type': c['type'], 'ops': c['ops'][:oi + 1], 'observed_children': word, 'model_predicts': True})
            elif not predicted:
                rep.violation('final check passes with children %s, not a word of the content model of %s (the pinned model does not predict this)' % (word, c['type']),
                              {'type': c['type'], 'ops': c['ops'][:oi + 1], 'observed_children': word, 'model_predicts': False})
        # --- correspondence implementation <-> M_py on the C01 projection
        diffs = corp.correspondence(proj)
        broken = [(ci, oi) for ci, oi in diffs if not any(w[0] == ci for w, _ in bad)][:6]
        if broken:
            matcher.report_broken_correspondence(rep, m, [(corp.cases[ci]['type'], corp.cases[ci]['ops'][:oi + 1]) for ci, oi in broken], sweep_failures,
                                                 'impl<->M_py (C01 projection)',
                                                 [{'impl': proj(corp.cases[ci]['ops'][oi], corp.impl[ci][oi]), 'model': proj(corp.cases[ci]['ops'][oi], corp.model[ci][oi])} for ci, oi in broken])
        # --- correspondence with the specification machines on their classes
        sc, bc, cc = matcher.machine_corpus(rep, m, corp.classes, 30 if quick else 200, 12 if quick else 20, rep.seed)
        if not quick:
            ec, eb, ecc = matcher.exhaustive_machine_corpus(m, corp.classes, 5, rep.seed)
            sc, bc, cc = sc + ec, bc + eb, cc + ecc
            rep.coverage['exhaustive_machine_histories'] = len(ec) + len(eb) + len(ecc)
        from . import impl as I
        for cases, runm, label in ((sc, m.run_seq, 'sequence machine'), (bc, m.run_bag, 'bag machine'), (cc, m.run_cho, 'choice machine')):
            io = I.run_cases(cases)
            mo = runm(cases)
            b2, n2 = judge(m, cases, io)
            n_judged += n2
            for (ci, oi), word in b2:
                rep.violation('final check passes with children %s on %s, a type of the %s class where C01 is proved' % (word, cases[ci]['type'], label),
                              {'type': cases[ci]['type'], 'ops': cases[ci]['ops'][:oi + 1], 'observed_children': word})
            nd = 0
            for ci, (a, b) in enumerate(zip(io, mo)):
                for oi, (x, y) in enumerate(zip(a, b)):
                    if proj(cases[ci]['ops'][oi], x) != proj(cases[ci]['ops'][oi], y):
                        nd += 1
                        if nd <= 3 and not any(w[0] == ci for w, _ in b2):
                            rep.violation('implementation and %s disagree on %s' % (label, cases[ci]['type']),
                                          {'correspondence': 'impl<->' + label, 'type': cases[ci]['type'], 'ops': cases[ci]['ops'][:oi + 1],
                                           'impl': proj(cases[ci]['ops'][oi], x), 'machine': proj(cases[ci]['ops'][oi], y)}, found_input=False)
                        break
            rep.coverage['evaluations'] = rep.coverage.get('evaluations', 0) + len(cases)
            rep.coverage['traces_validated_against_impl'] = rep.coverage.get('traces_validated_against_impl', 0) + len(cases)
        n_docs, n_nodes = doc_level(rep, m, quick)
        nested_validity(rep, m, quick)
        verdict_paths_agree(rep, m, quick)
        corp.coverage({'final_checks_judged': n_judged, 'impl_model_differences': len(diffs), 'documents_emitted_and_validated': n_docs, 'document_nodes_judged': n_nodes})
    finally:
        corp.close()
    if not res['ok'] or res['forbidden'] or not res['build_ok']:
        if not rep.violations:
            rep.violation('Properties/C01.v no longer checks (theorem %s)' % res['failing'], {'theorem': res['failing'], 'log': res['log'][-3000:]}, found_input=False)
    rep.assumptions += ['children are minimal elements built by a fixed factory; nested documents are exercised by C08/C09',
                        'M_py (coq/Model/PyM.v) is a hand transliteration tied to the code only by this correspondence']


def doc_level(rep, m, quick):
    """nested documents: schema-generated documents whose children are supplied to the API in a SHUFFLED order at every node; every
    document the library emits is validated node by node: the child tags of every element must be a word of its content model"""
    import random
    import xml.etree.ElementTree as ET
    from . import docgen, docs, extract
    g = m.g
    rng = random.Random(rep.seed * 5 + 1)
    G = docgen.Gen(g, rng)

    def shuffle(n):
        if rng.random() < 0.6:
            rng.shuffle(n['kids'])
        for k in n['kids']:
            shuffle(k)
    cases = []
    names = sorted(g['elements'])
    for name in names:
        for _ in range(1 if quick else 8):
            d = G.element(name, 0, 2 if quick else 3)
            shuffle(d)
            cases.append(d)
    for name in ('score-partwise', 'measure', 'note', 'direction', 'attributes', 'harmony', 'notations', 'part-list', 'score-part', 'barline', 'print', 'defaults', 'identification'):
        for _ in range(12 if quick else 120):
            d = G.element(name, 0, 3 if quick else 4)
            shuffle(d)
            cases.append(d)
    ra, _ = docs.run_docs(api=cases)
    etype = {n: (t[0][6:] if t[0].startswith('<anon>') else t[0]) for n, t in g['elements'].items()}
    mx = extract.Model(extra_templates={'XSD:' + k: v for k, v in g['xsd_particles'].items()})
    try:
        items, where = [], []
        n_docs = 0
        for node, r in zip(cases, ra):
            if 's1' not in r:
                continue
            n_docs += 1
            root = ET.fromstring(r['s1'])
            for el in root.iter():
                t = etype.get(el.tag)
                if t in g['xsd_particles']:
                    items.append(('XSD:' + t, [c.tag for c in el]))
                    where.append((node, r['s1'], el.tag))
        acc = mx.accepts(items)
        seen = set()
        for (node, text, tag), it, a in zip(where, items, acc):
            if not a and (tag, tuple(it[1])) not in seen:
                seen.add((tag, tuple(it[1])))
                rep.finding_or_violation('C01:doc:' + tag, 'the library emits a document in which <%s> has children %s, not a word of its content model' % (tag, it[1]),
                                         {'element': tag, 'children': it[1], 'document_built': node, 'emitted': text[:2000]})
    finally:
        mx.close()
    return n_docs, len(items)


def nested_validity(rep, m, quick):
    """documents built through the API, a random history applied at random depths (removals, admissible and inadmissible adds, same-name
    replacements, detached subtrees taken apart); whenever to_string() of the ROOT returns, EVERY node of the emitted text is judged by the
    verified matcher against the content model of its element's type"""
    import subprocess
    import xml.etree.ElementTree as ET
    from . import docgen, extract
    g = m.g
    rng = random.Random(rep.seed * 17 + 3)
    G = docgen.Gen(g, rng)
    type_of = {}
    for name, tys in g['elements'].items():
        t = tys[0][6:] if tys[0].startswith('<anon>') else tys[0]
        if t in g['xsd_particles']:
            type_of[name] = 'XSD:' + t
    roots = sorted(n for n in type_of if n not in ('score-partwise', 'score-timewise'))
    docs = []
    # a third of the roots are the elements whose content models have choices (where a rejected child has gone through the re-arrangement search)
    choicey = [n for n in roots if '"C"' in json.dumps(g['xsd_particles'][type_of[n][4:]])] or roots
    for _ in range(600 if quick else 8000):
        docs.append(G.element(rng.choice(choicey if rng.random() < 0.35 else roots), 0, 3))
    n = C.NPROC
    chunks = [docs[i::n] for i in range(n)]
    procs = [subprocess.Popen([C.PY, '-W', 'ignore', os.path.join(C.VERIF, 'corr', 'c01_nested_runner.py')], stdin=subprocess.PIPE, stdout=subprocess.PIPE,
                              stderr=subprocess.PIPE, text=True, env=C.impl_env()) for _ in chunks]
    import threading
    outs = [None] * n

    def feed(i):
        o, e = procs[i].communicate(json.dumps({'seed': rep.seed * 100 + i, 'docs': chunks[i], 'names': sorted(g['sym'])}), timeout=3000)
        if procs[i].returncode != 0:
            raise RuntimeError(e[-1500:])
        outs[i] = json.loads(o)
    ths = [threading.Thread(target=feed, args=(i,)) for i in range(n)]
    [t.start() for t in ths]
    [t.join() for t in ths]
    if any(o is None for o in outs):
        raise RuntimeError('c01 nested runner shard failed')
    items, where = [], []
    n_ser = 0
    for ci in range(n):
        for d, r in zip(chunks[ci], outs[ci]):
            for ic in (0, 1):
                text = r.get('ic%d' % ic)
                if text is None:
                    continue
                n_ser += 1
                for e in ET.fromstring(text).iter():
                    if e.tag in type_of and all(c.tag in m.sym for c in e):
                        items.append((type_of[e.tag], [c.tag for c in e]))
                        where.append((d, r, ic, e.tag))
    mx = extract.Model(extra_templates={'XSD:' + k: v for k, v in g['xsd_particles'].items()})
    try:
        verdicts = mx.accepts(items)
    finally:
        mx.close()
    seen = set()
    nbad = 0
    for (t, w), ok, (d, r, ic, tag) in zip(items, verdicts, where):
        if ok:
            continue
        nbad += 1
        key = 'C01:nested:%s' % tag
        if key in seen:
            continue
        seen.add(key)
        rep.finding_or_violation(key, '<%s> inside a serialised <%s> document has the children %s, not a word of its content model (after %s)' % (tag, d['tag'], w, r['ops']),
                                 {'document_built_through_the_api': d, 'history': r['ops'], 'intelligent_choice': bool(ic), 'element': tag, 'children': w, 'emitted': r.get('ic%d' % ic, '')[:2500]})
    rep.coverage['nested_histories'] = {'documents': len(docs), 'serialisations_judged': n_ser, 'nodes_judged': len(items), 'invalid_nodes': nbad}


def verdict_paths_agree(rep, m, quick):
    """the verdict of the container's requirement query (operation f of the histories, what the machines and M_py model) and what the USER sees -
    to_string() going through XMLElement._final_checks - must agree: for add-only histories on every type (words of the content model, their
    prefixes and shuffles), children made unchecked so that to_string() speaks about the element itself, to_string() returns iff nothing is required;
    and a second to_string() / a to_string() after removing the last child must agree with a second query"""
    from . import impl, rx
    g = m.g
    rng = random.Random(rep.seed * 23 + 1)
    cases = []
    for t in g['types']:
        tree = g['templates'][t]
        ws = rx.words(rx.of_tree(tree), rx.alphabet(tree), 4, 12)
        rng.shuffle(ws)
        for w in ws[:3 if quick else 20]:
            for v in (w, w[:-1], list(reversed(w))):
                adds = [[0, 'a', x] for x in v]
                cases.append({'multi': [t], 'ops': adds + [[0, 'f', 0], [0, 's', 0], [0, 'f', 0], [0, 's', 0]] + ([[0, 'r', len(v) - 1], [0, 'f', 0], [0, 's', 0]] if v else []), 'unchecked_children': True})
    out = impl.run_cases(cases)
    n = bad = 0
    seen = set()
    for c, r in zip(cases, out):
        if isinstance(r, dict) and 'error' in r:
            continue
        last_f = None
        for op, o in zip(c['ops'], r):
            if op[1] == 'f':
                last_f = o
            elif op[1] == 's' and last_f is not None and last_f['st'] == 'ok' and last_f.get('req') is not None:
                n += 1
                passes = last_f['req'] == []
                ser_ok = o['st'] == 'ok'
                refused = o['st'] == 'XMLElementChildrenRequired'
                if (passes and not ser_ok) or (not passes and not refused):
                    if o['st'] not in ('ok', 'XMLElementChildrenRequired'):
                        continue              # another kind of failure (recorded findings of C19): not a disagreement about the verdict
                    bad += 1
                    if c['multi'][0] not in seen:
                        seen.add(c['multi'][0])
                        rep.violation('%s: the requirement query says %s but to_string() %s' % (c['multi'][0], 'nothing is required' if passes else 'required: %s' % last_f['req'],
                                                                                             'raises ' + o['st'] if not ser_ok else 'returns'),
                                      {'type': c['multi'][0], 'ops': [op[1:] for op in c['ops']], 'children_unchecked': True})
    rep.coverage['query_vs_to_string'] = {'verdict_pairs': n, 'disagreements': bad}


def replay(path):
    r = json.load(open(path))
    from . import impl as I
    out = I.run_cases([{'type': r['type'], 'ops': r['ops']}], workers=1)[0]
    print(json.dumps({'replay': r, 'observed_now': out[-1]}, indent=1, default=str)[:3000])
    return 0
