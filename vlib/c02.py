"""C02 — schema-valid child sequences are accepted and kept in document order.
Words are enumerated from the SCHEMA's particles (all words up to a length, capped per length, plus long guided random
walks), confirmed by the extracted verified matcher, fed to the implementation one child at a time, then a final check."""
import json
import os
import random
import sys
from . import common as C
from . import extract, hist, impl, matcher, rx

sys.path.insert(0, os.path.join(C.VERIF, 'tr'))


def word_cases(g, seed, maxlen, cap, n_long, long_len):
    from schema import cls_name
    rng = random.Random(seed * 101 + 5)
    cases = []
    for key, xp in sorted(g['xsd_particles'].items()):
        t = cls_name(key, 'XSDComplexType')
        if t not in g['templates']:
            continue
        r = rx.of_tree(xp)
        alpha = rx.alphabet(xp)
        ws = rx.words(r, alpha, maxlen, cap)
        for _ in range(n_long):
            w, x = [], r
            for _i in range(rng.randrange(4, long_len)):
                f = sorted(rx.first(x))
                if not f or (rx.nullable(x) and rng.random() < 0.08):
                    break
                a = rng.choice(f)
                w.append(a)
                x = rx.deriv(x, a)
            # complete to a word: shortest completion by BFS over derivatives
            comp = complete(x)
            if comp is not None:
                ws.append(w + comp)
        seen = set()
        for w in ws:
            if tuple(w) not in seen:
                seen.add(tuple(w))
                cases.append({'type': t, 'xsd': key, 'word': w, 'ops': [['a', s] for s in w] + [['f', 0]]})
    return cases


def complete(x, limit=2000):
    from collections import deque
    q = deque([((), x)])
    seen = {x}
    n = 0
    while q and n < limit:
        w, y = q.popleft()
        n += 1
        if rx.nullable(y):
            return list(w)
        for s in sorted(rx.first(y)):
            d = rx.deriv(y, s)
            if d != rx.VOID and d not in seen:
                seen.add(d)
                q.append((w + (s,), d))
    return None


def verdict(case, res):
    """None if the word is handled as C02 demands, else a description"""
    names = matcher.id_names(case, res)
    for i, o in enumerate(res[:-1]):
        if hist.norm_st(o['st']) != 'ok':
            return 'child #%d <%s> rejected with %s' % (i, case['word'][i], o['st'])
    last = res[-1]
    if hist.norm_st(last['st']) != 'ok':
        return 'final check raises ' + last['st']
    if last.get('req'):
        return 'final check refuses: requires %s' % last['req']
    got = [names.get(i, '?') for i in last['ord']] if isinstance(last['ord'], list) else last['ord']
    if got != case['word']:
        return 'serialised order %s differs from the order supplied' % got
    return None


def proj(case, res):
    return [(hist.outcome_class(o['st']), tuple(o['ord']) if isinstance(o['ord'], list) else o['ord']) for o in res] + \
           [None if res[-1].get('req') is None else res[-1]['req'] == []]


def run(rep):
    res = C.proof_obligations(rep, 'Properties/C02.v')
    quick = rep.tier == 'quick'
    g = json.load(open(os.path.join(C.BUILD, 'gen.json')))
    extra = {'XSD:' + k: v for k, v in g['xsd_particles'].items()}
    m = extract.Model(extra_templates=extra)
    try:
        cases = matcher.load_corpus('C02')
        cases = [dict(c, word=[o[1] for o in c['ops'] if o[0] == 'a'], xsd=None) for c in cases if all(o[0] in 'af' for o in c['ops'])]
        cases += word_cases(g, rep.seed, 5 if quick else 7, 60 if quick else 400, 25 if quick else 200, 40)
        # every word is confirmed to be in the schema language by the verified matcher (run on the XSD particle)
        acc = m.accepts([('XSD:' + c['xsd'], c['word']) for c in cases if c['xsd']])
        assert all(acc), 'generator produced a word outside the language'
        io = impl.run_cases(cases)
        mo = m.run_py(cases)
        seen = set()
        nbad = 0
        for c, a, b in zip(cases, io, mo):
            v = verdict(c, a)
            if v is None:
                continue
            nbad += 1
            predicted = proj(c, a) == proj(c, b)
            key = 'C02:' + c['type']
            rp = {'type': c['type'], 'word': c['word'], 'ops': c['ops'], 'why': v, 'model_predicts': predicted}
            if predicted:
                if key not in seen:
                    seen.add(key)
                    rep.finding_or_violation(key, '%s: valid word %s: %s' % (c['type'], c['word'], v), rp)
            else:
                rep.violation('%s: valid word %s: %s (the pinned model does not predict this)' % (c['type'], c['word'], v), rp)
        nd = 0
        for c, a, b in zip(cases, io, mo):
            if verdict(c, a) is None and proj(c, a) != proj(c, b):
                nd += 1
                if nd <= 3:
                    rep.violation('implementation and faithful model disagree on a valid word of %s' % c['type'],
                                  {'correspondence': 'impl<->M_py (C02 projection)', 'type': c['type'], 'ops': c['ops']}, found_input=False)
        # specification machines on their classes
        cl = m.classes()
        for label, runm, want in (('sequence machine', m.run_seq, ('seq', 'noopt')), ('bag machine', m.run_bag, ('bag',)), ('choice machine', m.run_cho, ('choice',))):
            sub = [c for c in cases if cl.get(c['type']) in want]
            so = runm(sub)
            si = [io[i] for i, c in enumerate(cases) if cl.get(c['type']) in want]
            for c, a, b in zip(sub, si, so):
                if verdict(c, a) is not None:
                    rep.violation('%s (%s class, where C02 is proved): valid word %s: %s' % (c['type'], label, c['word'], verdict(c, a)),
                                  {'type': c['type'], 'word': c['word'], 'ops': c['ops']})
                pa = [(hist.outcome_class(o['st']), tuple(o['ord'])) for o in a]
                pb = [(hist.outcome_class(o['st']), tuple(o['ord'])) for o in b]
                if pa != pb:
                    rep.violation('implementation and %s disagree on a valid word of %s' % (label, c['type']),
                                  {'correspondence': 'impl<->' + label, 'type': c['type'], 'ops': c['ops']}, found_input=False)
        lens = [len(c['word']) for c in cases]
        rep.coverage.update({'evaluations': len(cases), 'distinct_nontrivial': len({(c['type'], tuple(c['word'])) for c in cases if len(c['word']) >= 2}),
                             'traces_validated_against_impl': len(cases), 'words_not_handled': nbad,
                             'rule': 'all words of each schema content model up to a length (capped per length) + long derivative-guided walks '
                                     'completed to words; each confirmed by the extracted verified matcher; non-trivial = distinct word of length >= 2',
                             'input_distribution': {'types': len({c['type'] for c in cases}), 'max_len': max(lens), 'mean_len': round(sum(lens) / len(lens), 2),
                                                    'empty_words': sum(1 for x in lens if x == 0)},
                             'samples': [{'type': c['type'], 'word': c['word']} for c in (cases[0], cases[len(cases) // 2], cases[-1])]})
    finally:
        m.close()
    if not res['ok'] or res['forbidden'] or not res['build_ok']:
        if not rep.violations:
            rep.violation('Properties/C02.v no longer checks (theorem %s)' % res['failing'], {'theorem': res['failing'], 'log': res['log'][-3000:]}, found_input=False)
    rep.assumptions += ['children are minimal elements from a fixed factory; the parser path is exercised by C09']


def replay(path):
    r = json.load(open(path))
    out = impl.run_cases([{'type': r['type'], 'ops': r['ops']}], workers=1)[0]
    print(json.dumps({'replay': r, 'observed_now': out}, indent=1, default=str)[:4000])
    return 0
