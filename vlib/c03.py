"""C03 — every element class is a faithful translation of its XSD declaration.
Decided by: Properties/C03.v over tables regenerated from /repo (independent XSD reader vs live classes).
When a theorem breaks: the same tables are diffed here to produce the failing row, which is then confirmed on the
implementation (constructing the element / feeding the distinguishing word)."""
import json
import os
from . import common as C
from . import impl


def diff_tables(g):
    """python-side re-computation of the clauses of Model/Tables.v, yielding concrete failing rows"""
    import sys
    sys.path.insert(0, os.path.join(C.VERIF, 'tr'))
    from schema import cls_name
    out = []
    lib = g['lib']
    by_name = {}
    for c in lib['classes']:
        by_name.setdefault(c['name'] if isinstance(c['name'], str) else None, []).append(c)
    for name, tys in g['elements'].items():
        cl = by_name.get(name, [])
        if len(cl) != 1:
            out.append(('class:' + name, 'element %s has %d classes' % (name, len(cl)), {'element': name}))
            continue
        if len(tys) != 1:
            out.append(('class:' + name, 'element %s declared with %d types' % (name, len(tys)), {'element': name}))
            continue
        ty = tys[0]
        if ty.startswith('<anon>'):
            exp = cls_name(ty[6:], 'XSDComplexType')
        elif ty in g['ctypes'] and ':' not in ty:
            exp = cls_name(ty, 'XSDComplexType')
        else:
            exp = cls_name(ty, 'XSDSimpleType')
        c = cl[0]
        if c['cls'] != cls_name(name, 'XML'):
            out.append(('class:' + name, 'class of %s is named %s' % (name, c['cls']), {'element': name}))
        if c['type'] != exp:
            out.append(('type:' + name, 'class %s is bound to %s, schema declares %s' % (c['cls'], c['type'], ty), {'element': name, 'expected': exp, 'got': c['type']}))
    for c in lib['classes']:
        if c['name'] not in g['elements']:
            out.append(('extra-class:' + str(c['cls']), 'class without declaration', {'class': c['cls']}))
    for key, ct in g['ctypes'].items():
        lc = lib['ctypes'].get(cls_name(key, 'XSDComplexType'))
        if lc is None:
            out.append(('ctype:' + key, 'no complex type class', {'type': key}))
            continue
        exp = [[n.split(':')[-1], t, r] for n, t, r in ct['attrs']]
        got = lc['attrs']
        okrows = isinstance(got, list) and len(got) == len(exp) and all(
            isinstance(r, list) and r[:3] == e and (e[1] == '' or r[3] == cls_name(e[1], 'XSDSimpleType')) for r, e in zip(got, exp))
        if not okrows:
            out.append(('attrs:' + key, 'attribute table of %s differs from the schema' % key, {'type': key, 'expected': exp, 'got': got}))
        sb = ct['simple']
        if (cls_name(sb, 'XSDSimpleType') if sb else None) != lc['simple']:
            out.append(('simple:' + key, 'simple content base of %s: schema %s, library %s' % (key, sb, lc['simple']), {'type': key}))
        has_t = cls_name(key, 'XSDComplexType') in g['templates']
        if has_t != ct['has_particle']:
            out.append(('template:' + key, 'template presence differs for ' + key, {'type': key}))
    return out


def run(rep):
    res = C.proof_obligations(rep, 'Properties/C03.v')
    g = json.load(open(os.path.join(C.BUILD, 'gen.json')))
    rows = diff_tables(g)
    n_rows = sum(len(v['attrs']) for v in g['ctypes'].values())
    rep.coverage['evaluations'] = len(g['elements']) + len(g['ctypes']) * 3 + n_rows
    rep.coverage['distinct_nontrivial'] = len(g['xsd_particles']) + n_rows
    rep.coverage['rule'] = 'every partwise element declaration, every complex type (particle, attribute rows, simple base); non-trivial = content-model pairs + attribute rows compared'
    rep.coverage['exhaustive'] = True
    rep.coverage['samples'] = [{'element': 'score-partwise', 'types': g['elements']['score-partwise']},
                               {'ctype': 'barline', 'attrs': g['ctypes']['barline']['attrs'][:3]}]
    rep.assumptions += ['xml:lang / xml:space types come from the W3C xml.xsd (not in the repository)',
                        'attribute names are compared up to the xml:/xlink: prefix here; the prefix itself is C04',
                        'library tables are dumped after every complex-type class has resolved its lazy tables once (tr/lib.py, pass 2)']
    for key, what, detail in rows:
        # language clause failures get a distinguishing word (search), table rows are their own replay
        rep.finding_or_violation(key, what, dict(detail, theorem='Properties/C03.v', confirm='python3 -c "see detail"'))
    # content models: confirm a broken language clause with a distinguishing word fed to the class
    cm_bad = impl.cm_differences(g)
    for key, word, in_xsd in cm_bad:
        obs = impl.feed_word(key, word)
        rep.violation('content model of %s differs from the schema: word %s is %s by the schema; the class says %s' % (
            key, word, 'allowed' if in_xsd else 'forbidden', obs), {'type': key, 'word': word, 'schema_allows': in_xsd, 'observed': obs,
                                                                   'theorem': 'C03_content_models'})
    if not res['ok'] or res['forbidden'] or not res['build_ok']:
        if not rep.violations:
            rep.violation('Properties/C03.v no longer checks (theorem %s); no differing row found by the table diff' % res['failing'],
                          {'theorem': res['failing'], 'log': res['log'][-3000:], 'build_log': res['build_log'][-2000:]}, found_input=False)
    if rep.tier == 'thorough':
        thorough(rep)


def thorough(rep):
    # same tables after resolving the lazy attribute tables in several other orders (process-history independence)
    import subprocess
    base = json.load(open(os.path.join(C.BUILD, 'lib.json')))['ctypes']
    for s in range(rep.seed, rep.seed + 6):
        out = os.path.join(C.BUILD, 'lib_order_%d.json' % s)
        env = C.impl_env({'VERIF_DUMP_ORDER': str(s)})
        subprocess.run([C.PY, '-W', 'ignore', os.path.join(C.VERIF, 'tr', 'lib.py'), out], env=env, check=True, capture_output=True)
        other = json.load(open(out))['ctypes']
        os.remove(out)
        for k in base:
            if base[k]['attrs'] != other[k]['attrs']:
                rep.violation('attribute table of %s depends on the order in which classes were first used' % k,
                              {'type': k, 'order_seed': s, 'a': base[k]['attrs'], 'b': other[k]['attrs']})
    rep.coverage['orders_tried'] = 6


def replay(path):
    r = json.load(open(path))
    print(json.dumps(r, indent=1)[:3000])
    rep = C.Report('C03', 'quick', 1)
    run(rep)
    return rep.finish()
