"""C04 — the attribute interface is exactly the schema's.  Every element class, every declared attribute (accepted and
refused values, overwrite, None, re-set) plus undeclared names, through dot syntax, constructor keywords and the parser,
against the extracted Coq model (Model/Attr.v) whose value verdict is the attribute's own type class (C05)."""
import json
import os
import subprocess
from . import common as C
from . import extract


def run(rep):
    res = C.proof_obligations(rep, 'Properties/C04.v')
    g = json.load(open(os.path.join(C.BUILD, 'gen.json')))
    props = ','.join(g['lib']['properties'])
    import sys
    sys.path.insert(0, os.path.join(C.VERIF, 'tr'))
    from schema import cls_name
    by_cls = {cls_name(k, 'XSDComplexType'): k for k in g['ctypes']}
    xsd_type_of = {}
    for c in g['lib']['classes']:
        el = c['name'] if isinstance(c['name'], str) else None
        tys = g['elements'].get(el, [])
        if len(tys) == 1:
            t = tys[0]
            xsd_type_of[c['cls']] = t[6:] if t.startswith('<anon>') else t
    m = extract.Model()
    try:
        seeds = [rep.seed] if rep.tier == 'quick' else list(range(rep.seed, rep.seed + 8))
        recs = []
        for s in seeds:
            r = subprocess.run([C.PY, '-W', 'ignore', os.path.join(C.VERIF, 'corr', 'c04_runner.py'), str(s)], capture_output=True, text=True,
                               env=C.impl_env(), timeout=1800)
            if r.returncode != 0:
                raise RuntimeError('c04 runner failed: ' + r.stderr[-2000:])
            recs += json.loads(r.stdout)
        lines, idx = [], []
        n_ops = n_single = 0
        for i, rec in enumerate(recs):
            if not rec['complex']:
                if rec['simple_attr'] != 'XSDWrongAttribute':
                    rep.finding_or_violation('C04:simple:%s' % rec['cls'], 'simple-typed %s accepts an attribute keyword (%s)' % (rec['cls'], rec['simple_attr']), {'class': rec['cls']})
                continue
            if 'table_exc' in rec or 'ctor_exc' in rec:
                rep.finding_or_violation('C04:table:%s' % rec['cls'], '%s: attribute table / constructor raises %s' % (rec['cls'], rec.get('table_exc') or rec.get('ctor_exc')),
                                         {'class': rec['cls'], 'detail': {k: rec[k] for k in rec if k.endswith('exc') or k == 'ctor'}})
                continue
            # the declarations given to the model are the SCHEMA's (prefix dropped: the prefix itself is the C04-prefix finding)
            xt = xsd_type_of.get(rec['cls'])
            if xt is None or xt not in g['ctypes']:
                rep.violation('%s: no schema type found for the class' % rec['cls'], {'class': rec['cls']})
                continue
            decls = ';'.join('%s:t:%d' % (a[0].split(':')[-1], int(a[2])) for a in g['ctypes'][xt]['attrs']) or '-'
            ops = ' '.join('%s=%s' % (t['key'], 'None' if t['none'] else '%d:%d' % (t['tok'], int(t['verdict'] == 'ok'))) for t in rec['trace'])
            lines.append('attr %s %s %s' % (props, decls, ops))
            idx.append(i)
        mo = m.raw(lines)
        for i, l in zip(idx, mo):
            rec = recs[i]
            steps = [p.split(';') for p in l.split(' | ')] if rec['trace'] else []
            xt = xsd_type_of[rec['cls']]
            bad = None
            reported = set()
            for t, (code, d, miss) in zip(rec['trace'], steps):
                n_ops += 1
                st = t['st']
                exp_keys = [kv.split('=')[0] for kv in d.split(',') if kv]
                got_keys = [k for k, _ in t['dict']]
                cls = {'ok': 'ok', 'AttributeError': 'wrong', 'TypeError': 'invalid', 'ValueError': 'invalid'}.get(st, 'internal:' + st)
                if t['verdict'] and t['verdict'].startswith('EXC:'):
                    # the attribute's own type class raises something else than TypeError/ValueError: recorded, state unchanged on both sides
                    if ('type', t['key']) not in reported:
                        reported.add(('type', t['key']))
                        rep.finding_or_violation('C04:type:%s:%s' % (rec['cls'], t['key']), '%s.%s: the type class of the attribute raises %s' % (rec['cls'], t['key'], t['verdict'][4:]),
                                                 {'class': rec['cls'], 'key': t['key'], 'value': t['val']})
                    if got_keys != exp_keys:
                        bad = (t, 'stored keys %s differ from the model %s after a failing assignment' % (got_keys, exp_keys), 'seq')
                        break
                    continue
                if code == 'reserved':
                    # a declared schema attribute captured by a reserved Python name can never be set: that IS the finding
                    if ('reserved', t['key']) not in reported:
                        reported.add(('reserved', t['key']))
                        rep.finding_or_violation('C04:reserved:%s:%s' % (rec['cls'], t['key']), '%s: schema attribute %s is captured by the reserved Python name (outcome %s)' % (rec['cls'], t['key'], st),
                                                 {'class': rec['cls'], 'key': t['key'], 'value': t['val']})
                    if got_keys != exp_keys:
                        bad = (t, 'stored keys changed by an assignment to a reserved name', 'seq')
                        break
                    continue
                if cls != code or got_keys != exp_keys:
                    bad = (t, 'assignment %s=%s: outcome %s, stored keys %s; model: %s, keys %s' % (t['key'], t['val'], st, got_keys, code, exp_keys), 'seq')
                    break
            if bad:
                t, why, kind = bad
                rep.finding_or_violation('C04:%s:%s:%s' % (kind, rec['cls'], t['key']), '%s: %s' % (rec['cls'], why),
                                         {'class': rec['cls'], 'key': t['key'], 'value': t['val'], 'why': why})
                continue
            # required attributes and serialisation
            if steps:
                miss = [x for x in steps[-1][2].split(',') if x]
            else:
                miss = [a[0].split(':')[-1] for a in g['ctypes'][xt]['attrs'] if a[2]]
            refuses = rec['required'] != 'ok'
            if refuses != bool(miss):
                rep.finding_or_violation('C04:required:%s' % rec['cls'], '%s: required-attribute check %s, model says missing %s' % (rec['cls'], rec['required'], miss),
                                         {'class': rec['cls'], 'missing': miss, 'observed': rec['required']})
            req_schema = [a[0] for a in g['ctypes'][xt]['attrs'] if a[2]]
            if (rec['required_fresh'] != 'ok') != bool(req_schema):
                rep.finding_or_violation('C04:required-fresh:%s' % rec['cls'], '%s without attributes: required-attribute check says %s, the schema requires %s' % (
                    rec['cls'], rec['required_fresh'], req_schema), {'class': rec['cls'], 'schema_required': req_schema})
            if isinstance(rec['ser'], str) or rec['ser'] != rec['cur']:
                rep.finding_or_violation('C04:ser:%s' % rec['cls'], '%s: serialised attributes %s differ from the current ones %s' % (rec['cls'], rec['ser'], rec.get('cur')),
                                         {'class': rec['cls']})
            # names in the output must be the schema's (prefix included)
            for rec2 in rec['single']:
                n_single += 1
                exp = 'ok' if (rec2['declared'] and rec2['verdict'] == 'ok') else ('XSDWrongAttribute' if not rec2['declared'] else rec2['verdict'])
                if exp.startswith('EXC:'):
                    continue        # the type class itself raises: reported above as C04:type:...
                if rec2['ctor'] != exp:
                    rep.finding_or_violation('C04:ctor:%s:%s' % (rec['cls'], rec2['key']), '%s(%s=%s): %s, expected %s' % (rec['cls'], rec2['key'], rec2['val'], rec2['ctor'], exp),
                                             {'class': rec['cls'], 'key': rec2['key'], 'value': rec2['val']})
                for how in ('ctor_unchecked', 'dot_unchecked'):
                    ref = rec2['ctor'] if how == 'ctor_unchecked' else rec2.get('dot_checked')
                    if how in rec2 and ref is not None and rec2[how] != ref:
                        rep.finding_or_violation('C04:%s:%s:%s' % (how, rec['cls'], rec2['key']), '%s (xsd_check=False) %s=%s by %s: %s, expected %s as on a checked element' % (
                            rec['cls'], rec2['key'], rec2['val'], how.split('_')[0], rec2[how], ref), {'class': rec['cls'], 'key': rec2['key'], 'value': rec2['val'], 'how': how})
                if 'parser' in rec2:
                    pexp_ok = rec2['verdict'] == 'ok' or True
                    if rec2['verdict'] == 'ok' and rec2['parser'] != 'ok':
                        rep.finding_or_violation('C04:parser:%s:%s' % (rec['cls'], rec2['key']), '%s: parser refuses valid attribute %s=%s with %s' % (rec['cls'], rec2['key'], rec2['val'], rec2['parser']),
                                                 {'class': rec['cls'], 'key': rec2['key'], 'value': rec2['val']})
        # the parser route with numeric spellings, judged by the schema side (extracted xsd_valid on the attribute's declared type)
        pt = [(rec['cls'], x) for rec in recs if isinstance(rec, dict) for x in rec.get('parser_texts', [])]
        uniq = sorted({(x[1], x[2]) for _, x in pt})
        xv = dict(zip(uniq, m.raw(['xv %s %s' % (t, ','.join(str(ord(ch)) for ch in text)) for t, text in uniq])))
        n_pt = 0
        for cls, (an, tname, text, o, stored) in pt:
            n_pt += 1
            valid = xv[(tname, text)] == '1'
            if o == 'ok' and not valid:
                rep.finding_or_violation('C04:parser-accepts:%s:%s' % (tname, text), '%s: the parser accepts %s=%r (stored %s) although %r is not in the lexical space of %s' % (cls, an, text, stored, text, tname),
                                         {'class': cls, 'attribute': an, 'type': tname, 'text': text, 'stored': stored})
            elif o != 'ok' and valid:
                rep.finding_or_violation('C04:parser-refuses:%s:%s' % (tname, text), '%s: the parser refuses %s=%r with %s although the text is valid for %s' % (cls, an, text, o, tname),
                                         {'class': cls, 'attribute': an, 'type': tname, 'text': text, 'raised': o})
        rep.coverage['parser_numeric_spellings'] = n_pt
        rep.coverage['cross_offers_between_same_named_attributes_of_different_types'] = sum(len(rec.get('parser_texts', [])) for rec in recs if rec.get('cls') == '<cross offers>')
        # prefix: the schema's prefixed attribute names must be what is serialised
        pre = sorted({(k, a[0]) for k, v in g['ctypes'].items() for a in v['attrs'] if ':' in a[0] and a[0].startswith('xml:')})
        for k, name in pre:
            rep.finding_or_violation('C04:prefix:%s' % name, 'type %s: schema attribute %s is stored and serialised as %s' % (k, name, name.split(':')[1]), {'type': k, 'attribute': name})
        rep.coverage.update({'evaluations': n_ops + n_single, 'distinct_nontrivial': len({(recs[i]['cls'], t['key'], t['val']) for i in idx for t in recs[i]['trace']}),
                             'traces_validated_against_impl': len(idx), 'classes': len(recs), 'assignments': n_ops, 'ctor_and_parser_probes': n_single,
                             'exhaustive': False,
                             'rule': 'every element class; per declared attribute an accepted value, a refused value, an overwrite, None and a re-set (verdicts '
                                     'taken from the attribute\'s own type class), plus undeclared names, shuffled; non-trivial = distinct (class, key, value)',
                             'samples': [recs[idx[0]]['trace'][:3]] if idx else []})
    finally:
        m.close()
    nested_required(rep, g)
    if not res['ok'] or res['forbidden'] or not res['build_ok']:
        if not rep.violations:
            rep.violation('Properties/C04.v no longer checks (theorem %s)' % res['failing'], {'theorem': res['failing'], 'log': res['log'][-3000:]}, found_input=False)
    rep.assumptions += ['"valid for the attribute\'s simple type" is the verdict of the type class (tied to the schema by C05)',
                        'the declaration table given to the model is the library\'s (tied to the schema by C03)']


def nested_required(rep, g):
    """a schema-generated, complete document in which ONE node lacks ONE required attribute, built through the API: to_string() of the ROOT must
    refuse it (the refusal has to reach every depth, leaf elements included)"""
    import copy
    import random
    from . import docgen, docs as docs_mod
    rng = random.Random(rep.seed * 29 + 5)
    G = docgen.Gen(g, rng)
    quick = rep.tier == 'quick'
    # element names whose type has a required attribute, and the elements that can hold them
    req_of = {}
    for name, tys in g['elements'].items():
        t = tys[0][6:] if tys[0].startswith('<anon>') else tys[0]
        rq = [a[0] for a in (g['ctypes'].get(t) or {'attrs': []})['attrs'] if a[2] and ':' not in a[0]]
        if rq:
            req_of[name] = rq
    from . import rx
    parents = {}
    for name, tys in g['elements'].items():
        t = tys[0][6:] if tys[0].startswith('<anon>') else tys[0]
        p_ = g['xsd_particles'].get(t)
        if p_ and name not in ('score-partwise', 'score-timewise'):
            for leaf in rx.alphabet(p_):
                if leaf in req_of:
                    parents.setdefault(leaf, []).append((name, p_))
    cases = []
    seen = set()
    for el in sorted(req_of):
        ps = parents.get(el, [])
        rng.shuffle(ps)
        for pname, part in ps[:(2 if quick else 8)]:
            w = rx.cover_word(rx.of_tree(part), [el], limit=4000)
            if w is None:
                continue
            d = G.element(pname, 9, 2)                       # attributes and text of the parent; children replaced by a word that contains el
            d['kids'] = [G.element(s_, 1, 2) for s_ in w]
            for gp in (None, 'wrap'):
                doc = d
                target_depth = 1
                if gp == 'wrap':
                    # one level further down: a grandparent, when the schema offers one
                    gps = [(n2, p2) for n2, tys2 in g['elements'].items() for p2 in [g['xsd_particles'].get(tys2[0][6:] if tys2[0].startswith('<anon>') else tys2[0])]
                           if p2 and pname in rx.alphabet(p2) and n2 not in ('score-partwise', 'score-timewise')]
                    if not gps:
                        continue
                    n2, p2 = rng.choice(gps)
                    w2 = rx.cover_word(rx.of_tree(p2), [pname], limit=4000)
                    if w2 is None:
                        continue
                    doc = G.element(n2, 9, 2)
                    placed = False
                    kids2 = []
                    for s_ in w2:
                        if s_ == pname and not placed:
                            kids2.append(copy.deepcopy(d))
                            placed = True
                        else:
                            kids2.append(G.element(s_, 1, 2))
                    doc['kids'] = kids2
                    target_depth = 2
                whole = copy.deepcopy(doc)
                cut = copy.deepcopy(doc)
                holder = cut if target_depth == 1 else [k for k in cut['kids'] if k['tag'] == pname][0]
                n = [k for k in holder['kids'] if k['tag'] == el][0]
                have = [x for x in n['attrs'] if x[0] in req_of[el]]
                if not have:
                    continue
                a = rng.choice(have)
                n['attrs'].remove(a)
                seen.add((doc['tag'], el))
                cases.append((whole, cut, el, a[0], target_depth, bool(n['kids'])))
    ro, _ = docs_mod.run_docs(api=[c[0] for c in cases] + [c[1] for c in cases])
    r_whole, r_cut = ro[:len(cases)], ro[len(cases):]
    n_checked = 0
    for (whole, cut, tag, attr, dp, haskids), rw, rc in zip(cases, r_whole, r_cut):
        if 'exc' in rw and rw['step'] in ('build', 'emit1'):
            continue                      # the complete document is itself refused (a recorded finding of another check): nothing to compare
        n_checked += 1
        refused = 'exc' in rc and rc['step'] == 'emit1' and rc['exc'] == 'XSDAttributeRequiredException'
        if not refused:
            what = 'is serialised' if 'exc' not in rc or rc['step'] not in ('build', 'emit1') else 'raises %s at %s' % (rc['exc'], rc['step'])
            rep.finding_or_violation('C04:nested-required:%s' % tag, '<%s> holding a <%s> (depth %d, %s) that lacks its required attribute %s: to_string() of the root %s' % (
                cut['tag'], tag, dp, 'with children' if haskids else 'leaf', attr, what), {'document_built_through_the_api': cut, 'element': tag, 'missing_required_attribute': attr, 'observed': rc})
    rep.coverage['nested_required_attribute_probes'] = {'documents': n_checked, 'distinct_root_element_pairs': len(seen)}


def replay(path):
    print(open(path).read()[:3000])
    return 0
