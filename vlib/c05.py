"""C05 — value validation matches the XSD simple types; emitted text is lexically valid.
Coq: Model/SimpleType.v (lib_check: transliteration driven by the dumped class table; xsd_valid: built from the schema table
only), Properties/C05.v.  Tie: a battery of (type, value) pairs - every literal of the type and of its related types, foreign
literals, boundary numbers, pattern positives/negatives, floats of all shapes, bools, None, white-space variants - evaluated
by the implementation and by the extracted lib_check; every accepted value's emitted text judged by the extracted xsd_valid
(soundness) and every schema-valid normalised literal offered to the implementation (completeness)."""
import json
import math
import os
import random
from . import common as C
from . import extract, stvalues


def enc(rv):
    nan, inf = float('nan'), float('inf')
    v = eval(rv)
    if v is None:
        return 'n'
    if isinstance(v, bool):
        return 'b:%d' % int(v)
    if isinstance(v, int):
        return 'i:%d' % v
    if isinstance(v, float):
        r = ','.join(str(ord(c)) for c in repr(v))
        if math.isnan(v):
            return 'f:n:0:1:' + r
        if math.isinf(v):
            return 'f:i:%d:1:%s' % (1 if v > 0 else -1, r)
        num, den = v.as_integer_ratio()
        kind = 'e' if 'e' in repr(v) else 'p'
        return 'f:%s:%d:%d:%s' % (kind, num, den, r)
    return 's:' + ','.join(str(ord(c)) for c in v)


def premise_class(rv):
    """which premise of the soundness theorem a value falls outside of (None = inside)"""
    nan, inf = float('nan'), float('inf')
    v = eval(rv)
    if isinstance(v, bool):
        return 'bool'
    if isinstance(v, float) and (math.isnan(v) or math.isinf(v) or 'e' in repr(v)):
        return 'float-shape'
    if isinstance(v, str) and any(ch.isspace() and ch not in ' \t\n\r' for ch in v):
        return 'foreign-space'
    if isinstance(v, str) and v.strip() == '' and v != '':
        return 'blank'
    if isinstance(v, str) and v != v.strip():
        return 'outer-space'
    return None


def run(rep):
    res = C.proof_obligations(rep, 'Properties/C05.v')
    g = json.load(open(os.path.join(C.BUILD, 'gen.json')))
    rng = random.Random(rep.seed * 7 + 5)
    quick = rep.tier == 'quick'
    pairs, xsd_of = stvalues.battery(g, rng, foreign_literals=25 if quick else 0, full=not quick)
    # one process, base classes before the classes derived from them (a derived class must not depend on its base having been used)
    depth = {c: len(d['mro']) for c, d in g['lib']['stypes'].items()}
    order = sorted(range(len(pairs)), key=lambda i: (depth.get(pairs[i][0], 0), i))
    impl = stvalues.run_battery(pairs, order=order)
    m = extract.Model()
    try:
        mo = m.raw(['st %s %s' % (c, enc(v)) for c, v in pairs])
        # soundness: emitted text of every accepted value judged against the schema
        acc = [(i, c, v) for i, ((c, v), r) in enumerate(zip(pairs, impl)) if r[0] == 'ok' and c in xsd_of]
        xv = m.raw(['xv %s %s' % (xsd_of[c], ','.join(str(ord(ch)) for ch in impl[i][1])) for i, c, v in acc])
        # completeness: every string valid for the type, in normalised form, offered as str (and as number where it is one)
        strs = [(i, c, v) for i, (c, v) in enumerate(pairs) if c in xsd_of and v.startswith("'") or v.startswith('"')]
        sv = m.raw(['xv %s %s' % (xsd_of[c], ','.join(str(ord(ch)) for ch in eval(v))) for i, c, v in strs if c in xsd_of])
    finally:
        m.close()
    # a verdict is a function of the value: the same constructor call repeated right away must be judged the same
    n_again = 0
    for (c, v), a in zip(pairs, impl):
        if len(a) > 4 and a[4] != a[0]:
            n_again += 1
            if n_again <= 4:
                rep.violation('%s(%s): %s the first time, %s when the same call is repeated' % (c, v, a[0], a[4]), {'class': c, 'value': v, 'first': a[0], 'second': a[4]})
    rep.coverage['verdicts_repeated'] = len(impl)
    ndiff = 0
    invalid_acc = {i for (i, c, v), ok in zip(acc, xv) if ok != '1'}
    for i, ((c, v), a, b) in enumerate(zip(pairs, impl, mo)):
        bm = b.split(';')[0]
        am = a[0] if a[0] in ('ok', 'TypeError', 'ValueError') else 'other'
        if am != bm:
            ndiff += 1
            if ndiff <= 8:
                if i in invalid_acc:
                    rep.violation('%s accepts %s and emits %r, which is not valid for %s (the pinned model refuses it with %s)' % (c, v, a[1], xsd_of.get(c), bm),
                                  {'class': c, 'value': v, 'emitted': a[1], 'model': bm})
                else:
                    rep.violation('%s(%s): implementation %s, model lib_check %s' % (c, v, a[0], bm), {'correspondence': 'impl<->lib_check', 'class': c, 'value': v}, found_input=False)
    # what a real element carrying the value serialises must be the text judged above (str(value): Model/SimpleType.render)
    n_ser = 0
    ser_bad = {}
    for (c, v), a in zip(pairs, impl):
        if a[0] != 'ok' or len(a) < 4 or a[2] is None:
            continue
        if a[3] and '@' in a[3] and any(ch in a[1] for ch in '\t\n\r'):
            continue                # attribute values are white-space normalised by every XML parser
        if any((ord(ch) < 32 and ch not in '\t\n\r') or 0xD800 <= ord(ch) <= 0xDFFF or ord(ch) in (0xFFFE, 0xFFFF) for ch in a[1]) or '\r' in a[1]:
            continue                # not XML characters (or CR, which parsers normalise): outside every property's quantification
        n_ser += 1
        if a[2] != a[1]:
            ser_bad.setdefault(c, []).append((v, a[1], a[2], a[3]))
    for c, l in sorted(ser_bad.items())[:6]:
        v, want, got, car = l[0]
        rep.violation('%s accepts %s; %s serialises it as %r, not as %r' % (c, v, car, got, want), {'class': c, 'value': v, 'carrier': car, 'serialised': got, 'str': want, 'more': [x[0] for x in l[1:6]]})
    rep.coverage['values_serialised_through_an_element'] = n_ser
    unsound = {}
    for (i, c, v), ok in zip(acc, xv):
        if ok != '1':
            pc = premise_class(v) or 'inside-premises'
            unsound.setdefault((pc, c), []).append(v)
    for (pc, c), vs in sorted(unsound.items()):
        rep.finding_or_violation('C05:unsound:%s:%s' % (pc, c), '%s accepts %s and emits text that is not valid for %s' % (c, vs[:4], xsd_of[c]),
                                 {'class': c, 'values': vs[:10], 'premise': pc})
    incomplete = {}
    k = 0
    for (i, c, v) in strs:
        if c not in xsd_of:
            continue
        ok = sv[k]
        k += 1
        s = eval(v)
        if ok == '1' and s == ' '.join(s.split()) and impl[i][0] != 'ok':
            # also offered as a number?
            alt = [j for j, (c2, v2) in enumerate(pairs) if c2 == c and v2 in (s, repr(s))]
            num_ok = False
            for form in (int, float):
                try:
                    z = form(s)
                    num_ok = num_ok or any(c2 == c and impl[j][0] == 'ok' for j, (c2, v2) in enumerate(pairs) if c2 == c and v2 == repr(z))
                except ValueError:
                    pass
            if not num_ok:
                incomplete.setdefault(c, []).append(s)
    for c, vs in sorted(incomplete.items()):
        rep.finding_or_violation('C05:incomplete:%s' % c, '%s refuses %s although the schema type %s allows it' % (c, vs[:4], xsd_of[c]), {'class': c, 'values': vs[:10]})
    # third clause: element-only and empty types must refuse non-empty text
    import subprocess
    code = r'''
import sys, io, json, contextlib, warnings
warnings.simplefilter('ignore')
with contextlib.redirect_stdout(io.StringIO()):
    from musicxml.xmlelement import xmlelement as XE
out = []
for n in XE.__all__:
    c = getattr(XE, n)
    if isinstance(c, type) and issubclass(c, XE.XMLElement) and c is not XE.XMLElement and c.TYPE.get_xsd_tree().is_complex_type and not c.TYPE._SIMPLE_CONTENT:
        try:
            e = c('hello'); out.append([n, 'accepted', e.value_])
        except Exception as ex:
            out.append([n, type(ex).__name__, None])
json.dump(out, sys.stdout)
'''
    r = subprocess.run([C.PY, '-W', 'ignore', '-c', code], capture_output=True, text=True, env=C.impl_env(), timeout=600)
    texts = json.loads(r.stdout)
    n_text_acc = sum(1 for t in texts if t[1] == 'accepted')
    if n_text_acc:
        rep.finding_or_violation('C05:text-accepted', '%d of %d element classes whose type permits no character content accept text (e.g. %s(\'hello\'))' % (n_text_acc, len(texts), texts[0][0]),
                                 {'classes': [t[0] for t in texts if t[1] == 'accepted'][:20]})
    # None as the element's value: an element whose type has character content must either refuse it (construction, assignment or serialisation) or
    # serialise text that is valid for that type - the empty text it would emit is judged by the extracted xsd_valid
    code2 = r"""
import sys, io, json, contextlib, warnings
warnings.simplefilter('ignore')
with contextlib.redirect_stdout(io.StringIO()):
    from musicxml.xmlelement import xmlelement as XE
    from musicxml.xsd import xsdsimpletype as ST
sys.path.insert(0, '@CORR@')
import impl_runner as R
R.init()
import xml.etree.ElementTree as ET
out = []
for n in XE.__all__:
    c = getattr(XE, n)
    if not (isinstance(c, type) and issubclass(c, XE.XMLElement)) or c is XE.XMLElement:
        continue
    try:
        T = c.TYPE
        sc = T if (isinstance(T, type) and issubclass(T, ST.XSDSimpleType)) else getattr(T, '_SIMPLE_CONTENT', None)
    except Exception:
        continue
    if sc is None:
        continue
    for how in ('ctor', 'assign'):
        try:
            if how == 'ctor':
                e = c(None, xsd_check=True)
            else:
                R.make(c.XSD_TREE.name); v0 = R._cache.get(c.XSD_TREE.name)
                e = c(v0); e.value_ = None
            try:
                with contextlib.redirect_stdout(io.StringIO()):
                    s = e.to_string()
                out.append([n, sc.__name__, how, 'emitted', ET.fromstring(s).text or ''])
            except Exception as ex:
                out.append([n, sc.__name__, how, 'to_string:' + type(ex).__name__, None])
        except Exception as ex:
            out.append([n, sc.__name__, how, 'refused:' + type(ex).__name__, None])
json.dump(out, sys.stdout)
"""
    r2 = subprocess.run([C.PY, '-W', 'ignore', '-c', code2.replace('@CORR@', os.path.join(C.VERIF, 'corr'))], capture_output=True, text=True, env=C.impl_env(), timeout=600)
    if r2.returncode != 0:
        raise RuntimeError('C05 None sweep failed: ' + r2.stderr[-1500:])
    nones = json.loads(r2.stdout)
    em = [x for x in nones if x[3] == 'emitted' and x[1] in xsd_of]
    m2 = extract.Model()
    try:
        okv = m2.raw(['xv %s %s' % (xsd_of[x[1]], ','.join(str(ord(ch)) for ch in x[4])) for x in em]) if em else []
    finally:
        m2.close()
    for x, ok in zip(em, okv):
        if ok != '1':
            rep.finding_or_violation('C05:none-value:%s' % x[0], '%s: the value None is accepted (%s) and serialised as %r, which is not valid for %s' % (x[0], x[2], x[4], xsd_of[x[1]]),
                                     {'class': x[0], 'how': x[2], 'emitted_text': x[4], 'type': xsd_of[x[1]]})
    rep.coverage['none_values_offered'] = len(nones)
    rep.coverage['none_values_emitted'] = len(em)
    kinds = {}
    for c, v in pairs:
        k2 = 'str' if v[:1] in '\'"' else ('bool' if v in ('True', 'False') else ('None' if v == 'None' else ('float' if ('.' in v or 'e' in v or 'float' in v) else 'int')))
        kinds[k2] = kinds.get(k2, 0) + 1
    rep.coverage.update({'evaluations': len(pairs), 'distinct_nontrivial': len({(c, v) for (c, v), r in zip(pairs, impl) if r[0] != 'TypeError'}),
                         'traces_validated_against_impl': len(pairs), 'classes': len({c for c, _ in pairs}), 'accepted_values_judged': len(acc),
                         'impl_model_differences': ndiff, 'input_distribution': kinds, 'outcomes': {k3: sum(1 for r in impl if r[0] == k3) for k3 in ('ok', 'TypeError', 'ValueError')},
                         'rule': 'per simple-type class: its own literals, the literals of the types it derives from / that derive from it, foreign literals, fixed strings '
                                 '(patterns positives and negatives, white-space variants), numbers around every facet bound, floats of all shapes, bools, None; '
                                 'non-trivial = distinct pair that gets past the type check',
                         'samples': pairs[:3]})
    if not res['ok'] or res['forbidden'] or not res['build_ok']:
        if not rep.violations:
            rep.violation('Properties/C05.v no longer checks (theorem %s)' % res['failing'], {'theorem': res['failing'], 'log': res['log'][-2000:]}, found_input=False)
    rep.assumptions += ['float: repr() shape, exact rational value and text are supplied by Python (float.as_integer_ratio, repr)',
                        'pattern semantics: the derivative matcher of Spec/CharRe.v on ASTs read by tr/regex.py from the XSD syntax and from the library\'s Python syntax',
                        '\\d, \\c, \\i are the ranges listed in tr/regex.py']


def replay(path):
    print(open(path).read()[:3000])
    return 0
