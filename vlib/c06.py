"""C06 — no child lost, duplicated or orphaned: after every operation the schema-ordered view is a permutation of the
insertion-ordered view, both equal the list semantics of the successful operations, parents are right."""
import json
import os, json, random
from . import common as C
from . import matcher, hist


def proj(op, o):
    return (tuple(o['ord']) if isinstance(o['ord'], list) else o['ord'], tuple(o['uno']))


def spec_step(lst, op, i, st):
    """the obvious list semantics of one operation that succeeded"""
    if hist.norm_st(st) != 'ok':
        return lst
    k = op[0]
    if k in ('a', 'w'):
        return lst + [i]
    if k == 'r':
        return lst[:op[1]] + lst[op[1] + 1:] if op[1] < len(lst) else lst
    if k in ('p', 'q'):
        return lst[:op[1]] + [i] + lst[op[1] + 1:] if op[1] < len(lst) else lst
    if k == 'e':
        return lst + [lst[op[1]]] if op[1] < len(lst) else lst
    return lst


def judge(cases, out):
    bad = []
    for ci, (c, r) in enumerate(zip(cases, out)):
        spec = []
        for oi, (op, o) in enumerate(zip(c['ops'], r)):
            spec = spec_step(spec, op, oi, 'ok' if o['st'] == 'skip' else o['st'])
            why = None
            if not isinstance(o['ord'], list):
                why = 'ordered view raises ' + str(o['ord'])
            elif sorted(o['ord']) != sorted(o['uno']):
                why = 'ordered view %s is not a permutation of the insertion-ordered view %s' % (o['ord'], o['uno'])
            elif list(o['uno']) != spec:
                why = 'insertion-ordered view %s differs from the list semantics %s' % (o['uno'], spec)
            elif o.get('par'):
                why = 'children %s do not report the element as parent' % o['par']
            if why:
                bad.append((ci, oi, why))
                break
    return bad


def sweep_failures(m, cases, io, mo):
    out = []
    for ci, oi, why in judge(cases, io):
        pred = all(proj(None, io[ci][k]) == proj(None, mo[ci][k]) for k in range(oi + 1))
        out.append((ci, oi, why, pred))
    return out


def run(rep):
    res = C.proof_obligations(rep, 'Properties/C06.v')
    quick = rep.tier == 'quick'
    extra = []
    gp = os.path.join(C.BUILD, 'gen.json')
    if os.path.exists(gp):
        # orders that make the matcher re-arrange the children already attached (c12.perm_cases), then ONE of the children - re-homed or left where
        # it was - removed or replaced by itself, then the views judged: what the re-arrangement leaves behind shows only when a child is touched again
        from . import c12
        g0 = json.load(open(gp))
        rng = random.Random(rep.seed * 41 + 6)
        pcs = [c for c in c12.perm_cases(g0, rep.seed, 4 if quick else 5, 4 if quick else 20) if c['perm'] != c['arr']]
        rng.shuffle(pcs)
        for c in pcs[:700 if quick else 8000]:
            adds = c['ops'][:-1]
            i = rng.randrange(len(adds))
            extra.append({'type': c['type'], 'ops': adds + [['r', i], ['q', 0], ['f', 0]]})
            j = rng.randrange(len(adds))
            extra.append({'type': c['type'], 'ops': adds + [['s', j], ['r', j], ['f', 0]]})
    corp = matcher.Corpus(rep, per_type=40 if quick else 300, maxlen=14 if quick else 24, extra_cases=extra)
    rep.coverage['rearrangement_then_touch_histories'] = len(extra)
    try:
        m = corp.m
        bad = judge(corp.cases, corp.impl)
        seen = set()
        for ci, oi, why in bad:
            c = corp.cases[ci]
            key = 'C06:' + matcher.cause_key(c['type'], c['ops'][:oi + 1])
            predicted = corp.model_agrees(ci, oi, proj)
            rp = {'type': c['type'], 'ops': c['ops'][:oi + 1], 'why': why, 'model_predicts': predicted}
            if predicted:
                if key not in seen:
                    seen.add(key)
                    rep.finding_or_violation(key, '%s: %s' % (c['type'], why), rp)
            else:
                rep.violation('%s: %s (the pinned model does not predict this)' % (c['type'], why), rp)
        diffs = corp.correspondence(proj)
        badset = {ci for ci, _, _ in bad}
        broken = [(ci, oi) for ci, oi in diffs if ci not in badset][:6]
        if broken:
            matcher.report_broken_correspondence(rep, m, [(corp.cases[ci]['type'], corp.cases[ci]['ops'][:oi + 1]) for ci, oi in broken], sweep_failures,
                                                 'impl<->M_py (C06 projection)',
                                                 [{'impl': proj(None, corp.impl[ci][oi]), 'model': proj(None, corp.model[ci][oi])} for ci, oi in broken])
        # specification machines on their classes (where C06 is proved)
        sc, bc, cc = matcher.machine_corpus(rep, m, corp.classes, 30 if quick else 200, 12 if quick else 20, rep.seed)
        if not quick:
            ec, eb, ecc = matcher.exhaustive_machine_corpus(m, corp.classes, 5, rep.seed)
            sc, bc, cc = sc + ec, bc + eb, cc + ecc
            rep.coverage['exhaustive_machine_histories'] = len(ec) + len(eb) + len(ecc)
        from . import impl as I
        for cases, runm, label in ((sc, m.run_seq, 'sequence machine'), (bc, m.run_bag, 'bag machine'), (cc, m.run_cho, 'choice machine')):
            io = I.run_cases(cases)
            mo = runm(cases)
            for ci, oi, why in judge(cases, io):
                rep.violation('%s (%s class, where C06 is proved): %s' % (cases[ci]['type'], label, why),
                              {'type': cases[ci]['type'], 'ops': cases[ci]['ops'][:oi + 1], 'why': why})
            nd = 0
            for ci, (a, b) in enumerate(zip(io, mo)):
                d = hist.first_diff(a, b, lambda o: proj(None, o))
                if d is not None:
                    nd += 1
                    if nd <= 3:
                        rep.violation('implementation and %s disagree on the child views of %s' % (label, cases[ci]['type']),
                                      {'correspondence': 'impl<->' + label, 'type': cases[ci]['type'], 'ops': cases[ci]['ops'][:d + 1]}, found_input=False)
            rep.coverage['evaluations'] = rep.coverage.get('evaluations', 0) + len(cases)
            rep.coverage['traces_validated_against_impl'] = rep.coverage.get('traces_validated_against_impl', 0) + len(cases)
        nested_views(rep, m, rep.tier == 'quick')
        corp.coverage({'states_judged': sum(len(r) for r in corp.impl), 'impl_model_differences': len(diffs)})
    finally:
        corp.close()
    if not res['ok'] or res['forbidden'] or not res['build_ok']:
        if not rep.violations:
            rep.violation('Properties/C06.v no longer checks (theorem %s)' % res['failing'], {'theorem': res['failing'], 'log': res['log'][-3000:]}, found_input=False)
    rep.assumptions += ['dot set/unset are exercised by C15; nested documents by C08', 'M_py is tied to the code only by this correspondence']


def nested_views(rep, m, quick):
    """the two views over WHOLE documents, after calls on one element whose target belongs to another (remove / replace of a grandchild, a sibling,
    a sibling's child, an unattached element; an inadmissible add): at every node of the document the schema-ordered view must still hold exactly the
    children of the insertion-ordered view, and every child must point at its parent (the runner is shared with C10)"""
    import random
    from . import docgen, impl as I
    g = m.g
    rng = random.Random(rep.seed * 19 + 2)
    G = docgen.Gen(g, rng)
    small = ['pitch', 'step', 'footnote', 'voice', 'duration', 'staff', 'octave', 'level', 'dot', 'tie', 'beam', 'fermata', 'words']
    cases = []
    for name in ('note', 'measure', 'attributes', 'direction', 'harmony', 'notations', 'part-list', 'score-part', 'barline', 'print', 'defaults', 'identification', 'lyric', 'part', 'score-partwise'):
        for _ in range(12 if quick else 150):
            cases.append({'doc': G.element(name, 0, 4), 'extra': G.element(rng.choice(small), 0, 2)})
    outs = I.run_sharded('c10_nested_runner.py', lambda i, sh: {'seed': rep.seed * 100 + i, 'cases': sh}, cases)
    n = 0
    seen = set()
    for sh, res in outs:
        for r in res:
            if 'skip' in r or r.get('inv_before') != []:
                continue
            n += 1
            if r.get('inv_after') and (r['kind'], r['receiver']) not in seen:
                seen.add((r['kind'], r['receiver']))
                rep.finding_or_violation('C06:nested:%s:%s' % (r['kind'], 'raised' if r.get('raised') else 'returned'), 'after %s.%s(%s) (%s) the views of the document disagree: %s' % (
                    r['receiver'], r['kind'], r['target'], 'raised ' + r['raised'] if r.get('raised') else 'returned', r['inv_after']),
                    {'kind': r['kind'], 'receiver': r['receiver'], 'target': r['target'], 'raised': r.get('raised'), 'views_disagree_at': r['inv_after'],
                     'doc': sh[r['case']]['doc'], 'extra': sh[r['case']]['extra']})
    rep.coverage['nested_calls_with_foreign_targets'] = n


def replay(path):
    r = json.load(open(path))
    from . import impl as I
    out = I.run_cases([{'type': r['type'], 'ops': r['ops']}], workers=1)[0]
    print(json.dumps({'replay': r, 'observed_now': out[-1]}, indent=1, default=str)[:3000])
    return 0
