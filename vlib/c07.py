"""C07 — add_child never accepts a child that makes the element impossible to complete.
Every state reached by a SUCCESSFUL add / forward add / replace of the corpus is judged: DEAD only when the extracted
verified judge proves it (Parikh.dead_sound), ALIVE when a completion found by search is confirmed by the verified
witness checker and, for a sample, by the implementation itself; everything else is counted as unknown."""
import json
import random
from . import common as C
from . import matcher, hist, rx, impl


def proj(op, o):
    return (hist.outcome_class(o['st']), tuple(sorted(o['ord'])) if isinstance(o['ord'], list) else o['ord'])


def states(cases, out):
    """(ci, oi, [names]) after every successful add-like operation"""
    res = []
    for ci, (c, r) in enumerate(zip(cases, out)):
        names = matcher.id_names(c, r)
        for oi, (op, o) in enumerate(zip(c['ops'], r)):
            if op[0] in 'awpq' and o['st'] == 'ok' and isinstance(o['ord'], list):
                res.append((ci, oi, [names.get(i, '?') for i in o['ord']]))
                if sorted(o['uno']) != sorted(o['ord']):
                    # the element HOLDS the children of its insertion-ordered view: when the views disagree (C06's business) both are judged
                    res.append((ci, oi, [names.get(i, '?') for i in o['uno']]))
    return res


def judge(m, cases, out):
    st = [s for s in states(cases, out) if '?' not in s[2]]
    uniq = {}
    for ci, oi, ns in st:
        uniq.setdefault((cases[ci]['type'], tuple(sorted(ns))), None)
    keys = list(uniq)
    d = m.dead([(t, list(ns)) for t, ns in keys])
    for k, v in zip(keys, d):
        uniq[k] = v
    # the verified judge is sound but not complete: for what it leaves open, an exhaustive search over (derivative, remaining children) pairs
    # (Python toolkit): no word dominates <=> the search space is exhausted without a witness
    regs = {}
    for (t, ns), v in list(uniq.items()):
        if not v:
            if t not in regs:
                regs[t] = rx.of_tree(m.g['templates'][t])
            w, exhausted = rx.cover_word_ex(regs[t], list(ns), limit=20000)
            if w is None and exhausted:
                uniq[(t, ns)] = 'search'
    bad = []
    seen = set()
    for ci, oi, ns in st:
        if uniq[(cases[ci]['type'], tuple(sorted(ns)))] and ci not in seen:
            seen.add(ci)
            bad.append((ci, oi, ns))
    return bad, st, uniq


def sweep_failures(m, cases, io, mo):
    bad, _, _ = judge(m, cases, io)
    out = []
    for ci, oi, ns in bad:
        pred = all(proj(None, io[ci][k]) == proj(None, mo[ci][k]) for k in range(oi + 1))
        out.append((ci, oi, 'accepted state %s is a dead end' % ns, pred))
    return out


def run(rep):
    res = C.proof_obligations(rep, 'Properties/C07.v')
    quick = rep.tier == 'quick'
    corp = matcher.Corpus(rep, per_type=40 if quick else 300, maxlen=12 if quick else 20)
    try:
        m = corp.m
        bad, st, uniq = judge(m, corp.cases, corp.impl)
        corp_uniq = uniq
        seen = set()
        for ci, oi, ns in bad:
            c = corp.cases[ci]
            key = 'C07:' + matcher.cause_key(c['type'], c['ops'][:oi + 1])
            predicted = corp.model_agrees(ci, oi, proj)
            rp = {'type': c['type'], 'ops': c['ops'][:oi + 1], 'children': ns, 'model_predicts': predicted,
                  'why': 'the operation is accepted but no word of the content model contains these children (%s)' % ('verified judge Parikh.dead' if corp_uniq.get((c['type'], tuple(sorted(ns)))) is True else 'exhaustive search over derivatives; the verified judge leaves it open')}
            if predicted:
                if key not in seen:
                    seen.add(key)
                    rep.finding_or_violation(key, '%s: accepted children %s are a dead end' % (c['type'], ns), rp)
            else:
                rep.violation('%s: accepted children %s are a dead end (the pinned model does not predict this)' % (c['type'], ns), rp)
        # alive side: witnesses for the non-dead states, confirmed by the verified checker; a sample completed on the implementation
        rng = random.Random(rep.seed)
        live = [k for k, v in uniq.items() if not v]
        rng.shuffle(live)
        live = live[:1500 if quick else 15000]
        wits, unknown = [], 0
        for t, ns in live:
            w = rx.cover_word(rx.of_tree(m.g['templates'][t]), list(ns), limit=4000)
            if w is None:
                unknown += 1
            else:
                wits.append((t, list(ns), w))
        okw = m.witness(wits)
        confirmed = sum(okw)
        corp.coverage({'accepted_states_judged': len(st), 'distinct_states': len(uniq), 'proved_dead': sum(1 for v in uniq.values() if v is True), 'dead_by_exhaustive_search': sum(1 for v in uniq.values() if v == 'search'),
                       'alive_witness_confirmed': confirmed, 'unknown': unknown + (len(wits) - confirmed)})
    finally:
        corp.close()
    if not res['ok'] or res['forbidden'] or not res['build_ok']:
        if not rep.violations:
            rep.violation('Properties/C07.v no longer checks (theorem %s)' % res['failing'], {'theorem': res['failing'], 'log': res['log'][-3000:]}, found_input=False)
    rep.assumptions += ['"can be completed" is judged against the schema language (by C01/C03 the only successful serialisations); states that are '
                        'neither proved dead nor given a checked witness are counted as unknown and never reported']


def replay(path):
    r = json.load(open(path))
    out = impl.run_cases([{'type': r['type'], 'ops': r['ops']}], workers=1)[0]
    print(json.dumps({'replay': r, 'observed_now': out[-1]}, indent=1, default=str)[:3000])
    return 0
