"""C08 — the library's own output re-parses to the same document.
Documents are generated from the schema (independent generator, vlib/docgen.py), built through the API with typed Python
values, emitted, re-parsed, emitted, re-parsed, emitted: infoset(1) = infoset(2) up to decimal spelling, and (2) = (3) bytes."""
import json
import os
import random
from . import common as C
from . import docgen, docs, extract, infoset


def classify(msg, exc, node):
    m = msg or ''
    if "property 'name'" in m and 'has no setter' in m:
        return 'name-attribute'
    if "has no attribute" in m and ('lang' in m or 'space' in m):
        return 'xml-prefix'
    if 'can only be of types' in m or exc == 'TypeError':
        return 'value-type'
    return exc


def attrs_in(node):
    out = [a[0] for a in node['attrs']]
    for k in node['kids']:
        out += attrs_in(k)
    return out


def run(rep):
    res = C.proof_obligations(rep, 'Properties/C08.v')
    g = json.load(open(os.path.join(C.BUILD, 'gen.json')))
    rng = random.Random(rep.seed * 3 + 8)
    quick = rep.tier == 'quick'
    G = docgen.Gen(g, rng)
    G.exponent_floats = True
    roots = sorted(g['elements'])
    cases = []
    for name in roots:
        for _ in range(2 if quick else 15):
            cases.append(G.element(name, 0, 2 if quick else 4))
    for _ in range(20 if quick else 200):
        cases.append(G.element('score-partwise', 0, 4 if quick else 6))
    # elements whose text is union-typed or numeric: several documents each, so that every value shape meets every other in one process
    shaped = []
    for name in roots:
        t = G.etype.get(name)
        sc = G.ct[t]['simple'] if t in G.ct else (t if t in G.st else None)
        if sc and sc in G.st and (G.st[sc]['union'] is not None or G.numeric_root(sc) in docgen.XS_NUM and not G.st[sc]['enum'] and not G.st[sc]['patterns']):
            shaped.append(name)
    n_main = len(cases)
    for name in shaped:
        for _ in range(6 if quick else 20):
            cases.append(G.element(name, 0, 1))
    ra, _ = docs.run_docs(api=cases, by_tag=True)
    # the same documents parsed in the opposite order by one process each: a document's result must not depend on what was parsed before it
    hist_cases = cases[n_main:]
    fwd, _ = docs.run_docs(api=hist_cases, n=1)
    bwd, _ = docs.run_docs(api=hist_cases[::-1], n=1)
    for node, a, b in zip(hist_cases, fwd, bwd[::-1]):
        if a != b:
            rep.violation('<%s>: the result of write / parse depends on the documents parsed earlier in the same process' % node['tag'],
                          {'document': node, 'after_earlier_documents': {k: str(v)[:400] for k, v in a.items()}, 'after_later_documents': {k: str(v)[:400] for k, v in b.items()},
                           'sequence': [c for c in hist_cases if c['tag'] == node['tag']]})
            break
    n_emitted = n_rt = 0
    steps = {}
    for node, r in zip(cases, ra):
        if 'exc' in r:
            steps[r['step']] = steps.get(r['step'], 0) + 1
            if r['step'] in ('build', 'emit1'):
                continue          # not a document the library can emit (the refusal itself is C02 / C04 / C05 material)
            n_emitted += 1
            why = classify(r.get('msg'), r['exc'], node)
            key = 'C08:%s:%s' % (r['step'], why)
            rep.finding_or_violation(key, '<%s>: the library emits the document but %s raises %s: %s' % (node['tag'], r['step'], r['exc'], (r.get('msg') or '')[:120]),
                                     {'document': node, 'step': r['step'], 'exception': r['exc'], 'message': r.get('msg'), 'emitted': r.get('s1', '')[:1500]})
            continue
        n_emitted += 1
        n_rt += 1
        # the first emission against what was given through the API (numeric values must keep their value already there)
        d0 = infoset.diff_text(docgen.to_xml(node), r['s1'])
        if d0:
            import re as _re
            from decimal import Decimal, InvalidOperation
            mm = _re.search(r"(attribute \S+|text) '([^']*)' became '([^']*)'", d0)
            if mm:
                try:
                    Decimal(mm.group(2).strip()); Decimal(mm.group(3).strip())
                    rep.finding_or_violation('C08:emit-number', '<%s>: a number given through the API is emitted with another value: %s' % (node['tag'], d0),
                                             {'document': node, 'difference': d0, 'emitted': r['s1'][:1500]})
                except InvalidOperation:
                    pass                      # not a number: names, order and text are the business of C02 / C04 / C16
        d = infoset.diff_text(r['s1'], r['s2'])
        if d:
            key = 'C08:infoset:' + ('outer-space' if 'text' in d and any(ch in d for ch in ('\\n', '  ')) else d.split(':')[1].strip().split(' ')[0])
            rep.finding_or_violation(key, '<%s>: re-parsed document differs: %s' % (node['tag'], d), {'document': node, 'difference': d, 'emitted': r['s1'][:1500], 'reparsed': r['s2'][:1500]})
        elif r['s3'] != r['s2']:
            rep.violation('<%s>: the second round trip is not byte-identical to the first' % node['tag'], {'document': node, 'second': r['s2'][:1500], 'third': r['s3'][:1500]})
    emitted_value_model(rep, cases, ra, g)
    sizes = [docgen.size(c) for c in cases]
    rep.coverage.update({'evaluations': len(cases), 'distinct_nontrivial': sum(1 for c in cases if docgen.size(c) >= 3), 'traces_validated_against_impl': n_emitted,
                         'documents_emitted': n_emitted, 'full_round_trips': n_rt, 'not_emittable': steps,
                         'value_shape_documents': len(cases) - n_main, 'elements_with_union_or_numeric_text': len(shaped), 'input_distribution': {'max_nodes': max(sizes), 'mean_nodes': round(sum(sizes) / len(sizes), 1), 'roots': len(roots)},
                         'rule': 'for every partwise element name as root (plus whole score-partwise documents): children drawn from the schema content model (guided walk + shortest completion), '
                                 'attributes (required + 25% of optional) and text sampled from the schema simple types with typed Python values; non-trivial = document of >= 3 nodes',
                         'samples': [cases[0], cases[len(cases) // 2]]})
    if not res['ok'] or res['forbidden'] or not res['build_ok']:
        if not rep.violations:
            rep.violation('Properties/C08.v no longer checks (theorem %s)' % res['failing'], {'theorem': res['failing'], 'parser_as_read_by_the_translator': json.load(open(os.path.join(C.BUILD, 'code.json'))).get('parser'), 'log': res['log'][-2000:]}, found_input=False)
    rep.assumptions += ['float() / int() of Python are parameters of the ladder theorems (hypotheses stated in Properties/C08.v)',
                        'documents the library refuses to build or emit are outside this property (counted in not_emittable)']


def emitted_value_model(rep, cases, ra, g):
    """the library's first emission s1 (of documents built through the API with typed values) fed to the extracted document model with values
    (DocValTables.vrun): the model must predict the library's second emission s2 - refusal step, elements, texts, attributes -, and where s1
    meets the premise of C08_values_second_roundtrip_identical (gvalid) the library must give s1 back unchanged"""
    import xml.etree.ElementTree as ET
    from . import c09
    reserved = set(g['lib']['properties'])

    def node_of(e):
        kids = [node_of(c) for c in e]
        return {'tag': e.tag, 'text': (e.text or '').strip() if kids else (e.text or ''), 'attrs': [[k, v] for k, v in e.attrib.items()], 'kids': kids}

    def inside(d):
        return all(':' not in a[0] and '{' not in a[0] and '_' not in a[0] and a[0] not in reserved for a in d['attrs']) and all(inside(k) for k in d['kids'])
    docs, back = [], []
    for node, r in zip(cases, ra):
        if 's1' not in r or ('exc' in r and r['step'] not in ('parse1', 'emit2')):
            continue
        d = node_of(ET.fromstring(r['s1']))
        if not inside(d):
            continue                      # namespaced / Python-side attribute names: outside this model (C04's model covers them)
        docs.append(d)
        back.append(r)
    floats = {}

    def collect(d):
        for t in [d['text'].strip()] + [a[1] for a in d['attrs']] + [a[1].strip() for a in d['attrs']]:
            if t not in floats:
                floats[t] = c09.float_oracle(t)
        for k in d['kids']:
            collect(k)
    for d in docs:
        collect(d)
    m = extract.Model()
    try:
        mo = m.run_vdocs(docs, floats)
    finally:
        m.close()
    n = {'OK': 0, 'NOPARSE': 0, 'NOEMIT': 0, 'premise_met': 0, 'no_machine': 0}
    bad = 0
    for d, r, mr in zip(docs, back, mo):
        if mr[0] == 'NOMACHINE':
            n['no_machine'] += 1
            continue
        prem, model = mr[0], tuple(mr[1:])
        if 'exc' in r:
            impl = ('NOPARSE',) if r['step'] == 'parse1' else ('NOEMIT',)
        else:
            impl = ('OK', c09.vtree_of_text(r['s2']))
        n[model[0]] += 1
        n['premise_met'] += 1 if prem >= 1 else 0
        key = None
        if impl != model:
            key = 'model %s, implementation %s' % (str(model)[:300], str(impl)[:300])
        elif prem >= 1 and impl != ('OK', c09.vtree_of_node(d)):
            key = 'the emitted document meets the premise (every value a fixed point of its ladder) but its re-emission differs: %s' % str(impl)[:300]
        if key:
            bad += 1
            if bad <= 3:
                rep.violation('document model with values and implementation disagree on the re-parse of an emitted <%s>: %s' % (d['tag'], key),
                              {'correspondence': 'parse_musicxml + to_string on the library\'s own output <-> DocValTables.vparse / vemit', 'emitted_document': r['s1'][:3000],
                               'model': mr, 'implementation': impl}, found_input=False)
    # whatever the second emission spells differently from the first must still be in the lexical space of the declared type
    # ("up to numeric spelling" tolerates 4 vs 4.0 on a decimal type, not 4.0 on an integer type)
    def etype(tag):
        tys = g['elements'].get(tag)
        if not tys:
            return None, None
        t = tys[0][6:] if tys[0].startswith('<anon>') else tys[0]
        if t in g['ctypes']:
            return g['ctypes'][t]['simple'], {a[0]: a[1] for a in g['ctypes'][t]['attrs']}
        return t, {}
    probes = []

    def walk2(x, y, top):
        if x[0] != y[0] or len(x[3]) != len(y[3]):
            return
        tt, at = etype(x[0])
        if tt and x[1] != y[1] and not x[3]:
            probes.append((tt, y[1], x[0], x[1], top))
        for (n1, v1), (n2, v2) in zip(x[2], y[2]):
            if n1 == n2 and v1 != v2 and at and at.get(n1):
                probes.append((at[n1], v2, x[0] + '/@' + n1, v1, top))
        for cx, cy in zip(x[3], y[3]):
            walk2(cx, cy, top)
    for d, r in zip(docs, back):
        if 's2' in r:
            try:
                walk2(c09.vtree_of_node(d), c09.vtree_of_text(r['s2']), r)
            except Exception:
                pass
    if probes:
        m2 = extract.Model()
        try:
            xv = m2.raw(['xv %s %s' % (t, ','.join(str(ord(ch)) for ch in v)) for t, v, _, _, _ in probes])
        finally:
            m2.close()
        seen_t = set()
        for (t, v, where, before, r), ok in zip(probes, xv):
            if ok != '1' and (t, where) not in seen_t:
                seen_t.add((t, where))
                rep.violation('after one round trip <%s> is emitted as %r (it was %r), which is not in the lexical space of %s' % (where, v, before, t),
                              {'first_emission': r['s1'][:2500], 'second_emission': r['s2'][:2500], 'where': where, 'type': t, 'before': before, 'after': v})
    rep.coverage['emitted_document_value_model'] = dict(n, emitted_documents=len(docs), differences=bad, respelt_values_judged=len(probes))


def replay(path):
    print(open(path).read()[:4000])
    return 0
