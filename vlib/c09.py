"""C09 — any schema-valid MusicXML file is read without loss; nothing is silently dropped.
(1) documents generated from the schema independently of the library (vlib/docgen.py), serialised directly to XML text,
    parsed by parse_musicxml and re-serialised: infoset equality up to numeric spelling / insignificant white space;
(2) the repository's sample files;  (3) a mutated stream (unknown attribute / child, text in element-only types, tail text,
    outer white space, namespaced attributes): the parser must raise or keep everything."""
import copy
import json
import os
import random
from . import common as C
from . import docgen, docs, infoset
from . import docs as docs_mod


def cause(msg, exc):
    m = msg or ''
    if "property 'name'" in m:
        return 'name-attribute'
    if 'XMLChildContainer' in exc or 'ChildrenRequired' in exc:
        return 'matcher:' + exc
    if 'NotImplemented' in exc or exc == 'IndexError':
        return 'matcher:' + exc
    if exc == 'NameError':
        return 'anyuri'
    if "'NoneType' object has no attribute" in m:
        return 'xlink'
    if "has no attribute {http" in m or 'has no attribute lang' in m or 'has no attribute space' in m:
        return 'xml-prefix'
    return exc


PRES = None
CT = {}
ST = {}


STRUCTURAL = ('XMLChildContainerWrongElementError', 'XMLChildContainerMaxOccursError', 'XMLChildContainerChoiceHasAnotherChosenChild', 'XMLElementChildrenRequired',
              'XMLElementCannotHaveChildrenError')


def structure_mutant(node, rng):
    """a copy with one structural change (children only: attributes and text stay valid)"""
    d = copy.deepcopy(node)
    nodes = []

    def walk(n):
        nodes.append(n)
        for k in n['kids']:
            walk(k)
    walk(d)
    withkids = [n for n in nodes if n['kids']]
    k = rng.randrange(4)
    if k == 0 and withkids:
        n = rng.choice(withkids)
        del n['kids'][rng.randrange(len(n['kids']))]
    elif k == 1 and withkids:
        n = rng.choice(withkids)
        n['kids'].insert(rng.randrange(len(n['kids']) + 1), copy.deepcopy(rng.choice(n['kids'])))
    elif k == 2 and withkids:
        n = rng.choice(withkids)
        rng.shuffle(n['kids'])
    else:
        a, b = rng.choice(nodes), rng.choice(nodes)
        if b is not d and a is not b:
            a['kids'].append(copy.deepcopy(b))
    return d


def shape_of_text(text):
    import xml.etree.ElementTree as ET

    def sh(e):
        return [e.tag, [sh(c) for c in e]]
    return sh(ET.fromstring(text))


def shape_of_node(n):
    return [n['tag'], [shape_of_node(k) for k in n['kids']]]


def doc_model_correspondence(rep, cases, rng, quick):
    """the extracted document model (Model/Doc.v + DocTables.v: parse, then emit) against parse_musicxml + to_string on the element structure"""
    from . import extract
    docs = list(cases) + [structure_mutant(c, rng) for c in rng.sample(cases, min(len(cases), 600 if quick else 6000)) if c['kids']]
    m = extract.Model()
    try:
        mo = m.run_docs(docs)
    finally:
        m.close()
    idx = [i for i, r in enumerate(mo) if r[0] != 'NOMACHINE']
    _, ri = docs_mod.run_docs(xml=[docgen.to_xml(docs[i]) for i in idx], xml_tags=[docs[i]['tag'] for i in idx])
    n = {'OK': 0, 'NOPARSE': 0, 'NOEMIT': 0, 'skipped_value_errors': 0}
    bad = 0
    for i, r in zip(idx, ri):
        model = mo[i]
        if 'exc' in r:
            if r['exc'] not in STRUCTURAL:
                n['skipped_value_errors'] += 1
                continue
            impl = ('NOPARSE',) if r['step'] == 'parse' else ('NOEMIT',)
        else:
            impl = ('OK', shape_of_text(r['s']))
        n[model[0]] += 1
        if impl != model:
            bad += 1
            if bad <= 3:
                rep.violation('document model and implementation disagree on <%s>: model %s, implementation %s' % (docs[i]['tag'], str(model)[:200], str(impl)[:200]),
                              {'correspondence': 'parse_musicxml + to_string <-> Doc.parse / Doc.emit (element structure)', 'document': shape_of_node(docs[i]),
                               'model': model, 'implementation': impl, 'implementation_detail': {k: str(v)[:300] for k, v in r.items()}}, found_input=False)
    rep.coverage['document_model_correspondence'] = dict(n, documents=len(docs), with_a_machine_for_every_element=len(idx), differences=bad)


def float_oracle(t):
    """what Python's float() makes of a text: None (ValueError) or (kind, numerator, denominator, repr)"""
    from fractions import Fraction
    import math
    try:
        f = float(t)
    except ValueError:
        return None
    r = repr(f)
    if math.isnan(f):
        return ('n', 0, 1, r)
    if math.isinf(f):
        return ('i', 1 if f > 0 else -1, 1, r)
    q = Fraction(f)
    return ('e' if 'e' in r else 'p', q.numerator, q.denominator, r)


def vnode(n, reserved):
    """generator node -> the model's document: text ('' when absent), attributes [[name, value]] without the names outside the model
    (namespaced, with an underscore, or colliding with a Python-side name: C04's model covers those), children"""
    return {'tag': n['tag'], 'text': n['text'] or '', 'attrs': [[a[0], a[1]] for a in n['attrs'] if ':' not in a[0] and '_' not in a[0] and a[0] not in reserved],
            'kids': [vnode(k, reserved) for k in n['kids']]}


def vxml(d, indent=0):
    from xml.sax.saxutils import escape, quoteattr
    pad = '  ' * indent
    attrs = ''.join(' %s=%s' % (n, quoteattr(t)) for n, t in d['attrs'])
    if not d['kids']:
        return '%s<%s%s>%s</%s>\n' % (pad, d['tag'], attrs, escape(d['text']), d['tag'])
    return '%s<%s%s>%s\n%s%s</%s>\n' % (pad, d['tag'], attrs, escape(d['text']), ''.join(vxml(k, indent + 1) for k in d['kids']), pad, d['tag'])


def vtree_of_text(text):
    import xml.etree.ElementTree as ET

    def sh(e):
        return [e.tag, (e.text or '').strip() if len(e) else (e.text or ''), [[k, v] for k, v in e.attrib.items()], [sh(c) for c in e]]
    return sh(ET.fromstring(text))


def vtree_of_node(d):
    return [d['tag'], d['text'].strip() if d['kids'] else d['text'], [list(a) for a in d['attrs']], [vtree_of_node(k) for k in d['kids']]]


def value_mutant(d, rng, ctypes):
    """a copy with one change to a text or an attribute: the model and the library must refuse it at the same step or emit the same document.
    (Numerals only Python's int() reads - underscores, non-ASCII digits - are outside the model's int(): the library re-spells '1_0' as '10'.)"""
    m = copy.deepcopy(d)
    nodes = []

    def walk(n):
        nodes.append(n)
        for k in n['kids']:
            walk(k)
    walk(m)
    n = rng.choice(nodes)
    k = rng.randrange(7)
    if k == 0:
        n['attrs'].append(['no-such-attribute', 'v'])
    elif k == 1 and n['attrs']:
        a = rng.choice(n['attrs'])
        a[1] = rng.choice(['xx invalid', '', ' ' + a[1], a[1] + ' ', '-1', '1.5', '1e3', '007', 'yes', 'TRUE', '0', 'nan', '+3', ' 4'])
    elif k == 2 and n['attrs']:
        del n['attrs'][rng.randrange(len(n['attrs']))]           # possibly a required one: the final check must refuse
    elif k == 3:
        n['text'] = rng.choice(['xx invalid', ' ' + n['text'] + ' ', '12', '1.0', '-0', '+5', 'inf', n['text'] + '\n', 'C ', 'yes', '1e2', '00'])
    elif k == 4 and n['attrs']:
        n['attrs'].reverse()
    elif k == 5:
        n['text'] = ''
    else:
        withk = [x for x in nodes if x['kids']]
        if withk:
            x = rng.choice(withk)
            del x['kids'][rng.randrange(len(x['kids']))]
    return m


def doc_value_correspondence(rep, cases, rng, quick, g):
    """the extracted document model WITH text and attributes (Model/PDoc.v, DocVal.v, DocValTables.v: vparse then vemit) against parse_musicxml +
    to_string: same refusal step, same emitted document (elements, texts, attributes in order); where the document meets the premise of
    C09_document_values the library must give back exactly the input"""
    from . import extract
    reserved = set(g['lib']['properties'])
    base = [vnode(c, reserved) for c in cases]
    docs = list(base) + [value_mutant(d, rng, None) for d in rng.sample(base, min(len(base), 700 if quick else 7000))]
    floats = {}

    def collect(d):
        for t in [d['text'].strip()] + [a[1] for a in d['attrs']] + [a[1].strip() for a in d['attrs']]:
            if t not in floats:
                floats[t] = float_oracle(t)
        for k in d['kids']:
            collect(k)
    for d in docs:
        collect(d)
    m = extract.Model()
    try:
        mo = m.run_vdocs(docs, floats)
    finally:
        m.close()
    idx = [i for i, r in enumerate(mo) if r[0] != 'NOMACHINE']
    _, ri = docs_mod.run_docs(xml=[vxml(docs[i]) for i in idx], xml_tags=[docs[i]['tag'] for i in idx])
    n = {'OK': 0, 'NOPARSE': 0, 'NOEMIT': 0, 'premise_of_C09_document_values_met': 0, 'premise_of_the_general_theorem_met': 0}
    bad = 0
    diffs = []
    for i, r in zip(idx, ri):
        prem, model = mo[i][0], mo[i][1:]
        if 'exc' in r:
            impl = ('NOPARSE',) if r['step'] == 'parse' else ('NOEMIT',)
        else:
            impl = ('OK', vtree_of_text(r['s']))
        n[model[0]] += 1
        n['premise_of_C09_document_values_met'] += 1 if prem == 2 else 0
        n['premise_of_the_general_theorem_met'] += 1 if prem >= 1 else 0
        key = None
        if impl != tuple(model):
            key = 'model %s, implementation %s' % (str(model)[:300], str(impl)[:300])
        elif prem and impl != ('OK', vtree_of_node(docs[i])):
            key = 'the document meets the premise of C09_document_values%s but is not given back unchanged: %s' % ('' if prem == 2 else '_general', str(impl)[:300])
        if key:
            bad += 1
            diffs.append(docs[i]['tag'] + ': ' + key[:160])
            if bad <= 3:
                rep.violation('document model with values and implementation disagree on <%s>: %s' % (docs[i]['tag'], key),
                              {'correspondence': 'parse_musicxml + to_string <-> DocValTables.vparse / vemit (elements, text, attributes)', 'document': vxml(docs[i])[:3000],
                               'model': mo[i], 'implementation': impl, 'implementation_detail': {k: str(v)[:300] for k, v in r.items()}}, found_input=False)
    rep.coverage['document_value_model_correspondence'] = dict(n, documents=len(docs), with_a_machine_for_every_element=len(idx), differences=bad, distinct_texts=len(floats), first_differences=diffs[:25])


def order_site(text_in, text_out):
    """the first element (document order) whose children are the same elements in another order: (tag, names in the file, names emitted)"""
    import xml.etree.ElementTree as ET
    try:
        a, b = ET.fromstring(text_in), ET.fromstring(text_out)
    except ET.ParseError:
        return None

    def go(x, y):
        if x.tag != y.tag:
            return None
        nx, ny = [c.tag for c in x], [c.tag for c in y]
        if nx != ny:
            return (x.tag, nx, ny) if sorted(nx) == sorted(ny) else None
        for cx, cy in zip(x, y):
            r = go(cx, cy)
            if r:
                return r
        return None
    return go(a, b)


def mutate(node, rng):
    """returns (mutated copy, description) - each mutation adds something the output must keep or the parser must refuse"""
    d = copy.deepcopy(node)
    copy_root = d
    nodes = []

    def walk(n):
        nodes.append(n)
        for k in n['kids']:
            walk(k)
    walk(d)
    n = rng.choice(nodes)
    k = rng.randrange(7)
    if k >= 5:
        # a DECLARED attribute with a value its type refuses in every spelling (wrong enumeration token, non-number, out of range)
        cand = []
        for x in nodes:
            for an, at, req in (CT.get(x['type']) or {'attrs': []})['attrs']:
                sd = ST.get(at)
                if ':' in an or at in ('', 'xs:token', 'xs:string', 'xs:ID', 'xs:IDREF', 'xs:NMTOKEN'):
                    continue
                if sd is not None and not sd['enum'] and not sd['patterns'] and sd['base'] in ('xs:token', 'xs:string') and sd['minLength'] is None and sd['union'] is None:
                    continue
                cand.append((x, an))
        if cand:
            x, an = rng.choice(cand)
            x['attrs'] = [a for a in x['attrs'] if a[0] != an] + [[an, 'xx invalid value', "'xx invalid value'"]]
            return copy_root, 'declared attribute %s of <%s> with an invalid value' % (an, x['tag'])
        k = 0
    if k == 0:
        n['attrs'].append(['no-such-attribute', 'v', "'v'"])
        return d, 'unknown attribute on <%s>' % n['tag']
    if k == 1:
        n['kids'].append({'tag': 'no-such-element', 'type': None, 'attrs': [], 'text': 'x', 'py': None, 'kids': []})
        return d, 'unknown child in <%s>' % n['tag']
    if k == 2 and n['text'] is None:
        n['text'] = 'stray text'
        return d, 'text in <%s>' % n['tag']
    if k == 3:
        cand = [x for x in nodes if x['text'] is not None and PRES(x['type'])]
        if cand:
            n = rng.choice(cand)
            n['text'] = '  ' + n['text'] + ' '
            return d, 'outer white space in the xs:string typed text of <%s>' % n['tag']
    n = rng.choice(nodes[1:]) if len(nodes) > 1 else n
    if n is nodes[0]:
        n['attrs'].append(['no-such-attribute', 'v', "'v'"])
        return d, 'unknown attribute on <%s>' % n['tag']
    n['tailtext'] = 'tail text'
    return d, 'text after <%s>' % n['tag']


def to_xml_tail(node, indent=0):
    s = docgen.to_xml(node, indent)
    return s


def run(rep):
    res = C.proof_obligations(rep, 'Properties/C09.v')
    g = json.load(open(os.path.join(C.BUILD, 'gen.json')))
    rng = random.Random(rep.seed * 3 + 9)
    quick = rep.tier == 'quick'
    G = docgen.Gen(g, rng)
    global PRES, CT, ST
    PRES = lambda t: docgen.preserves_space(g, t)
    CT, ST = g['ctypes'], g['stypes']
    cases = []
    for name in sorted(g['elements']):
        for _ in range(2 if quick else 15):
            cases.append(G.element(name, 0, 2 if quick else 4))
    for _ in range(25 if quick else 300):
        cases.append(G.element('score-partwise', 0, 4 if quick else 6))
    # elements whose text is union-typed or numeric: several documents each, read by one process, so that every value shape meets every other
    for name in sorted(g['elements']):
        t = G.etype.get(name)
        sc = G.ct[t]['simple'] if t in G.ct else (t if t in G.st else None)
        if sc and sc in G.st and (G.st[sc]['union'] is not None or G.numeric_root(sc) in docgen.XS_NUM and not G.st[sc]['enum'] and not G.st[sc]['patterns']):
            for _ in range(6 if quick else 20):
                cases.append(G.element(name, 0, 1))
    # children taken from ENUMERATED words of the content model (all words up to length 5, the longer ones preferred): repeated groups with and
    # without their optional members, in every combination the random walk of the generator rarely produces
    from . import rx as _rx
    for name in sorted(g['elements']):
        t = G.etype.get(name)
        part = g['xsd_particles'].get(t)
        if not part or name in ('score-partwise', 'score-timewise'):
            continue
        repeats = 'unbounded' in json.dumps(part).split('"E"')[0] or any(seg.count('unbounded') for seg in json.dumps(part).split('["G"')[1:] + json.dumps(part).split('["S"')[1:] + json.dumps(part).split('["C"')[1:])
        ws = [w for w in _rx.words(_rx.of_tree(part), _rx.alphabet(part), 5, 60) if len(w) >= 3]
        rng.shuffle(ws)
        ws.sort(key=lambda w: -len(w))
        for w in ws[:((30 if repeats else 2) if quick else (200 if repeats else 12))]:
            d = G.element(name, 9, 2)
            d['kids'] = [G.element(x, 1, 2) for x in w]
            cases.append(d)
        # the same child two and three times over, alone (the first duplication of a repeated root then goes through the 'every leaf is full' branch)
        if repeats:
            for w in [w for w in _rx.words(_rx.of_tree(part), _rx.alphabet(part), 3, 400) if len(w) in (2, 3) and len(set(w)) == 1][:(6 if quick else 40)]:
                d = G.element(name, 9, 2)
                d['kids'] = [G.element(x, 1, 2) for x in w]
                cases.append(d)
    texts = [docgen.to_xml(c) for c in cases]
    # repository sample files
    samples = []
    pdir = os.path.join(C.REPO, 'musicxml', 'parser')
    for fn in ('test_hello_world.xml',) + (() if quick else ('test_bach_partita_3.xml',)):
        p = os.path.join(pdir, fn)
        if os.path.exists(p) and os.path.getsize(p) > 0:
            samples.append((fn, open(p, encoding='utf-8').read()))
    _, rx_ = docs.run_docs(xml=texts + [s for _, s in samples], xml_tags=[c['tag'] for c in cases] + ['score-partwise'] * len(samples))
    r_valid, r_samples = rx_[:len(texts)], rx_[len(texts):]
    # mutants only of documents that are themselves read without loss, so that a difference is due to the mutation
    clean = [c for c, t, r in zip(cases, texts, r_valid) if 'exc' not in r and infoset.diff_text(t, r['s']) is None]
    muts = []
    for c in rng.sample(clean, min(len(clean), 400 if quick else 4000)):
        m, what = mutate(c, rng)
        muts.append((m, what, docgen.to_xml(m)))
    _, r_mut = docs.run_docs(xml=[t for _, _, t in muts])
    n_ok = 0
    order_sites = []
    matcher_sites = []
    for node, text, r in zip(cases, texts, r_valid):
        if 'exc' in r:
            key = 'C09:%s:%s' % (r['step'], cause(r.get('msg'), r['exc']))
            if ':matcher:' in key:
                matcher_sites.append((node, text, r, key))       # the recorded finding only where the pinned model of the matcher predicts this refusal
                continue
            rep.finding_or_violation(key, 'schema-valid <%s> document: %s raises %s: %s' % (node['tag'], r['step'], r['exc'], (r.get('msg') or '')[:140]),
                                     {'document': text[:2500], 'step': r['step'], 'exception': r['exc'], 'message': r.get('msg')})
            continue
        d = infoset.diff_text(text, r['s'])
        if d:
            kind = 'text' if ': text ' in d else ('order' if 'children became' in d or 'element <' in d else ('attribute' if 'attribute' in d else 'other'))
            if kind == 'order':
                # a reordering is the recorded finding only where the pinned faithful model of the matcher predicts exactly this order for exactly these children
                site = order_site(text, r['s'])
                if site is not None:
                    order_sites.append((node, text, r['s'], d, site))
                    continue
                kind = 'children'            # not the same children in another order: one is missing, or there is one more - never the recorded re-ordering
            rep.finding_or_violation('C09:loss:%s' % kind, 'schema-valid <%s> document is altered by parse + serialise: %s' % (node['tag'], d), {'document': text[:2500], 'difference': d, 'output': r['s'][:2500]})
        else:
            n_ok += 1
    if matcher_sites:
        from . import extract as _ex2
        import sys as _sys2
        _sys2.path.insert(0, os.path.join(C.VERIF, 'tr'))
        from schema import cls_name as _cls_name
        mm2 = _ex2.Model()
        try:
            tcls2 = {}
            for name_, tys in g['elements'].items():
                t_ = tys[0][6:] if tys[0].startswith('<anon>') else tys[0]
                tcls2[name_] = _cls_name(t_, 'XSDComplexType')

            def elems(n_):
                yield n_
                for k_ in n_['kids']:
                    yield from elems(k_)
            per_site = []
            flat = []
            for node, text, r, key in matcher_sites:
                mine = []
                for el in elems(node):
                    if tcls2.get(el['tag']) in mm2.idx and all(k_['tag'] in mm2.sym for k_ in el['kids']):
                        mine.append(len(flat))
                        flat.append({'type': tcls2[el['tag']], 'ops': [['a', k_['tag']] for k_ in el['kids']] + [['f', 0]]})
                per_site.append(mine)
            runs2 = mm2.run_py(flat) if flat else []
        finally:
            mm2.close()
        for (node, text, r, key), mine in zip(matcher_sites, per_site):
            exc = r['exc']
            predicted = False
            for i_ in mine:
                rr = runs2[i_]
                if any(o_['st'] == exc for o_ in rr[:-1]) or (exc == 'XMLElementChildrenRequired' and all(o_['st'] == 'ok' for o_ in rr[:-1]) and rr[-1].get('req')) or \
                        (rr[-1]['st'] == exc):
                    predicted = True
                    break
            rp = {'document': text[:2500], 'step': r['step'], 'exception': exc, 'message': r.get('msg'), 'model_predicts': predicted}
            if predicted:
                rep.finding_or_violation(key, 'schema-valid <%s> document: %s raises %s: %s' % (node['tag'], r['step'], exc, (r.get('msg') or '')[:140]), rp)
            else:
                rep.violation('schema-valid <%s> document: %s raises %s: %s (the pinned model of the matcher predicts no such refusal for any element of the document)' % (
                    node['tag'], r['step'], exc, (r.get('msg') or '')[:140]), rp)
    if order_sites:
        from . import extract
        import sys
        sys.path.insert(0, os.path.join(C.VERIF, 'tr'))
        from schema import cls_name
        mm_ = extract.Model()
        try:
            tcls = {}
            for name, tys in g['elements'].items():
                t_ = tys[0][6:] if tys[0].startswith('<anon>') else tys[0]
                tcls[name] = cls_name(t_, 'XSDComplexType')
            ok_sites = [x for x in order_sites if tcls.get(x[4][0]) in mm_.idx and all(n_ in mm_.sym for n_ in x[4][1])]
            runs = mm_.run_py([{'type': tcls[x[4][0]], 'ops': [['a', n_] for n_ in x[4][1]] + [['f', 0]]} for x in ok_sites])
        finally:
            mm_.close()
        pred = {}
        for x, rr in zip(ok_sites, runs):
            last = rr[-1]
            pred[id(x)] = [x[4][1][i] for i in last['ord']] if all(o['st'] == 'ok' for o in rr[:-1]) and all(i < len(x[4][1]) for i in last['ord']) else None
        for x in order_sites:
            node, text, out_s, d, (tag, win, wout) = x
            rp = {'document': text[:2500], 'difference': d, 'output': out_s[:2500], 'element': tag, 'children_in_the_file': win, 'children_emitted': wout, 'model_predicts': pred.get(id(x)) == wout}
            if pred.get(id(x)) == wout:
                rep.finding_or_violation('C09:loss:order', 'schema-valid <%s> document is altered by parse + serialise: %s' % (node['tag'], d), rp)
            else:
                rep.violation('schema-valid <%s> document: <%s> with children %s is emitted as %s (the pinned model of the matcher predicts %s)' % (node['tag'], tag, win, wout, pred.get(id(x))), rp)
    for (fn, text), r in zip(samples, r_samples):
        if 'exc' in r:
            rep.finding_or_violation('C09:sample:%s' % fn, 'sample file %s: %s raises %s' % (fn, r['step'], r['exc']), {'file': fn, 'message': r.get('msg')})
        else:
            d = infoset.diff_text(text, r['s'])
            if d:
                rep.finding_or_violation('C09:sample:%s' % fn, 'sample file %s is altered by parse + serialise: %s' % (fn, d), {'file': fn, 'difference': d})
    n_refused = n_kept = 0
    for (m, what, text), r in zip(muts, r_mut):
        if 'exc' in r:
            n_refused += 1
            continue
        d = infoset.diff_text(text, r['s'])
        if d:
            kind = 'tail' if 'text after child' in d else ('strip' if ': text ' in d else ('attribute' if 'attribute' in d else 'structure'))
            if kind == 'strip':
                # 'strip' is the recorded finding only when the text that came back IS the input text without its outer white space
                try:
                    a_s, b_s = d[d.index(': text ') + 7:].split(' became ', 1)
                    if eval(a_s).strip() != eval(b_s):
                        kind = 'text-changed'
                except Exception:
                    kind = 'text-changed'
            rep.finding_or_violation('C09:silent:%s' % kind, 'input with %s is accepted and silently changed: %s' % (what, d), {'document': text[:2500], 'mutation': what, 'difference': d})
        else:
            n_kept += 1
    doc_model_correspondence(rep, cases, rng, quick)
    doc_value_correspondence(rep, cases, rng, quick, g)
    sizes = [docgen.size(c) for c in cases]
    rep.coverage.update({'evaluations': len(texts) + len(samples) + len(muts), 'distinct_nontrivial': sum(1 for c in cases if docgen.size(c) >= 3) + len(muts),
                         'traces_validated_against_impl': len(texts) + len(samples) + len(muts), 'valid_documents': len(texts), 'read_without_loss': n_ok,
                         'sample_files': [fn for fn, _ in samples], 'mutated_documents': len(muts), 'mutants_refused': n_refused, 'mutants_kept_intact': n_kept,
                         'input_distribution': {'max_nodes': max(sizes), 'mean_nodes': round(sum(sizes) / len(sizes), 1)},
                         'rule': 'documents generated from the schema tables only (every partwise element as root + whole scores), written as XML text directly; repository sample files; '
                                 'one mutation per mutant (unknown attribute / child, stray text, outer white space, tail text); non-trivial = document of >= 3 nodes or mutant',
                         'samples': [texts[0][:400], muts[0][1] if muts else None]})
    if not res['ok'] or res['forbidden'] or not res['build_ok']:
        if not rep.violations:
            rep.violation('Properties/C09.v no longer checks (theorem %s)' % res['failing'], {'theorem': res['failing'], 'parser_as_read_by_the_translator': json.load(open(os.path.join(C.BUILD, 'code.json'))).get('parser'), 'log': res['log'][-2000:]}, found_input=False)
    rep.assumptions += ['schema validity of the generated documents is by construction of the generator from the schema tables (content models via the derivative toolkit, values from the simple types); '
                        'xlink attributes and identity constraints (ID uniqueness) are not generated']


def replay(path):
    print(open(path).read()[:4000])
    return 0
